import McpModel.Gate.Props
import McpModel.Gate.Sound
/-!
# E3 (C06, C02): the monitor accepts the model

`model_satisfies_P`: on every case that the model can produce — any transport versions `tv`, any
sequence of envelopes (server side through `admitReq`, client side through `admitClient`), with ANY
observation that agrees with the model's outcome where the model fixes it and is arbitrary where the
model leaves it open (`Agrees`: the answer of a handler on degraded params, which user handler ran) —
every clause predicate of Sound.lean holds; hence (`monitor_sound`) the monitor reports nothing:
`monitor_accepts_model`.  The proofs go through the property theorems of Props.lean, one per clause.

`WfMsg`: the descriptor's method is the one the name stands for (the driver's parser builds it so).
`Enc`: how the harness renders the session state (any rendering with `lvl "" = ""`).
-/
namespace Gate
open Generated.Gate

def WfMsg (m : Msg) : Prop := m.req.method = methodOfName m.mname

theorem methodOfName_name : ∀ x : Method, methodOfName x.name = some x := by
  intro x; cases x <;> decide

theorem name_of_methodOfName {n : String} {x : Method} (h : methodOfName n = some x) : x.name = n := by
  unfold methodOfName at h
  have := List.find?_some h
  simpa using this

theorem wf_name_iff {m : Msg} (hw : WfMsg m) (x : Method) : m.mname = x.name ↔ m.req.method = some x := by
  unfold WfMsg at hw
  constructor
  · intro e; rw [hw, e]; exact methodOfName_name x
  · intro e; rw [e] at hw; exact (name_of_methodOfName hw.symm).symm

/-! ## The model's side of a case -/

/-- How the harness renders the session state. -/
structure Enc where
  tag : InitInfo → String
  lvl : String → String
  lvl_empty : lvl "" = ""

def stOf (E : Enc) (s : State) : St := { init := s.init.map E.tag, initd := s.initd, level := E.lvl s.level }

/-- One envelope on the model: the server's `admitReq`, or the client's receiving side (no state). -/
def mstep (s : State) (m : Msg) : State × Outcome :=
  match m.side with
  | .server => admitReq s m.req
  | .client => (s, admitClient m.req)

/-- The wire answer the model's `Answer` allows. -/
def wOf : Answer → W → Prop
  | .nothing, w => w = .none
  | .result, w => w = .ok
  | .error c d, w => w = .err c (if c == codeUnsupportedProtocolVersion then some d else none)
  | .some_answer, w => w = .ok ∨ ∃ c d, w = .err c d

/-- The observation agrees with the model's step from `s`: fixed where the model fixes it, arbitrary
where the model leaves it open. -/
structure Agrees (E : Enc) (s : State) (m : Msg) (o : MObs) : Prop where
  st : o.st = stOf E (mstep s m).1
  mw : o.mw = true ↔ ∃ h res, (mstep s m).2 = .invoked h res
  uh : o.uh = true → ∃ h res, (mstep s m).2 = .invoked h res ∧ ¬ (h = .notifications_initialized ∧ res ≠ .ok)
  w : wOf (answer m.req (mstep s m).2) o.w

def stateAt (s0 : State) (h : Hist) : State := h.foldl (fun s p => (mstep s p.1).1) s0

/-- A case the model can produce from `s0`. -/
def ModelRun (E : Enc) (s0 : State) (tr : Hist) : Prop :=
  ∀ j p, tr[j]? = some p → ∃ o, p.2 = .seen o ∧ WfMsg p.1 ∧ Agrees E (stateAt s0 (tr.take j)) p.1 o

theorem mstep_tv (s : State) (m : Msg) : (mstep s m).1.tv = s.tv := by
  unfold mstep
  cases m.side with
  | client => rfl
  | server => exact tv_unchanged s [m.req]

theorem stateAt_tv (s0 : State) : ∀ (h : Hist), (stateAt s0 h).tv = s0.tv := by
  intro h
  induction h using snoc_induction with
  | nil => rfl
  | snoc h p ih => simp only [stateAt, List.foldl_append, List.foldl_cons, List.foldl_nil] at ih ⊢; rw [mstep_tv]; exact ih

theorem take_succ_of_getElem? {tr : Hist} {k : Nat} {p : Msg × Obs} (h : tr[k]? = some p) :
    tr.take (k + 1) = tr.take k ++ [p] := by
  rw [List.take_add_one, h]; rfl

theorem stateAt_succ {s0 : State} {tr : Hist} {k : Nat} {p : Msg × Obs} (h : tr[k]? = some p) :
    stateAt s0 (tr.take (k + 1)) = (mstep (stateAt s0 (tr.take k)) p.1).1 := by
  rw [take_succ_of_getElem? h]; simp [stateAt, List.foldl_append]

theorem modelRun_alive {E : Enc} {s0 : State} {tr : Hist} (hr : ModelRun E s0 tr) (j : Nat) : Alive (tr.take j) := by
  intro p hp
  obtain ⟨k, hk⟩ := List.getElem?_of_mem hp
  have : tr[k]? = some p := by
    rw [List.getElem?_take] at hk
    split at hk
    · exact hk
    · cases hk
  obtain ⟨o, ho, _⟩ := hr k p this
  exact ⟨o, ho⟩

theorem acceptedBy_iff {m : Msg} (hw : WfMsg m) (tv : List String) :
    acceptedBy tv m = (acceptedVersions tv m.req).contains (metaVersion m.req) := by
  unfold acceptedBy acceptedVersions
  by_cases hd : m.mname = "server/discover"
  · have : m.req.method = some .server_discover := (wf_name_iff hw .server_discover).1 hd
    simp [hd, this]
  · have : m.req.method ≠ some .server_discover := fun e => hd ((wf_name_iff hw .server_discover).2 e)
    have hb : (m.mname == "server/discover") = false := by simpa using hd
    have hb2 : (m.req.method == some Method.server_discover) = false := by simpa using this
    simp [hb, hb2]

theorem validMeta_iff {m : Msg} (hw : WfMsg m) (hs : m.side = .server) (tv : List String) :
    validMeta tv m = true ↔ CarriesValidMeta tv m.req := by
  unfold validMeta CarriesValidMeta Msg.new
  rw [acceptedBy_iff hw]
  simp [hs, Bool.and_eq_true, and_assoc]

/-- An `initialize` that reached its handler is a call. -/
theorem invoked_method {s : State} {r : Req} {h : Method} {res : HRes} (hi : (admitReq s r).2 = .invoked h res) :
    r.method = some h := by
  rcases admit_cases s r with ⟨_, e⟩ | ⟨_, c, _, e⟩ | ⟨_, _, _, e⟩ | ⟨_, _, _, c, _, e⟩ | ⟨_, _, _, _, e⟩ | ⟨_, _, _, _, e⟩
  · rw [e] at hi; cases hi
  · rw [e] at hi; exact absurd hi (reject_not_invoked _ _ _ _ _)
  · rw [e] at hi; exact absurd hi (reject_not_invoked _ _ _ _ _)
  · rw [e] at hi; exact absurd hi (reject_not_invoked _ _ _ _ _)
  · rw [e] at hi
    rcases dispatch_cases s r with ⟨c, _, e'⟩ | ⟨m', _, hm, e'⟩
    · rw [e'] at hi; exact absurd hi (reject_not_invoked _ _ _ _ _)
    · rw [e'] at hi; simp only [Outcome.invoked.injEq] at hi; rw [← hi.1]; exact hm
  · rw [e] at hi
    rcases dispatch_cases (adopt s r .passAdopt) r with ⟨c, _, e'⟩ | ⟨m', _, hm, e'⟩
    · rw [e'] at hi; exact absurd hi (reject_not_invoked _ _ _ _ _)
    · rw [e'] at hi; simp only [Outcome.invoked.injEq] at hi; rw [← hi.1]; exact hm

theorem invoked_call_hasId {s : State} {r : Req} {h : Method} {res : HRes} (hi : (admitReq s r).2 = .invoked h res)
    (f : Flags) (hf : lookup serverMethodInfos h = some f) (hn : f.notification = false) : r.hasId = true := by
  have hm := invoked_method hi
  have key : ∀ s1, dispatch s1 r = ((serverHandler s1 r h).1, .invoked h (serverHandler s1 r h).2) ∨ True → 
      checkAndDecode serverMethodInfos r = .ok h → r.hasId = true := by
    intro _ _ hc
    unfold checkAndDecode at hc
    rw [hm] at hc
    simp only [hf, hn, Bool.false_and, Bool.false_eq_true, if_false, Bool.not_false, Bool.true_and] at hc
    cases hid : r.hasId with
    | true => rfl
    | false => simp [hid] at hc
  rcases admit_cases s r with ⟨_, e⟩ | ⟨_, c, _, e⟩ | ⟨_, _, _, e⟩ | ⟨_, _, _, c, _, e⟩ | ⟨_, _, _, _, e⟩ | ⟨_, _, _, _, e⟩
  · rw [e] at hi; cases hi
  · rw [e] at hi; exact absurd hi (reject_not_invoked _ _ _ _ _)
  · rw [e] at hi; exact absurd hi (reject_not_invoked _ _ _ _ _)
  · rw [e] at hi; exact absurd hi (reject_not_invoked _ _ _ _ _)
  · rw [e] at hi
    rcases dispatch_cases s r with ⟨c, _, e'⟩ | ⟨m', hc, _, e'⟩
    · rw [e'] at hi; exact absurd hi (reject_not_invoked _ _ _ _ _)
    · rw [e'] at hi; simp only [Outcome.invoked.injEq] at hi; rw [hi.1] at hc; exact key s (Or.inr trivial) hc
  · rw [e] at hi
    rcases dispatch_cases (adopt s r .passAdopt) r with ⟨c, _, e'⟩ | ⟨m', hc, _, e'⟩
    · rw [e'] at hi; exact absurd hi (reject_not_invoked _ _ _ _ _)
    · rw [e'] at hi; simp only [Outcome.invoked.injEq] at hi; rw [hi.1] at hc; exact key s (Or.inr trivial) hc

theorem opened_mono {tv : List String} {tr : Hist} {k : Nat} {p : Msg × Obs} (h : tr[k]? = some p)
    (ho : Opened tv (tr.take k)) : Opened tv (tr.take (k + 1)) := by
  rw [take_succ_of_getElem? h]
  obtain ⟨q, hq, x, hx, hc⟩ := ho
  exact ⟨q, List.mem_append_left _ hq, x, hx, hc⟩

/-- `InitializeParams` is set only on sessions the wire shows as opened. -/
theorem init_opened {E : Enc} {tv : List String} {tr : Hist} (hr : ModelRun E (fresh tv) tr) :
    ∀ j, j ≤ tr.length → (stateAt (fresh tv) (tr.take j)).init.isSome = true → Opened tv (tr.take j) := by
  intro j
  induction j with
  | zero => intro _ h; simp [stateAt, fresh] at h
  | succ k ih =>
    intro hk hs
    have hlt : k < tr.length := by omega
    have hget : tr[k]? = some tr[k] := List.getElem?_eq_getElem hlt
    obtain ⟨o, ho, hw, ha⟩ := hr k _ hget
    generalize hp : tr[k] = p at hget ho hw ha
    obtain ⟨m, obs⟩ := p
    simp only at ho hw ha
    subst ho
    rw [stateAt_succ hget] at hs
    have htv : (stateAt (fresh tv) (tr.take k)).tv = tv := by rw [stateAt_tv]; rfl
    generalize hst : stateAt (fresh tv) (tr.take k) = s at hs ha htv ih
    simp only at hs
    cases hside : m.side with
    | client =>
      have : (mstep s m).1 = s := by simp [mstep, hside]
      rw [this] at hs
      exact opened_mono hget (ih (by omega) hs)
    | server =>
      have hm : mstep s m = admitReq s m.req := by simp [mstep, hside]
      rw [hm] at hs
      rcases init_step s m.req with h1 | ⟨h1, h2, h3⟩ | h1
      · rw [h1] at hs; exact opened_mono hget (ih (by omega) hs)
      · rw [take_succ_of_getElem? hget]
        have hid := invoked_call_hasId h3 _ tbl_flags_initialize rfl
        have hwok : o.w = .ok := by
          have := ha.w
          rw [hm, h3] at this
          simpa [answer, hid, wOf] using this
        exact ⟨(m, .seen o), by simp, o, rfl, Or.inr ⟨hside, (wf_name_iff hw .initialize).2 h2, hwok⟩⟩
      · rw [take_succ_of_getElem? hget]
        rw [htv] at h1
        exact ⟨(m, .seen o), by simp, o, rfl, Or.inl ((validMeta_iff hw hside tv).2 h1)⟩

/-- Once the `InitializedHandler` has run on a model case, `InitializedParams` is recorded — and stays. -/
theorem ran_initd {E : Enc} {tv : List String} {tr : Hist} (hr : ModelRun E (fresh tv) tr) :
    ∀ j, j ≤ tr.length → InitializedRan (tr.take j) → (stateAt (fresh tv) (tr.take j)).initd = true := by
  intro j
  induction j with
  | zero => intro _ h; obtain ⟨p, hp, _⟩ := h; simp at hp
  | succ k ih =>
    intro hk hran
    have hlt : k < tr.length := by omega
    have hget : tr[k]? = some tr[k] := List.getElem?_eq_getElem hlt
    obtain ⟨o, ho, hw, ha⟩ := hr k _ hget
    generalize hp : tr[k] = p at hget ho hw ha
    obtain ⟨m, obs⟩ := p
    simp only at ho hw ha
    subst ho
    rw [stateAt_succ hget]
    rw [take_succ_of_getElem? hget, initializedRan_snoc] at hran
    generalize hst : stateAt (fresh tv) (tr.take k) = s at ha ih
    simp only
    rcases hran with hran | ⟨hside, hn, huh⟩
    · have hs := ih (by omega) hran
      cases hside : m.side with
      | client => simpa [mstep, hside] using hs
      | server => rw [show mstep s m = admitReq s m.req by simp [mstep, hside]]; exact admit_initd_mono s m.req hs
    · have hm : mstep s m = admitReq s m.req := by simp [mstep, hside]
      rw [hm]
      obtain ⟨h, res, e, hne⟩ := ha.uh huh
      rw [hm] at e
      have hmeth := invoked_method e
      rw [(wf_name_iff hw .notifications_initialized).1 hn] at hmeth
      cases hmeth
      have : res = .ok := Classical.byContradiction fun hx => hne ⟨rfl, hx⟩
      subst this
      exact admit_initialized_ok s m.req e

/-- Everything the clause proofs need at a judged envelope of a model case. -/
structure AtModel (E : Enc) (tv : List String) (tr : Hist) (j : Nat) (m : Msg) (o : MObs) (s : State) : Prop where
  wf : WfMsg m
  agrees : Agrees E s m o
  prev : prevState (tr.take j) = stOf E s
  htv : s.tv = tv
  opened : s.init.isSome = true → Opened tv (tr.take j)

theorem at_model {E : Enc} {tv : List String} {tr : Hist} (hr : ModelRun E (fresh tv) tr) {j : Nat} {m : Msg} {o : MObs}
    (hat : At tr j m o) : AtModel E tv tr j m o (stateAt (fresh tv) (tr.take j)) := by
  obtain ⟨o', ho', hw, ha⟩ := hr j _ hat.here
  simp only [Obs.seen.injEq] at ho'
  subst ho'
  have hle : j ≤ tr.length := by
    rcases Nat.lt_or_ge j tr.length with h | h
    · omega
    · have := hat.here; rw [List.getElem?_eq_none h] at this; cases this
  refine ⟨hw, ha, ?_, by rw [stateAt_tv]; rfl, init_opened hr j hle⟩
  cases j with
  | zero => simp [prevState, stateAt, stOf, fresh, E.lvl_empty]
  | succ k =>
    have hlt : k < tr.length := by omega
    have hget : tr[k]? = some tr[k] := List.getElem?_eq_getElem hlt
    obtain ⟨o2, ho2, _, ha2⟩ := hr k _ hget
    rw [stateAt_succ hget, take_succ_of_getElem? hget]
    generalize tr[k] = p at hget ho2 ha2
    obtain ⟨m2, obs2⟩ := p
    simp only at ho2 ha2
    subst ho2
    rw [prevState_snoc]
    exact ha2.st

/-! ## One step of the model, as the observation shows it -/

theorem mstep_server {s : State} {m : Msg} (hs : m.side = .server) : mstep s m = admitReq s m.req := by
  simp [mstep, hs]

theorem quiet_of_not_invoked {E : Enc} {s : State} {m : Msg} {o : MObs} (ha : Agrees E s m o)
    (hn : ∀ h res, (mstep s m).2 ≠ .invoked h res) : o.mw = false ∧ o.uh = false := by
  constructor
  · cases hmw : o.mw with
    | false => rfl
    | true => obtain ⟨h, res, e⟩ := ha.mw.1 hmw; exact absurd e (hn h res)
  · cases huh : o.uh with
    | false => rfl
    | true => obtain ⟨h, res, e, _⟩ := ha.uh huh; exact absurd e (hn h res)

/-- What a refusal looks like in the observation. -/
theorem rejected_obs {E : Enc} {s : State} {m : Msg} {o : MObs} (ha : Agrees E s m o) {c : Int} {d : List String}
    (he : mstep s m = (s, reject m.req c d)) :
    o.mw = false ∧ o.uh = false ∧ o.st = stOf E s ∧
    o.w = refusal m c (if c == codeUnsupportedProtocolVersion then some d else none) := by
  have hq := quiet_of_not_invoked ha (by intro h res; rw [he]; exact reject_not_invoked _ _ _ _ _)
  refine ⟨hq.1, hq.2, by rw [ha.st, he], ?_⟩
  have := ha.w
  rw [he] at this
  unfold reject refusal at *
  cases hid : m.req.hasId with
  | true => simpa [hid, answer, wOf] using this
  | false => simpa [hid, answer, wOf] using this

theorem code_ne (c : Int) (h : c ≠ -32022) : (c == codeUnsupportedProtocolVersion) = false := by
  have := tbl_codes.2.2.2.1
  rw [this]; simpa using h

theorem w_shape {E : Enc} {s : State} {m : Msg} {o : MObs} (ha : Agrees E s m o) :
    o.w = .none ∨ o.w = .ok ∨ ∃ c d, o.w = .err c d := by
  have := ha.w
  cases hans : answer m.req (mstep s m).2 with
  | nothing => rw [hans] at this; exact Or.inl this
  | result => rw [hans] at this; exact Or.inr (Or.inl this)
  | error c d => rw [hans] at this; exact Or.inr (Or.inr ⟨_, _, this⟩)
  | some_answer => rw [hans] at this; rcases this with h | h; exact Or.inr (Or.inl h); exact Or.inr (Or.inr h)

theorem answer_nothing_iff (s : State) (m : Msg) : answer m.req (mstep s m).2 = .nothing ↔ m.req.hasId = false := by
  unfold mstep
  cases m.side with
  | server => exact (answered_iff_call s m.req).1
  | client => exact (answered_iff_call s m.req).2

theorem initSeen_model {E : Enc} {tv : List String} {tr : Hist} {j : Nat} {m : Msg} {o : MObs} {s : State}
    (am : AtModel E tv tr j m o s) : InitSeen tr j ↔ s.init.isSome = true := by
  unfold InitSeen; rw [am.prev]; simp [stOf]

theorem unchanged_model {E : Enc} {tv : List String} {tr : Hist} {j : Nat} {m : Msg} {o : MObs} {s : State}
    (am : AtModel E tv tr j m o s) (h : (mstep s m).1 = s) : Unchanged tr j o := by
  unfold Unchanged; rw [am.prev, am.agrees.st, h]

/-- A legacy request on a session without `InitializeParams`: only a lifecycle method reaches a handler,
and only an accepted `initialize` changes the state. -/
theorem legacy_uninit {s : State} {r : Req} (hleg : usesNew r = false) (hs : s.init = none) :
    (∀ h res, (admitReq s r).2 = .invoked h res → r.method = some h ∧ lifecycle.contains h = true) ∧
    (r.method ≠ some .initialize → (admitReq s r).1 = s) := by
  constructor
  · intro h res hi
    exact ⟨invoked_method hi, invoked_uninit_legacy (s' := (admitReq s r).1) (by rw [← hi]) hleg hs⟩
  · intro hne
    rcases admit_cases s r with ⟨_, e⟩ | ⟨_, c, _, e⟩ | ⟨_, _, _, e⟩ | ⟨_, _, _, c, _, e⟩ | ⟨_, _, _, hg, e⟩ | ⟨_, _, _, hg, e⟩
    · rw [e]
    · rw [e]
    · rw [e]
    · rw [e]
    · rw [e]
      rcases dispatch_cases s r with ⟨c, _, e'⟩ | ⟨m', _, hm, e'⟩
      · rw [e']
      · rw [e']
        have hl : lifecycle.contains m' = true := by
          have : admitReq s r = ((serverHandler s r m').1, .invoked m' (serverHandler s r m').2) := by rw [e, e']
          exact invoked_uninit_legacy this hleg hs
        have hm' : m' ≠ .initialize := fun e => hne (by rw [hm, e])
        simp only [lifecycle, List.contains_cons, List.contains_nil, Bool.or_false, Bool.or_eq_true, beq_iff_eq] at hl
        rcases hl with rfl | rfl | rfl
        · exact absurd rfl hm'
        · simp [serverHandler, hs]
        · simp [serverHandler]
    · exact absurd hg (by rw [hleg]; exact gate_legacy_never_adopts _ _)

theorem name_mem_preInit {m : Msg} (hw : WfMsg m) {h : Method} (hm : m.req.method = some h)
    (hl : lifecycle.contains h = true) : m.mname ∈ preInitAllowed := by
  have := (wf_name_iff hw h).2 hm
  simp only [lifecycle, List.contains_cons, List.contains_nil, Bool.or_false, Bool.or_eq_true, beq_iff_eq] at hl
  rcases hl with rfl | rfl | rfl <;> (rw [this]; simp [preInitAllowed, Method.name])

/-- The not-initialized refusal, in any state without `InitializeParams`. -/
theorem uninit_refusal {s : State} {r : Req} (hleg : usesNew r = false) (hs : s.init = none) (hp : preemptDrops r = false)
    (hm : ∀ m, r.method = some m → lifecycle.contains m = false ∧ newProtocolOnly.contains m = false) :
    admitReq s r = (s, reject r 0) := by
  have hg : gate false false r.method = .refuse codeNone := by
    unfold gate
    cases hmeth : r.method with
    | none => simp
    | some m =>
      obtain ⟨h1, h2⟩ := hm m hmeth
      simp only
      by_cases hrem : m ∈ removedInNewProtocol
      · by_cases hex : m ∈ exemptFromInitGate
        · have := contains_of_all tbl_exempt_lifecycle (m := m) (by simpa using hex)
          rw [h1] at this; cases this
        · simp [hrem, hex]
      · have h2' : m ∉ newProtocolOnly := by simpa using h2
        simp [hrem, h2']
  rcases admit_cases s r with ⟨h, _⟩ | ⟨_, c, h, _⟩ | ⟨_, _, h, _⟩ | ⟨_, _, _, c, h, e⟩ | ⟨_, _, _, h, _⟩ | ⟨_, _, _, h, _⟩
  · rw [hp] at h; cases h
  · rw [metaError_legacy hleg] at h; cases h
  · rw [unsupported_legacy _ hleg] at h; cases h
  · rw [hleg, hs] at h; simp only [Option.isSome_none] at h; rw [hg] at h; cases h; rw [e]; rfl
  · rw [hleg, hs] at h; simp only [Option.isSome_none] at h; rw [hg] at h; cases h
  · rw [hleg, hs] at h; simp only [Option.isSome_none] at h; rw [hg] at h; cases h

/-! ## The model satisfies every clause -/

/-! ### the error codes -/

theorem w_of_reject {E : Enc} {s : State} {m : Msg} {o : MObs} (ha : Agrees E s m o) {c : Int} {d : List String}
    (he : (mstep s m).2 = reject m.req c d) :
    o.w = refusal m c (if c == codeUnsupportedProtocolVersion then some d else none) := by
  have := ha.w
  rw [he] at this
  unfold reject refusal at *
  cases hid : m.req.hasId with
  | true => simpa [hid, answer, wOf] using this
  | false => simpa [hid, answer, wOf] using this

theorem w_of_reject' {E : Enc} {s : State} {m : Msg} {o : MObs} (ha : Agrees E s m o) {c : Int}
    (he : (mstep s m).2 = reject m.req c) (hc : c ≠ -32022) : o.w = refusal m c none := by
  rw [w_of_reject ha he, code_ne c hc]; rfl

/-- Table obligations that tie the names the property uses to the regenerated case lists. -/
theorem tbl_names_removed : ∀ x : Method, x.name ∉ removedNames → removedInNewProtocol.contains x = false := by
  intro x; cases x <;> decide

theorem tbl_names_lifecycle : ∀ x : Method, x.name ∈ ["initialize", "notifications/initialized", "ping"] →
    exemptFromInitGate.contains x = true ∧ removedInNewProtocol.contains x = true ∧ lifecycle.contains x = true := by
  intro x; cases x <;> decide

theorem tbl_names_not_lifecycle : ∀ x : Method, x.name ∉ ["initialize", "notifications/initialized", "ping"] →
    lifecycle.contains x = false := by
  intro x; cases x <;> decide

theorem tbl_names_discover : ∀ x : Method, x.name ≠ "server/discover" → newProtocolOnly.contains x = false := by
  intro x; cases x <;> decide

theorem metaError_none_of_complete {r : Req} (hn : usesNew r = true) (hc : metaComplete r = true) : metaError r = none := by
  unfold metaError; unfold metaComplete at hc
  cases hm : effMeta r with
  | none => rfl
  | ver v caps ci =>
    rw [hm] at hc
    simp only [hn, Bool.not_true, Bool.false_eq_true, if_false]
    cases caps <;> cases ci <;> simp_all

/-- The envelope is past everything that precedes the method / id / params checks — in the model's terms. -/
theorem pastChecks_pastGate {s : State} {m : Msg} (hw : WfMsg m) (hside : m.side = .server)
    (pg : PastChecks s.tv s.init.isSome m) : PastGate s m.req := by
  obtain ⟨p1, p2, p3⟩ := pg
  have hnew : m.new = usesNew m.req := by simp [Msg.new, hside]
  cases hn : usesNew m.req with
  | true =>
    obtain ⟨a, b, c⟩ := p2 (by rw [hnew, hn])
    refine ⟨p1, metaError_none_of_complete hn a, ?_, ?_⟩
    · rw [acceptedBy_iff hw] at b
      have : metaVersion m.req ∈ acceptedVersions s.tv m.req := by simpa using b
      simp [unsupportedVersion, hn, this]
    · intro code hg
      rw [hn] at hg
      cases hmeth : m.req.method with
      | none =>
        rw [hmeth] at hg
        unfold gate at hg
        cases hs : s.init.isSome <;> simp [hs] at hg
      | some x =>
        have hname := (wf_name_iff hw x).2 hmeth
        have hx : removedInNewProtocol.contains x = false := tbl_names_removed x (by rw [← hname]; exact c)
        have hx' : x ∉ removedInNewProtocol := by simpa using hx
        rw [hmeth] at hg
        unfold gate at hg
        simp only [hx', if_false] at hg
        by_cases hno : x ∈ newProtocolOnly
        · simp [hno, hx'] at hg
        · cases hs : s.init.isSome <;> simp [hno, hs, hx'] at hg
  | false =>
    obtain ⟨d, e⟩ := p3 hside (by rw [hnew, hn])
    refine ⟨p1, metaError_legacy hn, unsupported_legacy _ hn, ?_⟩
    intro code hg
    rw [hn] at hg
    cases hmeth : m.req.method with
    | none =>
      -- an unknown method passes only on an initialized session
      rcases e with e | e
      · rw [hmeth, e] at hg; unfold gate at hg; simp at hg
      · exfalso
        simp only [List.mem_cons, List.mem_nil_iff, or_false] at e
        have : m.req.method ≠ none := by
          rcases e with e | e | e
          · rw [(wf_name_iff hw .initialize).1 e]; simp
          · rw [(wf_name_iff hw .notifications_initialized).1 e]; simp
          · rw [(wf_name_iff hw .ping).1 e]; simp
        exact this hmeth
    | some x =>
      have hname := (wf_name_iff hw x).2 hmeth
      have hdisc : newProtocolOnly.contains x = false := tbl_names_discover x (by rw [← hname]; exact d)
      have hdisc' : x ∉ newProtocolOnly := by simpa using hdisc
      rw [hmeth] at hg
      unfold gate at hg
      rcases e with e | e
      · rw [e] at hg
        by_cases hrem : x ∈ removedInNewProtocol
        · by_cases hex : x ∈ exemptFromInitGate <;> simp [hrem, hex] at hg
        · simp [hrem, hdisc'] at hg
      · obtain ⟨t1, t2, _⟩ := tbl_names_lifecycle x (by rw [← hname]; exact e)
        have t1' : x ∈ exemptFromInitGate := by simpa using t1
        have t2' : x ∈ removedInNewProtocol := by simpa using t2
        simp [t1', t2'] at hg

/-- The method / id / params rules, given the property's code mapping of the outcome. -/
theorem tail_codes {E : Enc} {t : List (Method × Flags)} {s : State} {m : Msg} {o : MObs} (ha : Agrees E s m o)
    (cs : CodeSpec t m.req (mstep s m).2) (hfl : flagsOf m = m.req.method.bind (lookup t)) :
    (flagsOf m = none → o.w = refusal m (-32601) none) ∧
    (∀ f, flagsOf m = some f → f.notification = true → m.req.hasId = true → o.w = .err (-32600) none) ∧
    (∀ f, flagsOf m = some f → f.notification = false → m.req.hasId = false → o.w = .none) ∧
    (∀ f, flagsOf m = some f → f.notification = !m.req.hasId → f.missingParamsOK = false →
      (m.req.params = .absent ∨ m.req.params = .null) → o.w = refusal m (-32600) none) ∧
    (∀ f, flagsOf m = some f → f.notification = !m.req.hasId →
      (m.req.params = .objUndecodable ∨ m.req.params = .wrongType) → o.w = refusal m (-32602) none) ∧
    (∀ f, flagsOf m = some f → f.notification = true → m.req.hasId = false →
      ¬ (f.missingParamsOK = false ∧ (m.req.params = .absent ∨ m.req.params = .null)) →
      ¬ (m.req.params = .objUndecodable ∨ m.req.params = .wrongType) → o.w = .none) := by
  rw [hfl]
  refine ⟨?_, ?_, ?_, ?_, ?_, ?_⟩
  · intro h; exact w_of_reject' ha (cs.unknown h) (by decide)
  · intro f h1 h2 h3
    have := ha.w
    rw [cs.unexpectedId f h1 h2 h3] at this
    simpa [answer, wOf, code_ne (-32600) (by decide)] using this
  · intro f h1 h2 h3
    have := ha.w
    rw [cs.missingId f h1 h2 h3] at this
    simpa [answer, wOf] using this
  · intro f h1 h2 h3 h4; exact w_of_reject' ha (cs.missingParams f h1 h2 h3 h4) (by decide)
  · intro f h1 h2 h3; exact w_of_reject' ha (cs.undecodable f h1 h2 h3) (by decide)
  · intro f h1 h2 h3 h4 h5
    obtain ⟨x, res, _, e⟩ := cs.served f h1 (by rw [h2, h3]; rfl)
      (by
        cases hm : f.missingParamsOK with
        | true => exact Or.inl rfl
        | false =>
          right
          exact ⟨fun e => h4 ⟨hm, Or.inl e⟩, fun e => h4 ⟨hm, Or.inr e⟩⟩)
      ⟨fun e => h5 (Or.inl e), fun e => h5 (Or.inr e)⟩
    have := ha.w
    rw [e] at this
    simpa [answer, wOf, h3] using this


section Clauses
variable {E : Enc} {tv : List String} {tr : Hist} (hr : ModelRun E (fresh tv) tr)
include hr

theorem m_call_answered : P_call_answered tr := by
  intro j m o hat hid hw
  have am := at_model hr hat
  have := am.agrees.w
  have hn : answer m.req (mstep (stateAt (fresh tv) (tr.take j)) m).2 ≠ .nothing := fun e => by
    have := (answer_nothing_iff (stateAt (fresh tv) (tr.take j)) m).1 e; rw [hid] at this; cases this
  cases hans : answer m.req (mstep (stateAt (fresh tv) (tr.take j)) m).2 with
  | nothing => exact hn hans
  | result => rw [hans] at this; rw [hw] at this; cases this
  | error c d => rw [hans] at this; rw [hw] at this; cases this
  | some_answer => rw [hans] at this; rw [hw] at this; rcases this with h | ⟨_, _, h⟩ <;> cases h

theorem m_single_answer : P_single_answer tr := by
  intro j m o hat n hw
  rcases w_shape (at_model hr hat).agrees with h | h | ⟨_, _, h⟩ <;> (rw [hw] at h; cases h)

theorem m_id_echoed : P_id_echoed tr := by
  intro j m o hat n hw
  rcases w_shape (at_model hr hat).agrees with h | h | ⟨_, _, h⟩ <;> (rw [hw] at h; cases h)

theorem m_notification_not_answered : P_notification_not_answered tr := by
  intro j m o hat hid
  have am := at_model hr hat
  have := am.agrees.w
  rw [(answer_nothing_iff _ m).2 hid] at this
  exact this

theorem m_response_wellformed : P_response_wellformed tr := by
  intro j m o hat hw
  rcases w_shape (at_model hr hat).agrees with h | h | ⟨_, _, h⟩ <;> (rw [hw] at h; cases h)

theorem m_all_seen (j : Nat) (m : Msg) (obs : Obs) (hj : tr[j]? = some (m, obs)) : ∃ o, obs = .seen o := by
  obtain ⟨o, ho, _⟩ := hr j _ hj
  exact ⟨o, ho⟩

theorem m_nothing_served_before_initialize : P_nothing_served_before_initialize tr := by
  intro j m o hat hl hi hp
  have am := at_model hr hat
  have hs : (stateAt (fresh tv) (tr.take j)).init = none := by
    have := mt (initSeen_model am).2 hi
    cases hx : (stateAt (fresh tv) (tr.take j)).init with
    | none => rfl
    | some _ => rw [hx] at this; simp at this
  have hleg : usesNew m.req = false := by simpa [Msg.new, hl.1] using hl.2
  apply quiet_of_not_invoked am.agrees
  intro h res hinv
  rw [mstep_server hl.1] at hinv
  obtain ⟨hm, hlc⟩ := (legacy_uninit hleg hs).1 h res hinv
  exact hp (name_mem_preInit am.wf hm hlc)

omit hr in
theorem init_none_of_not_seen {j : Nat} {m : Msg} {o : MObs} {s : State} (am : AtModel E tv tr j m o s)
    (hi : ¬ InitSeen tr j) : s.init = none := by
  have := mt (initSeen_model am).2 hi
  cases hx : s.init with
  | none => rfl
  | some _ => rw [hx] at this; simp at this

omit hr in
theorem legacy_usesNew {m : Msg} (hl : Legacy m) : usesNew m.req = false := by
  simpa [Msg.new, hl.1] using hl.2

omit hr in
theorem new_usesNew {m : Msg} (hn : New m) : usesNew m.req = true := by
  simpa [Msg.new, hn.1] using hn.2

omit hr in
theorem f4_method {m : Msg} (hw : WfMsg m) (hf : m.mname ∈ f4Methods) :
    ∃ x, m.req.method = some x ∧ lifecycle.contains x = false ∧ newProtocolOnly.contains x = false := by
  simp only [f4Methods, List.mem_cons, List.mem_nil_iff, or_false] at hf
  rcases hf with h | h | h | h
  · exact ⟨.logging_setLevel, (wf_name_iff hw _).1 h, by decide, by decide⟩
  · exact ⟨.resources_subscribe, (wf_name_iff hw _).1 h, by decide, by decide⟩
  · exact ⟨.resources_unsubscribe, (wf_name_iff hw _).1 h, by decide, by decide⟩
  · exact ⟨.notifications_roots_list_changed, (wf_name_iff hw _).1 h, by decide, by decide⟩

theorem m_gate_refuses_before_initialize : P_gate_refuses_before_initialize tr := by
  intro j m o hat hl hi hf hid
  have am := at_model hr hat
  have hs := init_none_of_not_seen am hi
  obtain ⟨x, hx, h1, h2⟩ := f4_method am.wf hf
  have hp : preemptDrops m.req = false := by
    simp only [preemptDrops, hx, hid, Bool.not_true, Bool.and_false, Bool.false_and]
  have he := uninit_refusal (legacy_usesNew hl) hs hp (by intro y hy; rw [hx] at hy; cases hy; exact ⟨h1, h2⟩)
  have := (rejected_obs am.agrees (c := 0) (d := []) (by rw [mstep_server hl.1]; exact he)).2.2.2
  rw [this, code_ne 0 (by decide)]
  simp [refusal, hid]

theorem m_state_unchanged_before_initialize : P_state_unchanged_before_initialize tr := by
  intro j m o hat hl hi hne
  have am := at_model hr hat
  have hs := init_none_of_not_seen am hi
  apply unchanged_model am
  rw [mstep_server hl.1]
  exact (legacy_uninit (legacy_usesNew hl) hs).2 (fun e => hne ((wf_name_iff am.wf .initialize).2 e))

theorem m_nothing_served_unopened : P_nothing_served_unopened tv tr := by
  intro j m o hat hl ho hp
  have am := at_model hr hat
  have hs : (stateAt (fresh tv) (tr.take j)).init = none := by
    cases hx : (stateAt (fresh tv) (tr.take j)).init with
    | none => rfl
    | some _ => exact absurd (am.opened (by rw [hx]; rfl)) ho
  have hni : ∀ h res, (mstep (stateAt (fresh tv) (tr.take j)) m).2 ≠ .invoked h res := by
    intro h res hinv
    rw [mstep_server hl.1] at hinv
    obtain ⟨hm, hlc⟩ := (legacy_uninit (legacy_usesNew hl) hs).1 h res hinv
    exact hp (name_mem_preInit am.wf hm hlc)
  obtain ⟨a, b⟩ := quiet_of_not_invoked am.agrees hni
  refine ⟨a, b, ?_⟩
  rintro ⟨hid, hw⟩
  -- a result on the wire comes from a handler
  have := am.agrees.w
  cases hout : (mstep (stateAt (fresh tv) (tr.take j)) m).2 with
  | invoked h res => exact hni h res hout
  | rejected c d => rw [hout, hw] at this; simp [answer, wOf] at this
  | ignored => rw [hout, hw] at this; simp [answer, wOf] at this

omit hr in
theorem init_answers {s : State} {r : Req} (hm : r.method = some .initialize) (hs : s.init.isSome = true) :
    (admitReq s r).1 = s ∧ ∀ w, wOf (answer r (admitReq s r).2) w → w ≠ .ok := by
  rcases initialize_step s r hm with ⟨h, _⟩ | ⟨h1, h2⟩
  · rw [h] at hs; cases hs
  · refine ⟨h1, ?_⟩
    intro w hw hok
    subst hok
    rcases h2 with ⟨c, d, e⟩ | e | e | e <;> rw [e] at hw
    · unfold reject at hw; cases hid : r.hasId <;> simp [answer, wOf, hid] at hw
    · simp [answer, wOf] at hw
    · cases hid : r.hasId <;> simp [answer, wOf, hid] at hw
    · cases hid : r.hasId <;> simp [answer, wOf, hid] at hw

theorem m_second_initialize_rejected : P_second_initialize_rejected tr := by
  intro j m o hat hside hn hi
  have am := at_model hr hat
  have hm := (wf_name_iff am.wf .initialize).1 hn
  have := am.agrees.w
  rw [mstep_server hside] at this
  exact (init_answers hm ((initSeen_model am).1 hi)).2 _ this

theorem m_second_initialize_keeps_state : P_second_initialize_keeps_state tr := by
  intro j m o hat hside hn hi
  have am := at_model hr hat
  have hm := (wf_name_iff am.wf .initialize).1 hn
  apply unchanged_model am
  rw [mstep_server hside]
  exact (init_answers hm ((initSeen_model am).1 hi)).1

theorem m_rejected_initialize_keeps_state : P_rejected_initialize_keeps_state tr := by
  intro j m o hat hside hn hw
  have am := at_model hr hat
  have hm := (wf_name_iff am.wf .initialize).1 hn
  apply unchanged_model am
  rw [mstep_server hside]
  apply initialize_without_result_changes_nothing _ _ hm
  intro hres
  have := am.agrees.w
  rw [mstep_server hside, hres] at this
  exact hw this

theorem m_initialized_premature_or_repeated_rejected : P_initialized_premature_or_repeated_rejected tr := by
  intro j m o hat hside hn hpre
  have am := at_model hr hat
  have hm := (wf_name_iff am.wf .notifications_initialized).1 hn
  have hs : (stateAt (fresh tv) (tr.take j)).init = none ∨ (stateAt (fresh tv) (tr.take j)).initd = true := by
    rcases hpre with h | h
    · exact Or.inl (init_none_of_not_seen am h)
    · right; rw [am.prev] at h; exact h
  obtain ⟨h1, h2⟩ := initialized_premature_or_repeated_rejected_state_unchanged _ m.req hm hs
  refine ⟨?_, unchanged_model am (by rw [mstep_server hside]; exact h1)⟩
  cases huh : o.uh with
  | false => rfl
  | true =>
    exfalso
    obtain ⟨h, res, e, hne⟩ := am.agrees.uh huh
    rw [mstep_server hside] at e
    have hmeth := invoked_method e
    rw [hm] at hmeth
    cases hmeth
    have : res = .ok := Classical.byContradiction fun hx => hne ⟨rfl, hx⟩
    subst this
    simp [initializedHandlerRuns, e] at h2

theorem m_initialized_handler_once : P_initialized_handler_once tr := by
  intro j m o hat hside hn hran
  have am := at_model hr hat
  have hle : j ≤ tr.length := by
    rcases Nat.lt_or_ge j tr.length with h | h
    · omega
    · have := hat.here; rw [List.getElem?_eq_none h] at this; cases this
  have hm := (wf_name_iff am.wf .notifications_initialized).1 hn
  have hs := ran_initd hr j hle hran
  obtain ⟨_, h2⟩ := initialized_premature_or_repeated_rejected_state_unchanged _ m.req hm (Or.inr hs)
  cases huh : o.uh with
  | false => rfl
  | true =>
    exfalso
    obtain ⟨h, res, e, hne⟩ := am.agrees.uh huh
    rw [mstep_server hside] at e
    have hmeth := invoked_method e
    rw [hm] at hmeth
    cases hmeth
    have : res = .ok := Classical.byContradiction fun hx => hne ⟨rfl, hx⟩
    subst this
    simp [initializedHandlerRuns, e] at h2

theorem m_ping_always_served : P_ping_always_served tr := by
  intro j m o hat hl hn hid h1 h2
  have am := at_model hr hat
  have hm := (wf_name_iff am.wf .ping).1 hn
  obtain ⟨_, e2⟩ := ping_always_served (stateAt (fresh tv) (tr.take j)) m.req hm hid (legacy_usesNew hl) ⟨h1, h2⟩
  have := am.agrees.w
  rw [mstep_server hl.1, e2] at this
  exact this

theorem m_incomplete_meta_invalid_params : P_incomplete_meta_invalid_params tr := by
  intro j m o hat hnw hmc
  have am := at_model hr hat
  have he := new_protocol_requires_complete_meta (stateAt (fresh tv) (tr.take j)) m.req (new_usesNew hnw) hmc
  obtain ⟨a, b, c, d⟩ := rejected_obs am.agrees (c := -32602) (d := []) (by rw [mstep_server hnw.1]; exact he)
  refine ⟨a, b, by unfold Unchanged; rw [am.prev]; exact c, ?_⟩
  intro hid
  rw [d, code_ne _ (by decide)]
  simp [refusal, hid]

theorem m_unsupported_version_refused : P_unsupported_version_refused tv tr := by
  intro j m o hat hnw hmc hacc
  have am := at_model hr hat
  have hv : (acceptedVersions (stateAt (fresh tv) (tr.take j)).tv m.req).contains (metaVersion m.req) = false := by
    rw [am.htv, ← acceptedBy_iff am.wf]; exact hacc
  have he := unsupported_version _ m.req (new_usesNew hnw) hmc hv
  obtain ⟨a, _, c, d⟩ := rejected_obs am.agrees (by rw [mstep_server hnw.1]; exact he)
  refine ⟨a, by unfold Unchanged; rw [am.prev]; exact c, ?_⟩
  intro hid
  rw [d, am.htv]
  have : ((-32022 : Int) == codeUnsupportedProtocolVersion) = true := by rw [tbl_codes.2.2.2.1]; rfl
  simp [refusal, hid, this]

theorem m_transport_version_refused : P_transport_version_refused tv tr := by
  intro j m o hat hnw hmc hd hsup hnt
  have am := at_model hr hat
  have hnd : m.req.method ≠ some .server_discover := fun e => hd ((wf_name_iff am.wf .server_discover).2 e)
  have he := per_request_version_refused_unless_transport_serves_it _ m.req hnd (new_usesNew hnw) hmc
    (by rw [am.htv]; simpa using hnt)
  obtain ⟨a, b, c, d⟩ := rejected_obs am.agrees (by rw [mstep_server hnw.1]; exact he)
  refine ⟨a, b, by unfold Unchanged; rw [am.prev]; exact c, ?_⟩
  intro hid
  rw [d, am.htv]
  have : ((-32022 : Int) == codeUnsupportedProtocolVersion) = true := by rw [tbl_codes.2.2.2.1]; rfl
  simp [refusal, hid, this]

omit hr in
theorem removed_method {m : Msg} (hw : WfMsg m) (hf : m.mname ∈ removedNames) :
    ∃ x, m.req.method = some x ∧ removedInNewProtocol.contains x = true := by
  simp only [removedNames, List.mem_cons, List.mem_nil_iff, or_false] at hf
  rcases hf with h | h | h | h | h | h | h
  · exact ⟨.initialize, (wf_name_iff hw _).1 h, spec_removed_methods_listed _ (by simp [specRemoved])⟩
  · exact ⟨.ping, (wf_name_iff hw _).1 h, spec_removed_methods_listed _ (by simp [specRemoved])⟩
  · exact ⟨.notifications_initialized, (wf_name_iff hw _).1 h, spec_removed_methods_listed _ (by simp [specRemoved])⟩
  · exact ⟨.notifications_roots_list_changed, (wf_name_iff hw _).1 h, spec_removed_methods_listed _ (by simp [specRemoved])⟩
  · exact ⟨.logging_setLevel, (wf_name_iff hw _).1 h, spec_removed_methods_listed _ (by simp [specRemoved])⟩
  · exact ⟨.resources_subscribe, (wf_name_iff hw _).1 h, spec_removed_methods_listed _ (by simp [specRemoved])⟩
  · exact ⟨.resources_unsubscribe, (wf_name_iff hw _).1 h, spec_removed_methods_listed _ (by simp [specRemoved])⟩

theorem m_removed_methods_not_found : P_removed_methods_not_found tv tr := by
  intro j m o hat hnw hmc hacc hr'
  have am := at_model hr hat
  obtain ⟨x, hx, hrem⟩ := removed_method am.wf hr'
  have hv : CarriesValidMeta (stateAt (fresh tv) (tr.take j)).tv m.req := by
    rw [am.htv]
    exact (validMeta_iff am.wf hnw.1 tv).1 (by simp [validMeta, hnw.2, hmc, hacc])
  have he := removed_methods_not_found _ m.req x hv hx hrem
  obtain ⟨a, _, _, d⟩ := rejected_obs am.agrees (c := -32601) (d := []) (by rw [mstep_server hnw.1]; exact he)
  refine ⟨a, ?_⟩
  intro hid
  rw [d, code_ne _ (by decide)]
  simp [refusal, hid]

theorem m_discover_only_new_protocol : P_discover_only_new_protocol tr := by
  intro j m o hat hl hn
  have am := at_model hr hat
  have hm := (wf_name_iff am.wf .server_discover).1 hn
  have he := (discover_only_new_protocol (stateAt (fresh tv) (tr.take j)) m.req hm).1 (legacy_usesNew hl)
  obtain ⟨a, _, _, d⟩ := rejected_obs am.agrees (c := -32601) (d := []) (by rw [mstep_server hl.1]; exact he)
  refine ⟨a, ?_⟩
  intro hid
  rw [d, code_ne _ (by decide)]
  simp [refusal, hid]

theorem m_error_codes : P_error_codes tv tr := by
  intro j m o hat want hrule
  have am := at_model hr hat
  have hinit : (prevState (tr.take j)).init.isSome = (stateAt (fresh tv) (tr.take j)).init.isSome := by
    rw [am.prev]; simp [stOf]
  rw [hinit] at hrule
  generalize hst : stateAt (fresh tv) (tr.take j) = s at am hrule
  have ha := am.agrees
  cases hside : m.side with
  | client =>
    have hms : mstep s m = (s, admitClient m.req) := by simp [mstep, hside]
    have hnew : m.new = false := by simp [Msg.new, hside]
    have hfl : flagsOf m = m.req.method.bind (lookup clientMethodInfos) := by simp [flagsOf, hside]
    have tail : preemptDrops m.req = false → _ := fun hp =>
      tail_codes ha (by rw [hms]; exact reject_codes_client m.req hp) hfl
    cases hrule with
    | preempt h1 =>
      have := ha.w
      rw [hms] at this
      simpa [admitClient, h1, answer, wOf] using this
    | metaIncomplete _ h2 => rw [hnew] at h2; cases h2
    | version _ h2 => rw [hnew] at h2; cases h2
    | removed _ h2 => rw [hnew] at h2; cases h2
    | discoverLegacy _ h2 => rw [hside] at h2; cases h2
    | notInitialized _ h2 => rw [hside] at h2; cases h2
    | unknownMethod pg hf => exact (tail pg.1).1 hf
    | idOnNotification f pg hf h1 h2 => exact (tail pg.1).2.1 f hf h1 h2
    | callWithoutId f pg hf h1 h2 => exact (tail pg.1).2.2.1 f hf h1 h2
    | missingParams f pg hf h1 h2 h3 => exact (tail pg.1).2.2.2.1 f hf h1 h2 h3
    | undecodable f pg hf h1 _ h3 => exact (tail pg.1).2.2.2.2.1 f hf h1 h3
    | notification f pg hf h1 h2 h3 h4 => exact (tail pg.1).2.2.2.2.2 f hf h1 h2 h3 h4
  | server =>
    have hms : mstep s m = admitReq s m.req := mstep_server hside
    have hnew : m.new = usesNew m.req := by simp [Msg.new, hside]
    have hfl : flagsOf m = m.req.method.bind (lookup serverMethodInfos) := by simp [flagsOf, hside]
    have htv := am.htv
    have tail : PastChecks tv s.init.isSome m → _ := fun pg =>
      tail_codes ha (by rw [hms]; exact reject_codes s m.req (pastChecks_pastGate am.wf hside (by rw [htv]; exact pg))) hfl
    cases hrule with
    | preempt h1 =>
      have := ha.w
      rcases admit_cases s m.req with ⟨_, e⟩ | ⟨h, _⟩ | ⟨h, _⟩ | ⟨h, _⟩ | ⟨h, _⟩ | ⟨h, _⟩
      · rw [hms, e] at this; simpa [answer, wOf] using this
      all_goals (rw [h1] at h; cases h)
    | metaIncomplete _ h2 h3 =>
      have he := new_protocol_requires_complete_meta s m.req (by rw [← hnew]; exact h2) h3
      exact w_of_reject' ha (by rw [hms, he]) (by decide)
    | version _ h2 h3 h4 =>
      have hv : (acceptedVersions s.tv m.req).contains (metaVersion m.req) = false := by
        rw [htv, ← acceptedBy_iff am.wf]; exact h4
      have he := unsupported_version s m.req (by rw [← hnew]; exact h2) h3 hv
      rw [w_of_reject ha (by rw [hms, he]), htv]
      have : ((-32022 : Int) == codeUnsupportedProtocolVersion) = true := by rw [tbl_codes.2.2.2.1]; rfl
      simp [this]
    | removed _ h2 h3 h4 h5 =>
      obtain ⟨x, hx, hrem⟩ := removed_method am.wf h5
      have hv : CarriesValidMeta s.tv m.req := by
        rw [htv]; exact (validMeta_iff am.wf hside tv).1 (by simp [validMeta, h2, h3, h4])
      have he := removed_methods_not_found s m.req x hv hx hrem
      exact w_of_reject' ha (by rw [hms, he]) (by decide)
    | discoverLegacy _ _ h3 h4 =>
      have hm := (wf_name_iff am.wf .server_discover).1 h4
      have he := (discover_only_new_protocol s m.req hm).1 (by rw [← hnew]; exact h3)
      exact w_of_reject' ha (by rw [hms, he]) (by decide)
    | notInitialized h1 _ h3 h4 h5 h6 =>
      have hs : s.init = none := by
        cases hx : s.init with
        | none => rfl
        | some _ => rw [hx] at h5; cases h5
      have he := uninit_refusal (s := s) (r := m.req) (by rw [← hnew]; exact h3) hs h1 (by
        intro x hx
        have hname := (wf_name_iff am.wf x).2 hx
        exact ⟨tbl_names_not_lifecycle x (by rw [← hname]; exact h6), tbl_names_discover x (by rw [← hname]; exact h4)⟩)
      exact w_of_reject' ha (by rw [hms, he]) (by decide)
    | unknownMethod pg hf => exact (tail pg).1 hf
    | idOnNotification f pg hf h1 h2 => exact (tail pg).2.1 f hf h1 h2
    | callWithoutId f pg hf h1 h2 => exact (tail pg).2.2.1 f hf h1 h2
    | missingParams f pg hf h1 h2 h3 => exact (tail pg).2.2.2.1 f hf h1 h2 h3
    | undecodable f pg hf h1 _ h3 => exact (tail pg).2.2.2.2.1 f hf h1 h3
    | notification f pg hf h1 h2 h3 h4 => exact (tail pg).2.2.2.2.2 f hf h1 h2 h3 h4

/-- **The model satisfies every clause** of C06 and of C02's part of this stream, on every case it can
produce. -/
theorem model_satisfies_P (cl : Clause) : P_of tv cl tr := by
  cases cl with
  | dropped => exact m_call_answered hr
  | multi => exact m_single_answer hr
  | stray => exact m_id_echoed hr
  | notifAnswered => exact m_notification_not_answered hr
  | malformed => exact m_response_wellformed hr
  | f12 | f13Elicit | f13ElicitComplete | f13Sampling | crash =>
    intro j m _ hj; obtain ⟨o, ho⟩ := m_all_seen hr j m _ hj; cases ho
  | tornDown => intro j m _ hj; obtain ⟨o, ho⟩ := m_all_seen hr j m _ hj; cases ho
  | unreadable => intro j m _ hj; obtain ⟨o, ho⟩ := m_all_seen hr j m _ hj; cases ho
  | f4Served | servedBeforeInit => exact m_nothing_served_before_initialize hr
  | f4Passed => exact m_gate_refuses_before_initialize hr
  | stateBeforeInit => exact m_state_unchanged_before_initialize hr
  | servedUnopened => exact m_nothing_served_unopened hr
  | secondInitAccepted => exact m_second_initialize_rejected hr
  | secondInitState => exact m_second_initialize_keeps_state hr
  | rejectedInitState => exact m_rejected_initialize_keeps_state hr
  | initializedAccepted => exact m_initialized_premature_or_repeated_rejected hr
  | initializedTwice => exact m_initialized_handler_once hr
  | pingNotServed => exact m_ping_always_served hr
  | incompleteMeta => exact m_incomplete_meta_invalid_params hr
  | f34NotRefused => exact m_transport_version_refused hr
  | f34SdkList | unsupportedVersion => exact m_unsupported_version_refused hr
  | removedMethod => exact m_removed_methods_not_found hr
  | discoverLegacy => exact m_discover_only_new_protocol hr
  | f16 _ | f17 _ | codeWrong _ => exact m_error_codes hr

/-- **monitor_accepts_model.** On every case the model can produce — any transport versions, any
envelopes on either receiving side, observations that agree with the model where it is definite — the
C06 / C02 monitor reports nothing. -/
theorem monitor_accepts_model : runMon tv tr = none := by
  cases h : runMon tv tr with
  | none => rfl
  | some p =>
    obtain ⟨j, cl⟩ := p
    exact absurd (model_satisfies_P hr cl) (monitor_sound tv tr j cl h)

end Clauses

/-! ## Non-vacuity: the model produces a case for every list of envelopes -/

def wModel : Answer → W
  | .nothing => .none
  | .result => .ok
  | .error c d => .err c (if c == codeUnsupportedProtocolVersion then some d else none)
  | .some_answer => .ok

def isInvoked : Outcome → Bool
  | .invoked _ _ => true
  | _ => false

/-- The observation of an implementation that behaves exactly like the model (open answers: a result;
user handlers: not recorded). -/
def obsModel (E : Enc) (s : State) (m : Msg) : MObs :=
  { w := wModel (answer m.req (mstep s m).2), mw := isInvoked (mstep s m).2, uh := false, st := stOf E (mstep s m).1 }

theorem agrees_obsModel (E : Enc) (s : State) (m : Msg) : Agrees E s m (obsModel E s m) := by
  refine ⟨rfl, ?_, (by intro h; cases h), ?_⟩
  · simp only [obsModel]
    cases (mstep s m).2 <;> simp [isInvoked]
  · simp only [obsModel]
    cases answer m.req (mstep s m).2 <;> simp [wModel, wOf]

def histModel (E : Enc) : State → List Msg → Hist
  | _, [] => []
  | s, m :: ms => (m, .seen (obsModel E s m)) :: histModel E (mstep s m).1 ms

theorem modelRun_cons {E : Enc} {s0 : State} {m : Msg} {o : MObs} {h : Hist} (hw : WfMsg m) (ha : Agrees E s0 m o)
    (hr : ModelRun E (mstep s0 m).1 h) : ModelRun E s0 ((m, .seen o) :: h) := by
  intro j p hj
  cases j with
  | zero =>
    simp only [List.getElem?_cons_zero, Option.some.injEq] at hj
    subst hj
    exact ⟨o, rfl, hw, by simpa [stateAt] using ha⟩
  | succ k =>
    obtain ⟨o', h1, h2, h3⟩ := hr k p (by simpa using hj)
    refine ⟨o', h1, h2, ?_⟩
    simpa [stateAt] using h3

theorem modelRun_histModel (E : Enc) : ∀ (ms : List Msg) (s0 : State), (∀ m ∈ ms, WfMsg m) → ModelRun E s0 (histModel E s0 ms)
  | [], _, _ => by intro j p hj; simp [histModel] at hj
  | m :: ms, s0, hw => by
    exact modelRun_cons (hw m (by simp)) (agrees_obsModel E s0 m)
      (modelRun_histModel E ms _ (fun x hx => hw x (List.mem_cons_of_mem _ hx)))

/-- **On the model's own run of ANY list of envelopes, on any transport, the monitor is silent.** -/
theorem monitor_accepts_model_run (E : Enc) (tv : List String) (ms : List Msg) (hw : ∀ m ∈ ms, WfMsg m) :
    runMon tv (histModel E (fresh tv) ms) = none :=
  monitor_accepts_model (modelRun_histModel E ms (fresh tv) hw)

/-! Every clause can be reported: concrete observations the model does not allow. -/
section Witness
def mkMsg (side : Side) (name : String) (hasId : Bool) (p : PShape := .objOk) (mt : MetaShape := .none) : Msg :=
  { side := side, mname := name, muts := [], req := { method := methodOfName name, hasId := hasId, params := p, «meta» := mt } }
def sdk : List String := supportedProtocolVersions
def quiet (w : W) : Obs := .seen { w := w, mw := false, uh := false, st := {} }
def ran (w : W) : Obs := .seen { w := w, mw := true, uh := true, st := {} }

example : runMon sdk [(mkMsg .server "tools/list" true, quiet .none)] = some (0, .dropped) := by decide
example : runMon sdk [(mkMsg .server "tools/list" true, ran .ok)] = some (0, .servedBeforeInit) := by decide
example : runMon sdk [(mkMsg .server "logging/setLevel" true, ran .ok)] = some (0, .f4Served) := by decide
example : runMon sdk [(mkMsg .server "logging/setLevel" true, quiet (.err (-32601) none))] = some (0, .f4Passed) := by decide
example : runMon sdk [(mkMsg .server "ping" true, quiet (.err 0 none))] = some (0, .pingNotServed) := by decide
example : runMon sdk [(mkMsg .server "tools/list" true .objOk (.ver "2026-07-28" .missing .ok), quiet (.err 0 none))]
    = some (0, .incompleteMeta) := by decide
example : runMon sdk [(mkMsg .server "tools/list" true .objOk (.ver "2027-01-01" .ok .ok), quiet (.err 0 none))]
    = some (0, .unsupportedVersion) := by decide
example : runMon ["2025-11-25"] [(mkMsg .server "tools/list" true .objOk (.ver "2026-07-28" .ok .ok), quiet (.err (-32022) (some sdk)))]
    = some (0, .f34NotRefused) := by decide
example : runMon sdk [(mkMsg .server "ping" true .objOk (.ver "2026-07-28" .ok .ok), quiet .ok)] = some (0, .removedMethod) := by decide
example : runMon sdk [(mkMsg .server "server/discover" true, quiet (.err 0 none))] = some (0, .discoverLegacy) := by decide
/-- C02, server side: an unknown method answered -32600 instead of -32601 (after a handshake) -/
example : runMon sdk [(mkMsg .server "initialize" true, .seen { w := .ok, mw := true, uh := false, st := { init := some "a" } }),
    (mkMsg .server "foo/bar" true, .seen { w := .err (-32600) none, mw := false, uh := false, st := { init := some "a" } })]
    = some (1, .codeWrong (.err (-32601) none)) := by decide
/-- C02, client receiving side: an unknown method answered -32600 instead of -32601 -/
example : runMon sdk [(mkMsg .client "tools/list" true, quiet (.err (-32600) none))] = some (0, .codeWrong (.err (-32601) none)) := by decide
/-- C02, client receiving side: an id on a notification-only method answered -32601 instead of -32600 -/
example : runMon sdk [(mkMsg .client "notifications/message" true, quiet (.err (-32601) none))]
    = some (0, .codeWrong (.err (-32600) none)) := by decide
/-- C02, client receiving side: undecodable params answered with a result instead of -32602 -/
example : runMon sdk [(mkMsg .client "sampling/createMessage" true .objUndecodable, quiet .ok)]
    = some (0, .codeWrong (.err (-32602) none)) := by decide
example : runMon sdk [(mkMsg .client "elicitation/create" true .absent, .panic)] = some (0, .f13Elicit) := by decide
/-- the model's own run of a handshake, a listing, a new-protocol call and a removed method: silent -/
example : runMon sdk (histModel ⟨fun i => i.tag ++ "@" ++ i.ver, id, rfl⟩ (fresh sdk)
    [mkMsg .server "tools/list" true, mkMsg .server "initialize" true, mkMsg .server "notifications/initialized" false,
     mkMsg .server "tools/list" true, mkMsg .server "ping" true .objOk (.ver "2026-07-28" .ok .ok),
     mkMsg .client "foo/bar" true]) = none := by decide
end Witness

end Gate
