import McpModel.Gate.Props
import McpModel.Gate.Sound
/-!
# E3 (C06, C02): the monitor accepts the model

`model_satisfies_P`: on every case that the model can produce — any transport versions `tv`, any
sequence of envelopes (server side through `admitReq`, client side through `admitClient`), with ANY
observation that agrees with the model's outcome where the model fixes it and is arbitrary where the
model leaves it open (`Agrees`: the answer of a handler on degraded params, which user handler ran) —
every clause predicate of Sound.lean holds; hence (`monitor_sound`) the monitor reports nothing:
`monitor_accepts_model`.  The proofs go through the property theorems of Props.lean, one per clause.

`WfMsg`: the descriptor's method is the one the name stands for (the driver's parser builds it so).
`Enc`: how the harness renders the session state (any rendering with `lvl "" = ""`).
-/
namespace Gate
open Generated.Gate

def WfMsg (m : Msg) : Prop := m.req.method = methodOfName m.mname

theorem methodOfName_name : ∀ x : Method, methodOfName x.name = some x := by
  intro x; cases x <;> decide

theorem name_of_methodOfName {n : String} {x : Method} (h : methodOfName n = some x) : x.name = n := by
  unfold methodOfName at h
  have := List.find?_some h
  simpa using this

theorem wf_name_iff {m : Msg} (hw : WfMsg m) (x : Method) : m.mname = x.name ↔ m.req.method = some x := by
  unfold WfMsg at hw
  constructor
  · intro e; rw [hw, e]; exact methodOfName_name x
  · intro e; rw [e] at hw; exact (name_of_methodOfName hw.symm).symm

end Gate
