import McpModel.Gate.Model
/-!
Helper lemmas for E3 `gate`.

§1 are the *table obligations*: closed facts about the regenerated tables of `Generated.Gate`,
discharged by `decide`. They are the only place where the proofs look inside the tables, so a change
to the gate's case lists, to a method's flags or to a wrapped error code in the Go source re-opens
exactly these (and, through them, the property theorems).
§2 are one-step lemmas about `admitReq`.
-/
namespace Gate
open Generated.Gate

/-- The lifecycle methods: the only ones the gate may let through before `initialize` was accepted. -/
def lifecycle : List Method := [.initialize, .notifications_initialized, .ping]

/-- What the property allows to reach server-side handlers before `initialize` was accepted. -/
def allowedBeforeInit : List Method := lifecycle ++ [.notifications_cancelled]

/-- Methods the 2026-07-28 protocol removed (SEP-2575), as the property names them. -/
def specRemoved : List Method :=
  [.initialize, .ping, .notifications_initialized, .notifications_roots_list_changed, .logging_setLevel,
   .resources_subscribe, .resources_unsubscribe]

/-! ## §1 table obligations (regenerated tables; `decide`) -/

/-- Every method exempt from the not-initialized gate is a lifecycle method.
FALSE on the unrepaired tree (F4: `logging/setLevel`, `resources/subscribe`, `resources/unsubscribe`,
`notifications/roots/list_changed` sit in the exempt arm). -/
theorem tbl_exempt_lifecycle : exemptFromInitGate.all (fun m => lifecycle.contains m) = true := by decide

theorem tbl_specRemoved : specRemoved.all (fun m => removedInNewProtocol.contains m) = true := by decide

theorem tbl_gate_ping : ∀ b : Bool, gate b false (some .ping) = .pass := by decide
theorem tbl_gate_initialize_legacy : ∀ b : Bool, gate b false (some .initialize) = .pass := by decide
theorem tbl_gate_initialize_new : ∀ b : Bool, gate b true (some .initialize) = .refuse codeMethodNotFound := by decide
theorem tbl_gate_initialized_legacy : ∀ b : Bool, gate b false (some .notifications_initialized) = .pass := by decide
theorem tbl_gate_initialized_new : ∀ b : Bool, gate b true (some .notifications_initialized) = .refuse codeMethodNotFound := by decide
theorem tbl_gate_discover_legacy : ∀ b : Bool, gate b false (some .server_discover) = .refuse codeMethodNotFound := by decide
theorem tbl_gate_discover_new : ∀ b : Bool, gate b true (some .server_discover) = .pass := by decide

theorem tbl_flags_ping : lookup serverMethodInfos .ping = some { notification := false, missingParamsOK := true } := by decide
theorem tbl_flags_initialize :
    lookup serverMethodInfos .initialize = some { notification := false, missingParamsOK := false, customDecode := true } := by decide
theorem tbl_flags_initialized :
    lookup serverMethodInfos .notifications_initialized = some { notification := true, missingParamsOK := true } := by decide
theorem tbl_flags_discover :
    lookup serverMethodInfos .server_discover = some { notification := false, missingParamsOK := true } := by decide

/-- The codes each check answers with are the ones the properties name.
`initializeDecodeFailure` / `initializeNilParams` are FALSE on the unrepaired tree (F16). -/
theorem tbl_codes :
    codeMethodNotFound = -32601 ∧ codeInvalidParams = -32602 ∧ codeInvalidRequest = -32600 ∧
    codeUnsupportedProtocolVersion = -32022 ∧
    checkUnknownMethod = -32601 ∧ checkUnexpectedId = -32600 ∧ checkMissingId = -32600 ∧ checkMissingParams = -32600 ∧
    decodeFailure = -32602 ∧ decodeNilParams = -32600 ∧
    initializeDecodeFailure = -32602 ∧ initializeNilParams = -32600 ∧
    metaInvalidClientInfo = -32602 ∧ metaInvalidCapabilities = -32602 := by decide

/-- The model checks the per-request version against the transport's versions; so does the code
(FALSE on the unrepaired tree, F34: `handle` tests `supportedProtocolVersions`). -/
theorem tbl_per_request_transport : perRequestVersionsFromTransport = true := by decide

/-- The model's preempter looks at notifications only; so does the code (FALSE on the unrepaired tree, F17). -/
theorem tbl_preempt : preemptNotificationsOnly = true := by decide

/-! ## §2 one step of `admitReq` -/

theorem contains_of_all {l : List Method} {p : Method → Bool} (h : l.all p = true) {m : Method}
    (hm : l.contains m = true) : p m = true := by
  rw [List.all_eq_true] at h
  exact h m (by simpa using hm)

theorem reject_not_invoked (r : Req) (c : Int) (d : List String) (m : Method) (res : HRes) :
    reject r c d ≠ .invoked m res := by
  unfold reject; split <;> simp

theorem checkAndDecode_method {t : List (Method × Flags)} {r : Req} {m : Method}
    (h : checkAndDecode t r = .ok m) : r.method = some m := by
  unfold checkAndDecode at h
  split at h
  · simp at h
  · rename_i m' hm
    split at h
    · simp at h
    · (repeat' split at h) <;> simp_all

/-- The six ways through `admitReq`, in the order of the Go code. -/
theorem admit_cases (s : State) (r : Req) :
    (preemptDrops r = true ∧ admitReq s r = (s, .ignored)) ∨
    (preemptDrops r = false ∧ ∃ c, metaError r = some c ∧ admitReq s r = (s, reject r c)) ∨
    (preemptDrops r = false ∧ metaError r = none ∧ unsupportedVersion s.tv r = true ∧
      admitReq s r = (s, reject r codeUnsupportedProtocolVersion s.tv)) ∨
    (preemptDrops r = false ∧ metaError r = none ∧ unsupportedVersion s.tv r = false ∧
      ∃ c, gate s.init.isSome (usesNew r) r.method = .refuse c ∧ admitReq s r = (s, reject r c)) ∨
    (preemptDrops r = false ∧ metaError r = none ∧ unsupportedVersion s.tv r = false ∧
      gate s.init.isSome (usesNew r) r.method = .pass ∧ admitReq s r = dispatch s r) ∨
    (preemptDrops r = false ∧ metaError r = none ∧ unsupportedVersion s.tv r = false ∧
      gate s.init.isSome (usesNew r) r.method = .passAdopt ∧ admitReq s r = dispatch (adopt s r .passAdopt) r) := by
  unfold admitReq
  by_cases hp : preemptDrops r = true
  · simp [hp]
  · have hp' : preemptDrops r = false := by simpa using hp
    simp only [hp', Bool.false_eq_true, if_false]
    cases hm : metaError r with
    | some c => simp
    | none =>
      by_cases hu : unsupportedVersion s.tv r = true
      · simp [hu]
      · have hu' : unsupportedVersion s.tv r = false := by simpa using hu
        simp only [hu', Bool.false_eq_true, if_false]
        cases hg : gate s.init.isSome (usesNew r) r.method with
        | refuse c => simp
        | pass => simp
        | passAdopt => simp

theorem dispatch_cases (s : State) (r : Req) :
    (∃ c, checkAndDecode serverMethodInfos r = .error c ∧ dispatch s r = (s, reject r c)) ∨
    (∃ m, checkAndDecode serverMethodInfos r = .ok m ∧ r.method = some m ∧
      dispatch s r = ((serverHandler s r m).1, .invoked m (serverHandler s r m).2)) := by
  unfold dispatch
  cases h : checkAndDecode serverMethodInfos r with
  | error c => left; exact ⟨c, rfl, rfl⟩
  | ok m => right; exact ⟨m, rfl, checkAndDecode_method h, rfl⟩

/-- Legacy request, no `InitializeParams`: the gate lets only lifecycle methods through. -/
theorem gate_uninit_legacy {m : Option Method} (h : ∀ c, gate false false m ≠ .refuse c) :
    ∃ m', m = some m' ∧ lifecycle.contains m' = true := by
  cases m with
  | none => exact absurd rfl (h codeNone)
  | some m' =>
    refine ⟨m', rfl, ?_⟩
    unfold gate at h
    simp only at h
    by_cases hrem : m' ∈ removedInNewProtocol
    · by_cases hex : m' ∈ exemptFromInitGate
      · exact contains_of_all tbl_exempt_lifecycle (by simpa using hex)
      · have := h codeNone; simp [hrem, hex] at this
    · by_cases hno : m' ∈ newProtocolOnly
      · have := h codeMethodNotFound; simp [hrem, hno] at this
      · have := h codeNone; simp [hrem, hno] at this

theorem gate_legacy_never_adopts (b : Bool) (m : Option Method) : gate b false m ≠ .passAdopt := by
  unfold gate
  cases m with
  | none => cases b <;> simp
  | some m' =>
    simp only
    split
    · split
      · simp
      · split
        · simp
        · split <;> simp
    · split
      · simp
      · cases b <;> simp

/-- A legacy request that reaches a method handler on a session without `InitializeParams` is a
lifecycle request: this is the gate. -/
theorem invoked_uninit_legacy {s : State} {r : Req} {s' : State} {m : Method} {res : HRes}
    (h : admitReq s r = (s', .invoked m res)) (hleg : usesNew r = false) (hs : s.init = none) :
    lifecycle.contains m = true := by
  rcases admit_cases s r with ⟨_, e⟩ | ⟨_, c, _, e⟩ | ⟨_, _, _, e⟩ | ⟨_, _, _, c, _, e⟩ | ⟨_, _, _, hg, e⟩ | ⟨_, _, _, hg, e⟩
  · rw [e] at h; simp at h
  · rw [e] at h; simp [reject_not_invoked] at h
  · rw [e] at h; simp [reject_not_invoked] at h
  · rw [e] at h; simp [reject_not_invoked] at h
  · rw [e] at h
    rcases dispatch_cases s r with ⟨c, _, e'⟩ | ⟨m', _, hmeth, e'⟩
    · rw [e'] at h; simp [reject_not_invoked] at h
    · rw [e'] at h
      simp only [Prod.mk.injEq, Outcome.invoked.injEq] at h
      obtain ⟨_, hm, _⟩ := h
      subst hm
      rw [hleg, hs, hmeth] at hg
      simp only [Option.isSome_none] at hg
      obtain ⟨m'', h1, h2⟩ := gate_uninit_legacy (m := some m') (by intro c; rw [hg]; simp)
      cases h1; exact h2
  · exact absurd hg (by rw [hleg]; exact gate_legacy_never_adopts _ _)

theorem gate_init_never_adopts (b : Bool) (m : Option Method) : gate true b m ≠ .passAdopt := by
  unfold gate
  cases m with
  | none => cases b <;> simp
  | some m' =>
    simp only
    split
    · split
      · simp
      · split
        · simp
        · simp
    · split
      · split <;> simp
      · cases b <;> simp

/-- `validateRequestMeta` let a new-protocol request through: its metadata is complete. -/
theorem metaComplete_of_noError {r : Req} (hn : usesNew r = true) (he : metaError r = none) :
    metaComplete r = true := by
  unfold metaError at he
  unfold metaComplete
  cases hm : effMeta r with
  | none => unfold usesNew at hn; rw [hm] at hn; simp at hn
  | ver v caps ci =>
    rw [hm] at he
    simp only [hn, Bool.not_true, Bool.false_eq_true, if_false] at he
    cases caps <;> cases ci <;> simp_all

theorem metaError_of_incomplete {r : Req} (hn : usesNew r = true) (hc : metaComplete r = false) :
    metaError r = some codeInvalidParams := by
  unfold metaError
  unfold metaComplete at hc
  cases hm : effMeta r with
  | none => unfold usesNew at hn; rw [hm] at hn; simp at hn
  | ver v caps ci =>
    rw [hm] at hc
    simp only [hn, Bool.not_true, Bool.false_eq_true, if_false]
    have h1 : metaInvalidClientInfo = codeInvalidParams := by decide
    have h2 : metaInvalidCapabilities = codeInvalidParams := by decide
    cases caps <;> cases ci <;> simp_all

theorem metaError_legacy {r : Req} (hn : usesNew r = false) : metaError r = none := by
  unfold metaError
  cases hm : effMeta r with
  | none => rfl
  | ver v caps ci => simp [hn]

theorem unsupported_legacy {r : Req} (tv : List String) (hn : usesNew r = false) : unsupportedVersion tv r = false := by
  simp [unsupportedVersion, hn]

theorem preemptDrops_noId {r : Req} (h : preemptDrops r = true) : r.hasId = false := by
  unfold preemptDrops at h
  simp only [Bool.and_eq_true, Bool.not_eq_true'] at h
  exact h.1.2

theorem reject_noId {r : Req} (h : r.hasId = false) (c : Int) (d : List String) : reject r c d = .ignored := by
  simp [reject, h]

/-- `initialize`, in the three ways the code allows: the transport serves no version the handshake can
be negotiated to (-32022, nothing changes); duplicate (uncoded error, nothing changes); accepted. -/
theorem serverHandler_initialize (s : State) (r : Req) :
    (initVersion s.tv r.iver = "" ∧ serverHandler s r .initialize = (s, .failUnsupported s.tv)) ∨
    (initVersion s.tv r.iver ≠ "" ∧ s.init.isSome = true ∧ serverHandler s r .initialize = (s, .fail codeNone)) ∨
    (initVersion s.tv r.iver ≠ "" ∧ s.init = none ∧
      serverHandler s r .initialize = ({ s with init := some ⟨r.tag, r.iver⟩ }, .ok)) := by
  by_cases hv : initVersion s.tv r.iver = ""
  · left; exact ⟨hv, by simp [serverHandler, hv]⟩
  · right
    cases hs : s.init with
    | none => right; exact ⟨hv, rfl, by simp [serverHandler, hv, hs]⟩
    | some i => left; exact ⟨hv, rfl, by simp [serverHandler, hv, hs]⟩

/-- What the method functions do to `InitializeParams`. -/
theorem serverHandler_init (s : State) (r : Req) (m : Method) :
    (serverHandler s r m).1.init = s.init ∨
    (m = .initialize ∧ s.init = none ∧ (serverHandler s r m).2 = .ok) ∨
    m = .server_discover := by
  cases m
  case «initialize» =>
    rcases serverHandler_initialize s r with ⟨_, e⟩ | ⟨_, _, e⟩ | ⟨_, hs, e⟩
    · left; rw [e]
    · left; rw [e]
    · right; left; exact ⟨rfl, hs, by rw [e]⟩
  case server_discover => right; right; rfl
  case notifications_initialized =>
    left; simp only [serverHandler]
    split
    · rfl
    · split <;> rfl
  all_goals (left; simp [serverHandler])

/-- No method function touches `supportedVersions`. -/
theorem serverHandler_tv (s : State) (r : Req) (m : Method) : (serverHandler s r m).1.tv = s.tv := by
  cases m
  case «initialize» =>
    rcases serverHandler_initialize s r with ⟨_, e⟩ | ⟨_, _, e⟩ | ⟨_, _, e⟩ <;> rw [e]
  case server_discover => simp only [serverHandler]; split <;> rfl
  case notifications_initialized =>
    simp only [serverHandler]
    split
    · rfl
    · split <;> rfl
  all_goals simp [serverHandler]

/-- `initialize` on a session that has `InitializeParams`: refused, one way or the other. -/
theorem serverHandler_initialize_again (s : State) (r : Req) (h : s.init.isSome = true) :
    serverHandler s r .initialize = (s, .fail codeNone) ∨
    serverHandler s r .initialize = (s, .failUnsupported s.tv) := by
  rcases serverHandler_initialize s r with ⟨_, e⟩ | ⟨_, _, e⟩ | ⟨_, hs, _⟩
  · right; exact e
  · left; exact e
  · rw [hs] at h; cases h

theorem serverHandler_initialized_bad (s : State) (r : Req) (h : s.init = none ∨ s.initd = true) :
    serverHandler s r .notifications_initialized = (s, .fail codeNone) := by
  simp only [serverHandler]
  rcases h with h | h
  · simp [h]
  · split
    · rfl
    · simp

/-- No method function unsets `InitializedParams`. -/
theorem serverHandler_initd_mono (s : State) (r : Req) (m : Method) (h : s.initd = true) :
    (serverHandler s r m).1.initd = true := by
  cases m <;> simp only [serverHandler] <;> (repeat' split) <;> simp_all

/-- An accepted `initialized` notification records `InitializedParams`. -/
theorem serverHandler_initialized_ok (s : State) (r : Req)
    (h : (serverHandler s r .notifications_initialized).2 = .ok) :
    (serverHandler s r .notifications_initialized).1.initd = true := by
  simp only [serverHandler] at h ⊢
  split
  · simp_all
  · split <;> simp_all

/-- `InitializedParams` is never unset, whatever the envelope. -/
theorem admit_initd_mono (s : State) (r : Req) (h : s.initd = true) : (admitReq s r).1.initd = true := by
  rcases admit_cases s r with ⟨_, e⟩ | ⟨_, c, _, e⟩ | ⟨_, _, _, e⟩ | ⟨_, _, _, c, _, e⟩ | ⟨_, _, _, _, e⟩ | ⟨_, _, _, _, e⟩
  · rw [e]; exact h
  · rw [e]; exact h
  · rw [e]; exact h
  · rw [e]; exact h
  · rw [e]
    rcases dispatch_cases s r with ⟨c, _, e'⟩ | ⟨m, _, _, e'⟩
    · rw [e']; exact h
    · rw [e']; exact serverHandler_initd_mono s r m h
  · rw [e]
    have h' : (adopt s r .passAdopt).initd = true := by simpa [adopt] using h
    rcases dispatch_cases (adopt s r .passAdopt) r with ⟨c, _, e'⟩ | ⟨m, _, _, e'⟩
    · rw [e']; exact h'
    · rw [e']; exact serverHandler_initd_mono _ r m h'

/-- The `InitializedHandler` runs only in the step that records `InitializedParams`. -/
theorem admit_initialized_ok (s : State) (r : Req)
    (hi : (admitReq s r).2 = .invoked .notifications_initialized .ok) : (admitReq s r).1.initd = true := by
  rcases admit_cases s r with ⟨_, e⟩ | ⟨_, c, _, e⟩ | ⟨_, _, _, e⟩ | ⟨_, _, _, c, _, e⟩ | ⟨_, _, _, _, e⟩ | ⟨_, _, _, _, e⟩
  · rw [e] at hi; cases hi
  · rw [e] at hi; exact absurd hi (reject_not_invoked _ _ _ _ _)
  · rw [e] at hi; exact absurd hi (reject_not_invoked _ _ _ _ _)
  · rw [e] at hi; exact absurd hi (reject_not_invoked _ _ _ _ _)
  · rw [e] at hi ⊢
    rcases dispatch_cases s r with ⟨c, _, e'⟩ | ⟨m, _, _, e'⟩
    · rw [e'] at hi; exact absurd hi (reject_not_invoked _ _ _ _ _)
    · rw [e'] at hi ⊢
      simp only [Outcome.invoked.injEq] at hi
      obtain ⟨rfl, h2⟩ := hi
      exact serverHandler_initialized_ok _ r h2
  · rw [e] at hi ⊢
    rcases dispatch_cases (adopt s r .passAdopt) r with ⟨c, _, e'⟩ | ⟨m, _, _, e'⟩
    · rw [e'] at hi; exact absurd hi (reject_not_invoked _ _ _ _ _)
    · rw [e'] at hi ⊢
      simp only [Outcome.invoked.injEq] at hi
      obtain ⟨rfl, h2⟩ := hi
      exact serverHandler_initialized_ok _ r h2

/-! ## §3 the transport's versions (`ServerSession.supportedVersions`) -/

/-- No request changes `supportedVersions`. -/
theorem admit_tv (s : State) (r : Req) : (admitReq s r).1.tv = s.tv := by
  rcases admit_cases s r with ⟨_, e⟩ | ⟨_, c, _, e⟩ | ⟨_, _, _, e⟩ | ⟨_, _, _, c, _, e⟩ | ⟨_, _, _, _, e⟩ | ⟨_, _, _, _, e⟩
  · rw [e]
  · rw [e]
  · rw [e]
  · rw [e]
  · rw [e]
    rcases dispatch_cases s r with ⟨c, _, e'⟩ | ⟨m, _, _, e'⟩ <;> rw [e']
    exact serverHandler_tv s r m
  · rw [e]
    rcases dispatch_cases (adopt s r .passAdopt) r with ⟨c, _, e'⟩ | ⟨m, _, _, e'⟩ <;> rw [e']
    · rfl
    · rw [serverHandler_tv]; rfl

/-- The regenerated tables of the negotiate engine (`Generated.Negotiate`, translated from
`mcp/shared.go`) and of this engine describe the same version list and threshold. -/
theorem tbl_versions_agree :
    Generated.Negotiate.supportedProtocolVersions = supportedProtocolVersions ∧
    Generated.Negotiate.protocolVersion20260728 = newProtocolThreshold ∧
    Generated.Negotiate.protocolVersion20251125 = latestLegacyProtocolVersion := by decide

/-- the fallback of `negotiatedVersion` is a supported legacy version -/
theorem tbl_fallback_legacy :
    latestLegacyProtocolVersion ∈ supportedProtocolVersions ∧ latestLegacyProtocolVersion < newProtocolThreshold := by
  decide

theorem tbl_empty_not_supported : "" ∉ supportedProtocolVersions := by decide

/-- The transport serves a version the `initialize` handshake can be negotiated to. -/
def ServesLegacy (tv : List String) : Prop :=
  ∃ v ∈ tv, v ∈ supportedProtocolVersions ∧ v < newProtocolThreshold

/-- `negotiatedVersion` always yields a supported legacy version. -/
theorem negotiatedVersion_legacy (iver : String) :
    Generated.Negotiate.negotiatedVersion iver ∈ supportedProtocolVersions ∧
    Generated.Negotiate.negotiatedVersion iver < newProtocolThreshold := by
  obtain ⟨e1, e2, e3⟩ := tbl_versions_agree
  unfold Generated.Negotiate.negotiatedVersion
  rw [e1, e2, e3]
  split
  · rename_i h
    simp only [Bool.and_eq_true, List.contains_iff_mem, decide_eq_true_eq] at h
    exact h
  · exact tbl_fallback_legacy

/-- `initialize` has no version to answer with exactly when the transport serves no legacy version. -/
theorem initVersion_eq_empty_iff (tv : List String) (iver : String) :
    initVersion tv iver = "" ↔ ¬ ServesLegacy tv := by
  obtain ⟨e1, e2, _⟩ := tbl_versions_agree
  obtain ⟨hn1, hn2⟩ := negotiatedVersion_legacy iver
  unfold initVersion Generated.Negotiate.legacyVersionFor
  rw [e1, e2]
  generalize Generated.Negotiate.negotiatedVersion iver = nv at hn1 hn2
  constructor
  · intro h ⟨w, hw, hws, hwl⟩
    by_cases hc : tv.contains nv = true
    · rw [if_pos hc] at h
      exact tbl_empty_not_supported (h ▸ hn1)
    · rw [if_neg hc] at h
      generalize hf : supportedProtocolVersions.find?
          (fun v => decide (v < newProtocolThreshold) && tv.contains v) = o at h
      cases o with
      | none =>
        rw [List.find?_eq_none] at hf
        have := hf w hws
        simp [hwl, hw] at this
      | some x =>
        have := List.mem_of_find?_eq_some hf
        exact tbl_empty_not_supported ((show x = "" from h) ▸ this)
  · intro h
    by_cases hc : tv.contains nv = true
    · exact absurd ⟨nv, by simpa using hc, hn1, hn2⟩ h
    · rw [if_neg hc]
      generalize hf : supportedProtocolVersions.find?
          (fun v => decide (v < newProtocolThreshold) && tv.contains v) = o
      cases o with
      | none => rfl
      | some x =>
        exfalso
        have h1 := List.find?_some hf
        have h2 := List.mem_of_find?_eq_some hf
        simp only [Bool.and_eq_true, decide_eq_true_eq, List.contains_iff_mem] at h1
        exact h ⟨x, h1.2, h2, h1.1⟩

/-- What `initialize` answers with, when it answers, is a legacy version the transport serves. -/
theorem initVersion_served (tv : List String) (iver : String) (h : initVersion tv iver ≠ "") :
    initVersion tv iver ∈ tv ∧ initVersion tv iver ∈ supportedProtocolVersions ∧
    initVersion tv iver < newProtocolThreshold := by
  obtain ⟨e1, e2, _⟩ := tbl_versions_agree
  obtain ⟨hn1, hn2⟩ := negotiatedVersion_legacy iver
  unfold initVersion Generated.Negotiate.legacyVersionFor at h ⊢
  rw [e1, e2] at h ⊢
  generalize Generated.Negotiate.negotiatedVersion iver = nv at hn1 hn2 h ⊢
  by_cases hc : tv.contains nv = true
  · rw [if_pos hc]; exact ⟨by simpa using hc, hn1, hn2⟩
  · rw [if_neg hc] at h ⊢
    generalize hf : supportedProtocolVersions.find?
        (fun v => decide (v < newProtocolThreshold) && tv.contains v) = o at h ⊢
    cases o with
    | none => exact absurd rfl h
    | some x =>
      have h1 := List.find?_some hf
      have h2 := List.mem_of_find?_eq_some hf
      simp only [Bool.and_eq_true, decide_eq_true_eq, List.contains_iff_mem] at h1
      exact ⟨h1.2, h2, h1.1⟩

end Gate
