import McpModel.Gate.Lemmas
/-!
# C06 (and the error-code part of C02) — property theorems for request admission

Model: `Gate.admitReq : State → Req → State × Outcome` (server), `Gate.admitClient` (client), over the
tables regenerated from the Go source (`Generated.Gate`). All theorems quantify over ALL session
states / ALL request histories (`List Req`, any length) and ALL request descriptors, including every
string for the versions and client names. Nothing is bounded.

The tables enter through the closed `tbl_*` obligations of `Lemmas.lean` (discharged by `decide`);
a change of the gate's case lists, of a flag or of a wrapped error code re-opens them.

Precedence of refusals, as the code has it and as the theorems state it: (1) the cancellation
preempter, (2) per-request metadata (-32602), (3) unsupported version (-32022), (4) the lifecycle gate
(method-not-found for removed / new-only methods; the *uncoded* "invalid during session
initialization" error for everything else before `initialize`), (5) unknown method (-32601), id on a
notification / no id on a call / missing params (-32600), undecodable params (-32602).
-/
namespace Gate
open Generated.Gate

/-! ## histories -/

/-- entry `e` of a trace is an accepted `initialize` -/
def IsAccept (e : State × Req × Outcome) : Prop :=
  e.2.1.method = some .initialize ∧ e.2.2 = .invoked .initialize .ok

/-- the request carries complete per-request metadata naming a 2026-07-28+ version that the session's
transport serves (`tv` = `ServerSession.supportedVersions`); for the `server/discover` probe: one that
the SDK knows (`acceptedVersions`) -/
def CarriesValidMeta (tv : List String) (r : Req) : Prop :=
  usesNew r = true ∧ metaComplete r = true ∧ (acceptedVersions tv r).contains (metaVersion r) = true

theorem trace_length (s : State) (rs : List Req) : (trace s rs).length = rs.length := by
  induction rs generalizing s with
  | nil => rfl
  | cons r rs ih => simp [trace, ih]

/-- One step, any request: `InitializeParams` stays, or an `initialize` was accepted on a fresh
session, or the request carried complete supported metadata. -/
theorem init_step (s : State) (r : Req) :
    (admitReq s r).1.init = s.init ∨
    (s.init = none ∧ r.method = some .initialize ∧ (admitReq s r).2 = .invoked .initialize .ok) ∨
    CarriesValidMeta s.tv r := by
  have hvalid : metaError r = none → unsupportedVersion s.tv r = false → usesNew r = true → CarriesValidMeta s.tv r := by
    intro he hu hn
    refine ⟨hn, metaComplete_of_noError hn he, ?_⟩
    simpa [unsupportedVersion, hn] using hu
  rcases admit_cases s r with ⟨_, e⟩ | ⟨_, c, _, e⟩ | ⟨_, _, _, e⟩ | ⟨_, _, _, c, _, e⟩ | ⟨_, he, hu, hg, e⟩ | ⟨_, he, hu, hg, e⟩
  · left; rw [e]
  · left; rw [e]
  · left; rw [e]
  · left; rw [e]
  · rw [e]
    rcases dispatch_cases s r with ⟨c, _, e'⟩ | ⟨m, _, hmeth, e'⟩
    · left; rw [e']
    · rw [e']
      rcases serverHandler_init s r m with h | ⟨hm, hs, hres⟩ | hm
      · left; exact h
      · right; left; subst hm; exact ⟨hs, hmeth, by rw [hres]⟩
      · -- discover passed the gate: the request uses the new protocol
        right; right
        cases hn : usesNew r with
        | true => exact hvalid he hu hn
        | false =>
          rw [hn, hmeth, hm] at hg
          rw [tbl_gate_discover_legacy] at hg
          cases hg
  · right; right
    cases hn : usesNew r with
    | true => exact hvalid he hu hn
    | false => rw [hn] at hg; exact absurd hg (gate_legacy_never_adopts _ _)

/-- general form of the gate: whatever reaches a method handler either is a lifecycle method, or
finds `InitializeParams` set, or carries complete supported per-request metadata itself. -/
theorem invoked_step {s : State} {r : Req} {m : Method} {res : HRes} (h : (admitReq s r).2 = .invoked m res) :
    lifecycle.contains m = true ∨ s.init.isSome = true ∨ CarriesValidMeta s.tv r := by
  cases hn : usesNew r with
  | false =>
    cases hs : s.init with
    | none => left; exact invoked_uninit_legacy (s' := (admitReq s r).1) (by rw [← h]) hn hs
    | some i => right; left; rfl
  | true =>
    right; right
    rcases admit_cases s r with ⟨_, e⟩ | ⟨_, c, _, e⟩ | ⟨_, _, _, e⟩ | ⟨_, _, _, c, _, e⟩ | ⟨_, he, hu, _, _⟩ | ⟨_, he, hu, _, _⟩
    · rw [e] at h; simp at h
    · rw [e] at h; simp [reject_not_invoked] at h
    · rw [e] at h; simp [reject_not_invoked] at h
    · rw [e] at h; simp [reject_not_invoked] at h
    · exact ⟨hn, metaComplete_of_noError hn he, by simpa [unsupportedVersion, hn] using hu⟩
    · exact ⟨hn, metaComplete_of_noError hn he, by simpa [unsupportedVersion, hn] using hu⟩

/-- Invariant of a history started in ANY state `s`: an entry that reached a method handler is a
lifecycle method, or `s` already had `InitializeParams`, or an earlier entry is an accepted
`initialize`, or this or an earlier entry carried complete supported metadata. -/
theorem gate_invariant_from (s : State) (rs : List Req) (i : Nat) (hi : i < (trace s rs).length)
    (m : Method) (res : HRes) (h : ((trace s rs)[i]).2.2 = .invoked m res) :
    lifecycle.contains m = true ∨ s.init.isSome = true ∨
    (∃ j, ∃ hj : j < (trace s rs).length, j < i ∧ IsAccept ((trace s rs)[j])) ∨
    (∃ j, ∃ hj : j < (trace s rs).length, j ≤ i ∧ CarriesValidMeta s.tv ((trace s rs)[j]).2.1) := by
  induction rs generalizing s i with
  | nil => simp [trace] at hi
  | cons r rs ih =>
    cases i with
    | zero =>
      simp only [trace, List.getElem_cons_zero] at h
      rcases invoked_step h with h1 | h1 | h1
      · left; exact h1
      · right; left; exact h1
      · right; right; right
        exact ⟨0, by simp [trace], Nat.le_refl 0, by simpa [trace] using h1⟩
    | succ i =>
      have hi' : i < (trace (admitReq s r).1 rs).length := by simpa [trace] using hi
      have h' : ((trace (admitReq s r).1 rs)[i]).2.2 = .invoked m res := by simpa [trace] using h
      rcases ih (admitReq s r).1 i hi' h' with h1 | h1 | ⟨j, hj, hji, hacc⟩ | ⟨j, hj, hji, hmeta⟩
      · left; exact h1
      · -- the state after the first step has InitializeParams: where did it come from?
        rcases init_step s r with h2 | ⟨_, hm, ho⟩ | h2
        · right; left; rw [← h2]; exact h1
        · right; right; left
          exact ⟨0, by simp [trace], Nat.succ_pos i, by simpa [trace, IsAccept] using ⟨hm, ho⟩⟩
        · right; right; right
          exact ⟨0, by simp [trace], Nat.zero_le _, by simpa [trace] using h2⟩
      · right; right; left
        exact ⟨j + 1, by simpa [trace] using hj, Nat.succ_lt_succ hji, by simpa [trace] using hacc⟩
      · right; right; right
        rw [admit_tv] at hmeta
        exact ⟨j + 1, by simpa [trace] using hj, Nat.succ_le_succ hji, by simpa [trace] using hmeta⟩

/-! ## C06 -/

/-- **C06, legacy sessions.** For every transport version set `tv` (= `ServerSession.supportedVersions`,
whatever the transport's `SupportsProtocolVersion` admits) and every history of legacy requests (no
request carries a per-request `protocolVersion` at or above 2026-07-28) on the fresh session
`Server.Connect` returns, at every position: a request reaches a
server-side method handler only if it is `initialize`, `notifications/initialized`, `ping` or
`notifications/cancelled`, or an earlier request of the history is an accepted `initialize`. -/
theorem gate_invariant (tv : List String) (rs : List Req) (hleg : ∀ r ∈ rs, usesNew r = false)
    (i : Nat) (hi : i < (trace (fresh tv) rs).length) (m : Method) (res : HRes)
    (h : ((trace (fresh tv) rs)[i]).2.2 = .invoked m res) :
    m ∈ allowedBeforeInit ∨
    ∃ j, ∃ hj : j < (trace (fresh tv) rs).length, j < i ∧ IsAccept ((trace (fresh tv) rs)[j]) := by
  have hreq : ∀ s (rs : List Req) (j : Nat) (hj : j < (trace s rs).length), ((trace s rs)[j]).2.1 ∈ rs := by
    intro s rs
    induction rs generalizing s with
    | nil => intro j hj; simp [trace] at hj
    | cons r rs ih =>
      intro j hj
      cases j with
      | zero => simp [trace]
      | succ j =>
        have := ih (admitReq s r).1 j (by simpa [trace] using hj)
        simp only [trace, List.getElem_cons_succ]
        exact List.mem_cons_of_mem _ this
  rcases gate_invariant_from (fresh tv) rs i hi m res h with h1 | h1 | h1 | ⟨j, hj, _, hmeta⟩
  · left
    have : m ∈ lifecycle := by simpa using h1
    exact List.mem_append_left _ this
  · simp [fresh] at h1
  · right; exact h1
  · exact absurd hmeta.1 (by rw [hleg _ (hreq (fresh tv) rs j hj)]; simp)

/-- **C06, all sessions.** Without the legacy hypothesis: whatever reaches a method handler is one of
the four lifecycle/cancellation methods, or follows an accepted `initialize`, or it — or an earlier
request of the session — carried complete per-request metadata naming a supported version
("served without a handshake only if that metadata is complete and names a supported version"). -/
theorem gate_invariant_general (tv : List String) (rs : List Req) (i : Nat)
    (hi : i < (trace (fresh tv) rs).length) (m : Method) (res : HRes)
    (h : ((trace (fresh tv) rs)[i]).2.2 = .invoked m res) :
    m ∈ allowedBeforeInit ∨
    (∃ j, ∃ hj : j < (trace (fresh tv) rs).length, j < i ∧ IsAccept ((trace (fresh tv) rs)[j])) ∨
    (∃ j, ∃ hj : j < (trace (fresh tv) rs).length, j ≤ i ∧ CarriesValidMeta tv ((trace (fresh tv) rs)[j]).2.1) := by
  rcases gate_invariant_from (fresh tv) rs i hi m res h with h1 | h1 | h1 | h1
  · left
    have : m ∈ lifecycle := by simpa using h1
    exact List.mem_append_left _ this
  · simp [fresh] at h1
  · right; left; exact h1
  · right; right; exact h1

/-- non-vacuity: handshake, then a feature call is served; without the handshake it is refused. -/
example :
    let init : Req := { method := some .initialize, hasId := true, params := .objOk, tag := "c", iver := "2025-06-18" }
    let list : Req := { method := some .tools_list, hasId := true, params := .absent }
    (trace {} [init, list]).map (·.2.2) = [.invoked .initialize .ok, .invoked .tools_list .ok] ∧
    (trace {} [list, init]).map (·.2.2) = [.rejected codeNone [], .invoked .initialize .ok] := by decide

/-- Whatever an `initialize` request (any params, any metadata, any transport) does in any state: it is
accepted, or the state is exactly what it was and the outcome is one of the refusals the code has. -/
theorem initialize_step (s : State) (r : Req) (hm : r.method = some .initialize) :
    (s.init = none ∧ initVersion s.tv r.iver ≠ "" ∧ (admitReq s r).2 = .invoked .initialize .ok) ∨
    ((admitReq s r).1 = s ∧ ((∃ c d, (admitReq s r).2 = reject r c d) ∨ (admitReq s r).2 = .ignored ∨
      (admitReq s r).2 = .invoked .initialize (.fail codeNone) ∨
      (admitReq s r).2 = .invoked .initialize (.failUnsupported s.tv))) := by
  rcases admit_cases s r with ⟨_, e⟩ | ⟨_, c, _, e⟩ | ⟨_, _, _, e⟩ | ⟨_, _, _, c, _, e⟩ | ⟨_, _, _, hg, e⟩ | ⟨_, _, _, hg, e⟩
  · right; rw [e]; exact ⟨rfl, Or.inr (Or.inl rfl)⟩
  · right; rw [e]; exact ⟨rfl, Or.inl ⟨c, [], rfl⟩⟩
  · right; rw [e]; exact ⟨rfl, Or.inl ⟨_, _, rfl⟩⟩
  · right; rw [e]; exact ⟨rfl, Or.inl ⟨c, [], rfl⟩⟩
  · rw [e]
    rcases dispatch_cases s r with ⟨c, _, e'⟩ | ⟨m, _, hmeth, e'⟩
    · right; rw [e']; exact ⟨rfl, Or.inl ⟨c, [], rfl⟩⟩
    · rw [hm] at hmeth; cases hmeth
      rw [e']
      rcases serverHandler_initialize s r with ⟨_, e2⟩ | ⟨_, _, e2⟩ | ⟨hv, hs, e2⟩ <;> rw [e2]
      · right; exact ⟨rfl, Or.inr (Or.inr (Or.inr rfl))⟩
      · right; exact ⟨rfl, Or.inr (Or.inr (Or.inl rfl))⟩
      · left; exact ⟨hs, hv, rfl⟩
  · exfalso
    rw [hm] at hg
    cases hn : usesNew r with
    | false => rw [hn] at hg; exact gate_legacy_never_adopts _ _ hg
    | true => rw [hn, tbl_gate_initialize_new] at hg; cases hg

/-- **C06 (rejected initialize).** An `initialize` that is not accepted — whichever way it fails:
unsupported by the transport (-32022), params absent / null / undecodable, an id missing, sent under
the new protocol, duplicate — leaves the session state (InitializeParams, InitializedParams, log level)
exactly as it was. For every state, every transport version set, every request descriptor. -/
theorem rejected_initialize_changes_nothing (s : State) (r : Req) (hm : r.method = some .initialize)
    (hrej : (admitReq s r).2 ≠ .invoked .initialize .ok) : (admitReq s r).1 = s := by
  rcases initialize_step s r hm with ⟨_, _, h⟩ | ⟨h, _⟩
  · exact absurd h hrej
  · exact h

/-- ... in terms of the wire: an `initialize` that is not answered with a result changes nothing. -/
theorem initialize_without_result_changes_nothing (s : State) (r : Req) (hm : r.method = some .initialize)
    (hw : answer r (admitReq s r).2 ≠ .result) : (admitReq s r).1 = s := by
  rcases initialize_step s r hm with ⟨_, _, h⟩ | ⟨h, _⟩
  · -- accepted: then the request is a call (checkRequest refuses `initialize` without id) and gets a result
    exfalso
    have hid : r.hasId = true := by
      cases hid : r.hasId with
      | true => rfl
      | false =>
        exfalso
        rcases admit_cases s r with ⟨_, e⟩ | ⟨_, c, _, e⟩ | ⟨_, _, _, e⟩ | ⟨_, _, _, c, _, e⟩ | ⟨_, _, _, _, e⟩ | ⟨_, _, _, _, e⟩
        · rw [e] at h; cases h
        · rw [e, reject_noId hid] at h; cases h
        · rw [e, reject_noId hid] at h; cases h
        · rw [e, reject_noId hid] at h; cases h
        · rw [e] at h
          unfold dispatch checkAndDecode at h
          simp [hm, tbl_flags_initialize, hid, reject] at h
        · rw [e] at h
          unfold dispatch checkAndDecode at h
          simp [hm, tbl_flags_initialize, hid, reject] at h
    rw [h] at hw
    simp [answer, hid] at hw
  · exact h

/-- **C06.** A second `initialize` (any params, any metadata) is refused and leaves the session state
exactly as it was. -/
theorem second_initialize_rejected_state_unchanged (s : State) (r : Req)
    (hm : r.method = some .initialize) (hs : s.init.isSome = true) :
    (admitReq s r).1 = s ∧ (admitReq s r).2 ≠ .invoked .initialize .ok ∧ answer r (admitReq s r).2 ≠ .result := by
  have key : (admitReq s r).1 = s ∧ ((∃ c d, (admitReq s r).2 = reject r c d) ∨ (admitReq s r).2 = .ignored ∨
      (admitReq s r).2 = .invoked .initialize (.fail codeNone) ∨
      (admitReq s r).2 = .invoked .initialize (.failUnsupported s.tv)) := by
    rcases initialize_step s r hm with ⟨h, _⟩ | h
    · rw [h] at hs; cases hs
    · exact h
  refine ⟨key.1, ?_, ?_⟩
  · rcases key.2 with ⟨c, d, e⟩ | e | e | e <;> rw [e]
    · exact reject_not_invoked r c d _ _
    · simp
    · simp
    · simp
  · rcases key.2 with ⟨c, d, e⟩ | e | e | e <;> rw [e]
    · unfold reject; cases r.hasId <;> simp [answer]
    · simp [answer]
    · cases hid : r.hasId <;> simp [answer, hid]
    · cases hid : r.hasId <;> simp [answer, hid]

example : admitReq { init := some ⟨"a", "2025-06-18"⟩ } { method := some .initialize, hasId := true, params := .objOk, tag := "b", iver := "2024-11-05" }
    = ({ init := some ⟨"a", "2025-06-18"⟩ }, .invoked .initialize (.fail codeNone)) := by decide

/-! ### histories with failing `initialize`s, and the transport's version set -/

theorem trace_append (s : State) (pre post : List Req) :
    trace s (pre ++ post) = trace s pre ++ trace (finalState s pre) post := by
  induction pre generalizing s with
  | nil => rfl
  | cons r pre ih => simp [trace, finalState, ih]

theorem finalState_append (s : State) (pre post : List Req) :
    finalState s (pre ++ post) = finalState (finalState s pre) post := by
  induction pre generalizing s with
  | nil => rfl
  | cons r pre ih => simp [finalState, ih]

/-- Every entry of a trace is one step of `admitReq` from the state it records, and that state has the
transport version set the history started with. -/
theorem trace_entry (s : State) (rs : List Req) (j : Nat) (hj : j < (trace s rs).length) :
    ((trace s rs)[j]).2.2 = (admitReq ((trace s rs)[j]).1 ((trace s rs)[j]).2.1).2 ∧
    ((trace s rs)[j]).1.tv = s.tv := by
  induction rs generalizing s j with
  | nil => simp [trace] at hj
  | cons r rs ih =>
    cases j with
    | zero => simp [trace]
    | succ j =>
      have hj' : j < (trace (admitReq s r).1 rs).length := by simpa [trace] using hj
      have := ih (admitReq s r).1 j hj'
      simp only [trace, List.getElem_cons_succ]
      exact ⟨this.1, by rw [this.2, admit_tv]⟩

/-- **C06 (model of the transport).** `supportedVersions` is fixed by `Server.Connect`: no history
changes it. -/
theorem tv_unchanged (s : State) (rs : List Req) : (finalState s rs).tv = s.tv := by
  induction rs generalizing s with
  | nil => rfl
  | cons r rs ih => simp [finalState, ih, admit_tv]

/-- **C06 (rejected initialize, all histories).** A rejected `initialize` can be erased from any
history: at whatever point `pre` of whatever history it arrives and however it fails, everything after
it — every later outcome and every later state — is what it would have been had it never been sent. -/
theorem rejected_initialize_erasable (s : State) (pre post : List Req) (r : Req)
    (hm : r.method = some .initialize)
    (hrej : (admitReq (finalState s pre) r).2 ≠ .invoked .initialize .ok) :
    trace s (pre ++ r :: post) =
      trace s pre ++ (finalState s pre, r, (admitReq (finalState s pre) r).2) :: trace (finalState s pre) post ∧
    finalState s (pre ++ r :: post) = finalState s (pre ++ post) := by
  have h := rejected_initialize_changes_nothing (finalState s pre) r hm hrej
  constructor
  · rw [trace_append]; simp [trace, h]
  · rw [finalState_append, finalState_append]; simp [finalState, h]

/-- **C06 (failing initialize).** On a transport that serves no legacy version (e.g. one that declares
only 2026-07-28, or nothing at all) no `initialize` is ever accepted, in any state, whatever it carries;
the state is unchanged. -/
theorem initialize_refused_without_legacy_version (s : State) (r : Req) (hm : r.method = some .initialize)
    (hno : ¬ ServesLegacy s.tv) :
    (admitReq s r).1 = s ∧ (admitReq s r).2 ≠ .invoked .initialize .ok := by
  rcases initialize_step s r hm with ⟨_, hv, _⟩ | ⟨h, ho⟩
  · exact absurd ((initVersion_eq_empty_iff _ _).2 hno) hv
  · refine ⟨h, ?_⟩
    rcases ho with ⟨c, d, e⟩ | e | e | e <;> rw [e]
    · exact reject_not_invoked r c d _ _
    · simp
    · simp
    · simp

/-- **C06 (failing initialize).** The three outcomes of a well-formed legacy `initialize` call, exactly:
-32022 carrying the transport's versions when the transport serves no legacy version (checked FIRST:
also on a session that already has InitializeParams); the uncoded duplicate error when it does and
the session has InitializeParams; acceptance — the only case in which the state changes — otherwise. -/
theorem initialize_outcome (s : State) (r : Req) (hm : r.method = some .initialize) (hid : r.hasId = true)
    (hleg : usesNew r = false) (hp : r.params = .objOk ∨ r.params = .objDegraded) :
    (¬ ServesLegacy s.tv → admitReq s r = (s, .invoked .initialize (.failUnsupported s.tv)) ∧
        answer r (admitReq s r).2 = .error (-32022) s.tv) ∧
    (ServesLegacy s.tv → s.init.isSome = true → admitReq s r = (s, .invoked .initialize (.fail codeNone))) ∧
    (ServesLegacy s.tv → s.init = none →
        admitReq s r = ({ s with init := some ⟨r.tag, r.iver⟩ }, .invoked .initialize .ok)) := by
  have hcode : codeUnsupportedProtocolVersion = -32022 := tbl_codes.2.2.2.1
  have hpre : preemptDrops r = false := by simp [preemptDrops, hm]
  have hcd : checkAndDecode serverMethodInfos r = .ok .initialize := by
    unfold checkAndDecode
    simp only [hm, tbl_flags_initialize, hid]
    rcases hp with hp | hp <;> simp [hp]
  have e : admitReq s r = ((serverHandler s r .initialize).1, .invoked .initialize (serverHandler s r .initialize).2) := by
    rcases admit_cases s r with ⟨h, _⟩ | ⟨_, c, h, _⟩ | ⟨_, _, h, _⟩ | ⟨_, _, _, c, hg, _⟩ | ⟨_, _, _, _, e⟩ | ⟨_, _, _, hg, _⟩
    · rw [hpre] at h; cases h
    · rw [metaError_legacy hleg] at h; cases h
    · rw [unsupported_legacy _ hleg] at h; cases h
    · rw [hleg, hm, tbl_gate_initialize_legacy] at hg; cases hg
    · rw [e]; unfold dispatch; rw [hcd]
    · rw [hleg] at hg; exact absurd hg (gate_legacy_never_adopts _ _)
  refine ⟨?_, ?_, ?_⟩
  · intro hno
    have hv := (initVersion_eq_empty_iff s.tv r.iver).2 hno
    rcases serverHandler_initialize s r with ⟨_, e2⟩ | ⟨hv', _, _⟩ | ⟨hv', _, _⟩
    · rw [e, e2]; simp [answer, hid, hcode]
    · exact absurd hv hv'
    · exact absurd hv hv'
  · intro hyes hs
    have hv : initVersion s.tv r.iver ≠ "" := fun h => (initVersion_eq_empty_iff _ _).1 h hyes
    rcases serverHandler_initialize s r with ⟨hv', _⟩ | ⟨_, _, e2⟩ | ⟨_, hs', _⟩
    · exact absurd hv' hv
    · rw [e, e2]
    · rw [hs'] at hs; cases hs
  · intro hyes hs
    have hv : initVersion s.tv r.iver ≠ "" := fun h => (initVersion_eq_empty_iff _ _).1 h hyes
    rcases serverHandler_initialize s r with ⟨hv', _⟩ | ⟨_, hs', _⟩ | ⟨_, _, e2⟩
    · exact absurd hv' hv
    · rw [hs] at hs'; cases hs'
    · rw [e, e2]

/-- **C06 (failing initialize, all histories).** On a transport that serves no legacy version, for every
history of legacy requests — however many `initialize` attempts, `initialized` notifications and
feature requests it interleaves — nothing but initialize / initialized / ping / cancellation ever
reaches a handler: a failed initialize does not open the gate. -/
theorem failed_initialize_never_opens_gate (tv : List String) (hno : ¬ ServesLegacy tv)
    (rs : List Req) (hleg : ∀ r ∈ rs, usesNew r = false)
    (i : Nat) (hi : i < (trace (fresh tv) rs).length) (m : Method) (res : HRes)
    (h : ((trace (fresh tv) rs)[i]).2.2 = .invoked m res) : m ∈ allowedBeforeInit := by
  rcases gate_invariant tv rs hleg i hi m res h with h1 | ⟨j, hj, _, hm, hacc⟩
  · exact h1
  · exfalso
    obtain ⟨hstep, htv⟩ := trace_entry (fresh tv) rs j hj
    have hno' : ¬ ServesLegacy ((trace (fresh tv) rs)[j]).1.tv := by rw [htv]; exact hno
    have := (initialize_refused_without_legacy_version _ _ hm hno').2
    rw [← hstep] at this
    exact this hacc

/-- An accepted `initialize` answers with a legacy version that the session's transport serves. -/
theorem accepted_initialize_version_served (s : State) (r : Req) (hm : r.method = some .initialize)
    (hacc : (admitReq s r).2 = .invoked .initialize .ok) :
    resultInfo s r (admitReq s r).2 = some (initVersion s.tv r.iver) ∧
    initVersion s.tv r.iver ∈ s.tv ∧ initVersion s.tv r.iver < newProtocolThreshold := by
  rcases initialize_step s r hm with ⟨_, hv, _⟩ | ⟨_, ho⟩
  · have := initVersion_served s.tv r.iver hv
    exact ⟨by rw [hacc]; rfl, this.1, this.2.2⟩
  · exfalso
    rcases ho with ⟨c, d, e⟩ | e | e | e <;> rw [e] at hacc
    · exact reject_not_invoked r c d _ _ hacc
    · cases hacc
    · cases hacc
    · cases hacc

/-- `server/discover` stores the request's identity in the session only when the transport serves the
new protocol; on any other transport it is answered and changes nothing (so it cannot open the gate
for legacy traffic there). -/
theorem discover_persists_only_on_new_protocol_transport (s : State) (r : Req)
    (hm : r.method = some .server_discover) (hnp : discoverPersists s.tv = false) : (admitReq s r).1 = s := by
  rcases admit_cases s r with ⟨_, e⟩ | ⟨_, c, _, e⟩ | ⟨_, _, _, e⟩ | ⟨_, _, _, c, _, e⟩ | ⟨_, _, _, _, e⟩ | ⟨_, _, _, hg, e⟩
  · rw [e]
  · rw [e]
  · rw [e]
  · rw [e]
  · rw [e]
    rcases dispatch_cases s r with ⟨c, _, e'⟩ | ⟨m, _, hmeth, e'⟩ <;> rw [e']
    rw [hm] at hmeth; cases hmeth
    simp [serverHandler, hnp]
  · exfalso
    rw [hm] at hg
    cases hn : usesNew r with
    | false => rw [hn] at hg; exact gate_legacy_never_adopts _ _ hg
    | true => rw [hn, tbl_gate_discover_new] at hg; cases hg

/-- non-vacuity: a transport that declares only 2026-07-28 (and one that declares nothing) serves no
legacy version; there `initialize` fails with -32022 carrying the transport's list, a following
`tools/list` is still refused, a retried `initialize` fails the same way (it is NOT a duplicate), `ping`
is served, and the state is the fresh one throughout. With one legacy version the handshake succeeds
(with that version) and the retry is the duplicate. -/
example :
    let init : Req := { method := some .initialize, hasId := true, params := .objOk, tag := "c", iver := "2025-11-25" }
    let list : Req := { method := some .tools_list, hasId := true, params := .absent }
    let ping : Req := { method := some .ping, hasId := true, params := .absent }
    let inid : Req := { method := some .notifications_initialized, hasId := false, params := .absent }
    (trace (fresh ["2026-07-28"]) [init, list, inid, init, ping]).map (·.2.2) =
      [.invoked .initialize (.failUnsupported ["2026-07-28"]), .rejected codeNone [],
       .invoked .notifications_initialized (.fail codeNone),
       .invoked .initialize (.failUnsupported ["2026-07-28"]), .invoked .ping .ok] ∧
    finalState (fresh ["2026-07-28"]) [init, list, inid, init, ping] = fresh ["2026-07-28"] ∧
    (trace (fresh []) [init, list]).map (·.2.2) = [.invoked .initialize (.failUnsupported []), .rejected codeNone []] ∧
    (trace (fresh ["2026-07-28", "2025-03-26"]) [init, list, init]).map (·.2.2) =
      [.invoked .initialize .ok, .invoked .tools_list .ok, .invoked .initialize (.fail codeNone)] ∧
    resultInfo (fresh ["2026-07-28", "2025-03-26"]) init (.invoked .initialize .ok) = some "2025-03-26" := by decide

example : ¬ ServesLegacy ["2026-07-28"] ∧ ¬ ServesLegacy [] ∧ ServesLegacy ["2026-07-28", "2025-03-26"] ∧
    ServesLegacy supportedProtocolVersions := by
  refine ⟨?_, ?_, ?_, ?_⟩
  · rintro ⟨v, hv, _, hlt⟩
    simp at hv; subst hv; revert hlt; decide
  · rintro ⟨v, hv, _⟩; simp at hv
  · exact ⟨"2025-03-26", by simp, by decide, by decide⟩
  · exact ⟨"2025-11-25", by decide, by decide, by decide⟩

/-- the user's `InitializedHandler` runs exactly when the `initialized` notification is accepted -/
def initializedHandlerRuns (o : Outcome) : Bool := o == .invoked .notifications_initialized .ok

/-- **C06.** An `initialized` notification that is premature (no `initialize` accepted yet) or repeated
is refused: the state is unchanged and the `InitializedHandler` does not run. -/
theorem initialized_premature_or_repeated_rejected_state_unchanged (s : State) (r : Req)
    (hm : r.method = some .notifications_initialized) (hs : s.init = none ∨ s.initd = true) :
    (admitReq s r).1 = s ∧ initializedHandlerRuns (admitReq s r).2 = false := by
  have key : (admitReq s r).1 = s ∧ ((∃ c d, (admitReq s r).2 = reject r c d) ∨ (admitReq s r).2 = .ignored ∨
      (admitReq s r).2 = .invoked .notifications_initialized (.fail codeNone)) := by
    rcases admit_cases s r with ⟨_, e⟩ | ⟨_, c, _, e⟩ | ⟨_, _, _, e⟩ | ⟨_, _, _, c, _, e⟩ | ⟨_, _, _, hg, e⟩ | ⟨_, _, _, hg, e⟩
    · rw [e]; exact ⟨rfl, Or.inr (Or.inl rfl)⟩
    · rw [e]; exact ⟨rfl, Or.inl ⟨c, [], rfl⟩⟩
    · rw [e]; exact ⟨rfl, Or.inl ⟨_, _, rfl⟩⟩
    · rw [e]; exact ⟨rfl, Or.inl ⟨c, [], rfl⟩⟩
    · rw [e]
      rcases dispatch_cases s r with ⟨c, _, e'⟩ | ⟨m, _, hmeth, e'⟩
      · rw [e']; exact ⟨rfl, Or.inl ⟨c, [], rfl⟩⟩
      · rw [hm] at hmeth; cases hmeth
        rw [e', serverHandler_initialized_bad s r hs]
        exact ⟨rfl, Or.inr (Or.inr rfl)⟩
    · exfalso
      rw [hm] at hg
      cases hn : usesNew r with
      | false => rw [hn] at hg; exact gate_legacy_never_adopts _ _ hg
      | true => rw [hn, tbl_gate_initialized_new] at hg; cases hg
  refine ⟨key.1, ?_⟩
  rcases key.2 with ⟨c, d, e⟩ | e | e <;> rw [e]
  · unfold reject initializedHandlerRuns; split <;> simp
  · simp [initializedHandlerRuns]
  · simp [initializedHandlerRuns]

/-- non-vacuity, and the positive case: after `initialize` the first `initialized` is accepted. -/
example :
    let n : Req := { method := some .notifications_initialized, hasId := false, params := .absent }
    admitReq {} n = ({}, .invoked .notifications_initialized (.fail codeNone)) ∧
    admitReq { init := some ⟨"a", "v"⟩ } n = ({ init := some ⟨"a", "v"⟩, initd := true }, .invoked .notifications_initialized .ok) ∧
    admitReq { init := some ⟨"a", "v"⟩, initd := true } n =
      ({ init := some ⟨"a", "v"⟩, initd := true }, .invoked .notifications_initialized (.fail codeNone)) := by decide

/-- **C06.** A legacy `ping` call whose params are not undecodable is served in every session state,
and the state is unchanged. -/
theorem ping_always_served (s : State) (r : Req) (hm : r.method = some .ping) (hid : r.hasId = true)
    (hleg : usesNew r = false) (hp : r.params ≠ .objUndecodable ∧ r.params ≠ .wrongType) :
    admitReq s r = (s, .invoked .ping .ok) ∧ answer r (admitReq s r).2 = .result := by
  have hpre : preemptDrops r = false := by simp [preemptDrops, hm]
  have hcd : checkAndDecode serverMethodInfos r = .ok .ping := by
    unfold checkAndDecode
    simp only [hm, tbl_flags_ping, hid]
    cases hps : r.params <;> simp_all
  have hd : dispatch s r = (s, .invoked .ping .ok) := by
    unfold dispatch; rw [hcd]; simp [serverHandler]
  have e : admitReq s r = (s, .invoked .ping .ok) := by
    rcases admit_cases s r with ⟨h, _⟩ | ⟨_, c, h, _⟩ | ⟨_, _, h, _⟩ | ⟨_, _, _, c, hg, _⟩ | ⟨_, _, _, _, e⟩ | ⟨_, _, _, hg, _⟩
    · rw [hpre] at h; cases h
    · rw [metaError_legacy hleg] at h; cases h
    · rw [unsupported_legacy _ hleg] at h; cases h
    · rw [hleg, hm, tbl_gate_ping] at hg; cases hg
    · rw [e, hd]
    · rw [hleg] at hg; exact absurd hg (gate_legacy_never_adopts _ _)
  exact ⟨e, by rw [e]; simp [answer, hid]⟩

/-- **C06.** A request that uses the new protocol but whose metadata is incomplete (capabilities missing
or invalid, or clientInfo present but invalid) is answered invalid-params (-32602); nothing runs, the
state is unchanged. -/
theorem new_protocol_requires_complete_meta (s : State) (r : Req)
    (hn : usesNew r = true) (hc : metaComplete r = false) :
    admitReq s r = (s, reject r (-32602)) := by
  have hcode : codeInvalidParams = -32602 := tbl_codes.2.1
  rcases admit_cases s r with ⟨h, e⟩ | ⟨_, c, h, e⟩ | ⟨_, h, _⟩ | ⟨_, h, _⟩ | ⟨_, h, _⟩ | ⟨_, h, _⟩
  · rw [e, reject_noId (preemptDrops_noId h)]
  · rw [metaError_of_incomplete hn hc] at h; cases h; rw [e, hcode]
  all_goals (rw [metaError_of_incomplete hn hc] at h; cases h)

/-- ... and conversely: what is served under the new protocol carried complete, supported metadata. -/
theorem served_new_protocol_has_valid_meta (s : State) (r : Req) (m : Method) (res : HRes)
    (hn : usesNew r = true) (h : (admitReq s r).2 = .invoked m res) : CarriesValidMeta s.tv r := by
  rcases admit_cases s r with ⟨_, e⟩ | ⟨_, c, _, e⟩ | ⟨_, _, _, e⟩ | ⟨_, _, _, c, _, e⟩ | ⟨_, he, hu, _, _⟩ | ⟨_, he, hu, _, _⟩
  · rw [e] at h; simp at h
  · rw [e] at h; simp [reject_not_invoked] at h
  · rw [e] at h; simp [reject_not_invoked] at h
  · rw [e] at h; simp [reject_not_invoked] at h
  · exact ⟨hn, metaComplete_of_noError hn he, by simpa [unsupportedVersion, hn] using hu⟩
  · exact ⟨hn, metaComplete_of_noError hn he, by simpa [unsupportedVersion, hn] using hu⟩

example : admitReq {} { method := some .tools_list, hasId := true, params := .objOk, «meta» := .ver "2026-07-28" .missing .ok }
    = ({}, .rejected (-32602) []) := by decide

/-- **C06.** Complete metadata naming a version that is not supported — for every method but the
`server/discover` probe: not served by the session's transport; for the probe: not known to the SDK
(`acceptedVersions`) —: unsupported-version (-32022) with the list of the versions the session's
transport serves; nothing runs, the state is unchanged. -/
theorem unsupported_version (s : State) (r : Req)
    (hn : usesNew r = true) (hc : metaComplete r = true)
    (hv : (acceptedVersions s.tv r).contains (metaVersion r) = false) :
    admitReq s r = (s, reject r (-32022) s.tv) := by
  have hcode : codeUnsupportedProtocolVersion = -32022 := tbl_codes.2.2.2.1
  have hu : unsupportedVersion s.tv r = true := by
    have hv' : metaVersion r ∉ acceptedVersions s.tv r := by simpa using hv
    simp [unsupportedVersion, hn, hv']
  rcases admit_cases s r with ⟨h, e⟩ | ⟨_, c, h, e⟩ | ⟨_, _, _, e⟩ | ⟨_, _, h, _⟩ | ⟨_, _, h, _⟩ | ⟨_, _, h, _⟩
  · rw [e, reject_noId (preemptDrops_noId h)]
  · exfalso
    unfold metaError at h; unfold metaComplete at hc
    cases hm : effMeta r with
    | none => rw [hm] at hc; simp at hc
    | ver v caps ci =>
      rw [hm] at h hc
      simp only [hn, Bool.not_true, Bool.false_eq_true, if_false] at h
      cases caps <;> cases ci <;> simp_all
  · rw [e, hcode]
  all_goals (rw [hu] at h; cases h)

example : admitReq {} { method := some .tools_list, hasId := true, params := .objOk, «meta» := .ver "2027-01-01" .ok .absent }
    = ({}, .rejected (-32022) ["2026-07-28", "2025-11-25", "2025-06-18", "2025-03-26", "2024-11-05"]) := by decide

/-! ### F34: the per-request version is the TRANSPORT's to accept -/

/-- **C06 / F34, one step.** In any state, a request of any method other than the `server/discover`
probe whose complete `_meta` names a version that the session's transport does not serve — whether or
not the SDK knows that version — is answered -32022 carrying exactly the transport's versions; it
reaches neither middleware nor handler and the session state is unchanged (in particular its identity
is not adopted). -/
theorem per_request_version_refused_unless_transport_serves_it (s : State) (r : Req)
    (hnd : r.method ≠ some .server_discover) (hn : usesNew r = true) (hc : metaComplete r = true)
    (hv : s.tv.contains (metaVersion r) = false) :
    admitReq s r = (s, reject r (-32022) s.tv) := by
  apply unsupported_version s r hn hc
  simpa [acceptedVersions, hnd] using hv

/-- **C06 / F34, all transports, all histories.** Whatever the transport's `SupportsProtocolVersion`
predicate and whatever was sent before on the session: a new-protocol request of any method other than
`server/discover` that reaches a method handler carries complete metadata naming a version that the SDK
supports AND the transport serves. -/
theorem per_request_version_served_only_if_transport_serves_it (supports : String → Bool) (rs : List Req)
    (i : Nat) (hi : i < (trace (fresh (transportVersions supports)) rs).length) (m : Method) (res : HRes)
    (h : ((trace (fresh (transportVersions supports)) rs)[i]).2.2 = .invoked m res)
    (hn : usesNew ((trace (fresh (transportVersions supports)) rs)[i]).2.1 = true)
    (hnd : ((trace (fresh (transportVersions supports)) rs)[i]).2.1.method ≠ some .server_discover) :
    metaComplete ((trace (fresh (transportVersions supports)) rs)[i]).2.1 = true ∧
    metaVersion ((trace (fresh (transportVersions supports)) rs)[i]).2.1 ∈ supportedProtocolVersions ∧
    supports (metaVersion ((trace (fresh (transportVersions supports)) rs)[i]).2.1) = true := by
  obtain ⟨hstep, htv⟩ := trace_entry (fresh (transportVersions supports)) rs i hi
  generalize (trace (fresh (transportVersions supports)) rs)[i] = e at h hn hnd hstep htv
  rw [hstep] at h
  obtain ⟨_, hc, hv⟩ := served_new_protocol_has_valid_meta e.1 e.2.1 m res hn h
  rw [htv] at hv
  have hv' : metaVersion e.2.1 ∈ transportVersions supports := by
    simpa [acceptedVersions, hnd, fresh] using hv
  have := List.mem_filter.1 hv'
  exact ⟨hc, this.1, this.2⟩

/-- ... and for every version list `tv` (not only the images of `filterSupportedVersions`), with the
converse: along any history, such a request whose version is not in `tv` is answered -32022 carrying `tv`
and leaves the state it met unchanged. -/
theorem per_request_version_gate_all_histories (tv : List String) (rs : List Req)
    (i : Nat) (hi : i < (trace (fresh tv) rs).length)
    (hn : usesNew ((trace (fresh tv) rs)[i]).2.1 = true)
    (hnd : ((trace (fresh tv) rs)[i]).2.1.method ≠ some .server_discover) :
    (∀ m res, ((trace (fresh tv) rs)[i]).2.2 = .invoked m res →
      tv.contains (metaVersion ((trace (fresh tv) rs)[i]).2.1) = true) ∧
    (metaComplete ((trace (fresh tv) rs)[i]).2.1 = true →
      tv.contains (metaVersion ((trace (fresh tv) rs)[i]).2.1) = false →
      admitReq ((trace (fresh tv) rs)[i]).1 ((trace (fresh tv) rs)[i]).2.1 =
        (((trace (fresh tv) rs)[i]).1, reject ((trace (fresh tv) rs)[i]).2.1 (-32022) tv) ∧
      ((trace (fresh tv) rs)[i]).2.2 = reject ((trace (fresh tv) rs)[i]).2.1 (-32022) tv) := by
  obtain ⟨hstep, htv⟩ := trace_entry (fresh tv) rs i hi
  generalize (trace (fresh tv) rs)[i] = e at hn hnd hstep htv
  have htv' : e.1.tv = tv := htv
  constructor
  · intro m res h
    rw [hstep] at h
    obtain ⟨_, _, hv⟩ := served_new_protocol_has_valid_meta e.1 e.2.1 m res hn h
    rw [htv'] at hv
    simpa [acceptedVersions, hnd] using hv
  · intro hc hv
    have := per_request_version_refused_unless_transport_serves_it e.1 e.2.1 hnd hn hc (by rw [htv']; exact hv)
    rw [htv'] at this
    exact ⟨this, by rw [hstep, this]⟩

/-- The `server/discover` probe is the exception, and only as a probe: naming any version the SDK knows
it is answered — with the TRANSPORT's versions — on every transport, and (see
`discover_persists_only_on_new_protocol_transport`) it stores nothing unless the transport serves the
new protocol. -/
theorem discover_probe_answered_with_transport_versions (s : State) (r : Req)
    (hm : r.method = some .server_discover) (hid : r.hasId = true) (hn : usesNew r = true)
    (hc : metaComplete r = true) (hv : supportedProtocolVersions.contains (metaVersion r) = true)
    (hp : r.params ≠ .objUndecodable) :
    (admitReq s r).2 = .invoked .server_discover .ok ∧
    resultInfo s r (admitReq s r).2 = some (",".intercalate s.tv) := by
  have hpre : preemptDrops r = false := by simp [preemptDrops, hm]
  have hobj : r.params.isObject = true := by
    cases ho : r.params.isObject with
    | true => rfl
    | false => simp [usesNew, effMeta, ho] at hn
  have hcd : checkAndDecode serverMethodInfos r = .ok .server_discover := by
    unfold checkAndDecode
    simp only [hm, tbl_flags_discover, hid]
    cases hps : r.params <;> simp_all [PShape.isObject]
  have hu : unsupportedVersion s.tv r = false := by
    have : metaVersion r ∈ supportedProtocolVersions := by simpa using hv
    simp [unsupportedVersion, acceptedVersions, hm, this]
  have key : (admitReq s r).2 = .invoked .server_discover .ok := by
    rcases admit_cases s r with ⟨h, _⟩ | ⟨_, c, h, _⟩ | ⟨_, _, h, _⟩ | ⟨_, _, _, c, hg, _⟩ | ⟨_, _, _, _, e⟩ | ⟨_, _, _, hg, _⟩
    · rw [hpre] at h; cases h
    · exfalso
      unfold metaError at h; unfold metaComplete at hc
      cases hmm : effMeta r with
      | none => rw [hmm] at hc; simp at hc
      | ver v caps ci =>
        rw [hmm] at h hc
        simp only [hn, Bool.not_true, Bool.false_eq_true, if_false] at h
        cases caps <;> cases ci <;> simp_all
    · rw [hu] at h; cases h
    · rw [hn, hm, tbl_gate_discover_new] at hg; cases hg
    · rw [e]; unfold dispatch; rw [hcd]
      simp only [serverHandler]
      split <;> rfl
    · rw [hn, hm, tbl_gate_discover_new] at hg; cases hg
  exact ⟨key, by rw [key]; rfl⟩

/-- non-vacuity of F34: on a transport serving only legacy versions (the SSE transport's predicate), and
on a stateful-streamable-like one, `tools/list` carrying complete 2026-07-28 metadata is refused with the
transport's list and adopts nothing; the discover probe is answered and stores nothing; on a transport
that serves 2026-07-28 both are served. -/
example :
    let legacy := transportVersions (fun v => decide (v < "2026-07-28"))
    let list : Req := { method := some .tools_list, hasId := true, params := .objOk, «meta» := .ver "2026-07-28" .ok .ok, tag := "c" }
    let disc : Req := { method := some .server_discover, hasId := true, params := .objOk, «meta» := .ver "2026-07-28" .ok .ok, tag := "c" }
    legacy = ["2025-11-25", "2025-06-18", "2025-03-26", "2024-11-05"] ∧
    admitReq (fresh legacy) list = (fresh legacy, .rejected (-32022) legacy) ∧
    admitReq (fresh legacy) disc = (fresh legacy, .invoked .server_discover .ok) ∧
    (admitReq (fresh ["2026-07-28"]) list).2 = .invoked .tools_list .ok ∧
    (admitReq (fresh ["2026-07-28"]) list).1.init = some ⟨"c", "2026-07-28"⟩ := by decide

/-- **C06.** Under the new protocol (complete metadata, supported version) a method removed from that
protocol is answered method-not-found (-32601); nothing runs, the state is unchanged. -/
theorem removed_methods_not_found (s : State) (r : Req) (m : Method)
    (hv : CarriesValidMeta s.tv r) (hm : r.method = some m) (hrem : removedInNewProtocol.contains m = true) :
    admitReq s r = (s, reject r (-32601)) := by
  obtain ⟨hn, hc, hsup⟩ := hv
  have hcode : codeMethodNotFound = -32601 := tbl_codes.1
  have hrem' : m ∈ removedInNewProtocol := by simpa using hrem
  have hg : gate s.init.isSome true (some m) = .refuse codeMethodNotFound := by
    unfold gate; simp [hrem']
  rcases admit_cases s r with ⟨h, e⟩ | ⟨_, c, h, e⟩ | ⟨_, _, h, _⟩ | ⟨_, _, _, c, h, e⟩ | ⟨_, _, _, h, _⟩ | ⟨_, _, _, h, _⟩
  · rw [e, reject_noId (preemptDrops_noId h)]
  · exfalso
    have := metaError_of_incomplete hn
    cases hmc : metaComplete r with
    | true =>
      unfold metaError at h; unfold metaComplete at hmc
      cases hmm : effMeta r with
      | none => rw [hmm] at hmc; simp at hmc
      | ver v caps ci =>
        rw [hmm] at h hmc
        simp only [hn, Bool.not_true, Bool.false_eq_true, if_false] at h
        cases caps <;> cases ci <;> simp_all
    | false => rw [hmc] at hc; cases hc
  · have hsup' : metaVersion r ∈ acceptedVersions s.tv r := by simpa using hsup
    simp [unsupportedVersion, hn, hsup'] at h
  · rw [hn, hm, hg] at h; cases h; rw [e, hcode]
  · rw [hn, hm, hg] at h; cases h
  · rw [hn, hm, hg] at h; cases h

/-- the methods the property names as removed are in the regenerated case list -/
theorem spec_removed_methods_listed : ∀ m ∈ specRemoved, removedInNewProtocol.contains m = true := by
  intro m hm
  have := tbl_specRemoved
  rw [List.all_eq_true] at this
  exact this m hm

example : admitReq { init := some ⟨"a", "v"⟩ }
    { method := some .logging_setLevel, hasId := true, params := .objOk, «meta» := .ver "2026-07-28" .ok .ok, lvl := "debug" }
    = ({ init := some ⟨"a", "v"⟩ }, .rejected (-32601) []) := by decide

/-- **C06.** `server/discover` exists only under the new protocol: a legacy `server/discover` is
answered method-not-found and changes nothing; one that is served used the new protocol. -/
theorem discover_only_new_protocol (s : State) (r : Req) (hm : r.method = some .server_discover) :
    (usesNew r = false → admitReq s r = (s, reject r (-32601))) ∧
    (∀ res, (admitReq s r).2 = .invoked .server_discover res → CarriesValidMeta s.tv r) := by
  have hcode : codeMethodNotFound = -32601 := tbl_codes.1
  have hpre : preemptDrops r = false := by simp [preemptDrops, hm]
  have h1 : usesNew r = false → admitReq s r = (s, reject r (-32601)) := by
    intro hleg
    rcases admit_cases s r with ⟨h, _⟩ | ⟨_, c, h, _⟩ | ⟨_, _, h, _⟩ | ⟨_, _, _, c, hg, e⟩ | ⟨_, _, _, hg, _⟩ | ⟨_, _, _, hg, _⟩
    · rw [hpre] at h; cases h
    · rw [metaError_legacy hleg] at h; cases h
    · rw [unsupported_legacy _ hleg] at h; cases h
    · rw [hleg, hm, tbl_gate_discover_legacy] at hg; cases hg; rw [e, hcode]
    · rw [hleg, hm, tbl_gate_discover_legacy] at hg; cases hg
    · rw [hleg, hm, tbl_gate_discover_legacy] at hg; cases hg
  refine ⟨h1, ?_⟩
  intro res h
  cases hn : usesNew r with
  | true => exact served_new_protocol_has_valid_meta s r _ res hn h
  | false =>
    rw [h1 hn] at h
    exact absurd h (reject_not_invoked r _ _ _ _)

example : admitReq {} { method := some .server_discover, hasId := true, params := .objOk, «meta» := .ver "2026-07-28" .ok .ok, tag := "c" }
    = ({ init := some ⟨"c", "2026-07-28"⟩ }, .invoked .server_discover .ok) := by decide

/-! ## C02 — the error-code mapping (E3 part: `reject_codes`) -/

/-- Nothing of higher precedence refuses `r` in state `s` (preempter, metadata, version, lifecycle gate). -/
def PastGate (s : State) (r : Req) : Prop :=
  preemptDrops r = false ∧ metaError r = none ∧ unsupportedVersion s.tv r = false ∧
  ∀ c, gate s.init.isSome (usesNew r) r.method ≠ .refuse c

/-- The property's code mapping for one request against a method table `t`, as a specification of the
outcome `out`: unknown method → -32601; id on a notification-only method → -32600; no id on a call →
nothing at all (it is a notification: never answered, nothing runs); required params absent or null →
-32600; params that do not decode → -32602; otherwise the method's handler runs. -/
structure CodeSpec (t : List (Method × Flags)) (r : Req) (out : Outcome) : Prop where
  unknown : r.method.bind (lookup t) = none → out = reject r (-32601)
  unexpectedId : ∀ f, r.method.bind (lookup t) = some f → f.notification = true → r.hasId = true →
    out = .rejected (-32600) []
  missingId : ∀ f, r.method.bind (lookup t) = some f → f.notification = false → r.hasId = false → out = .ignored
  missingParams : ∀ f, r.method.bind (lookup t) = some f → f.notification = !r.hasId → f.missingParamsOK = false →
    (r.params = .absent ∨ r.params = .null) → out = reject r (-32600)
  undecodable : ∀ f, r.method.bind (lookup t) = some f → f.notification = !r.hasId →
    (r.params = .objUndecodable ∨ r.params = .wrongType) → out = reject r (-32602)
  served : ∀ f, r.method.bind (lookup t) = some f → f.notification = !r.hasId →
    (f.missingParamsOK = true ∨ (r.params ≠ .absent ∧ r.params ≠ .null)) →
    (r.params ≠ .objUndecodable ∧ r.params ≠ .wrongType) → ∃ m res, r.method = some m ∧ out = .invoked m res

def outOf (r : Req) (h : Method → HRes) : Except Int Method → Outcome
  | .error c => reject r c
  | .ok m => .invoked m (h m)

/-- `checkRequest` + `unmarshalParams` implement the mapping, for any method table whose entries with
a replaced `unmarshalParams` (initialize) wrap the same coded errors. -/
theorem check_codes (t : List (Method × Flags)) (r : Req) (h : Method → HRes) :
    CodeSpec t r (outOf r h (checkAndDecode t r)) := by
  obtain ⟨_, _, _, _, c1, c2, c3, c4, c5, c6, c7, c8, _, _⟩ := tbl_codes
  unfold checkAndDecode
  cases hm : r.method with
  | none => constructor <;> simp [outOf, c1, hm]
  | some m =>
    cases hl : lookup t m with
    | none => constructor <;> simp [outOf, c1, hm, hl]
    | some f =>
      constructor
      · simp [hm, hl]
      all_goals
        simp only [hm, Option.bind_some, hl, Option.some.injEq]
        intro f' hf'
        subst hf'
        intros
        cases hn : f.notification <;> cases hi : r.hasId <;> cases hp : f.missingParamsOK <;> cases hps : r.params <;>
          cases hcd : f.customDecode <;> simp_all [outOf, reject]

/-- **C02 (E3 part), server.** Past the gate (nothing of higher precedence refuses the request), the
server's outcome follows the property's code mapping. -/
theorem reject_codes (s : State) (r : Req) (hg : PastGate s r) : CodeSpec serverMethodInfos r (admitReq s r).2 := by
  obtain ⟨hp, he, hu, hgate⟩ := hg
  have hd : ∃ s1, admitReq s r = dispatch s1 r := by
    rcases admit_cases s r with ⟨h, _⟩ | ⟨_, c, h, _⟩ | ⟨_, _, h, _⟩ | ⟨_, _, _, c, h, _⟩ | ⟨_, _, _, _, e⟩ | ⟨_, _, _, _, e⟩
    · rw [hp] at h; cases h
    · rw [he] at h; cases h
    · rw [hu] at h; cases h
    · exact absurd h (hgate c)
    · exact ⟨_, e⟩
    · exact ⟨_, e⟩
  obtain ⟨s1, e⟩ := hd
  have hout : (admitReq s r).2 = outOf r (fun m => (serverHandler s1 r m).2) (checkAndDecode serverMethodInfos r) := by
    rw [e]; unfold dispatch outOf; cases checkAndDecode serverMethodInfos r <;> rfl
  rw [hout]
  exact check_codes _ _ _

/-- **C02 (E3 part), client's receiving side** (no gate, no per-request metadata). -/
theorem reject_codes_client (r : Req) (hp : preemptDrops r = false) : CodeSpec clientMethodInfos r (admitClient r) := by
  have hout : admitClient r = outOf r (clientHandler r) (checkAndDecode clientMethodInfos r) := by
    unfold admitClient outOf; simp only [hp, Bool.false_eq_true, if_false]
    cases checkAndDecode clientMethodInfos r <;> rfl
  rw [hout]
  exact check_codes _ _ _

/-- non-vacuity of the mapping on an initialized session -/
example :
    let s : State := { init := some ⟨"a", "2025-06-18"⟩, initd := true }
    (admitReq s { method := none, hasId := true, params := .objOk }).2 = .rejected (-32601) [] ∧
    (admitReq s { method := some .notifications_progress, hasId := true, params := .objOk }).2 = .rejected (-32600) [] ∧
    (admitReq s { method := some .tools_call, hasId := false, params := .objOk }).2 = .ignored ∧
    (admitReq s { method := some .tools_call, hasId := true, params := .absent }).2 = .rejected (-32600) [] ∧
    (admitReq s { method := some .tools_call, hasId := true, params := .null }).2 = .rejected (-32600) [] ∧
    (admitReq s { method := some .tools_call, hasId := true, params := .objUndecodable }).2 = .rejected (-32602) [] ∧
    (admitReq s { method := some .tools_call, hasId := true, params := .wrongType }).2 = .rejected (-32602) [] ∧
    (admitReq {} { method := some .initialize, hasId := true, params := .null }).2 = .rejected (-32600) [] ∧
    (admitReq {} { method := some .initialize, hasId := true, params := .wrongType }).2 = .rejected (-32602) [] ∧
    (admitReq s { method := some .tools_call, hasId := true, params := .objOk }).2 = .invoked .tools_call .ok ∧
    admitClient { method := some .elicitation_create, hasId := false, params := .objOk } = .ignored ∧
    admitClient { method := some .notifications_message, hasId := true, params := .objOk } = .rejected (-32600) [] := by decide

/-- **C02.** In every state, for every request: a notification is never answered, a call is answered
exactly once (the model has no other way to write a response), whatever refuses it. -/
theorem answered_iff_call (s : State) (r : Req) :
    (answer r (admitReq s r).2 = .nothing ↔ r.hasId = false) ∧ (answer r (admitClient r) = .nothing ↔ r.hasId = false) := by
  have rej : ∀ c d, (answer r (reject r c d) = .nothing ↔ r.hasId = false) := by
    intro c d; unfold reject answer; cases r.hasId <;> simp
  have inv : ∀ m res, (answer r (.invoked m res) = .nothing ↔ r.hasId = false) := by
    intro m res; unfold answer; cases r.hasId <;> simp; cases res <;> simp
  constructor
  · rcases admit_cases s r with ⟨h, e⟩ | ⟨_, c, _, e⟩ | ⟨_, _, _, e⟩ | ⟨_, _, _, c, _, e⟩ | ⟨_, _, _, _, e⟩ | ⟨_, _, _, _, e⟩
    · rw [e]; simp [answer, preemptDrops_noId h]
    · rw [e]; exact rej _ _
    · rw [e]; exact rej _ _
    · rw [e]; exact rej _ _
    · rw [e]; rcases dispatch_cases s r with ⟨c, _, e'⟩ | ⟨m, _, _, e'⟩ <;> rw [e']
      · exact rej _ _
      · exact inv _ _
    · rw [e]; rcases dispatch_cases (adopt s r .passAdopt) r with ⟨c, _, e'⟩ | ⟨m, _, _, e'⟩ <;> rw [e']
      · exact rej _ _
      · exact inv _ _
  · unfold admitClient
    by_cases hp : preemptDrops r = true
    · simp [hp, answer, preemptDrops_noId hp]
    · simp only [hp]
      cases checkAndDecode clientMethodInfos r with
      | error c => exact rej _ _
      | ok m => exact inv _ _

/-- The lifecycle gate's own refusal of a legacy request before `initialize` is the UNCODED error
("method ... is invalid during session initialization"), and it precedes the mapping above: before
`initialize`, an unknown method is answered with code 0, not -32601 (noted in DESIGN §6). -/
theorem uninitialized_refusal_uncoded (r : Req) (hleg : usesNew r = false) (hp : preemptDrops r = false)
    (hm : ∀ m, r.method = some m → lifecycle.contains m = false ∧ newProtocolOnly.contains m = false) :
    admitReq {} r = ({}, reject r 0) := by
  have hg : gate false false r.method = .refuse codeNone := by
    unfold gate
    cases hmeth : r.method with
    | none => simp
    | some m =>
      obtain ⟨h1, h2⟩ := hm m hmeth
      simp only
      by_cases hrem : m ∈ removedInNewProtocol
      · by_cases hex : m ∈ exemptFromInitGate
        · have := contains_of_all tbl_exempt_lifecycle (m := m) (by simpa using hex)
          rw [h1] at this; cases this
        · simp [hrem, hex]
      · have h2' : m ∉ newProtocolOnly := by simpa using h2
        simp [hrem, h2']
  rcases admit_cases {} r with ⟨h, _⟩ | ⟨_, c, h, _⟩ | ⟨_, _, h, _⟩ | ⟨_, _, _, c, h, e⟩ | ⟨_, _, _, h, _⟩ | ⟨_, _, _, h, _⟩
  · rw [hp] at h; cases h
  · rw [metaError_legacy hleg] at h; cases h
  · rw [unsupported_legacy _ hleg] at h; cases h
  · rw [hleg] at h; simp only [Option.isSome_none] at h; rw [hg] at h; cases h; rw [e]; rfl
  · rw [hleg] at h; simp only [Option.isSome_none] at h; rw [hg] at h; cases h
  · rw [hleg] at h; simp only [Option.isSome_none] at h; rw [hg] at h; cases h

end Gate
