import McpModel.Gate.Monitor
/-!
# E3 `Gate`, stream `custom` — custom methods (`AddReceivingCustomMethod`) on the sessions of one server

Model (core Lean only; transliteration of, in this order):

* `mcp/server.go`  `AddReceivingCustomMethod` — a name of the standard table is refused, any other name is
  written into `Server.receiveMethods` (never removed: `registered_mono`),
* `mcp/server.go`  `Server.receivingMethodInfos` / `ServerSession.receivingMethodInfos` — every session, of
  every transport, consults the server's CURRENT table,
* `mcp/streamable.go` `streamableServerConn.servePOST` — the HTTP pre-validation `checkRequest(jreq,
  c.server.receivingMethodInfos())` under a legacy `Mcp-Protocol-Version` header: an unknown method or a call
  method without id is turned away with HTTP 400 and no JSON-RPC message,
* `mcp/server.go`  `ServerSession.handle` default arm of the gate (a legacy envelope: refused with an uncoded
  error until `InitializeParams` is set), then `mcp/shared.go` `handleReceive`: `checkRequest`,
  `unmarshalParams`, the handler (`missingParamsOK`: nil params are handed to the handler).

Codes come from `Generated.Gate` (regenerated): `codeNone`, `checkUnknownMethod`, `decodeFailure`.

The typed monitor of the stream (`monitor`) is written from the property texts of C02 / C06; it keeps its own
memory (`Mem`: which registrations were ACKNOWLEDGED, which sessions exist and on which a handshake was
ANSWERED WITH A RESULT) and consults neither `step` nor the model state.
-/
namespace Gate.Custom
open Generated.Gate

/-- `mem`: a raw JSON-RPC peer on an in-memory pipe; `http`: a session of a stateful StreamableHTTPHandler;
`cli`: a real `mcp.Client` on in-memory transports (`Client.Connect` performs the handshake; calls are made with
`AddSendingCustomMethod` + `CallCustomMethod`) — the same server side as `mem`; `hnew`: the STATELESS
StreamableHTTPHandler addressed under the 2026-07-28 protocol (`Mcp-Protocol-Version` / `Mcp-Method` headers, complete
per-request `_meta` in object params): every call is its own POST on a temporary session, no handshake. -/
inductive Kind | mem | http | cli | hnew
deriving DecidableEq, Repr

/-- A session of the server: its transport and whether `InitializeParams` is set. -/
structure Sess where
  kind : Kind
  init : Bool
deriving DecidableEq, Repr

/-- The server and its sessions. -/
structure State where
  registered : List String := []   -- `Server.receiveMethods` minus the standard table
  sess : List Sess := []
deriving DecidableEq, Repr

/-- One raw envelope naming a method that is not in the standard table. -/
structure Call where
  k : Nat            -- the session it is sent on
  name : String
  hasId : Bool
  params : PShape
deriving DecidableEq, Repr

inductive Op
  | reg (n : String)         -- AddReceivingCustomMethod(server, n, echo)
  | openS (kind : Kind)      -- a new session (http: by its initialize POST and the initialized notification)
  | hs (k : Nat)             -- initialize + notifications/initialized on pipe session k
  | call (c : Call)
deriving DecidableEq, Repr

/-- The name is in the server's standard method table. -/
def isStandard (n : String) : Bool := ((methodOfName n).bind (lookup serverMethodInfos)).isSome

inductive Ans
  | nothing              -- no message (pipe: nothing written; http: 202 without a message)
  | result
  | error (code : Int)
  | httpRefused          -- HTTP 400 from the pre-validation, no JSON-RPC message
deriving DecidableEq, Repr

structure Out where
  ans : Ans
  ran : Bool             -- the method's handler ran
deriving DecidableEq, Repr

inductive Res
  | ok | shadows | fail | na
  | out (o : Out)
deriving DecidableEq, Repr

def badParams (p : PShape) : Bool := p == .objUndecodable || p == .wrongType

/-- `ServerSession.handle` (default arm of the gate) then `handleReceive`, for a legacy envelope. -/
def sessionAnswer (reg : List String) (init : Bool) (c : Call) : Out :=
  if !init then ⟨if c.hasId then .error codeNone else .nothing, false⟩
  else if !reg.contains c.name then ⟨if c.hasId then .error checkUnknownMethod else .nothing, false⟩
  else if !c.hasId then ⟨.nothing, false⟩                       -- checkRequest: missing id; not answered
  else if badParams c.params then ⟨.error decodeFailure, false⟩
  else ⟨.result, true⟩

/-- `servePOST`: `checkRequest` against the server's current table, then the session. -/
def httpAnswer (reg : List String) (init : Bool) (c : Call) : Out :=
  if !reg.contains c.name then ⟨.httpRefused, false⟩
  else if !c.hasId then ⟨.httpRefused, false⟩
  else sessionAnswer reg init c

/-- `servePOST` under a `Mcp-Protocol-Version` ≥ 2026-07-28 header, then the temporary session (`serveEphemeral`):
an unknown method of a call is answered -32601 as a JSON-RPC error bearing the id (HTTP 404), any other
`checkRequest` failure is HTTP 400 without a message; params that are no object cannot carry the per-request `_meta`
the header announces: -32602 (HTTP 400); otherwise the session serves the request without a handshake (the gate's
default arm adopts the `_meta` identity) and `unmarshalParams` decides. -/
def modernAnswer (reg : List String) (c : Call) : Out :=
  if !reg.contains c.name then (if c.hasId then ⟨.error checkUnknownMethod, false⟩ else ⟨.httpRefused, false⟩)
  else if !c.hasId then ⟨.httpRefused, false⟩
  else if !c.params.isObject then ⟨.error codeInvalidParams, false⟩
  else if badParams c.params then ⟨.error decodeFailure, false⟩
  else ⟨.result, true⟩

def answerOn (reg : List String) (s : Sess) (c : Call) : Out :=
  match s.kind with
  | .mem | .cli => sessionAnswer reg s.init c
  | .http => httpAnswer reg s.init c
  | .hnew => modernAnswer reg c

def setInit : List Sess → Nat → List Sess
  | [], _ => []
  | s :: l, 0 => { s with init := true } :: l
  | s :: l, k + 1 => s :: setInit l k

def step (s : State) : Op → State × Res
  | .reg n => if isStandard n then (s, .shadows) else ({ s with registered := n :: s.registered }, .ok)
  | .openS .mem => ({ s with sess := s.sess ++ [⟨.mem, false⟩] }, .ok)
  | .openS .http => ({ s with sess := s.sess ++ [⟨.http, true⟩] }, .ok)
  | .openS .cli => ({ s with sess := s.sess ++ [⟨.cli, true⟩] }, .ok)
  | .openS .hnew => ({ s with sess := s.sess ++ [⟨.hnew, true⟩] }, .ok)
  | .hs k =>
    match s.sess[k]? with
    | some ⟨.mem, false⟩ => ({ s with sess := setInit s.sess k }, .ok)
    | some ⟨.mem, true⟩ => (s, .fail)            -- a second initialize is rejected
    | _ => (s, .na)
  | .call c =>
    match s.sess[c.k]? with
    | some x => (s, .out (answerOn s.registered x c))
    | none => (s, .na)

def run : State → List Op → State
  | s, [] => s
  | s, o :: l => run (step s o).1 l

/-! ## Model theorems (all histories) -/

theorem step_registered_mono (s : State) (o : Op) (n : String) (h : n ∈ s.registered) : n ∈ (step s o).1.registered := by
  cases o with
  | reg m => simp only [step]; split <;> simp [h]
  | openS k => cases k <;> simp [step, h]
  | hs k => simp only [step]; split <;> simp [h]
  | call c => simp only [step]; split <;> simp [h]

/-- A registered method stays registered, whatever happens afterwards. -/
theorem registered_mono (n : String) : ∀ (l : List Op) (s : State), n ∈ s.registered → n ∈ (run s l).registered
  | [], _, h => h
  | o :: l, s, h => registered_mono n l _ (step_registered_mono s o n h)

theorem reg_registers (s : State) (n : String) (h : isStandard n = false) : n ∈ (step s (.reg n)).1.registered := by
  simp [step, h]

/-- **C02 for custom methods, all histories.** Once `AddReceivingCustomMethod` accepted a name, a call of that
name that carries an id, on ANY initialized session of the server — a pipe or a streamable HTTP session, set up
before or after the registration, whatever was registered, opened or called in between — is answered with a
JSON-RPC message (a result, or -32602 when its params do not decode): never dropped, never turned away by the
HTTP pre-validation. -/
theorem registered_call_answered (s0 : State) (pre post : List Op) (n : String) (hn : isStandard n = false)
    (c : Call) (hc : c.name = n) (hid : c.hasId = true) (x : Sess)
    (hx : (run s0 (pre ++ [.reg n] ++ post)).sess[c.k]? = some x) (hi : x.init = true) :
    (answerOn (run s0 (pre ++ [.reg n] ++ post)).registered x c =
      if x.kind = .hnew ∧ c.params.isObject = false then ⟨.error codeInvalidParams, false⟩
      else ⟨if badParams c.params then .error decodeFailure else .result, !badParams c.params⟩) := by
  have hreg : n ∈ (run s0 (pre ++ [.reg n] ++ post)).registered := by
    have run_append : ∀ (a b : List Op) (s : State), run s (a ++ b) = run (run s a) b := by
      intro a
      induction a with
      | nil => intro b s; rfl
      | cons o a ih => intro b s; simp [run, ih]
    rw [run_append, run_append]
    apply registered_mono
    simp only [run]
    exact reg_registers _ n hn
  have hcont : (run s0 (pre ++ [.reg n] ++ post)).registered.contains c.name = true := by
    rw [hc]; simpa using hreg
  cases hk : x.kind with
  | mem =>
    simp only [answerOn, hk, sessionAnswer, hi, hcont, hid]
    cases badParams c.params <;> simp
  | cli =>
    simp only [answerOn, hk, sessionAnswer, hi, hcont, hid]
    cases badParams c.params <;> simp
  | hnew =>
    simp only [answerOn, hk, modernAnswer, hcont, hid]
    cases c.params <;> simp [PShape.isObject, badParams]
  | http =>
    simp only [answerOn, hk, httpAnswer, sessionAnswer, hi, hcont, hid]
    cases badParams c.params <;> simp

/-- **C06 for custom methods.** On a session without `InitializeParams` no custom method reaches its handler,
and a call is refused with an error. -/
theorem uninitialized_never_served (reg : List String) (x : Sess) (c : Call) (hi : x.init = false)
    (hmod : x.kind ≠ .hnew) :
    (answerOn reg x c).ran = false ∧ (answerOn reg x c).ans ≠ .result := by
  cases hk : x.kind with
  | hnew => exact absurd hk hmod
  | mem => simp [answerOn, hk, sessionAnswer, hi]; split <;> simp
  | cli => simp [answerOn, hk, sessionAnswer, hi]; split <;> simp
  | http =>
    simp only [answerOn, hk, httpAnswer]
    split
    · simp
    · split
      · simp
      · simp [sessionAnswer, hi]; split <;> simp

/-- A streamable session is created by its `initialize` POST: it never exists uninitialized. -/
theorem http_sessions_initialized : ∀ (l : List Op) (s : State),
    (∀ x ∈ s.sess, x.kind = .http → x.init = true) → ∀ x ∈ (run s l).sess, x.kind = .http → x.init = true := by
  have setInit_ok : ∀ (l : List Sess) (k : Nat), (∀ x ∈ l, x.kind = .http → x.init = true) →
      ∀ x ∈ setInit l k, x.kind = .http → x.init = true := by
    intro l
    induction l with
    | nil => intro k _ x hx; simp [setInit] at hx
    | cons a l ih =>
      intro k h x hx
      cases k with
      | zero =>
        simp only [setInit, List.mem_cons] at hx
        rcases hx with rfl | hx
        · intro _; rfl
        · exact h x (List.mem_cons_of_mem _ hx)
      | succ k =>
        simp only [setInit, List.mem_cons] at hx
        rcases hx with rfl | hx
        · exact h _ (List.mem_cons_self ..)
        · exact ih k (fun y hy => h y (List.mem_cons_of_mem _ hy)) x hx
  intro l
  induction l with
  | nil => intro s h; exact h
  | cons o l ih =>
    intro s h
    apply ih
    cases o with
    | reg m => simp only [step]; split <;> exact h
    | openS k =>
      cases k with
      | mem =>
        intro x hx hk
        simp only [step, List.mem_append, List.mem_singleton] at hx
        rcases hx with hx | rfl
        · exact h x hx hk
        · cases hk
      | cli =>
        intro x hx hk
        simp only [step, List.mem_append, List.mem_singleton] at hx
        rcases hx with hx | rfl
        · exact h x hx hk
        · cases hk
      | hnew =>
        intro x hx hk
        simp only [step, List.mem_append, List.mem_singleton] at hx
        rcases hx with hx | rfl
        · exact h x hx hk
        · cases hk
      | http =>
        intro x hx hk
        simp only [step, List.mem_append, List.mem_singleton] at hx
        rcases hx with hx | rfl
        · exact h x hx hk
        · rfl
    | hs k =>
      simp only [step]
      split
      · exact setInit_ok _ _ h
      · exact h
      · exact h
    | call c => simp only [step]; split <;> exact h

/-! ## The monitor of the stream -/

/-- What the implementation did on a call. -/
structure CObs where
  w : W                  -- the JSON-RPC answer (pipe: what was written back; http: the messages of the response body)
  http : Option Nat      -- the HTTP status (`none`: a pipe)
  ran : Nat              -- how often the method's handler ran
deriving DecidableEq, Repr

inductive Obs
  | ack (ok : Bool)      -- `creg`: accepted / refused; `copen`, `chs`: done / not done
  | na
  | called (o : CObs)
  | unreadable
deriving DecidableEq, Repr

/-- What the monitor remembers: the registrations that were acknowledged, and the sessions with whether a
handshake was answered with a result on them. -/
structure Mem where
  regd : List String := []
  sess : List Sess := []
deriving DecidableEq, Repr

inductive Clause
  | multi | stray | malformed | notifAnswered
  | beforeInit | dropped | unknownCode | paramsCode | ranTwice | modernNoMeta | unreadable
deriving DecidableEq, Repr

def Clause.pid : Clause → PID
  | .beforeInit | .modernNoMeta => .C06
  | _ => .C02

def isErr : W → Bool
  | .err _ _ => true
  | _ => false

def is4xx : Option Nat → Bool
  | some n => decide (400 ≤ n) && decide (n < 500)
  | none => false

/-- The rules for a call `c` on a session `x`, given the acknowledged registrations. -/
def callRules (regd : List String) (x : Sess) (c : Call) (o : CObs) : List (Bool × Clause) :=
  let known := regd.contains c.name
  [ ((match o.w with | .multi _ => true | _ => false), .multi),
    ((match o.w with | .stray _ => true | _ => false), .stray),
    (o.w == .malformed, .malformed),
    (!c.hasId && o.w != .none, .notifAnswered),
    (!x.init && x.kind != .hnew && (o.ran != 0 || (c.hasId && !isErr o.w && !(x.kind == .http && o.w == .none && is4xx o.http))), .beforeInit),
    (x.init && c.hasId && known && o.w == .none, .dropped),
    (x.init && c.hasId && !known &&
      !(o.w == .err (-32601) none || (x.kind == .http && o.w == .none && is4xx o.http)), .unknownCode),
    (x.init && c.hasId && known && badParams c.params && (o.w != .err (-32602) none || o.ran != 0), .paramsCode),
    (decide (1 < o.ran), .ranTwice),
    (x.kind == .hnew && !c.params.isObject && o.ran != 0, .modernNoMeta) ]

def monitor (m : Mem) : Op → Obs → Option Clause
  | _, .unreadable => some .unreadable
  | .call c, .called o =>
    match m.sess[c.k]? with
    | some x => firstRule' (callRules m.regd x c o)
    | none => none
  | _, _ => none
where
  firstRule' (l : List (Bool × Clause)) : Option Clause := l.findSome? (fun p => if p.1 then some p.2 else none)

def memNext (m : Mem) : Op → Obs → Mem
  | .reg n, .ack true => { m with regd := n :: m.regd }
  | .openS .mem, .ack true => { m with sess := m.sess ++ [⟨.mem, false⟩] }
  | .openS .http, .ack ok => { m with sess := m.sess ++ [⟨.http, ok⟩] }
  | .openS .cli, .ack ok => { m with sess := m.sess ++ [⟨.cli, ok⟩] }
  | .openS .cli, _ => { m with sess := m.sess ++ [⟨.cli, false⟩] }
  | .openS .hnew, _ => { m with sess := m.sess ++ [⟨.hnew, true⟩] }
  | .openS .mem, _ => { m with sess := m.sess ++ [⟨.mem, false⟩] }
  | .openS .http, _ => { m with sess := m.sess ++ [⟨.http, false⟩] }
  | .hs k, .ack true => { m with sess := setInit m.sess k }
  | _, _ => m

/-! ## Soundness of the clauses: each report contradicts the property clause it names -/

/-- The property clauses for one call, as predicates (C02 / C06 texts; `regd`, `x`: what the history says). -/
def P (regd : List String) (x : Sess) (c : Call) (o : CObs) : Clause → Prop
  /- "exactly one response" -/
  | .multi => ∀ n, o.w ≠ .multi n
  /- "bearing that same id" -/
  | .stray => ∀ n, o.w ≠ .stray n
  | .malformed => o.w ≠ .malformed
  /- "notifications never receive a response" -/
  | .notifAnswered => c.hasId = false → o.w = .none
  /- C06: "nothing … reaches server-side handlers until an initialize request has been accepted" -/
  | .beforeInit => x.init = false → x.kind ≠ .hnew → o.ran = 0 ∧
      (c.hasId = true → isErr o.w = true ∨ (x.kind = .http ∧ o.w = .none ∧ is4xx o.http = true))
  /- "each well-formed request that carries an id receives … one response", for a method the server knows -/
  | .dropped => x.init = true → c.hasId = true → c.name ∈ regd → o.w ≠ .none
  /- "Unknown methods … -32601; an HTTP 4xx where the HTTP transports pre-validate" -/
  | .unknownCode => x.init = true → c.hasId = true → c.name ∉ regd →
      o.w = .err (-32601) none ∨ (x.kind = .http ∧ o.w = .none ∧ is4xx o.http = true)
  /- "undecodable parameters … -32602 … instead of being dropped" -/
  | .paramsCode => x.init = true → c.hasId = true → c.name ∈ regd → badParams c.params = true →
      o.w = .err (-32602) none ∧ o.ran = 0
  /- one call, one invocation -/
  | .ranTwice => o.ran ≤ 1
  /- C06: "Requests carrying the 2026-07-28 per-request metadata are served without a handshake only if that
  metadata is complete": params that are no object carry none -/
  | .modernNoMeta => x.kind = .hnew → c.params.isObject = false → o.ran = 0
  | .unreadable => True

theorem firstRule'_some : ∀ {l : List (Bool × Clause)} {cl : Clause}, monitor.firstRule' l = some cl → (true, cl) ∈ l
  | [], _, h => by simp [monitor.firstRule'] at h
  | (b, c) :: l, cl, h => by
    simp only [monitor.firstRule', List.findSome?_cons] at h
    cases b with
    | true => simp only [if_true, Option.some.injEq] at h; subst h; exact List.mem_cons_self ..
    | false =>
      simp only [Bool.false_eq_true, if_false] at h
      exact List.mem_cons_of_mem _ (firstRule'_some h)

theorem firstRule'_none : ∀ {l : List (Bool × Clause)}, monitor.firstRule' l = none → ∀ p ∈ l, p.1 = false
  | [], _, p, hp => by cases hp
  | (b, c) :: l, h, p, hp => by
    simp only [monitor.firstRule', List.findSome?_cons] at h
    cases b with
    | true => simp at h
    | false =>
      simp only [Bool.false_eq_true, if_false] at h
      rcases List.mem_cons.1 hp with rfl | hp
      · rfl
      · exact firstRule'_none h p hp

/-- **monitor_sound (custom).** A clause reported on a call contradicts the property clause it names. -/
theorem monitor_sound (m : Mem) (c : Call) (o : CObs) (x : Sess) (cl : Clause) (hx : m.sess[c.k]? = some x)
    (h : monitor m (.call c) (.called o) = some cl) (hne : cl ≠ .unreadable) : ¬ P m.regd x c o cl := by
  simp only [monitor, hx] at h
  have hmem := firstRule'_some h
  simp only [callRules, List.mem_cons, Prod.mk.injEq, List.mem_nil_iff, or_false] at hmem
  intro hP
  rcases hmem with ⟨h1, rfl⟩ | ⟨h1, rfl⟩ | ⟨h1, rfl⟩ | ⟨h1, rfl⟩ | ⟨h1, rfl⟩ | ⟨h1, rfl⟩ | ⟨h1, rfl⟩ | ⟨h1, rfl⟩ | ⟨h1, rfl⟩ | ⟨h1, rfl⟩
  · simp only [P] at hP
    cases hw : o.w <;> simp [hw] at h1
    exact hP _ hw
  · simp only [P] at hP
    cases hw : o.w <;> simp [hw] at h1
    exact hP _ hw
  · simp only [P] at hP
    exact hP (by simpa using h1.symm)
  · simp only [P] at hP
    have h1 := h1.symm
    simp only [Bool.and_eq_true, Bool.not_eq_true', bne_iff_ne, ne_eq] at h1
    exact h1.2 (hP h1.1)
  · simp only [P] at hP
    have h1 := h1.symm
    simp only [Bool.and_eq_true, Bool.not_eq_true', Bool.or_eq_true, bne_iff_ne, ne_eq] at h1
    obtain ⟨a, b⟩ := hP h1.1.1 (by simpa using h1.1.2)
    rcases h1.2 with h2 | ⟨⟨h2, h3⟩, h4⟩
    · exact h2 a
    · rcases b h2 with b | ⟨b1, b2, b3⟩
      · rw [b] at h3; cases h3
      · simp [b1, b2, b3] at h4
  · simp only [P] at hP
    have h1 := h1.symm
    simp only [Bool.and_eq_true, beq_iff_eq, List.contains_iff_mem] at h1
    exact hP h1.1.1.1 h1.1.1.2 h1.1.2 h1.2
  · simp only [P] at hP
    have h1 := h1.symm
    simp only [Bool.and_eq_true, Bool.not_eq_true', Bool.or_eq_false_iff, beq_eq_false_iff_ne, ne_eq,
      Bool.and_eq_false_iff] at h1
    obtain ⟨⟨⟨hi, hid⟩, hk⟩, hno, hnh⟩ := h1
    have hk' : c.name ∉ m.regd := by
      intro hin
      have : m.regd.contains c.name = true := by simpa using hin
      rw [this] at hk; cases hk
    rcases hP hi hid hk' with hw | ⟨e1, e2, e3⟩
    · exact hno hw
    · rcases hnh with (hnh | hnh) | hnh
      · rw [e1] at hnh; simp at hnh
      · rw [e2] at hnh; simp at hnh
      · rw [e3] at hnh; cases hnh
  · simp only [P] at hP
    have h1 := h1.symm
    simp only [Bool.and_eq_true, Bool.or_eq_true, bne_iff_ne, ne_eq, List.contains_iff_mem] at h1
    obtain ⟨⟨⟨⟨hi, hid⟩, hk⟩, hb⟩, hor⟩ := h1
    obtain ⟨a, b⟩ := hP hi hid hk hb
    rcases hor with h2 | h2
    · exact h2 a
    · exact h2 b
  · simp only [P] at hP
    have h1 := h1.symm
    simp only [decide_eq_true_eq] at h1
    omega
  · simp only [P] at hP
    have h1 := h1.symm
    simp only [Bool.and_eq_true, beq_iff_eq, Bool.not_eq_true', bne_iff_ne, ne_eq] at h1
    exact h1.2 (hP h1.1.1 h1.1.2)

/-- **monitor_complete (custom).** Silence on a call means every clause holds on it. -/
theorem monitor_complete (m : Mem) (c : Call) (o : CObs) (x : Sess) (hx : m.sess[c.k]? = some x)
    (h : monitor m (.call c) (.called o) = none) (cl : Clause) : P m.regd x c o cl := by
  simp only [monitor, hx] at h
  have H := firstRule'_none h
  simp only [callRules, List.mem_cons, List.mem_nil_iff, or_false] at H
  cases cl with
  | multi =>
    intro n hw
    have := H (_, .multi) (Or.inl rfl)
    simp [hw] at this
  | stray =>
    intro n hw
    have := H (_, .stray) (Or.inr (Or.inl rfl))
    simp [hw] at this
  | malformed =>
    intro hw
    have := H (_, .malformed) (Or.inr (Or.inr (Or.inl rfl)))
    simp [hw] at this
  | notifAnswered =>
    intro hid
    have := H (_, .notifAnswered) (Or.inr (Or.inr (Or.inr (Or.inl rfl))))
    simpa [hid] using this
  | beforeInit =>
    intro hi
    have := H (_, .beforeInit) (Or.inr (Or.inr (Or.inr (Or.inr (Or.inl rfl)))))
    intro hmod
    have hmod' : (x.kind != Kind.hnew) = true := by simpa using hmod
    simp only [hi, hmod', Bool.not_false, Bool.true_and, Bool.or_eq_false_iff, bne_eq_false_iff_eq,
      Bool.and_eq_false_iff, Bool.not_eq_false'] at this
    refine ⟨this.1, fun hid => ?_⟩
    rcases this.2 with (h2 | h2) | h2
    · rw [hid] at h2; cases h2
    · exact Or.inl h2
    · simp only [Bool.and_eq_true, beq_iff_eq] at h2
      exact Or.inr ⟨h2.1.1, h2.1.2, h2.2⟩
  | dropped =>
    intro hi hid hk hw
    have := H (_, .dropped) (Or.inr (Or.inr (Or.inr (Or.inr (Or.inr (Or.inl rfl))))))
    simp [hi, hid, hw] at this
    exact this hk
  | unknownCode =>
    intro hi hid hk
    have := H (_, .unknownCode) (Or.inr (Or.inr (Or.inr (Or.inr (Or.inr (Or.inr (Or.inl rfl)))))))
    have hk' : m.regd.contains c.name = false := by
      cases hb : m.regd.contains c.name with
      | false => rfl
      | true => exact absurd (by simpa using hb) hk
    simp only [hi, hid, hk', Bool.not_false, Bool.true_and, Bool.not_eq_false', Bool.or_eq_true, beq_iff_eq,
      Bool.and_eq_true] at this
    rcases this with h2 | ⟨⟨h2, h3⟩, h4⟩
    · exact Or.inl h2
    · exact Or.inr ⟨h2, h3, h4⟩
  | paramsCode =>
    intro hi hid hk hb
    have := H (_, .paramsCode) (Or.inr (Or.inr (Or.inr (Or.inr (Or.inr (Or.inr (Or.inr (Or.inl rfl))))))))
    have hk' : m.regd.contains c.name = true := by simpa using hk
    simp only [hi, hid, hk', hb, Bool.true_and, Bool.or_eq_false_iff, bne_eq_false_iff_eq] at this
    exact this
  | ranTwice =>
    have := H (_, .ranTwice) (Or.inr (Or.inr (Or.inr (Or.inr (Or.inr (Or.inr (Or.inr (Or.inr (Or.inl rfl)))))))))
    simp only [decide_eq_false_iff_not] at this
    simp only [P]; omega
  | modernNoMeta =>
    intro hk hob
    have := H (_, .modernNoMeta) (Or.inr (Or.inr (Or.inr (Or.inr (Or.inr (Or.inr (Or.inr (Or.inr (Or.inr rfl)))))))))
    simpa [hk, hob] using this
  | unreadable => trivial

/-! ## The monitor accepts the model, on every history -/

def wOfAns : Ans → W
  | .nothing => .none
  | .result => .ok
  | .error c => .err c none
  | .httpRefused => .none

/-- The observation the model's step produces (`status`: the HTTP status shown for an http session). -/
def obsOf (kind : Kind) : Res → Obs
  | .ok => .ack true
  | .shadows => .ack false
  | .fail => .ack false
  | .na => .na
  | .out o => .called ⟨wOfAns o.ans,
      (match kind with
        | .mem | .cli => none
        | .http => some (match o.ans with | .httpRefused => 400 | .nothing => 202 | _ => 200)
        -- extractErrorStatus: under the new protocol -32601 is HTTP 404, -32602 is HTTP 400
        | .hnew => some (match o.ans with
            | .httpRefused => 400 | .nothing => 202 | .result => 200
            | .error c => if c == codeMethodNotFound then 404 else if c == codeInvalidParams then 400 else 200)),
      if o.ran then 1 else 0⟩

def kindOf (s : State) : Op → Kind
  | .call c => (match s.sess[c.k]? with | some x => x.kind | none => .mem)
  | _ => .mem

def memOf (s : State) : Mem := ⟨s.registered, s.sess⟩

theorem tbl_custom_codes : codeNone = 0 ∧ checkUnknownMethod = -32601 ∧ decodeFailure = -32602 := by decide
theorem tbl_custom_codes' : codeInvalidParams = -32602 ∧ codeMethodNotFound = -32601 := by decide

/-- One step: the monitor's memory follows the model's state, and nothing is reported. -/
theorem step_accepted (s : State) (o : Op) :
    monitor (memOf s) o (obsOf (kindOf s o) (step s o).2) = none ∧
    memNext (memOf s) o (obsOf (kindOf s o) (step s o).2) = memOf (step s o).1 := by
  obtain ⟨t1, t2, t3⟩ := tbl_custom_codes
  obtain ⟨t4, t5⟩ := tbl_custom_codes'
  cases o with
  | reg n =>
    simp only [step]
    split <;> simp [monitor, obsOf, memNext, memOf]
  | openS k => cases k <;> simp [step, monitor, obsOf, memNext, memOf]
  | hs k =>
    simp only [step]
    split <;> simp [monitor, obsOf, memNext, memOf]
  | call c =>
    simp only [step]
    cases hx : s.sess[c.k]? with
    | none => simp [monitor, obsOf, memNext, memOf]
    | some x =>
      refine ⟨?_, by simp [obsOf, memNext, memOf]⟩
      obtain ⟨kind, init⟩ := x
      by_cases hk : c.name ∈ s.registered <;>
      cases kind <;> cases init <;> cases hid : c.hasId <;> cases hb : badParams c.params <;>
        cases hob : c.params.isObject <;>
        simp [kindOf, hx, obsOf, monitor, memOf, answerOn, sessionAnswer, httpAnswer, modernAnswer, monitor.firstRule',
          callRules, hid, hk, hb, hob, wOfAns, isErr, is4xx, t1, t2, t3, t4, t5]

def monRun : Mem → State → List Op → Option (Nat × Clause)
  | _, _, [] => none
  | m, s, o :: l =>
    match monitor m o (obsOf (kindOf s o) (step s o).2) with
    | some cl => some (0, cl)
    | none => (monRun (memNext m o (obsOf (kindOf s o) (step s o).2)) (step s o).1 l).map (fun p => (p.1 + 1, p.2))

/-- **monitor_accepts_model (custom).** On every history of registrations, session set-ups, handshakes and
calls, the monitor reports nothing on what the model does. -/
theorem monitor_accepts_model : ∀ (l : List Op) (s : State), monRun (memOf s) s l = none
  | [], _ => rfl
  | o :: l, s => by
    obtain ⟨h1, h2⟩ := step_accepted s o
    simp only [monRun, h1, h2]
    rw [monitor_accepts_model l]
    rfl

/-! ## A registration racing a call in flight: two labels

A call written to a pipe session whose queue is stopped (a notification handler of the session has not returned:
notifications are handled synchronously on the jsonrpc2 queue) has been READ but not yet looked up. Label 1
(`callq`) = the envelope is queued; label 2 (`release`) = the queue runs and `handleReceive` consults the server's
table AS IT IS THEN. `AddReceivingCustomMethod` may fall before label 1, between the two labels, or after label 2. -/

structure QState where
  base : State := {}
  /-- the held pipe sessions, each with the calls queued on it -/
  queues : List (Nat × List Call) := []
deriving DecidableEq, Repr

def heldQ (q : QState) (k : Nat) : Option (List Call) := (q.queues.find? (fun p => p.1 == k)).map (·.2)

inductive QOp
  | base (o : Op)
  | holdq (k : Nat)
  | callq (c : Call)
  | release (k : Nat)
deriving DecidableEq, Repr

inductive QRes
  | base (r : Res)
  | ok | na | queued
  | released (outs : List Out)
deriving DecidableEq, Repr

def opSession : Op → Option Nat
  | .call c => some c.k
  | .hs k => some k
  | _ => none

def qstep (q : QState) : QOp → QState × QRes
  | .base o =>
    -- an envelope written to a held session would only be queued: not an operation of this label
    if ((opSession o).bind (heldQ q)).isSome then (q, .na)
    else ({ q with base := (step q.base o).1 }, .base (step q.base o).2)
  | .holdq k =>
    match q.base.sess[k]?, heldQ q k with
    | some ⟨.mem, true⟩, none => ({ q with queues := (k, []) :: q.queues }, .ok)
    | _, _ => (q, .na)
  | .callq c =>
    match heldQ q c.k with
    | some _ => ({ q with queues := q.queues.map (fun p => if p.1 == c.k then (p.1, p.2 ++ [c]) else p) }, .queued)
    | none => (q, .na)
  | .release k =>
    match heldQ q k with
    | some l => ({ q with queues := q.queues.filter (fun p => p.1 != k) },
                 .released (l.map (sessionAnswer q.base.registered true)))
    | none => (q, .na)

def qrun : QState → List QOp → QState
  | q, [] => q
  | q, o :: l => qrun (qstep q o).1 l

/-- An initialized session answers every call that carries an id: a result or an error, never nothing. -/
theorem sessionAnswer_answered (reg : List String) (c : Call) (hid : c.hasId = true) :
    (sessionAnswer reg true c).ans = .result ∨ ∃ code, (sessionAnswer reg true c).ans = .error code := by
  simp only [sessionAnswer, hid]
  by_cases h1 : c.name ∈ reg
  · by_cases h2 : badParams c.params = true
    · right; exact ⟨decodeFailure, by simp [h1, h2]⟩
    · left; simp [h1, h2]
  · right; exact ⟨checkUnknownMethod, by simp [h1]⟩

/-- **Exactly once, whatever the order.** When the queue of a held session runs, every call queued on it gets
exactly one outcome (the list of outcomes has the queue's length, in order), computed from the table as it is at
that moment; a call that carries an id is answered with a result or an error — never dropped — whether the
registration of its method fell before it was written, while it was queued, or comes only afterwards. -/
theorem release_answers_each_once (q : QState) (k : Nat) (l : List Call) (h : heldQ q k = some l) :
    (qstep q (.release k)).2 = .released (l.map (sessionAnswer q.base.registered true)) ∧
    (l.map (sessionAnswer q.base.registered true)).length = l.length ∧
    ∀ c ∈ l, c.hasId = true →
      (sessionAnswer q.base.registered true c).ans = .result ∨ ∃ code, (sessionAnswer q.base.registered true c).ans = .error code := by
  refine ⟨by simp [qstep, h], by simp, fun c _ hid => sessionAnswer_answered _ c hid⟩

/-- A registration between the two labels does not touch the queue and is visible to label 2. -/
theorem reg_between_labels (q : QState) (n : String) (hn : isStandard n = false) :
    (qstep q (.base (.reg n))).1.queues = q.queues ∧ n ∈ (qstep q (.base (.reg n))).1.base.registered := by
  simp [qstep, opSession, step, hn]

/-- **Both orders.** The call is queued first; if the registration falls before the queue runs the handler's
result is the answer, if the queue runs first the answer is method-not-found — one answer either way. -/
theorem race_both_orders (q : QState) (k : Nat) (n : String) (c : Call) (hn : isStandard n = false)
    (hc : c.name = n) (hid : c.hasId = true) (hb : badParams c.params = false)
    (hnot : n ∉ q.base.registered) (hq : heldQ q k = some [c]) :
    (qstep (qstep q (.base (.reg n))).1 (.release k)).2 = .released [⟨.result, true⟩] ∧
    (qstep q (.release k)).2 = .released [⟨.error checkUnknownMethod, false⟩] := by
  have h1 : heldQ (qstep q (.base (.reg n))).1 k = some [c] := by
    simp only [heldQ, (reg_between_labels q n hn).1]; exact hq
  have hreg : (qstep q (.base (.reg n))).1.base.registered = n :: q.base.registered := by
    simp [qstep, opSession, step, hn]
  constructor
  · generalize (qstep q (.base (.reg n))).1 = q' at h1 hreg
    simp [qstep, h1, hreg, sessionAnswer, hid, hb, hc]
  · have : c.name ∉ q.base.registered := by rw [hc]; exact hnot
    simp [qstep, hq, sessionAnswer, hid, this]

/-- The monitor of label 2: every queued call that carries an id has an answer, none is answered twice or with
another id, and a queued notification is not answered. `ws`: what came back per queued call, in order. -/
def monitorRelease : List Call → List W → Option Clause
  | [], [] => none
  | c :: l, w :: ws =>
    if c.hasId && w == .none then some .dropped
    else if (match w with | .multi _ => true | _ => false) then some .multi
    else if (match w with | .stray _ => true | _ => false) then some .stray
    else if !c.hasId && w != .none then some .notifAnswered
    else monitorRelease l ws
  | _, _ => some .unreadable

/-- The monitor of label 2 accepts what the model does, for every queue and every table. -/
theorem release_accepted (reg : List String) : ∀ l : List Call,
    monitorRelease l ((l.map (sessionAnswer reg true)).map (fun o => wOfAns o.ans)) = none
  | [] => rfl
  | c :: l => by
    simp only [List.map_cons, monitorRelease]
    rw [release_accepted reg l]
    cases hid : c.hasId
    · simp [sessionAnswer, hid, wOfAns]
    · rcases sessionAnswer_answered reg c hid with h | ⟨code, h⟩ <;> simp [h, wOfAns]

/-- Non-vacuity of the race: hold, queue the call, register, release — served; release first — not found. -/
example :
    (qstep (qrun { base := { sess := [⟨.mem, true⟩] } }
      [.holdq 0, .callq ⟨0, "acme/late", true, .objOk⟩, .base (.reg "acme/late")]) (.release 0)).2 =
      .released [⟨.result, true⟩] ∧
    (qstep (qrun { base := { sess := [⟨.mem, true⟩] } }
      [.holdq 0, .callq ⟨0, "acme/late", true, .objOk⟩]) (.release 0)).2 =
      .released [⟨.error (-32601), false⟩] := by decide

/-- Non-vacuity: the m14 shape — a streamable session, then the registration, then the call — is served. -/
example : (step (run {} [.openS .http, .reg "acme/late"]) (.call ⟨0, "acme/late", true, .objOk⟩)).2 =
    .out ⟨.result, true⟩ := by decide

/-- … and the monitor reports `dropped` when that call is turned away with HTTP 400 and no message. -/
example : monitor ⟨["acme/late"], [⟨.http, true⟩]⟩ (.call ⟨0, "acme/late", true, .objOk⟩)
    (.called ⟨.none, some 400, 0⟩) = some .dropped := by decide

end Gate.Custom
