import McpModel.Base.Proto
import McpModel.Gate.Monitor
import McpModel.Gate.Custom
import McpModel.Gate.Mid
/-!
Driver for E3 `gate`: replays the harness's envelope descriptors on the admission model and evaluates
the C06 / C02 monitors on the IMPLEMENTATION's observations.

op:   `tr <plain|all|set:<hex,..|->|ge:<hex>|lt:<hex>>`   the server transport of the case (after `reset`):
      no `ProtocolVersionSupporter`, or one whose `SupportsProtocolVersion` is the given predicate
obs:  `sv=<v1,v2..|->`   `ServerSession.supportedVersions` after `Server.Connect`
op:   `msg <s|c> <method> <id|noid> <shape> <meta> tag=<hex> iver=<hex> lvl=<hex> mut=<hex> raw=<hex>`
obs:  `w=<none|ok|e<code>[:v1,v2..]|multiN|strayN> mw=<methods|-> uh=<handlers|-> st=<tag@ver|->/<0|1>/<level> rv=<..|->`
      (`rv`: protocolVersion of an initialize result / supportedVersions of a discover result) or `panic` / `stuck`.

F34: the version a request's `_meta` names must be one the session's TRANSPORT serves (the `tr` record),
the server/discover probe excepted; -32022 carries the transport's versions.

The monitors (`Monitor.monitor`, typed; this file keeps the token parser, the renderers and the clause
texts) are written from the property text (codes as literal numbers, the lifecycle methods named
explicitly) and read the session state from the implementation's own observations; they do not consult
the model's state.  An observation field that is not in the canonical form the renderers produce is
read as `W.other` / `Obs.unreadable`.
-/
namespace Gate
open Proto Generated.Gate

def parseShape : String → Option PShape
  | "absent" => some .absent | "null" => some .null | "ok" => some .objOk | "degraded" => some .objDegraded
  | "undecodable" => some .objUndecodable | "wrongtype" => some .wrongType | _ => none

def parseMeta (t : String) : Option MetaShape :=
  if t == "nometa" || t == "metanull" || t == "nover" || t == "nonstr" then some .none
  else if t.startsWith "v" then
    match ((t.drop 1).toString).splitOn ":" with
    | [vh, caps, ci] => do
      let v ← hexToString vh
      let caps ← (match caps with | "ok" => some Caps.ok | "missing" => some .missing | "invalid" => some .invalid | _ => none)
      let ci ← (match ci with | "ok" => some CInfo.ok | "invalid" => some .invalid | "absent" => some .absent | _ => none)
      pure (.ver v caps ci)
    | _ => none
  else none

/-- The transport's `SupportsProtocolVersion` (`none`: unreadable spec). -/
def parseTr (t : String) : Option (String → Bool) :=
  if t == "plain" || t == "all" then some (fun _ => true)
  else if t == "set:-" then some (fun _ => false)
  else if t.startsWith "set:" then do
    let vs ← (((t.drop 4).toString).splitOn ",").mapM hexToString
    pure (fun v => vs.contains v)
  else if t.startsWith "ge:" then do
    let x ← hexToString ((t.drop 3).toString)
    pure (fun v => !decide (v < x))
  else if t.startsWith "lt:" then do
    let x ← hexToString ((t.drop 3).toString)
    pure (fun v => decide (v < x))
  else none

def showVersions (l : List String) : String := if l.isEmpty then "-" else ",".intercalate l

def kv (k : String) (t : String) : Option String :=
  if t.startsWith (k ++ "=") then hexToString ((t.drop (k.length + 1)).toString) else none

def parseMsg : List String → Option Msg
  | ["msg", side, meth, id, shape, mt, tag, iver, lvl, mutTok, _raw] => do
    let shape ← parseShape shape
    let mt ← parseMeta mt
    let tag ← kv "tag" tag
    let iver ← kv "iver" iver
    let lvl ← kv "lvl" lvl
    let muts ← kv "mut" mutTok
    let name := if meth == "%empty" then "" else meth
    let sd ← (if side == "s" then some Side.server else if side == "c" then some Side.client else none)
    if id != "id" && id != "noid" then none
    pure { side := sd, mname := name, muts := words muts,
           req := { method := methodOfName name, hasId := id == "id", params := shape, «meta» := mt, tag := tag, iver := iver, lvl := lvl,
                    cancelIdBad := name == "notifications/cancelled" && (words muts).contains "requestId:wrong" } }
  | _ => none

/-! ## rendering the model's prediction -/

def showState (s : State) : String :=
  let ip := match s.init with
    | some i => stringToHex i.tag ++ "@" ++ stringToHex i.ver
    | none => "-"
  s!"{ip}/{if s.initd then 1 else 0}/{stringToHex s.level}"

def showAnswer : Answer → Option String
  | .nothing => some "none"
  | .result => some "ok"
  | .error c d => some (if c == codeUnsupportedProtocolVersion then s!"e{c}:{",".intercalate d}" else s!"e{c}")
  | .some_answer => none

/-- The user-level handler expected to run (harness configuration); `none`: not modelled. -/
def expectedUH (side : Side) (r : Req) : Outcome → Option String
  | .invoked m res =>
    let feature (n : String) : Option String :=
      match r.params with
      | .objOk => some n
      | _ => none
    if side == .server then
      match m with
      | .notifications_initialized => some (if res == .ok then "initialized" else "-")
      | .notifications_roots_list_changed => some "roots-changed"
      | .notifications_progress => some "progress"
      | .tools_call => feature "tool"
      | .prompts_get => feature "prompt"
      | .resources_read => feature "resource"
      | .resources_subscribe => feature "subscribe"
      | .resources_unsubscribe => feature "unsubscribe"
      | .completion_complete => feature "complete"
      | _ => some "-"
    else
      match m with
      | .sampling_createMessage => feature "sampling"
      | .elicitation_create => feature "elicit"
      | .notifications_elicitation_complete => some "elicit-complete"
      | .notifications_tools_list_changed => some "tools-changed"
      | .notifications_prompts_list_changed => some "prompts-changed"
      | .notifications_resources_list_changed => some "resources-changed"
      | .notifications_resources_updated => some "resource-updated"
      | .notifications_message => some "log"
      | .notifications_progress => some "progress"
      | _ => some "-"
  | _ => some "-"

def field (k : String) (obs : String) : Option String :=
  (words obs).findSome? (fun t => if t.startsWith (k ++ "=") then some ((t.drop (k.length + 1)).toString) else none)

def isErrTok (w : String) : Bool :=
  w.startsWith "e" && (((w.drop 1).toString).splitOn ":").head!.toInt?.isSome

/-- Fill a field the model leaves open with the implementation's value when that value is admissible. -/
def fillW (r : Req) (model : Option String) (impl : Option String) : String :=
  match model with
  | some s => s
  | none => match impl with
    | some w => if r.hasId && (w == "ok" || isErrTok w) then w else "ok|e<code>"
    | none => "ok|e<code>"

def fillUH (model : Option String) (impl : Option String) : String :=
  match model with
  | some s => s
  | none => match impl with
    | some u => if u == "-" || !(u.contains ',') then u else "-|<handler>"
    | none => "-|<handler>"

/-! ## the string layer of the monitors -/

def showW : W → String
  | .none => "none"
  | .ok => "ok"
  | .err c none => s!"e{c}"
  | .err c (some d) => s!"e{c}:{",".intercalate d}"
  | .multi n => "multi" ++ n
  | .stray n => "stray" ++ n
  | .malformed => "malformed"
  | .other => "?"

/-- `none|ok|e<code>[:v1,v2..]|multiN|strayN|malformed` (canonical text only). -/
def parseW (w : String) : W :=
  let cand : W :=
    if w == "none" then .none
    else if w == "ok" then .ok
    else if w == "malformed" then .malformed
    else if w.startsWith "multi" then .multi (w.drop 5).toString
    else if w.startsWith "stray" then .stray (w.drop 5).toString
    else if w.startsWith "e" then
      match ((w.drop 1).toString).splitOn ":" with
      | [c] => (match c.toInt? with | some n => .err n none | none => .other)
      | [c, d] => (match c.toInt? with | some n => .err n (some (if d == "" then [] else d.splitOn ",")) | none => .other)
      | _ => .other
    else .other
  if showW cand == w then cand else .other

def showSt (s : St) : String := s!"{s.init.getD "-"}/{if s.initd then 1 else 0}/{s.level}"

/-- `<tag@ver|->/<0|1>/<level>` (canonical text only). -/
def parseSt (t : String) : Option St :=
  match t.splitOn "/" with
  | [a, b, c] =>
    let s : St := { init := if a == "-" then none else some a, initd := b == "1", level := c }
    if showSt s == t then some s else none
  | _ => none

/-- The implementation's observation, typed. -/
def parseObs (impl : String) : Obs :=
  if impl == "panic" then .panic
  else if impl == "stuck" then .stuck
  else match field "w" impl, field "mw" impl, field "uh" impl, (field "st" impl).bind parseSt with
    | some w, some mw, some uh, some st => .seen { w := parseW w, mw := mw != "-", uh := uh != "-", st := st }
    | _, _, _, _ => .unreadable

/-- The texts a clause quotes: the raw fields of this observation and the previous session state. -/
structure Raw where
  w : String
  mw : String
  uh : String
  st : String
  prevSt : String

def sideTok : Side → String
  | .server => "s"
  | .client => "c"

def clauseText (m : Msg) (mon : Mon) (x : Raw) : Clause → String
  | .dropped => "C02: call not answered (dropped)"
  | .multi => "C02: call answered more than once"
  | .stray => "C02: response bearing an id that was not the request's"
  | .notifAnswered => "C02: notification answered"
  | .malformed => "C02: response with neither result nor error"
  | .f12 => "C02: F12 server crash: tools/call with \"arguments\":null on a typed tool whose input schema declares a default"
  | .f13Elicit => "C02: F13 client crash: elicitation/create without params"
  | .f13ElicitComplete => "C02: F13 client crash: notifications/elicitation/complete without params"
  | .f13Sampling => "C02: F13 client crash: sampling/createMessage with a null element in messages"
  | .crash => s!"C02: process crash (panic) while handling {m.mname} on side {sideTok m.side}"
  | .tornDown => "C02: session torn down (the implementation stopped reading)"
  | .unreadable => "C02: unreadable observation"
  | .f4Served => s!"C06: F4 {m.mname} served before initialize (it sits in the exempt arm of the gate switch)"
  | .servedBeforeInit => s!"C06: {m.mname} reached a handler before initialize was accepted"
  | .f4Passed => s!"C06: F4 {m.mname} passed the gate before initialize (answered {x.w} instead of the not-initialized refusal)"
  | .stateBeforeInit => s!"C06: session state changed before initialize by {m.mname}"
  | .servedUnopened => s!"C06: {m.mname} was served although no initialize has been accepted on this session (every initialize so far was answered with an error, and no request carried valid per-request metadata)"
  | .secondInitAccepted => "C06: second initialize accepted"
  | .secondInitState => "C06: second initialize changed session state"
  | .rejectedInitState => s!"C06: rejected initialize changed session state (it was answered {x.w}, not accepted, yet the session state went from {x.prevSt} to {x.st})"
  | .initializedAccepted => "C06: premature or repeated initialized notification accepted (handler ran or state changed)"
  | .pingNotServed => "C06: ping not served"
  | .incompleteMeta => "C06: request with incomplete per-request metadata was not refused with -32602 (or had an effect)"
  | .f34NotRefused => s!"C06: F34 {m.mname} whose _meta names {metaVersion m.req}, a version the session's transport does not serve (it serves {showVersions mon.tv}), was not refused with -32022 listing the transport's versions: answered {x.w}, handlers mw={x.mw} uh={x.uh}, session state {x.prevSt} -> {x.st}"
  | .f34SdkList => s!"C06: F34 unsupported per-request version refused with -32022 listing the SDK's versions instead of the versions the session's transport serves ({showVersions mon.tv})"
  | .unsupportedVersion => "C06: unsupported per-request version not answered with -32022 listing the supported versions"
  | .removedMethod => s!"C06: {m.mname} is removed from the 2026-07-28 protocol but was not answered method-not-found"
  | .discoverLegacy => "C06: server/discover served to a legacy request"
  | .initializedTwice => "C06: repeated initialized notification accepted: the InitializedHandler ran again although it had already run for an earlier notifications/initialized of this session"
  | .f16 want => s!"C02: F16 initialize with null or undecodable params answered with code 0 instead of {showW want} (its own unmarshalParams wraps no coded error)"
  | .f17 want => s!"C02: F17 id on notifications/cancelled answered {x.w} by the cancellation preempter instead of {showW want}"
  | .codeWrong want => s!"C02: {m.mname} ({repr m.req.params}, id={m.req.hasId}) answered {x.w}, the property requires {showW want}"

/-! ## stream `custom`: custom methods on the sessions of one server (Custom.lean)

op:   `creg <hex name>`                      obs: `ok|shadows`
op:   `copen <mem|http>`                     obs: `ok|fail<status>`
op:   `chs <k>`                              obs: `ok|fail|na`
op:   `ccall <k> <hex name> <id|noid> <shape>`   obs: `w=<..> http=<-|status> h=<n>` -/

def parseCOp : List String → Option Custom.Op
  | ["creg", n] => (hexToString n).map .reg
  | ["copen", "mem"] => some (.openS .mem)
  | ["copen", "http"] => some (.openS .http)
  | ["copen", "cli"] => some (.openS .cli)
  | ["copen", "hnew"] => some (.openS .hnew)
  | ["chs", k] => k.toNat?.map .hs
  | ["ccall", k, n, id, shape] => do
    let k ← k.toNat?
    let n ← hexToString n
    let sh ← parseShape shape
    if id != "id" && id != "noid" then none
    pure (.call { k := k, name := n, hasId := id == "id", params := sh })
  | _ => none

/-- the two-label race ops: `choldq <k>`, `ccallq <k> <hex name> <id|noid> <shape>`, `crelease <k>` -/
def parseQOp (toks : List String) : Option Custom.QOp :=
  match toks with
  | ["choldq", k] => k.toNat?.map .holdq
  | ["crelease", k] => k.toNat?.map .release
  | "ccallq" :: rest =>
    (match parseCOp ("ccall" :: rest) with
      | some (.call c) => some (.callq c)
      | _ => none)
  | _ => (parseCOp toks).map .base

def showCObs : Custom.Obs → String
  | .ack true => "ok"
  | .ack false => "refused"
  | .na => "na"
  | .unreadable => "?"
  | .called o => s!"w={showW o.w} http={match o.http with | some n => toString n | none => "-"} h={o.ran}"

def showCRes (kind : Custom.Kind) : Custom.Res → String
  | .ok => "ok"
  | .shadows => "shadows"
  | .fail => "fail"
  | .na => "na"
  | r => showCObs (Custom.obsOf kind r)

def parseCObs (op : Custom.Op) (impl : String) : Custom.Obs :=
  match op with
  | .call _ =>
    if impl == "na" then .na else
    match field "w" impl, field "http" impl, (field "h" impl).bind String.toNat? with
    | some w, some h, some n =>
      let http : Option (Option Nat) := if h == "-" then some none else h.toNat?.map some
      (match http with
        | some hs => (let o : Custom.CObs := { w := parseW w, http := hs, ran := n }
                      if showCObs (.called o) == impl then .called o else .unreadable)
        | none => .unreadable)
    | _, _, _ => .unreadable
  | .reg _ => if impl == "ok" then .ack true else if impl == "shadows" then .ack false else .unreadable
  | .openS _ => if impl == "ok" then .ack true else if impl.startsWith "fail" then .ack false else .unreadable
  | .hs _ => if impl == "ok" then .ack true else if impl == "fail" then .ack false else if impl == "na" then .na else .unreadable

def cclauseText (op : Custom.Op) (impl : String) : Custom.Clause → String
  | cl =>
    let name := match op with | .call c => c.name | _ => ""
    match cl with
    | .multi => s!"C02: call of the custom method {name} answered more than once"
    | .stray => s!"C02: response bearing an id that was not the request's (custom method {name})"
    | .malformed => "C02: response with neither result nor error"
    | .notifAnswered => s!"C02: notification answered (custom method {name} sent without id)"
    | .beforeInit => s!"C06: custom method {name} reached its handler, or was not refused, on a session on which no initialize was accepted: {impl}"
    | .dropped => s!"C02: call of the REGISTERED custom method {name} on an initialized session received no response bearing its id (dropped): {impl}"
    | .unknownCode => s!"C02: call of the unknown method {name} not answered method-not-found (-32601; a 4xx without a message where the HTTP transport pre-validates): {impl}"
    | .paramsCode => s!"C02: undecodable params of the registered custom method {name} not answered -32602 (or its handler ran): {impl}"
    | .modernNoMeta => s!"C06: custom method {name} was served under the 2026-07-28 protocol although its params carry no per-request metadata: {impl}"
    | .ranTwice => s!"C02: the handler of the custom method {name} ran more than once for one call"
    | .unreadable => "C02: unreadable observation"

def showWs (ws : List W) : String := if ws.isEmpty then "-" else ";".intercalate (ws.map showW)

/-- `r=<w1;w2..|-> h=<n>` (canonical text only) -/
def parseRelease (impl : String) : Option (List W × Nat) :=
  match field "r" impl, (field "h" impl).bind String.toNat? with
  | some r, some n =>
    let ws := if r == "-" then [] else (r.splitOn ";").map parseW
    if s!"r={showWs ws} h={n}" == impl then some (ws, n) else none
  | _, _ => none

def queueUpd (qs : List (Nat × List Custom.Call)) (c : Custom.Call) : List (Nat × List Custom.Call) :=
  qs.map (fun p => if p.1 == c.k then (p.1, p.2 ++ [c]) else p)

/-! ## engine -/

structure DState where
  st : State := {}
  mon : Mon := {}
  prevRaw : String := "-/0/"   -- the previous observation's `st` field as printed (quoted by clause texts)
  pid : String := ""     -- property under check (`property <PID>` record): only its clauses are reported
  cs : Custom.State := {}    -- stream `custom`: the model's server and sessions
  cm : Custom.Mem := {}      -- stream `custom`: the monitor's memory
  cqs : List (Nat × List Custom.Call) := []   -- the model's held sessions and their queues
  mq : List (Nat × List Custom.Call) := []    -- the monitor's: holds / queued calls that were ACKNOWLEDGED

def pidTok : PID → String
  | .C02 => "C02"
  | .C06 => "C06"

/-- One stream serves C06 and C02: every clause belongs to one property, and a run for one property
reports that property's clauses only. -/
def forProperty (pid : String) (c : Option Clause) : Option Clause :=
  match c with
  | some cl => if pid == "" || pid == pidTok cl.pid then some cl else none
  | none => none

def engine : Engine DState where
  init := {}
  step d toks impl :=
    match toks with
    | ["reset"] => ({ pid := d.pid }, { model := "ok" })
    | ["property", p] => ({ d with pid := p }, { model := "ok" })
    -- `hold`: from here on the user's notification handlers of the case park until the next envelope has
    -- been written (a schedule, not an input of the session: the model's step is the same)
    | ["hold"] => (d, { model := "ok" })
    -- `holdinit`: the middleware parks an initialize that reached the handler chain until the next envelope has
    -- been written; `mid m=<hex method> <legacy|new>`: what is visible of that next envelope at that point
    | ["holdinit"] => (d, { model := "ok" })
    | ["mid", mtok, kind] =>
      match kv "m" mtok, field "mw" impl, field "uh" impl, field "w" impl with
      | some mname, some mw, some uh, some w =>
        let o : MidObs := { mw := mw != "-", uh := uh != "-", w := parseW w }
        let viol := if (d.pid == "" || d.pid == "C06") && midViolates d.mon.prevSt.init.isSome d.mon.opened mname (kind == "new") o
          then some s!"C06: {mname} reached a handler (or was answered with a result) while the session's initialize was still being handled — no initialize had been accepted yet: mw={mw} uh={uh} w={w}"
          else none
        (d, { model := "mw=- uh=- w=none", violated := viol })
      | _, _, _, _ => (d, { model := "mw=- uh=- w=none", violated := some "C06: unreadable observation (mid)" })
    | ["tr", spec] =>
      match parseTr spec with
      | none => (d, { model := "bad-op" })
      | some f =>
        let tv := transportVersions f
        ({ d with st := fresh tv, mon := { d.mon with tv := tv } }, { model := s!"sv={showVersions tv}" })
    | _ =>
      match parseQOp toks with
      | some qop =>
        (match qop with
          | .base (.call c) => if Custom.isStandard c.name then none else some qop
          | .callq c => if Custom.isStandard c.name then none else some qop
          | _ => some qop) |>.elim (d, { model := "bad-op" }) fun qop =>
        let q : Custom.QState := { base := d.cs, queues := d.cqs }
        let (q', qres) := Custom.qstep q qop
        let report (c : Option Custom.Clause) (op : Custom.Op) : Option String :=
          match c with
          | some c => if d.pid == "" || d.pid == pidTok c.pid then some (cclauseText op impl c) else none
          | none => none
        match qop, qres with
        | .base op, .base res =>
          let kind := Custom.kindOf d.cs op
          let obs := parseCObs op impl
          ({ d with cs := q'.base, cqs := q'.queues, cm := Custom.memNext d.cm op obs },
           { model := showCRes kind res, violated := report (Custom.monitor d.cm op obs) op })
        | .holdq k, r =>
          let mq' := if impl == "ok" && !(d.mq.any (fun (p : Nat × List Custom.Call) => p.1 == k)) then (k, []) :: d.mq else d.mq
          ({ d with cs := q'.base, cqs := q'.queues, mq := mq' }, { model := if r == Custom.QRes.ok then "ok" else "na" })
        | .callq c, r =>
          let mq' := if impl == "queued" then queueUpd d.mq c else d.mq
          ({ d with cs := q'.base, cqs := q'.queues, mq := mq' }, { model := if r == Custom.QRes.queued then "queued" else "na" })
        | .release k, r =>
          let model := match r with
            | Custom.QRes.released outs =>
              s!"r={showWs (outs.map (fun (o : Custom.Out) => Custom.wOfAns o.ans))} h={(outs.filter (fun (o : Custom.Out) => o.ran)).length}"
            | _ => "na"
          let queued : List Custom.Call := match d.mq.find? (fun (p : Nat × List Custom.Call) => p.1 == k) with
            | some p => p.2
            | none => []
          let cl := if impl == "na" then none else
            match parseRelease impl with
            | some (ws, _) => Custom.monitorRelease queued ws
            | none => some .unreadable
          ({ d with cs := q'.base, cqs := q'.queues, mq := d.mq.filter (fun (p : Nat × List Custom.Call) => p.1 != k) },
           { model := model, violated := report cl (.call ((queued.head?).getD ⟨k, "", false, .absent⟩)) })
        | _, _ => ({ d with cs := q'.base, cqs := q'.queues }, { model := "na" })
      | none =>
      match parseMsg toks with
      | none => (d, { model := "bad-op" })
      | some m =>
        let r := m.req
        let (st', o) := if m.side == .server then admitReq d.st r else (d.st, admitClient r)
        let mw := match o with | .invoked h _ => h.name | _ => "-"
        let w := fillW r (showAnswer (answer r o)) (field "w" impl)
        let uh := fillUH (expectedUH m.side r o) (field "uh" impl)
        let stS := if m.side == .server then showState st' else "-/0/"
        let rv := if m.side == .server then (match resultInfo d.st r o with | some x => (if x == "" then "-" else x) | none => "-") else "-"
        let model := s!"w={w} mw={mw} uh={uh} st={stS} rv={rv}"
        let obs := parseObs impl
        let raw : Raw := { w := (field "w" impl).getD "", mw := (field "mw" impl).getD "", uh := (field "uh" impl).getD "",
                           st := (field "st" impl).getD "", prevSt := d.prevRaw }
        let viol := (forProperty d.pid (monitor d.mon m obs)).map (clauseText m d.mon raw)
        let prevRaw' := match obs with | .seen _ => raw.st | _ => d.prevRaw
        ({ d with st := st', mon := monNext d.mon m obs, prevRaw := prevRaw' }, { model := model, violated := viol })

end Gate

def main : IO Unit := Proto.run Gate.engine
