import McpModel.Base.Proto
import McpModel.Gate.Model
/-!
Driver for E3 `gate`: replays the harness's envelope descriptors on the admission model and evaluates
the C06 / C02 monitors on the IMPLEMENTATION's observations.

op:   `tr <plain|all|set:<hex,..|->|ge:<hex>|lt:<hex>>`   the server transport of the case (after `reset`):
      no `ProtocolVersionSupporter`, or one whose `SupportsProtocolVersion` is the given predicate
obs:  `sv=<v1,v2..|->`   `ServerSession.supportedVersions` after `Server.Connect`
op:   `msg <s|c> <method> <id|noid> <shape> <meta> tag=<hex> iver=<hex> lvl=<hex> mut=<hex> raw=<hex>`
obs:  `w=<none|ok|e<code>[:v1,v2..]|multiN|strayN> mw=<methods|-> uh=<handlers|-> st=<tag@ver|->/<0|1>/<level> rv=<..|->`
      (`rv`: protocolVersion of an initialize result / supportedVersions of a discover result) or `panic` / `stuck`.

F34: the version a request's `_meta` names must be one the session's TRANSPORT serves (the `tr` record),
the server/discover probe excepted; -32022 carries the transport's versions.

The monitors are written from the property text (codes as literal numbers, the lifecycle methods
named explicitly) and read the session state from the implementation's own observations; they do
not consult the model's state.
-/
namespace Gate
open Proto Generated.Gate

structure Msg where
  side : String
  mname : String
  req : Req
  muts : List String
  deriving Repr

def methodOfName (n : String) : Option Method := Method.all.find? (fun m => m.name == n)

def parseShape : String → Option PShape
  | "absent" => some .absent | "null" => some .null | "ok" => some .objOk | "degraded" => some .objDegraded
  | "undecodable" => some .objUndecodable | "wrongtype" => some .wrongType | _ => none

def parseMeta (t : String) : Option MetaShape :=
  if t == "nometa" || t == "metanull" || t == "nover" || t == "nonstr" then some .none
  else if t.startsWith "v" then
    match ((t.drop 1).toString).splitOn ":" with
    | [vh, caps, ci] => do
      let v ← hexToString vh
      let caps ← (match caps with | "ok" => some Caps.ok | "missing" => some .missing | "invalid" => some .invalid | _ => none)
      let ci ← (match ci with | "ok" => some CInfo.ok | "invalid" => some .invalid | "absent" => some .absent | _ => none)
      pure (.ver v caps ci)
    | _ => none
  else none

/-- The transport's `SupportsProtocolVersion` (`none`: unreadable spec). -/
def parseTr (t : String) : Option (String → Bool) :=
  if t == "plain" || t == "all" then some (fun _ => true)
  else if t == "set:-" then some (fun _ => false)
  else if t.startsWith "set:" then do
    let vs ← (((t.drop 4).toString).splitOn ",").mapM hexToString
    pure (fun v => vs.contains v)
  else if t.startsWith "ge:" then do
    let x ← hexToString ((t.drop 3).toString)
    pure (fun v => !decide (v < x))
  else if t.startsWith "lt:" then do
    let x ← hexToString ((t.drop 3).toString)
    pure (fun v => decide (v < x))
  else none

def showVersions (l : List String) : String := if l.isEmpty then "-" else ",".intercalate l

def kv (k : String) (t : String) : Option String :=
  if t.startsWith (k ++ "=") then hexToString ((t.drop (k.length + 1)).toString) else none

def parseMsg : List String → Option Msg
  | ["msg", side, meth, id, shape, mt, tag, iver, lvl, mutTok, _raw] => do
    let shape ← parseShape shape
    let mt ← parseMeta mt
    let tag ← kv "tag" tag
    let iver ← kv "iver" iver
    let lvl ← kv "lvl" lvl
    let muts ← kv "mut" mutTok
    let name := if meth == "%empty" then "" else meth
    if side != "s" && side != "c" then none
    if id != "id" && id != "noid" then none
    pure { side := side, mname := name, muts := words muts,
           req := { method := methodOfName name, hasId := id == "id", params := shape, «meta» := mt, tag := tag, iver := iver, lvl := lvl,
                    cancelIdBad := name == "notifications/cancelled" && (words muts).contains "requestId:wrong" } }
  | _ => none

/-! ## rendering the model's prediction -/

def showState (s : State) : String :=
  let ip := match s.init with
    | some i => stringToHex i.tag ++ "@" ++ stringToHex i.ver
    | none => "-"
  s!"{ip}/{if s.initd then 1 else 0}/{stringToHex s.level}"

def showAnswer : Answer → Option String
  | .nothing => some "none"
  | .result => some "ok"
  | .error c d => some (if c == codeUnsupportedProtocolVersion then s!"e{c}:{",".intercalate d}" else s!"e{c}")
  | .some_answer => none

/-- The user-level handler expected to run (harness configuration); `none`: not modelled. -/
def expectedUH (side : String) (r : Req) : Outcome → Option String
  | .invoked m res =>
    let feature (n : String) : Option String :=
      match r.params with
      | .objOk => some n
      | _ => none
    if side == "s" then
      match m with
      | .notifications_initialized => some (if res == .ok then "initialized" else "-")
      | .notifications_roots_list_changed => some "roots-changed"
      | .notifications_progress => some "progress"
      | .tools_call => feature "tool"
      | .prompts_get => feature "prompt"
      | .resources_read => feature "resource"
      | .resources_subscribe => feature "subscribe"
      | .resources_unsubscribe => feature "unsubscribe"
      | .completion_complete => feature "complete"
      | _ => some "-"
    else
      match m with
      | .sampling_createMessage => feature "sampling"
      | .elicitation_create => feature "elicit"
      | .notifications_elicitation_complete => some "elicit-complete"
      | .notifications_tools_list_changed => some "tools-changed"
      | .notifications_prompts_list_changed => some "prompts-changed"
      | .notifications_resources_list_changed => some "resources-changed"
      | .notifications_resources_updated => some "resource-updated"
      | .notifications_message => some "log"
      | .notifications_progress => some "progress"
      | _ => some "-"
  | _ => some "-"

def field (k : String) (obs : String) : Option String :=
  (words obs).findSome? (fun t => if t.startsWith (k ++ "=") then some ((t.drop (k.length + 1)).toString) else none)

def isErrTok (w : String) : Bool :=
  w.startsWith "e" && (((w.drop 1).toString).splitOn ":").head!.toInt?.isSome

/-- Fill a field the model leaves open with the implementation's value when that value is admissible. -/
def fillW (r : Req) (model : Option String) (impl : Option String) : String :=
  match model with
  | some s => s
  | none => match impl with
    | some w => if r.hasId && (w == "ok" || isErrTok w) then w else "ok|e<code>"
    | none => "ok|e<code>"

def fillUH (model : Option String) (impl : Option String) : String :=
  match model with
  | some s => s
  | none => match impl with
    | some u => if u == "-" || !(u.contains ',') then u else "-|<handler>"
    | none => "-|<handler>"

/-! ## monitors -/

structure Mon where
  prevSt : String := "-/0/"      -- the implementation's session state after the previous envelope
  dead : Bool := false            -- a crash / teardown was already reported in this case
  /-- an earlier envelope of the case was an `initialize` ANSWERED WITH A RESULT, or carried complete
  per-request metadata naming a supported version: only then may feature traffic be served. Kept from
  what went over the wire, independently of what the implementation's session state claims. -/
  opened : Bool := false
  /-- the versions the case's transport serves: `filterSupportedVersions` of the predicate named by the
  `tr` record (an INPUT of the case; a case without `tr` record runs on a transport that serves all) -/
  tv : List String := supportedProtocolVersions

def stInit (st : String) : Bool := !(st.startsWith "-/")
def stInitd (st : String) : Bool := match st.splitOn "/" with | [_, d, _] => d == "1" | _ => false

def specRemoved : List String :=
  ["initialize", "ping", "notifications/initialized", "notifications/roots/list_changed", "logging/setLevel",
   "resources/subscribe", "resources/unsubscribe"]

def preInitAllowed : List String := ["initialize", "notifications/initialized", "ping", "notifications/cancelled"]
def f4Methods : List String := ["logging/setLevel", "resources/subscribe", "resources/unsubscribe", "notifications/roots/list_changed"]

def wCode (w : String) : Option Int :=
  if w.startsWith "e" then (((w.drop 1).toString).splitOn ":").head!.toInt? else none

/-- Known crash shapes (DESIGN §6): the clause names the defect when the envelope has exactly that shape. -/
def crashClause (m : Msg) : String :=
  let null (p : String) := m.muts.contains (p ++ ":null") || m.muts.contains (p ++ ":absent")
  if m.side == "s" && m.mname == "tools/call" && m.muts.contains "arguments:null" then
    "C02: F12 server crash: tools/call with \"arguments\":null on a typed tool whose input schema declares a default"
  else if m.side == "c" && m.mname == "elicitation/create" && (m.req.params == .absent || m.req.params == .null) then
    "C02: F13 client crash: elicitation/create without params"
  else if m.side == "c" && m.mname == "notifications/elicitation/complete" && (m.req.params == .absent || m.req.params == .null) then
    "C02: F13 client crash: notifications/elicitation/complete without params"
  else if m.side == "c" && m.mname == "sampling/createMessage" && null "messages.0" then
    "C02: F13 client crash: sampling/createMessage with a null element in messages"
  else s!"C02: process crash (panic) while handling {m.mname} on side {m.side}"

/-- The property's answer for an envelope, given only the implementation's own previous session
state. `none` = any single answer (the handler decides). Precedence as documented in Props.lean:
per-request metadata, then version, then the lifecycle gate, then method / id / params checks. -/
def acceptedBy (tv : List String) (m : Msg) : Bool :=
  -- the property after the F34 repair: the version named by `_meta` must be one the session's transport
  -- serves; the server/discover probe only has to name one the SDK knows
  if m.mname == "server/discover" then supportedProtocolVersions.contains (metaVersion m.req)
  else tv.contains (metaVersion m.req)

def specWire (tv : List String) (prevInit : Bool) (m : Msg) : Option String :=
  let r := m.req
  let tbl := if m.side == "s" then serverMethodInfos else clientMethodInfos
  let flags := r.method.bind (lookup tbl)
  let rej (c : Int) : Option String := some (if r.hasId then s!"e{c}" else "none")
  let new := m.side == "s" && usesNew r
  if preemptDrops r then some "none"
  else if new && !metaComplete r then rej (-32602)
  else if new && !acceptedBy tv m then
    some (if r.hasId then s!"e-32022:{",".intercalate tv}" else "none")
  else if new && specRemoved.contains m.mname then rej (-32601)
  else if m.side == "s" && !new && m.mname == "server/discover" then rej (-32601)
  else if m.side == "s" && !new && !prevInit && !(["initialize", "notifications/initialized", "ping"].contains m.mname) then rej 0
  else match flags with
    | none => rej (-32601)
    | some f =>
      if f.notification && r.hasId then rej (-32600)
      else if !f.notification && !r.hasId then some "none"
      else if !f.missingParamsOK && (r.params == .absent || r.params == .null) then rej (-32600)
      else if r.params == .objUndecodable || r.params == .wrongType then rej (-32602)
      else if !r.hasId then some "none"
      else none

def monitor (mon : Mon) (m : Msg) (impl : String) : Option String :=
  let r := m.req
  if mon.dead then none
  else if impl == "panic" then some (crashClause m)
  else if impl == "stuck" then some "C02: session torn down (the implementation stopped reading)"
  else
  match field "w" impl, field "mw" impl, field "uh" impl, field "st" impl with
  | some w, some mw, some uh, some st =>
    let prevInit := stInit mon.prevSt
    let new := m.side == "s" && usesNew r
    -- ---------------- C02: one answer per call, none per notification
    if r.hasId && w == "none" then some "C02: call not answered (dropped)"
    else if w.startsWith "multi" then some "C02: call answered more than once"
    else if w.startsWith "stray" then some "C02: response bearing an id that was not the request's"
    else if !r.hasId && w != "none" then some "C02: notification answered"
    else if w == "malformed" then some "C02: response with neither result nor error"
    else
    -- ---------------- C06 (server side)
    let c06 : Option String :=
      if m.side != "s" then none
      else if !new && !prevInit && (mw != "-" || uh != "-") && !preInitAllowed.contains m.mname then
        some (if f4Methods.contains m.mname
              then s!"C06: F4 {m.mname} served before initialize (it sits in the exempt arm of the gate switch)"
              else s!"C06: {m.mname} reached a handler before initialize was accepted")
      else if !new && !prevInit && f4Methods.contains m.mname && r.hasId && w != "e0" then
        some s!"C06: F4 {m.mname} passed the gate before initialize (answered {w} instead of the not-initialized refusal)"
      else if !new && !prevInit && st != mon.prevSt && m.mname != "initialize" then
        some s!"C06: session state changed before initialize by {m.mname}"
      else if !new && !mon.opened && (mw != "-" || uh != "-" || (r.hasId && w == "ok")) && !preInitAllowed.contains m.mname then
        some s!"C06: {m.mname} was served although no initialize has been accepted on this session (every initialize so far was answered with an error, and no request carried valid per-request metadata)"
      else if m.mname == "initialize" && prevInit && w == "ok" then some "C06: second initialize accepted"
      else if m.mname == "initialize" && prevInit && st != mon.prevSt then some "C06: second initialize changed session state"
      else if m.mname == "initialize" && w != "ok" && st != mon.prevSt then
        some s!"C06: rejected initialize changed session state (it was answered {w}, not accepted, yet the session state went from {mon.prevSt} to {st})"
      else if m.mname == "notifications/initialized" && (!prevInit || stInitd mon.prevSt) && (uh != "-" || st != mon.prevSt) then
        some "C06: premature or repeated initialized notification accepted (handler ran or state changed)"
      else if m.mname == "ping" && !new && r.hasId && (r.params != .objUndecodable && r.params != .wrongType) && w != "ok" then
        some "C06: ping not served"
      else if new && !metaComplete r && (mw != "-" || uh != "-" || st != mon.prevSt || (r.hasId && w != "e-32602")) then
        some "C06: request with incomplete per-request metadata was not refused with -32602 (or had an effect)"
      else if new && metaComplete r && m.mname != "server/discover" && supportedProtocolVersions.contains (metaVersion r) &&
          !mon.tv.contains (metaVersion r) &&
          (mw != "-" || uh != "-" || st != mon.prevSt || (r.hasId && w != s!"e-32022:{",".intercalate mon.tv}")) then
        some s!"C06: F34 {m.mname} whose _meta names {metaVersion r}, a version the session's transport does not serve (it serves {showVersions mon.tv}), was not refused with -32022 listing the transport's versions: answered {w}, handlers mw={mw} uh={uh}, session state {mon.prevSt} -> {st}"
      else if new && metaComplete r && !acceptedBy mon.tv m && mw == "-" && uh == "-" && st == mon.prevSt && r.hasId &&
          w == s!"e-32022:{",".intercalate supportedProtocolVersions}" && w != s!"e-32022:{",".intercalate mon.tv}" then
        some s!"C06: F34 unsupported per-request version refused with -32022 listing the SDK's versions instead of the versions the session's transport serves ({showVersions mon.tv})"
      else if new && metaComplete r && !acceptedBy mon.tv m &&
          (mw != "-" || st != mon.prevSt || (r.hasId && w != s!"e-32022:{",".intercalate mon.tv}")) then
        some "C06: unsupported per-request version not answered with -32022 listing the supported versions"
      else if new && metaComplete r && acceptedBy mon.tv m && specRemoved.contains m.mname &&
          (mw != "-" || (r.hasId && w != "e-32601")) then
        some s!"C06: {m.mname} is removed from the 2026-07-28 protocol but was not answered method-not-found"
      else if m.mname == "server/discover" && !new && (mw != "-" || (r.hasId && w != "e-32601")) then
        some "C06: server/discover served to a legacy request"
      else none
    match c06 with
    | some c => some c
    | none =>
      -- ---------------- C02: the code mapping
      match specWire mon.tv prevInit m with
      | none => none
      | some want =>
        if w == want then none
        else if m.mname == "initialize" && (r.params == .null || r.params == .objUndecodable || r.params == .wrongType) && w == "e0" then
          some s!"C02: F16 initialize with null or undecodable params answered with code 0 instead of {want} (its own unmarshalParams wraps no coded error)"
        else if m.mname == "notifications/cancelled" && r.hasId then
          some s!"C02: F17 id on notifications/cancelled answered {w} by the cancellation preempter instead of {want}"
        else some s!"C02: {m.mname} ({repr r.params}, id={r.hasId}) answered {w}, the property requires {want}"
  | _, _, _, _ => some "C02: unreadable observation"

/-! ## engine -/

structure DState where
  st : State := {}
  mon : Mon := {}
  pid : String := ""     -- property under check (`property <PID>` record): only its clauses are reported

/-- One stream serves C06 and C02: every clause starts with its property id, and a run for one
property reports that property's clauses only. -/
def forProperty (pid : String) (c : Option String) : Option String :=
  match c with
  | some cl => if pid == "" || cl.startsWith (pid ++ ":") then some cl else none
  | none => none

def engine : Engine DState where
  init := {}
  step d toks impl :=
    match toks with
    | ["reset"] => ({ pid := d.pid }, { model := "ok" })
    | ["property", p] => ({ d with pid := p }, { model := "ok" })
    | ["tr", spec] =>
      match parseTr spec with
      | none => (d, { model := "bad-op" })
      | some f =>
        let tv := transportVersions f
        ({ d with st := fresh tv, mon := { d.mon with tv := tv } }, { model := s!"sv={showVersions tv}" })
    | _ =>
      match parseMsg toks with
      | none => (d, { model := "bad-op" })
      | some m =>
        let r := m.req
        let (st', o) := if m.side == "s" then admitReq d.st r else (d.st, admitClient r)
        let mw := match o with | .invoked h _ => h.name | _ => "-"
        let w := fillW r (showAnswer (answer r o)) (field "w" impl)
        let uh := fillUH (expectedUH m.side r o) (field "uh" impl)
        let stS := if m.side == "s" then showState st' else "-/0/"
        let rv := if m.side == "s" then (match resultInfo d.st r o with | some x => (if x == "" then "-" else x) | none => "-") else "-"
        let model := s!"w={w} mw={mw} uh={uh} st={stS} rv={rv}"
        let viol := forProperty d.pid (monitor d.mon m impl)
        let isObs := (field "st" impl).isSome
        let mon' : Mon :=
          if !isObs then { d.mon with dead := true }
          else
            let validMeta := m.side == "s" && usesNew r && metaComplete r && acceptedBy d.mon.tv m
            let accepted := m.side == "s" && m.mname == "initialize" && field "w" impl == some "ok"
            { d.mon with prevSt := (field "st" impl).getD d.mon.prevSt, opened := d.mon.opened || validMeta || accepted }
        ({ d with st := st', mon := mon' }, { model := model, violated := viol })

end Gate

def main : IO Unit := Proto.run Gate.engine
