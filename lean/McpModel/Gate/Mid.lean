import McpModel.Gate.Monitor
/-!
# E3 — a call handler held across the next envelope: nothing unserved leaks while `initialize` is being handled

Schedule axis `holdinit` of the `envelopes` stream: the receiving middleware parks an `initialize` that reached the
handler chain (nothing has been accepted yet: the method's function, which writes `InitializeParams`, has not run)
until the NEXT envelope has been written and the session is quiescent. The `mid` record is what is visible of that
next envelope at this point. In the code `initialize` is handled synchronously on the session's queue
(`ServerSession.handle` calls `jsonrpc2.Async` only for calls other than `initialize`: fact `gate.async_guard`), so
the next envelope is still waiting: `modelMid`.

The clause is C06's first sentence: "nothing other than initialize, the initialized notification, ping and
cancellation reaches server-side handlers until an initialize request has been ACCEPTED" — while the session's
initialize is still being handled none has been.
-/
namespace Gate

/-- What is visible of the next envelope while the initialize before it is still in its handler chain. -/
structure MidObs where
  mw : Bool      -- a receiving middleware / method handler ran for it
  uh : Bool      -- a user-level handler ran
  w : W          -- what was written back for it
deriving DecidableEq, Repr

/-- The monitor of the `mid` record. `prevInit` / `opened`: the implementation's own state, and the wire's evidence,
BEFORE the held initialize (the monitor's memory at that point); `mname`, `new`: the next envelope's method name and
whether it carries 2026-07-28 per-request metadata. -/
def midViolates (prevInit opened : Bool) (mname : String) (new : Bool) (o : MidObs) : Bool :=
  !new && !prevInit && !opened && !preInitAllowed.contains mname && (o.mw || o.uh || o.w == .ok)

/-- The property clause, as a predicate. -/
def P_mid (prevInit opened : Bool) (mname : String) (new : Bool) (o : MidObs) : Prop :=
  new = false → prevInit = false → opened = false → mname ∉ preInitAllowed →
    o.mw = false ∧ o.uh = false ∧ o.w ≠ .ok

theorem mid_sound (prevInit opened : Bool) (mname : String) (new : Bool) (o : MidObs)
    (h : midViolates prevInit opened mname new o = true) : ¬ P_mid prevInit opened mname new o := by
  intro hP
  simp only [midViolates, Bool.and_eq_true, Bool.not_eq_true', Bool.or_eq_true, beq_iff_eq] at h
  obtain ⟨⟨⟨⟨h1, h2⟩, h3⟩, h4⟩, h5⟩ := h
  have hm : mname ∉ preInitAllowed := by
    intro hin
    have : preInitAllowed.contains mname = true := by simpa using hin
    rw [this] at h4; cases h4
  obtain ⟨a, b, c⟩ := hP h1 h2 h3 hm
  rcases h5 with (h5 | h5) | h5
  · rw [a] at h5; cases h5
  · rw [b] at h5; cases h5
  · exact c h5

theorem mid_complete (prevInit opened : Bool) (mname : String) (new : Bool) (o : MidObs)
    (h : midViolates prevInit opened mname new o = false) : P_mid prevInit opened mname new o := by
  intro h1 h2 h3 h4
  have hc : preInitAllowed.contains mname = false := by
    cases hb : preInitAllowed.contains mname with
    | false => rfl
    | true => exact absurd (by simpa using hb) h4
  simp only [midViolates, h1, h2, h3, hc, Bool.not_false, Bool.true_and, Bool.or_eq_false_iff,
    beq_eq_false_iff_ne, ne_eq] at h
  exact ⟨h.1.1, h.1.2, h.2⟩

/-- The model: `initialize` holds the session's queue, nothing of the next envelope is visible. -/
def modelMid : MidObs := ⟨false, false, .none⟩

/-- The `mid` monitor accepts the model, whatever the history before and whatever the next envelope is. -/
theorem mid_accepts_model (prevInit opened : Bool) (mname : String) (new : Bool) :
    midViolates prevInit opened mname new modelMid = false := by
  simp [midViolates, modelMid]

/-- Non-vacuity: a listing served while the first initialize is still being handled is reported. -/
example : midViolates false false "tools/list" false ⟨true, false, .ok⟩ = true := by decide
/-- … and a ping served meanwhile is not (the property allows it). -/
example : midViolates false false "ping" false ⟨true, false, .ok⟩ = false := by decide

end Gate
