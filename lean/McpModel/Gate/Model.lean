import McpModel.Generated.GateGen
import McpModel.Generated.NegotiateGen
/-!
# E3 `Gate` — admission of one incoming JSON-RPC request (model; core Lean only)

Transliteration of, in this order (one envelope = one atomic step of the session: notifications and
`initialize` are handled synchronously, and every state access is under `ServerSession.mu`):

* `mcp/transport.go`  `canceller.Preempt`               — the cancellation preempter,
* `mcp/server.go`     `ServerSession.handle`            — per-request `_meta` validation, the
  unsupported-version answer, the gate `switch req.Method`, adoption of the `_meta` identity,
* `mcp/shared.go`     `handleReceive` / `checkRequest` / `newMethodInfo.unmarshalParams`,
* `mcp/server.go`     `initialize`, `initialized`, `setLevel`, `discover`, `ping`,
* `internal/jsonrpc2/conn.go` `processResult`            — calls are answered, notifications are not.

Everything that is a *table* in the Go source is taken from `Generated.Gate` (regenerated from the
working tree on every run): the method tables with their flags, the case lists of the gate switch,
the supported versions, the error codes, and which coded error each check wraps.

The session's transport enters through `State.tv` = `ServerSession.supportedVersions`, the result of
`filterSupportedVersions` at `Server.Connect` (`transportVersions`): `initialize` answers -32022 and
changes nothing when the transport serves no version the handshake can be negotiated to
(`Generated.Negotiate.legacyVersionFor` / `negotiatedVersion`, regenerated from `mcp/shared.go`), and
`server/discover` persists the request's identity only when the transport serves the new protocol; the
per-request `_meta` version of every other method is checked against the same list, and -32022 always
carries it (F34 repair; the unrepaired `handle` uses the SDK's list for both).

The client's receiving side (`ClientSession.handle`) has no gate: `admitClient`.
-/
namespace Gate
open Generated.Gate

/-- Shape of the `params` member of the envelope, as far as admission can tell. -/
inductive PShape where
  | absent          -- no `params` member
  | null            -- `"params": null`
  | objOk           -- an object that decodes and that the method's handler accepts
  | objDegraded     -- an object that decodes, with members absent / null (handler outcome not modelled)
  | objUndecodable  -- an object with a member of the wrong JSON type: decoding fails
  | wrongType       -- not an object (array, string, number, bool): decoding fails
  deriving DecidableEq, Repr

def PShape.isObject : PShape → Bool
  | .objOk | .objDegraded | .objUndecodable => true
  | _ => false

inductive Caps where | ok | missing | invalid deriving DecidableEq, Repr
inductive CInfo where | ok | invalid | absent deriving DecidableEq, Repr

/-- The per-request `_meta` (SEP-2575). `none` also stands for a `_meta` without a *string*
`protocolVersion` (absent, null, non-string): `validateRequestMeta` treats all of these as legacy. -/
inductive MetaShape where
  | none
  | ver (v : String) (caps : Caps) (ci : CInfo)
  deriving DecidableEq, Repr

/-- Request descriptor. `tag`/`iver`/`lvl` are the values the envelope carries for the members that
end up in session state (client name, `initialize`'s protocolVersion, `logging/setLevel`'s level). -/
structure Req where
  method : Option Method      -- `none`: a method name in neither method table
  hasId : Bool
  params : PShape
  «meta» : MetaShape := .none
  tag : String := "anon"
  iver : String := ""
  lvl : String := ""
  /-- `notifications/cancelled` only: its `requestId` member is present and is neither null, a string nor
  a number (the one member the cancellation preempter decodes since the F33 repair) -/
  cancelIdBad : Bool := false
  deriving DecidableEq, Repr

/-- `ServerSessionState.InitializeParams`, as far as observable: who set it and with which version. -/
structure InitInfo where
  tag : String
  ver : String
  deriving DecidableEq, Repr

/-- `ServerSessionState` (mcp/session.go): nil-ness of the two params encodes the lifecycle phase.
`tv` is `ServerSession.supportedVersions`: written once by `Server.Connect`, read (under `mu`) by
`initialize` and `server/discover`; no request changes it (`Gate.tv_unchanged`). -/
structure State where
  init : Option InitInfo := none   -- InitializeParams
  initd : Bool := false            -- InitializedParams != nil
  level : String := ""             -- LogLevel
  tv : List String := supportedProtocolVersions   -- supportedVersions (default: a transport without ProtocolVersionSupporter)
  deriving DecidableEq, Repr

/-- `filterSupportedVersions`: the SDK's versions the transport's `SupportsProtocolVersion` admits, in
the SDK's order; a transport that does not implement `ProtocolVersionSupporter` admits all. -/
def transportVersions (supports : String → Bool) : List String := supportedProtocolVersions.filter supports

/-- The session `Server.Connect` returns on a transport whose filtered version list is `tv`. -/
def fresh (tv : List String) : State := { tv := tv }

/-- The version `initialize` answers with for `params.protocolVersion = iver` (`""`: none). -/
def initVersion (tv : List String) (iver : String) : String :=
  Generated.Negotiate.legacyVersionFor (Generated.Negotiate.negotiatedVersion iver) tv

/-- `Server.discover`: the identity is persisted only when the best version the transport serves is
a new-protocol one. -/
def discoverPersists (tv : List String) : Bool :=
  !decide (Generated.Negotiate.negotiateMutuallySupportedVersion tv < newProtocolThreshold)

/-- What the method's handler returned. -/
inductive HRes where
  | ok
  | fail (code : Int)
  /-- `initialize` on a transport that serves no legacy version: -32022 carrying the transport's versions -/
  | failUnsupported (data : List String)
  | unspecified        -- depends on user-level semantics the model does not describe
  deriving DecidableEq, Repr

inductive Outcome where
  /-- the receiving method handler (middleware chain, then the method's function) ran for `h` -/
  | invoked (h : Method) (res : HRes)
  /-- answered with an error response carrying `code` (and, for -32022, the supported versions); nothing ran -/
  | rejected (code : Int) (data : List String)
  /-- nothing ran and nothing was written (a refused notification) -/
  | ignored
  deriving DecidableEq, Repr

/-- A refusal: calls get an error response, notifications get nothing (`processResult`). -/
def reject (r : Req) (code : Int) (data : List String := []) : Outcome :=
  if r.hasId then .rejected code data else .ignored

def lookup (t : List (Method × Flags)) (m : Method) : Option Flags :=
  match t.find? (fun e => e.1 == m) with
  | some e => some e.2
  | none => none

/-- `extractRequestMeta`: only an object can carry `_meta`. -/
def effMeta (r : Req) : MetaShape := if r.params.isObject then r.meta else .none

/-- `validateRequestMeta`: `protocolVersion` is a string not below the threshold. -/
def usesNew (r : Req) : Bool :=
  match effMeta r with
  | .ver v _ _ => !decide (v < newProtocolThreshold)
  | .none => false

def metaVersion (r : Req) : String :=
  match effMeta r with
  | .ver v _ _ => v
  | .none => ""

/-- `validateRequestMeta`'s error, if any (only for requests that use the new protocol). -/
def metaError (r : Req) : Option Int :=
  match effMeta r with
  | .ver _ caps ci =>
    if !usesNew r then none
    else if ci == .invalid then some metaInvalidClientInfo
    else if caps != .ok then some metaInvalidCapabilities
    else none
  | .none => none

def metaComplete (r : Req) : Bool :=
  match effMeta r with
  | .ver _ caps ci => caps == .ok && ci != .invalid
  | .none => false

/-- client name carried by `_meta` (`anon` when `clientInfo` is absent: a nil `ClientInfo`) -/
def metaTag (r : Req) : String :=
  match effMeta r with
  | .ver _ _ .ok => r.tag
  | _ => "anon"

inductive GateRes where
  | pass
  | passAdopt          -- default arm, not initialized, new protocol: the `_meta` identity is stored
  | refuse (code : Int)
  deriving DecidableEq, Repr

/-- The `switch req.Method` of `ServerSession.handle`. The three case lists are regenerated. -/
def gate (initialized new : Bool) (m : Option Method) : GateRes :=
  let dflt : GateRes :=
    if !initialized && !new then .refuse codeNone
    else if !initialized && new then .passAdopt
    else .pass
  match m with
  | none => dflt
  | some m =>
    if removedInNewProtocol.contains m then
      if new then .refuse codeMethodNotFound
      else if exemptFromInitGate.contains m then .pass
      else if !initialized then .refuse codeNone
      else .pass
    else if newProtocolOnly.contains m then
      if !new then .refuse codeMethodNotFound else .pass
    else dflt

/-- `checkRequest` followed by `unmarshalParams`: the error code, or `none` when the request reaches
the method handler. -/
def checkAndDecode (t : List (Method × Flags)) (r : Req) : Except Int Method :=
  match r.method with
  | none => .error checkUnknownMethod
  | some m =>
    match lookup t m with
    | none => .error checkUnknownMethod
    | some f =>
      if f.notification && r.hasId then .error checkUnexpectedId
      else if !f.notification && !r.hasId then .error checkMissingId
      else if !f.missingParamsOK && r.params == .absent then .error checkMissingParams
      else if r.params == .objUndecodable || r.params == .wrongType then
        .error (if f.customDecode then initializeDecodeFailure else decodeFailure)
      else if !f.missingParamsOK && r.params == .null then
        .error (if f.customDecode then initializeNilParams else decodeNilParams)
      else .ok m

/-- `canceller.Preempt` (repaired behaviour: only notifications are inspected, F17; only the `requestId`
member is decoded, from its raw token, F33): a cancelled notification whose params are not an object, or
whose `requestId` is not an id, is dropped by `processResult` without reaching `handle`. Params that are
undecodable for another reason (e.g. a non-string `reason`) pass the preempter and are refused later, by
`unmarshalParams` — after the per-request metadata was validated and, possibly, adopted. -/
def preemptDrops (r : Req) : Bool :=
  r.method == some .notifications_cancelled && !r.hasId &&
    (r.params == .absent || r.params == .wrongType || (r.params == .objUndecodable && r.cancelIdBad))

/-- Feature methods whose outcome on well-formed params is a success in the harness configuration. -/
def featureRes (r : Req) : HRes :=
  match r.params with
  | .objOk => .ok
  | .objDegraded => .unspecified
  | _ => .ok     -- absent / null reach a handler only for `missingParamsOK` methods, which accept nil params

/-- The method's own function on the server (state effect and result). -/
def serverHandler (s : State) (r : Req) (m : Method) : State × HRes :=
  match m with
  | .initialize =>
    -- order of the Go code: the transport's versions first, then the duplicate check, then the write
    if initVersion s.tv r.iver == "" then (s, .failUnsupported s.tv)
    else match s.init with
    | some _ => (s, .fail codeNone)                                  -- "duplicate initialize"
    | none => ({ s with init := some ⟨r.tag, r.iver⟩ }, .ok)
  | .notifications_initialized =>
    if s.init.isNone then (s, .fail codeNone)                         -- "initialized before initialize"
    else if s.initd then (s, .fail codeNone)                          -- "duplicate initialized"
    else ({ s with initd := true }, .ok)
  | .ping => (s, .ok)
  | .logging_setLevel => ({ s with level := r.lvl }, .ok)
  | .server_discover =>
    -- persists the request's identity; a missing clientInfo falls back to the session's
    let tag := match effMeta r with
      | .ver _ _ .ok => r.tag
      | _ => match s.init with
        | some i => i.tag
        | none => "anon"
    if discoverPersists s.tv then ({ s with init := some ⟨tag, metaVersion r⟩ }, .ok) else (s, .ok)
  | .prompts_list | .resources_list | .resources_templates_list | .tools_list => (s, .ok)
  | .notifications_cancelled | .notifications_progress | .notifications_roots_list_changed => (s, .ok)
  | _ => (s, featureRes r)

/-- Default arm of the gate, new protocol on a session without `InitializeParams`: the identity carried
by `_meta` becomes the session's. -/
def adopt (s : State) (r : Req) : GateRes → State
  | .passAdopt => { s with init := some ⟨metaTag r, metaVersion r⟩ }
  | _ => s

/-- `handleReceive`: `checkRequest`, `unmarshalParams`, then the method handler. -/
def dispatch (s : State) (r : Req) : State × Outcome :=
  match checkAndDecode serverMethodInfos r with
  | .error c => (s, reject r c)
  | .ok m => ((serverHandler s r m).1, .invoked m (serverHandler s r m).2)

/-- The versions a request's `_meta` may name (F34 repair): those the session's TRANSPORT serves
(`supportedVersions`, read in the critical section at the top of `handle`), as for `initialize`; the
`server/discover` probe only has to name a version the SDK knows — it is how a client learns the
transport's versions (pinned by the repo's TestStreamableStateful_AcceptsDiscover). -/
def acceptedVersions (tv : List String) (r : Req) : List String :=
  if r.method == some .server_discover then supportedProtocolVersions else tv

/-- The per-request version check of `handle`. The unrepaired `handle` tests the SDK's list for every
method (`Generated.Gate.perRequestVersionsFromTransport = false`). -/
def unsupportedVersion (tv : List String) (r : Req) : Bool :=
  usesNew r && !(acceptedVersions tv r).contains (metaVersion r)

/-- `ServerSession.handle` for one envelope (after the preempter). -/
def admitReq (s : State) (r : Req) : State × Outcome :=
  if preemptDrops r then (s, .ignored) else
  match metaError r with
  | some c => (s, reject r c)
  | none =>
    if unsupportedVersion s.tv r then
      (s, reject r codeUnsupportedProtocolVersion s.tv)
    else
      match gate s.init.isSome (usesNew r) r.method with
      | .refuse c => (s, reject r c)
      | .pass => dispatch s r
      | .passAdopt => dispatch (adopt s r .passAdopt) r

/-- The client's method functions, in the harness configuration. -/
def clientHandler (r : Req) (m : Method) : HRes :=
  match m with
  | .ping | .roots_list => .ok
  | .elicitation_create | .sampling_createMessage | .completion_complete =>
    match r.params with
    | .objOk => .ok
    | _ => .unspecified
  | _ => .ok

/-- `ClientSession.handle` for one envelope: no gate, no per-request metadata. -/
def admitClient (r : Req) : Outcome :=
  if preemptDrops r then .ignored else
  match checkAndDecode clientMethodInfos r with
  | .error c => reject r c
  | .ok m => .invoked m (clientHandler r m)

/-- What goes out on the wire in answer to the envelope. -/
inductive Answer where
  | nothing
  | result
  | error (code : Int) (data : List String)
  | some_answer     -- exactly one response, result or error, decided by the handler
  deriving DecidableEq, Repr

def answer (r : Req) : Outcome → Answer
  | .ignored => .nothing
  | .rejected c d => .error c d
  | .invoked _ res =>
    if !r.hasId then .nothing
    else match res with
      | .ok => .result
      | .fail c => .error c []
      | .failUnsupported d => .error codeUnsupportedProtocolVersion d
      | .unspecified => .some_answer

/-- Running a history: every step with the state it started from. -/
def trace : State → List Req → List (State × Req × Outcome)
  | _, [] => []
  | s, r :: rs => (s, r, (admitReq s r).2) :: trace (admitReq s r).1 rs

def finalState : State → List Req → State
  | s, [] => s
  | s, r :: rs => finalState (admitReq s r).1 rs

/-- What a result carries that depends on the transport: the negotiated version of an accepted
`initialize`, the advertised versions of a served `server/discover`. -/
def resultInfo (s : State) (r : Req) : Outcome → Option String
  | .invoked .initialize .ok => some (initVersion s.tv r.iver)
  | .invoked .server_discover .ok => some (",".intercalate s.tv)
  | _ => none

end Gate
