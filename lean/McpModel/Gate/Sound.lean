import McpModel.Gate.Monitor
/-!
# Clause soundness of the C06 / C02 monitors of the `envelopes` stream (E3)

A trace is one case: the versions its transport serves (`tv`, an input) and the list of envelopes sent
with what the IMPLEMENTATION did on each (`Msg × Obs`).  Every clause the monitor can report is stated
as a predicate `P_…` on traces, written from the property texts of C06 and C02 with quantifiers over
positions of the trace; no monitor state, no `admitReq`.  `sound_<clause>`: if the monitor run reports
the clause at envelope `j` (`FiresAt`), the predicate fails.  `monitor_sound` packages them,
`monitor_complete` is the converse (silence ⇒ every predicate holds).

Vocabulary (all about the trace):
* `Alive h` — every observation of the history `h` is readable (no crash, no teardown before): the
  property is judged up to the first crash, which is itself a violation (`P_no_crash`).
* `prevState h` — the session state the implementation reported after the last envelope of `h`
  (`{}` before the first): "an initialize has been accepted" is read off the implementation's own
  `InitializeParams` (`InitSeen`), as the property's `observe_at` says.
* `Opened tv h` — some envelope of `h` was an `initialize` ANSWERED WITH A RESULT on the wire, or
  carried complete per-request metadata naming a version it may name: the wire's own evidence that
  the session was opened, independent of what the implementation's state claims.
* `Legacy m` / `New m` — the envelope is sent to the server without / with a string `_meta`
  protocolVersion ≥ 2026-07-28; `metaComplete`, `acceptedBy tv` (F34: the version must be one the
  session's transport serves, the `server/discover` probe excepted) as in the property.
* `Rule tv init m want` — the decision table of the error codes (C02) with the precedence C06 fixes:
  per-request metadata, version, removed methods, the lifecycle gate, then method / id / params.
`book`: the monitor's state after a history is exactly (`prevState`, `Opened`, `¬ Alive`).
-/
namespace Gate
open Generated.Gate

abbrev Hist := List (Msg × Obs)

/-! ## What a history says -/

def Alive (h : Hist) : Prop := ∀ p ∈ h, ∃ o, p.2 = .seen o

/-- The session state the implementation reported last. -/
def prevState : Hist → St
  | [] => {}
  | [(_, .seen o)] => o.st
  | [_] => {}
  | _ :: p :: h => prevState (p :: h)

/-- The envelope carries complete per-request metadata naming a version it may name. -/
def validMeta (tv : List String) (m : Msg) : Bool := m.new && metaComplete m.req && acceptedBy tv m

/-- The wire's evidence that the session was opened. -/
def Opened (tv : List String) (h : Hist) : Prop :=
  ∃ p ∈ h, ∃ o, p.2 = .seen o ∧
    (validMeta tv p.1 = true ∨ (p.1.side = .server ∧ p.1.mname = "initialize" ∧ o.w = .ok))

theorem alive_snoc (h : Hist) (m : Msg) (o : Obs) : Alive (h ++ [(m, o)]) ↔ Alive h ∧ ∃ x, o = .seen x := by
  simp only [Alive, List.mem_append, List.mem_singleton]
  constructor
  · intro hh
    exact ⟨fun p hp => hh p (Or.inl hp), hh (m, o) (Or.inr rfl)⟩
  · rintro ⟨h1, h2⟩ p (hp | rfl)
    · exact h1 p hp
    · exact h2

theorem prevState_snoc : ∀ (h : Hist) (m : Msg) (o : MObs), prevState (h ++ [(m, .seen o)]) = o.st
  | [], _, _ => rfl
  | [_], _, _ => by simp [prevState]
  | _ :: q :: h, m, o => by
    have := prevState_snoc (q :: h) m o
    simpa [prevState] using this

theorem opened_snoc (tv : List String) (h : Hist) (m : Msg) (o : MObs) :
    Opened tv (h ++ [(m, .seen o)]) ↔
      Opened tv h ∨ validMeta tv m = true ∨ (m.side = .server ∧ m.mname = "initialize" ∧ o.w = .ok) := by
  simp only [Opened, List.mem_append, List.mem_singleton]
  constructor
  · rintro ⟨p, hp | rfl, x, hx, hc⟩
    · exact Or.inl ⟨p, hp, x, hx, hc⟩
    · simp only [Obs.seen.injEq] at hx
      subst hx
      exact Or.inr hc
  · rintro (⟨p, hp, x, hx, hc⟩ | hc)
    · exact ⟨p, Or.inl hp, x, hx, hc⟩
    · exact ⟨(m, .seen o), Or.inr rfl, o, rfl, hc⟩

/-- The `InitializedHandler` ran for some `notifications/initialized` of the history (the invocation
counter's own evidence that the notification was accepted once). -/
def InitializedRan (h : Hist) : Prop :=
  ∃ p ∈ h, ∃ o, p.2 = .seen o ∧ p.1.side = .server ∧ p.1.mname = "notifications/initialized" ∧ o.uh = true

theorem initializedRan_snoc (h : Hist) (m : Msg) (o : MObs) :
    InitializedRan (h ++ [(m, .seen o)]) ↔
      InitializedRan h ∨ (m.side = .server ∧ m.mname = "notifications/initialized" ∧ o.uh = true) := by
  simp only [InitializedRan, List.mem_append, List.mem_singleton]
  constructor
  · rintro ⟨p, hp | rfl, x, hx, hc⟩
    · exact Or.inl ⟨p, hp, x, hx, hc⟩
    · simp only [Obs.seen.injEq] at hx
      subst hx
      exact Or.inr hc
  · rintro (⟨p, hp, x, hx, hc⟩ | hc)
    · exact ⟨p, Or.inl hp, x, hx, hc⟩
    · exact ⟨(m, .seen o), Or.inr rfl, o, rfl, hc⟩

theorem monAfter_snoc : ∀ (h : Hist) (mon : Mon) (m : Msg) (o : Obs),
    monAfter mon (h ++ [(m, o)]) = monNext (monAfter mon h) m o
  | [], _, _, _ => rfl
  | (m', o') :: h, mon, m, o => by simp [monAfter, monAfter_snoc h]

/-- Induction on a history from the right. -/
theorem snoc_induction {P : Hist → Prop} (nil : P []) (snoc : ∀ h p, P h → P (h ++ [p])) (h : Hist) : P h := by
  have : ∀ hr : Hist, P hr.reverse := by
    intro hr
    induction hr with
    | nil => exact nil
    | cons r hr ih => rw [List.reverse_cons]; exact snoc _ r ih
  simpa using this h.reverse

/-- **Bookkeeping**: what the monitor remembers is what the history says. -/
theorem book (tv : List String) (h : Hist) :
    (monAfter (monStart tv) h).tv = tv ∧
    ((monAfter (monStart tv) h).dead = false ↔ Alive h) ∧
    (Alive h → (monAfter (monStart tv) h).prevSt = prevState h ∧
      ((monAfter (monStart tv) h).opened = true ↔ Opened tv h) ∧
      ((monAfter (monStart tv) h).initdRan = true ↔ InitializedRan h)) := by
  refine snoc_induction (P := fun h => (monAfter (monStart tv) h).tv = tv ∧
    ((monAfter (monStart tv) h).dead = false ↔ Alive h) ∧
    (Alive h → (monAfter (monStart tv) h).prevSt = prevState h ∧
      ((monAfter (monStart tv) h).opened = true ↔ Opened tv h) ∧
      ((monAfter (monStart tv) h).initdRan = true ↔ InitializedRan h))) ?_ ?_ h
  · refine ⟨rfl, ⟨fun _ p hp => (by cases hp), fun _ => rfl⟩, fun _ => ⟨rfl, ?_, ?_⟩⟩
    · simp [monAfter, monStart, Opened]
    · simp [monAfter, monStart, InitializedRan]
  · rintro h ⟨m, o⟩ ⟨i1, i2, i3⟩
    rw [monAfter_snoc]
    cases o with
    | seen x =>
      refine ⟨by simpa [monNext] using i1, ?_, ?_⟩
      · rw [alive_snoc]
        simp only [monNext]
        constructor
        · intro hd; exact ⟨i2.1 hd, x, rfl⟩
        · rintro ⟨ha, _⟩; exact i2.2 ha
      · intro ha
        obtain ⟨ha', _⟩ := (alive_snoc h m _).1 ha
        obtain ⟨j1, j2, j3⟩ := i3 ha'
        refine ⟨by simp [monNext, prevState_snoc], ?_, ?_⟩
        · rw [opened_snoc]
          simp only [monNext, Bool.or_eq_true, j2, i1, validMeta, Bool.and_eq_true, beq_iff_eq]
          constructor
          · rintro ((h1 | h1) | ⟨⟨h1, h2⟩, h3⟩)
            · exact Or.inl h1
            · exact Or.inr (Or.inl h1)
            · exact Or.inr (Or.inr ⟨h1, h2, h3⟩)
          · rintro (h1 | h1 | ⟨h1, h2, h3⟩)
            · exact Or.inl (Or.inl h1)
            · exact Or.inl (Or.inr h1)
            · exact Or.inr ⟨⟨h1, h2⟩, h3⟩
        · rw [initializedRan_snoc]
          simp only [monNext, Bool.or_eq_true, j3, Bool.and_eq_true, beq_iff_eq]
          constructor
          · rintro (h1 | ⟨⟨h1, h2⟩, h3⟩)
            · exact Or.inl h1
            · exact Or.inr ⟨h1, h2, h3⟩
          · rintro (h1 | ⟨h1, h2, h3⟩)
            · exact Or.inl h1
            · exact Or.inr ⟨⟨h1, h2⟩, h3⟩
    | panic =>
      refine ⟨by simpa [monNext] using i1, ?_, ?_⟩
      · rw [alive_snoc]; simp [monNext]
      · intro ha; obtain ⟨_, x, hx⟩ := (alive_snoc h m _).1 ha; cases hx
    | stuck =>
      refine ⟨by simpa [monNext] using i1, ?_, ?_⟩
      · rw [alive_snoc]; simp [monNext]
      · intro ha; obtain ⟨_, x, hx⟩ := (alive_snoc h m _).1 ha; cases hx
    | unreadable =>
      refine ⟨by simpa [monNext] using i1, ?_, ?_⟩
      · rw [alive_snoc]; simp [monNext]
      · intro ha; obtain ⟨_, x, hx⟩ := (alive_snoc h m _).1 ha; cases hx

/-! ## Where the monitor run fires -/

/-- The monitor reports `cl` at envelope `j` of the case. -/
def FiresAt (tv : List String) (tr : Hist) (j : Nat) (cl : Clause) : Prop :=
  ∃ m o, tr[j]? = some (m, o) ∧ monitor (monAfter (monStart tv) (tr.take j)) m o = some cl

theorem runFrom_fires : ∀ (tr : Hist) (mon : Mon) (i j : Nat) (cl : Clause), runFrom mon i tr = some (j, cl) →
    ∃ k m o, j = i + k ∧ tr[k]? = some (m, o) ∧ monitor (monAfter mon (tr.take k)) m o = some cl
  | [], _, _, _, _, h => by simp [runFrom] at h
  | (m, o) :: tr, mon, i, j, cl, h => by
    simp only [runFrom] at h
    cases hc : monitor mon m o with
    | some cl' =>
      rw [hc] at h
      simp only [Option.some.injEq, Prod.mk.injEq] at h
      obtain ⟨rfl, rfl⟩ := h
      exact ⟨0, m, o, rfl, rfl, by simpa [monAfter] using hc⟩
    | none =>
      rw [hc] at h
      obtain ⟨k, m', o', rfl, h1, h2⟩ := runFrom_fires tr _ _ _ _ h
      exact ⟨k + 1, m', o', by omega, by simpa using h1, by simpa [monAfter] using h2⟩

theorem runMon_fires {tv : List String} {tr : Hist} {j : Nat} {cl : Clause} (h : runMon tv tr = some (j, cl)) :
    FiresAt tv tr j cl := by
  obtain ⟨k, m, o, rfl, h1, h2⟩ := runFrom_fires tr _ 0 j cl h
  exact ⟨m, o, by simpa using h1, by simpa using h2⟩

theorem runFrom_none : ∀ (tr : Hist) (mon : Mon) (i : Nat), runFrom mon i tr = none →
    ∀ k m o, tr[k]? = some (m, o) → monitor (monAfter mon (tr.take k)) m o = none
  | [], _, _, _, k, m, o, hk => by simp at hk
  | (m0, o0) :: tr, mon, i, h, k, m, o, hk => by
    simp only [runFrom] at h
    cases hc : monitor mon m0 o0 with
    | some cl => rw [hc] at h; cases h
    | none =>
      rw [hc] at h
      cases k with
      | zero => simp at hk; obtain ⟨rfl, rfl⟩ := hk; simpa [monAfter] using hc
      | succ k => simpa [monAfter] using runFrom_none tr _ _ h k m o (by simpa using hk)

/-- The judged position: envelope `j` with a readable observation, nothing unreadable before it. -/
structure At (tr : Hist) (j : Nat) (m : Msg) (o : MObs) : Prop where
  here : tr[j]? = some (m, .seen o)
  alive : Alive (tr.take j)

/-! ## The property clauses, as predicates on traces -/

def Legacy (m : Msg) : Prop := m.side = .server ∧ m.new = false
def New (m : Msg) : Prop := m.side = .server ∧ m.new = true
/-- The implementation's own session state says an initialize was accepted. -/
def InitSeen (tr : Hist) (j : Nat) : Prop := (prevState (tr.take j)).init.isSome = true
def Unchanged (tr : Hist) (j : Nat) (o : MObs) : Prop := o.st = prevState (tr.take j)

/-! ### C02: exactly one answer, no crash -/

/-- "each request that carries an id receives … one response" (not dropped). -/
def P_call_answered (tr : Hist) : Prop := ∀ j m o, At tr j m o → m.req.hasId = true → o.w ≠ .none
/-- "exactly one response". -/
def P_single_answer (tr : Hist) : Prop := ∀ j m o, At tr j m o → ∀ n, o.w ≠ .multi n
/-- "bearing that same id". -/
def P_id_echoed (tr : Hist) : Prop := ∀ j m o, At tr j m o → ∀ n, o.w ≠ .stray n
/-- "notifications never receive a response". -/
def P_notification_not_answered (tr : Hist) : Prop := ∀ j m o, At tr j m o → m.req.hasId = false → o.w = .none
/-- a response carries a result or an error. -/
def P_response_wellformed (tr : Hist) : Prop := ∀ j m o, At tr j m o → o.w ≠ .malformed
/-- "instead of … crashing the process". -/
def P_no_crash (tr : Hist) : Prop := ∀ j m, Alive (tr.take j) → tr[j]? ≠ some (m, .panic)
/-- "instead of … tearing the session down". -/
def P_session_survives (tr : Hist) : Prop := ∀ j m, Alive (tr.take j) → tr[j]? ≠ some (m, .stuck)
def P_observed (tr : Hist) : Prop := ∀ j m, Alive (tr.take j) → tr[j]? ≠ some (m, .unreadable)

/-! ### C06 -/

/-- "nothing other than initialize, the initialized notification, ping and cancellation reaches
server-side handlers until an initialize request has been accepted". -/
def P_nothing_served_before_initialize (tr : Hist) : Prop :=
  ∀ j m o, At tr j m o → Legacy m → ¬ InitSeen tr j → m.mname ∉ preInitAllowed → o.mw = false ∧ o.uh = false

/-- … and such a call is answered with the not-initialized refusal (an error without a code: 0). -/
def P_gate_refuses_before_initialize (tr : Hist) : Prop :=
  ∀ j m o, At tr j m o → Legacy m → ¬ InitSeen tr j → m.mname ∈ f4Methods → m.req.hasId = true → o.w = .err 0 none

/-- Before an initialize was accepted only `initialize` changes session state. -/
def P_state_unchanged_before_initialize (tr : Hist) : Prop :=
  ∀ j m o, At tr j m o → Legacy m → ¬ InitSeen tr j → m.mname ≠ "initialize" → Unchanged tr j o

/-- The same clause read off the wire: nothing is served on a session on which no initialize was
answered with a result and no request carried valid per-request metadata. -/
def P_nothing_served_unopened (tv : List String) (tr : Hist) : Prop :=
  ∀ j m o, At tr j m o → Legacy m → ¬ Opened tv (tr.take j) → m.mname ∉ preInitAllowed →
    o.mw = false ∧ o.uh = false ∧ ¬ (m.req.hasId = true ∧ o.w = .ok)

/-- "a second initialize … rejected". -/
def P_second_initialize_rejected (tr : Hist) : Prop :=
  ∀ j m o, At tr j m o → m.side = .server → m.mname = "initialize" → InitSeen tr j → o.w ≠ .ok
/-- "… without changing session state". -/
def P_second_initialize_keeps_state (tr : Hist) : Prop :=
  ∀ j m o, At tr j m o → m.side = .server → m.mname = "initialize" → InitSeen tr j → Unchanged tr j o
/-- An initialize that is not accepted (answered with anything but a result) changes nothing. -/
def P_rejected_initialize_keeps_state (tr : Hist) : Prop :=
  ∀ j m o, At tr j m o → m.side = .server → m.mname = "initialize" → o.w ≠ .ok → Unchanged tr j o
/-- "an initialized notification that is premature or repeated [is] rejected without changing session state". -/
def P_initialized_premature_or_repeated_rejected (tr : Hist) : Prop :=
  ∀ j m o, At tr j m o → m.side = .server → m.mname = "notifications/initialized" →
    (¬ InitSeen tr j ∨ (prevState (tr.take j)).initd = true) → o.uh = false ∧ Unchanged tr j o
/-- "an initialized notification that is … repeated [is] rejected", read off the invocation counter of the
`InitializedHandler` alone: once the handler has run for a `notifications/initialized` of the session, it
does not run for a later one — whatever the implementation's session state claims in between. -/
def P_initialized_handler_once (tr : Hist) : Prop :=
  ∀ j m o, At tr j m o → m.side = .server → m.mname = "notifications/initialized" →
    InitializedRan (tr.take j) → o.uh = false
/-- "ping is always served". -/
def P_ping_always_served (tr : Hist) : Prop :=
  ∀ j m o, At tr j m o → Legacy m → m.mname = "ping" → m.req.hasId = true →
    m.req.params ≠ .objUndecodable → m.req.params ≠ .wrongType → o.w = .ok
/-- "served … only if that metadata is complete …; otherwise … answered with invalid-params (-32602)". -/
def P_incomplete_meta_invalid_params (tr : Hist) : Prop :=
  ∀ j m o, At tr j m o → New m → metaComplete m.req = false →
    o.mw = false ∧ o.uh = false ∧ Unchanged tr j o ∧ (m.req.hasId = true → o.w = .err (-32602) none)
/-- "… and names a supported version; otherwise … unsupported-version (-32022, listing the supported
versions)": the versions the session's transport serves (F34). -/
def P_unsupported_version_refused (tv : List String) (tr : Hist) : Prop :=
  ∀ j m o, At tr j m o → New m → metaComplete m.req = true → acceptedBy tv m = false →
    o.mw = false ∧ Unchanged tr j o ∧ (m.req.hasId = true → o.w = .err (-32022) (some tv))
/-- F34: a version the SDK knows but the session's transport does not serve is refused in the same way,
and no user handler runs. -/
def P_transport_version_refused (tv : List String) (tr : Hist) : Prop :=
  ∀ j m o, At tr j m o → New m → metaComplete m.req = true → m.mname ≠ "server/discover" →
    metaVersion m.req ∈ supportedProtocolVersions → metaVersion m.req ∉ tv →
    o.mw = false ∧ o.uh = false ∧ Unchanged tr j o ∧ (m.req.hasId = true → o.w = .err (-32022) (some tv))

/-- "methods removed from that protocol are answered method-not-found". -/
def P_removed_methods_not_found (tv : List String) (tr : Hist) : Prop :=
  ∀ j m o, At tr j m o → New m → metaComplete m.req = true → acceptedBy tv m = true → m.mname ∈ removedNames →
    o.mw = false ∧ (m.req.hasId = true → o.w = .err (-32601) none)
/-- `server/discover` exists only under the new protocol. -/
def P_discover_only_new_protocol (tr : Hist) : Prop :=
  ∀ j m o, At tr j m o → Legacy m → m.mname = "server/discover" →
    o.mw = false ∧ (m.req.hasId = true → o.w = .err (-32601) none)

/-! ### C02: the error codes -/

/-- The envelope got past the per-request metadata, the version check, the removed-methods arm and
the lifecycle gate, on the receiving side in question (`init`: an initialize was accepted). -/
def PastChecks (tv : List String) (init : Bool) (m : Msg) : Prop :=
  preemptDrops m.req = false ∧
  (m.new = true → metaComplete m.req = true ∧ acceptedBy tv m = true ∧ m.mname ∉ removedNames) ∧
  (m.side = .server → m.new = false → m.mname ≠ "server/discover" ∧
    (init = true ∨ m.mname ∈ ["initialize", "notifications/initialized", "ping"]))

/-- **The decision table** of the answers the properties fix (C02's codes with C06's precedence). -/
inductive Rule (tv : List String) (init : Bool) (m : Msg) : W → Prop
  /-- a cancellation that names no request is dropped silently -/
  | preempt : preemptDrops m.req = true → Rule tv init m .none
  /-- incomplete per-request metadata: invalid params -/
  | metaIncomplete : preemptDrops m.req = false → m.new = true → metaComplete m.req = false →
      Rule tv init m (refusal m (-32602) none)
  /-- a version the request may not name: -32022 listing the transport's versions -/
  | version : preemptDrops m.req = false → m.new = true → metaComplete m.req = true → acceptedBy tv m = false →
      Rule tv init m (refusal m (-32022) (some tv))
  /-- removed from the 2026-07-28 protocol: method not found -/
  | removed : preemptDrops m.req = false → m.new = true → metaComplete m.req = true → acceptedBy tv m = true →
      m.mname ∈ removedNames → Rule tv init m (refusal m (-32601) none)
  /-- `server/discover` under a legacy protocol: method not found -/
  | discoverLegacy : preemptDrops m.req = false → m.side = .server → m.new = false → m.mname = "server/discover" →
      Rule tv init m (refusal m (-32601) none)
  /-- before initialize: the not-initialized refusal -/
  | notInitialized : preemptDrops m.req = false → m.side = .server → m.new = false → m.mname ≠ "server/discover" →
      init = false → m.mname ∉ ["initialize", "notifications/initialized", "ping"] → Rule tv init m (refusal m 0 none)
  /-- "Unknown methods … -32601" -/
  | unknownMethod : PastChecks tv init m → flagsOf m = none → Rule tv init m (refusal m (-32601) none)
  /-- "an id on a notification-only method … -32600" -/
  | idOnNotification (f : Flags) : PastChecks tv init m → flagsOf m = some f → f.notification = true → m.req.hasId = true →
      Rule tv init m (.err (-32600) none)
  /-- a call method sent without an id is a notification: nothing is answered -/
  | callWithoutId (f : Flags) : PastChecks tv init m → flagsOf m = some f → f.notification = false → m.req.hasId = false →
      Rule tv init m .none
  /-- "required params missing … -32600" -/
  | missingParams (f : Flags) : PastChecks tv init m → flagsOf m = some f → f.notification = !m.req.hasId →
      f.missingParamsOK = false → (m.req.params = .absent ∨ m.req.params = .null) → Rule tv init m (refusal m (-32600) none)
  /-- "undecodable parameters … -32602" -/
  | undecodable (f : Flags) : PastChecks tv init m → flagsOf m = some f → f.notification = !m.req.hasId →
      ¬ (f.missingParamsOK = false ∧ (m.req.params = .absent ∨ m.req.params = .null)) →
      (m.req.params = .objUndecodable ∨ m.req.params = .wrongType) → Rule tv init m (refusal m (-32602) none)
  /-- a well-formed notification is not answered -/
  | notification (f : Flags) : PastChecks tv init m → flagsOf m = some f → f.notification = true → m.req.hasId = false →
      ¬ (f.missingParamsOK = false ∧ (m.req.params = .absent ∨ m.req.params = .null)) →
      ¬ (m.req.params = .objUndecodable ∨ m.req.params = .wrongType) → Rule tv init m .none

/-- "Unknown methods, undecodable parameters and structurally invalid requests … are rejected with the
standard error codes": whenever the table fixes the answer, that is what goes over the wire — on the
server's and on the client's receiving side. -/
def P_error_codes (tv : List String) (tr : Hist) : Prop :=
  ∀ j m o, At tr j m o → ∀ want, Rule tv (prevState (tr.take j)).init.isSome m want → o.w = want

/-- The property clause a monitor clause stands for. -/
def P_of (tv : List String) : Clause → Hist → Prop
  | .dropped => P_call_answered
  | .multi => P_single_answer
  | .stray => P_id_echoed
  | .notifAnswered => P_notification_not_answered
  | .malformed => P_response_wellformed
  | .f12 | .f13Elicit | .f13ElicitComplete | .f13Sampling | .crash => P_no_crash
  | .tornDown => P_session_survives
  | .unreadable => P_observed
  | .f4Served | .servedBeforeInit => P_nothing_served_before_initialize
  | .f4Passed => P_gate_refuses_before_initialize
  | .stateBeforeInit => P_state_unchanged_before_initialize
  | .servedUnopened => P_nothing_served_unopened tv
  | .secondInitAccepted => P_second_initialize_rejected
  | .secondInitState => P_second_initialize_keeps_state
  | .rejectedInitState => P_rejected_initialize_keeps_state
  | .initializedAccepted => P_initialized_premature_or_repeated_rejected
  | .initializedTwice => P_initialized_handler_once
  | .pingNotServed => P_ping_always_served
  | .incompleteMeta => P_incomplete_meta_invalid_params
  | .f34NotRefused => P_transport_version_refused tv
  | .f34SdkList | .unsupportedVersion => P_unsupported_version_refused tv
  | .removedMethod => P_removed_methods_not_found tv
  | .discoverLegacy => P_discover_only_new_protocol
  | .f16 _ | .f17 _ | .codeWrong _ => P_error_codes tv

/-! ## What it takes for the monitor to report a clause -/

theorem firstRule_some : ∀ {l : List (Bool × Clause)} {cl : Clause}, firstRule l = some cl → (true, cl) ∈ l
  | [], _, h => by simp [firstRule] at h
  | (b, c) :: l, cl, h => by
    simp only [firstRule, List.findSome?_cons] at h
    cases b with
    | true => simp only [if_true, Option.some.injEq] at h; subst h; exact List.mem_cons_self ..
    | false =>
      simp only [Bool.false_eq_true, if_false] at h
      exact List.mem_cons_of_mem _ (firstRule_some h)

theorem firstRule_none : ∀ {l : List (Bool × Clause)}, firstRule l = none → ∀ p ∈ l, p.1 = false
  | [], _, p, hp => by cases hp
  | (b, c) :: l, h, p, hp => by
    simp only [firstRule, List.findSome?_cons] at h
    cases b with
    | true => simp at h
    | false =>
      simp only [Bool.false_eq_true, if_false] at h
      rcases List.mem_cons.1 hp with rfl | hp
      · rfl
      · exact firstRule_none h p hp

/-- The monitor state at envelope `j`, spelled out. -/
structure MonAt (tv : List String) (tr : Hist) (j : Nat) (mon : Mon) : Prop where
  htv : mon.tv = tv
  prev : mon.prevSt = prevState (tr.take j)
  opened : mon.opened = true ↔ Opened tv (tr.take j)
  ran : mon.initdRan = true ↔ InitializedRan (tr.take j)

/-- What a report at envelope `j` is made of. -/
inductive Fired (tv : List String) (tr : Hist) (j : Nat) : Clause → Prop
  | panic (m : Msg) (cl : Clause) : Alive (tr.take j) → tr[j]? = some (m, .panic) → cl = crashClause m → Fired tv tr j cl
  | stuck (m : Msg) : Alive (tr.take j) → tr[j]? = some (m, .stuck) → Fired tv tr j .tornDown
  | unreadable (m : Msg) : Alive (tr.take j) → tr[j]? = some (m, .unreadable) → Fired tv tr j .unreadable
  | shape (m : Msg) (o : MObs) (cl : Clause) : At tr j m o → (true, cl) ∈ c02ShapeRules m o → Fired tv tr j cl
  | c06 (m : Msg) (o : MObs) (mon : Mon) (cl : Clause) : At tr j m o → MonAt tv tr j mon → m.side = .server →
      (true, cl) ∈ c06Rules mon m o → Fired tv tr j cl
  | code (m : Msg) (o : MObs) (want : W) (cl : Clause) : At tr j m o →
      specWire tv (prevState (tr.take j)).init.isSome m = some want → o.w ≠ want →
      (cl = .f16 want ∨ cl = .f17 want ∨ cl = .codeWrong want) → Fired tv tr j cl

theorem fires_fired {tv : List String} {tr : Hist} {j : Nat} {cl : Clause} (hf : FiresAt tv tr j cl) : Fired tv tr j cl := by
  obtain ⟨m, obs, hj, hm⟩ := hf
  obtain ⟨b1, b2, b3⟩ := book tv (tr.take j)
  have hdead : (monAfter (monStart tv) (tr.take j)).dead = false := by
    cases hd : (monAfter (monStart tv) (tr.take j)).dead with
    | false => rfl
    | true => simp [monitor, hd] at hm
  have halive := b2.1 hdead
  obtain ⟨c1, c2, c3⟩ := b3 halive
  simp only [monitor, hdead, Bool.false_eq_true, if_false] at hm
  cases obs with
  | panic => simp only [Option.some.injEq] at hm; exact .panic m _ halive hj hm.symm
  | stuck => simp only [Option.some.injEq] at hm; subst hm; exact .stuck m halive hj
  | unreadable => simp only [Option.some.injEq] at hm; subst hm; exact .unreadable m halive hj
  | seen o =>
    have hat : At tr j m o := ⟨hj, halive⟩
    simp only at hm
    cases h1 : c02Shape m o with
    | some c =>
      rw [h1] at hm
      simp only [Option.orElse, Option.some.injEq] at hm
      subst hm
      exact .shape m o _ hat (firstRule_some h1)
    | none =>
      rw [h1] at hm
      simp only [Option.orElse] at hm
      cases h2 : c06 (monAfter (monStart tv) (tr.take j)) m o with
      | some c =>
        rw [h2] at hm
        simp only [Option.some.injEq] at hm
        subst hm
        unfold c06 at h2
        split at h2
        · cases h2
        · rename_i hs
          exact .c06 m o _ _ hat ⟨b1, c1, c2, c3⟩ (by simpa using hs) (firstRule_some h2)
      | none =>
        rw [h2] at hm
        simp only at hm
        unfold c02Code at hm
        rw [b1, c1] at hm
        cases hw : specWire tv (prevState (tr.take j)).init.isSome m with
        | none => rw [hw] at hm; cases hm
        | some want =>
          rw [hw] at hm
          simp only at hm
          split at hm
          · cases hm
          · rename_i hne
            refine .code m o want _ hat hw (by simpa using hne) ?_
            split at hm
            · simp only [Option.some.injEq] at hm; exact Or.inl hm.symm
            · split at hm
              · simp only [Option.some.injEq] at hm; exact Or.inr (Or.inl hm.symm)
              · simp only [Option.some.injEq] at hm; exact Or.inr (Or.inr hm.symm)

theorem crashClause_cases (m : Msg) :
    crashClause m = .f12 ∨ crashClause m = .f13Elicit ∨ crashClause m = .f13ElicitComplete ∨
    crashClause m = .f13Sampling ∨ crashClause m = .crash := by
  unfold crashClause
  simp only
  split
  · exact Or.inl rfl
  · split
    · exact Or.inr (Or.inl rfl)
    · split
      · exact Or.inr (Or.inr (Or.inl rfl))
      · split
        · exact Or.inr (Or.inr (Or.inr (Or.inl rfl)))
        · exact Or.inr (Or.inr (Or.inr (Or.inr rfl)))

/-! ## `specWire` is the decision table -/

theorem specTail_rule {tv : List String} {init : Bool} {m : Msg} {want : W} (pg : PastChecks tv init m)
    (h : specTail m = some want) : Rule tv init m want := by
  unfold specTail at h
  cases hf : flagsOf m with
  | none =>
    rw [hf] at h
    simp only [Option.some.injEq] at h
    subst h
    exact .unknownMethod pg hf
  | some f =>
    rw [hf] at h
    simp only at h
    by_cases c1 : (f.notification && m.req.hasId) = true
    · simp only [c1, if_true, Option.some.injEq] at h
      simp only [Bool.and_eq_true] at c1
      subst h
      simp only [refusal, c1.2, if_true]
      exact .idOnNotification f pg hf c1.1 c1.2
    · simp only [c1, Bool.false_eq_true, if_false] at h
      by_cases c2 : (!f.notification && !m.req.hasId) = true
      · simp only [c2, if_true, Option.some.injEq] at h
        simp only [Bool.and_eq_true, Bool.not_eq_true'] at c2
        subst h
        exact .callWithoutId f pg hf c2.1 c2.2
      · simp only [c2, Bool.false_eq_true, if_false] at h
        have hni : f.notification = !m.req.hasId := by
          cases hN : f.notification <;> cases hI : m.req.hasId <;> simp_all
        by_cases c3 : (!f.missingParamsOK && (m.req.params == PShape.absent || m.req.params == PShape.null)) = true
        · simp only [c3, if_true, Option.some.injEq] at h
          simp only [Bool.and_eq_true, Bool.not_eq_true', Bool.or_eq_true, beq_iff_eq] at c3
          subst h
          exact .missingParams f pg hf hni c3.1 c3.2
        · simp only [c3, Bool.false_eq_true, if_false] at h
          have c3' : ¬ (f.missingParamsOK = false ∧ (m.req.params = .absent ∨ m.req.params = .null)) := by
            simpa [Bool.and_eq_true, Bool.or_eq_true] using c3
          by_cases c4 : (m.req.params == PShape.objUndecodable || m.req.params == PShape.wrongType) = true
          · simp only [c4, if_true, Option.some.injEq] at h
            simp only [Bool.or_eq_true, beq_iff_eq] at c4
            subst h
            exact .undecodable f pg hf hni c3' c4
          · simp only [c4, Bool.false_eq_true, if_false] at h
            have c4' : ¬ (m.req.params = .objUndecodable ∨ m.req.params = .wrongType) := by
              simpa [Bool.or_eq_true] using c4
            by_cases c5 : m.req.hasId = true
            · simp [c5] at h
            · have c5' : m.req.hasId = false := by simpa using c5
              simp only [c5', Bool.not_false, if_true, Option.some.injEq] at h
              subst h
              exact .notification f pg hf (by rw [hni, c5']; rfl) c5' c3' c4'

theorem specWire_rule {tv : List String} {init : Bool} {m : Msg} {want : W}
    (h : specWire tv init m = some want) : Rule tv init m want := by
  unfold specWire at h
  simp only at h
  by_cases h1 : preemptDrops m.req = true
  · simp only [h1, if_true, Option.some.injEq] at h; subst h; exact .preempt h1
  · have h1' : preemptDrops m.req = false := by simpa using h1
    simp only [h1', Bool.false_eq_true, if_false] at h
    by_cases hn : m.new = true
    · simp only [hn, Bool.true_and, Bool.not_true, Bool.and_false, Bool.false_and, Bool.false_eq_true, if_false] at h
      by_cases hc : metaComplete m.req = true
      · simp only [hc, Bool.not_true, Bool.false_eq_true, if_false] at h
        by_cases ha : acceptedBy tv m = true
        · simp only [ha, Bool.not_true, Bool.false_eq_true, if_false] at h
          by_cases hr : removedNames.contains m.mname = true
          · simp only [hr, if_true, Option.some.injEq] at h
            subst h
            exact .removed h1' hn hc ha (by simpa using hr)
          · simp only [hr, Bool.false_eq_true, if_false] at h
            have hr' : m.mname ∉ removedNames := by simpa using hr
            exact specTail_rule ⟨h1', fun _ => ⟨hc, ha, hr'⟩, fun _ hf => (by rw [hn] at hf; cases hf)⟩ h
        · have ha' : acceptedBy tv m = false := by simpa using ha
          simp only [ha', Bool.not_false, if_true, Option.some.injEq] at h
          subst h
          exact .version h1' hn hc ha'
      · have hc' : metaComplete m.req = false := by simpa using hc
        simp only [hc', Bool.not_false, if_true, Option.some.injEq] at h
        subst h
        exact .metaIncomplete h1' hn hc'
    · have hn' : m.new = false := by simpa using hn
      simp only [hn', Bool.false_and, Bool.false_eq_true, if_false, Bool.not_false, Bool.and_true] at h
      by_cases hs : m.side = .server
      · have hsb : (m.side == Side.server) = true := by simp [hs]
        simp only [hsb, Bool.true_and] at h
        by_cases hd : m.mname = "server/discover"
        · have hdb : (m.mname == "server/discover") = true := by simp [hd]
          simp only [hdb, if_true, Option.some.injEq] at h
          subst h
          exact .discoverLegacy h1' hs hn' hd
        · have hdb : (m.mname == "server/discover") = false := by simpa using hd
          simp only [hdb, Bool.false_eq_true, if_false] at h
          by_cases hg : (!init && !(["initialize", "notifications/initialized", "ping"].contains m.mname)) = true
          · simp only [hg, if_true, Option.some.injEq] at h
            subst h
            simp only [Bool.and_eq_true, Bool.not_eq_true', List.contains_eq_mem, decide_eq_false_iff_not] at hg
            exact .notInitialized h1' hs hn' hd hg.1 (by simpa using hg.2)
          · simp only [hg, Bool.false_eq_true, if_false] at h
            refine specTail_rule ⟨h1', fun hf => (by rw [hn'] at hf; cases hf), fun _ _ => ⟨hd, ?_⟩⟩ h
            cases init with
            | true => exact Or.inl rfl
            | false =>
              right
              simp only [Bool.not_false, Bool.true_and, Bool.not_eq_true', List.contains_eq_mem,
                decide_eq_false_iff_not, Classical.not_not] at hg
              simpa using hg
      · have hsb : (m.side == Side.server) = false := by simpa using hs
        simp only [hsb, Bool.false_and, Bool.false_eq_true, if_false] at h
        exact specTail_rule ⟨h1', fun hf => (by rw [hn'] at hf; cases hf), fun hf => absurd hf hs⟩ h

/-! ## Soundness, clause by clause -/

/-- A clause that is neither a crash clause nor a shape / C06 / code clause cannot be what fired. -/
theorem crashClause_ne {m : Msg} {cl : Clause} (h : cl = crashClause m)
    (h1 : cl ≠ .f12) (h2 : cl ≠ .f13Elicit) (h3 : cl ≠ .f13ElicitComplete) (h4 : cl ≠ .f13Sampling) (h5 : cl ≠ .crash) : False := by
  rcases crashClause_cases m with e | e | e | e | e <;> rw [← h] at e
  · exact h1 e
  · exact h2 e
  · exact h3 e
  · exact h4 e
  · exact h5 e

theorem initSeen_iff {tv : List String} {tr : Hist} {j : Nat} {mon : Mon} (hm : MonAt tv tr j mon) :
    mon.prevSt.init = none ↔ ¬ InitSeen tr j := by
  unfold InitSeen
  rw [← hm.prev]
  cases mon.prevSt.init <;> simp

theorem sound_crash (tv : List String) (tr : Hist) (j : Nat) (cl : Clause) (hf : FiresAt tv tr j cl)
    (hcl : cl = .f12 ∨ cl = .f13Elicit ∨ cl = .f13ElicitComplete ∨ cl = .f13Sampling ∨ cl = .crash) : ¬ P_no_crash tr := by
  intro hP
  cases fires_fired hf with
  | panic m _ ha hj _ => exact hP j m ha hj
  | stuck m ha hj => simp at hcl
  | unreadable m ha hj => simp at hcl
  | shape m o _ hat hmem => rcases hcl with rfl | rfl | rfl | rfl | rfl <;> simp [c02ShapeRules] at hmem
  | c06 m o mon _ hat hmon hside hmem => rcases hcl with rfl | rfl | rfl | rfl | rfl <;> simp [c06Rules] at hmem
  | code m o want _ hat hw hne hc => rcases hcl with rfl | rfl | rfl | rfl | rfl <;> simp at hc

theorem sound_tornDown (tv : List String) (tr : Hist) (j : Nat) (hf : FiresAt tv tr j .tornDown) : ¬ P_session_survives tr := by
  intro hP
  cases fires_fired hf with
  | panic m _ ha hj hc => exact crashClause_ne hc (by simp) (by simp) (by simp) (by simp) (by simp)
  | stuck m ha hj => exact hP j m ha hj
  | shape m o _ hat hmem => simp [c02ShapeRules] at hmem
  | c06 m o mon _ hat hmon hside hmem => simp [c06Rules] at hmem
  | code m o want _ hat hw hne hc => simp at hc

theorem sound_unreadable (tv : List String) (tr : Hist) (j : Nat) (hf : FiresAt tv tr j .unreadable) : ¬ P_observed tr := by
  intro hP
  cases fires_fired hf with
  | panic m _ ha hj hc => exact crashClause_ne hc (by simp) (by simp) (by simp) (by simp) (by simp)
  | unreadable m ha hj => exact hP j m ha hj
  | shape m o _ hat hmem => simp [c02ShapeRules] at hmem
  | c06 m o mon _ hat hmon hside hmem => simp [c06Rules] at hmem
  | code m o want _ hat hw hne hc => simp at hc

theorem sound_dropped (tv : List String) (tr : Hist) (j : Nat) (hf : FiresAt tv tr j .dropped) : ¬ P_call_answered tr := by
  intro hP
  cases fires_fired hf with
  | panic m _ ha hj hc => exact crashClause_ne hc (by simp) (by simp) (by simp) (by simp) (by simp)
  | shape m o _ hat hmem =>
    simp [c02ShapeRules] at hmem
    exact hP j m o hat hmem.1 hmem.2
  | c06 m o mon _ hat hmon hside hmem => simp [c06Rules] at hmem
  | code m o want _ hat hw hne hc => simp at hc

theorem sound_multi (tv : List String) (tr : Hist) (j : Nat) (hf : FiresAt tv tr j .multi) : ¬ P_single_answer tr := by
  intro hP
  cases fires_fired hf with
  | panic m _ ha hj hc => exact crashClause_ne hc (by simp) (by simp) (by simp) (by simp) (by simp)
  | shape m o _ hat hmem =>
    simp [c02ShapeRules] at hmem
    cases hw : o.w with
    | multi n => exact hP j m o hat n hw
    | _ => rw [hw] at hmem; simp at hmem
  | c06 m o mon _ hat hmon hside hmem => simp [c06Rules] at hmem
  | code m o want _ hat hw hne hc => simp at hc

theorem sound_stray (tv : List String) (tr : Hist) (j : Nat) (hf : FiresAt tv tr j .stray) : ¬ P_id_echoed tr := by
  intro hP
  cases fires_fired hf with
  | panic m _ ha hj hc => exact crashClause_ne hc (by simp) (by simp) (by simp) (by simp) (by simp)
  | shape m o _ hat hmem =>
    simp [c02ShapeRules] at hmem
    cases hw : o.w with
    | stray n => exact hP j m o hat n hw
    | _ => rw [hw] at hmem; simp at hmem
  | c06 m o mon _ hat hmon hside hmem => simp [c06Rules] at hmem
  | code m o want _ hat hw hne hc => simp at hc

theorem sound_notifAnswered (tv : List String) (tr : Hist) (j : Nat) (hf : FiresAt tv tr j .notifAnswered) :
    ¬ P_notification_not_answered tr := by
  intro hP
  cases fires_fired hf with
  | panic m _ ha hj hc => exact crashClause_ne hc (by simp) (by simp) (by simp) (by simp) (by simp)
  | shape m o _ hat hmem =>
    simp [c02ShapeRules] at hmem
    exact hmem.2 (hP j m o hat hmem.1)
  | c06 m o mon _ hat hmon hside hmem => simp [c06Rules] at hmem
  | code m o want _ hat hw hne hc => simp at hc

theorem sound_malformed (tv : List String) (tr : Hist) (j : Nat) (hf : FiresAt tv tr j .malformed) : ¬ P_response_wellformed tr := by
  intro hP
  cases fires_fired hf with
  | panic m _ ha hj hc => exact crashClause_ne hc (by simp) (by simp) (by simp) (by simp) (by simp)
  | shape m o _ hat hmem =>
    simp [c02ShapeRules] at hmem
    exact hP j m o hat hmem
  | c06 m o mon _ hat hmon hside hmem => simp [c06Rules] at hmem
  | code m o want _ hat hw hne hc => simp at hc

theorem sound_servedBeforeInit (tv : List String) (tr : Hist) (j : Nat) (hf : FiresAt tv tr j .servedBeforeInit) :
    ¬ P_nothing_served_before_initialize tr := by
  intro hP
  cases fires_fired hf with
  | panic m _ ha hj hc => exact crashClause_ne hc (by simp) (by simp) (by simp) (by simp) (by simp)
  | shape m o _ hat hmem => simp [c02ShapeRules] at hmem
  | c06 m o mon _ hat hmon hside hmem =>
    simp [c06Rules] at hmem
    obtain ⟨⟨⟨h1, h2⟩, h3⟩, h4⟩ := hmem
    obtain ⟨a, b⟩ := hP j m o hat ⟨hside, h1⟩ ((initSeen_iff hmon).1 h2) h4
    rcases h3 with h3 | h3
    · rw [a] at h3; cases h3
    · rw [b] at h3; cases h3
  | code m o want _ hat hw hne hc => simp at hc

theorem sound_f4Served (tv : List String) (tr : Hist) (j : Nat) (hf : FiresAt tv tr j .f4Served) :
    ¬ P_nothing_served_before_initialize tr := by
  intro hP
  cases fires_fired hf with
  | panic m _ ha hj hc => exact crashClause_ne hc (by simp) (by simp) (by simp) (by simp) (by simp)
  | shape m o _ hat hmem => simp [c02ShapeRules] at hmem
  | c06 m o mon _ hat hmon hside hmem =>
    simp [c06Rules] at hmem
    obtain ⟨⟨⟨⟨h1, h2⟩, h3⟩, h4⟩, _⟩ := hmem
    obtain ⟨a, b⟩ := hP j m o hat ⟨hside, h1⟩ ((initSeen_iff hmon).1 h2) h4
    rcases h3 with h3 | h3
    · rw [a] at h3; cases h3
    · rw [b] at h3; cases h3
  | code m o want _ hat hw hne hc => simp at hc

theorem isSome_initSeen {tv : List String} {tr : Hist} {j : Nat} {mon : Mon} (hm : MonAt tv tr j mon) :
    mon.prevSt.init.isSome = true ↔ InitSeen tr j := by
  unfold InitSeen; rw [← hm.prev]

theorem notOpened_iff {tv : List String} {tr : Hist} {j : Nat} {mon : Mon} (hm : MonAt tv tr j mon) :
    mon.opened = false ↔ ¬ Opened tv (tr.take j) := by
  rw [← hm.opened]; cases mon.opened <;> simp

theorem sound_f4Passed (tv : List String) (tr : Hist) (j : Nat) (hf : FiresAt tv tr j .f4Passed) :
    ¬ P_gate_refuses_before_initialize tr := by
  intro hP
  cases fires_fired hf with
  | panic m _ ha hj hc => exact crashClause_ne hc (by simp) (by simp) (by simp) (by simp) (by simp)
  | shape m o _ hat hmem => simp [c02ShapeRules] at hmem
  | c06 m o mon _ hat hmon hside hmem =>
    simp [c06Rules] at hmem
    obtain ⟨⟨⟨⟨h1, h2⟩, h3⟩, h4⟩, h5⟩ := hmem
    exact h5 (hP j m o hat ⟨hside, h1⟩ ((initSeen_iff hmon).1 h2) h3 h4)
  | code m o want _ hat hw hne hc => simp at hc

theorem sound_stateBeforeInit (tv : List String) (tr : Hist) (j : Nat) (hf : FiresAt tv tr j .stateBeforeInit) :
    ¬ P_state_unchanged_before_initialize tr := by
  intro hP
  cases fires_fired hf with
  | panic m _ ha hj hc => exact crashClause_ne hc (by simp) (by simp) (by simp) (by simp) (by simp)
  | shape m o _ hat hmem => simp [c02ShapeRules] at hmem
  | c06 m o mon _ hat hmon hside hmem =>
    simp [c06Rules] at hmem
    obtain ⟨⟨⟨h1, h2⟩, h3⟩, h4⟩ := hmem
    apply h3
    have := hP j m o hat ⟨hside, h1⟩ ((initSeen_iff hmon).1 h2) h4
    rw [hmon.prev]; exact this
  | code m o want _ hat hw hne hc => simp at hc

theorem sound_servedUnopened (tv : List String) (tr : Hist) (j : Nat) (hf : FiresAt tv tr j .servedUnopened) :
    ¬ P_nothing_served_unopened tv tr := by
  intro hP
  cases fires_fired hf with
  | panic m _ ha hj hc => exact crashClause_ne hc (by simp) (by simp) (by simp) (by simp) (by simp)
  | shape m o _ hat hmem => simp [c02ShapeRules] at hmem
  | c06 m o mon _ hat hmon hside hmem =>
    simp [c06Rules] at hmem
    obtain ⟨⟨⟨h1, h2⟩, h3⟩, h4⟩ := hmem
    obtain ⟨a, b, c⟩ := hP j m o hat ⟨hside, h1⟩ ((notOpened_iff hmon).1 h2) h4
    rcases h3 with (h3 | h3) | h3
    · rw [a] at h3; cases h3
    · rw [b] at h3; cases h3
    · exact c h3
  | code m o want _ hat hw hne hc => simp at hc

theorem sound_secondInitAccepted (tv : List String) (tr : Hist) (j : Nat) (hf : FiresAt tv tr j .secondInitAccepted) :
    ¬ P_second_initialize_rejected tr := by
  intro hP
  cases fires_fired hf with
  | panic m _ ha hj hc => exact crashClause_ne hc (by simp) (by simp) (by simp) (by simp) (by simp)
  | shape m o _ hat hmem => simp [c02ShapeRules] at hmem
  | c06 m o mon _ hat hmon hside hmem =>
    simp [c06Rules] at hmem
    obtain ⟨⟨h1, h2⟩, h3⟩ := hmem
    exact hP j m o hat hside h1 ((isSome_initSeen hmon).1 h2) h3
  | code m o want _ hat hw hne hc => simp at hc

theorem sound_secondInitState (tv : List String) (tr : Hist) (j : Nat) (hf : FiresAt tv tr j .secondInitState) :
    ¬ P_second_initialize_keeps_state tr := by
  intro hP
  cases fires_fired hf with
  | panic m _ ha hj hc => exact crashClause_ne hc (by simp) (by simp) (by simp) (by simp) (by simp)
  | shape m o _ hat hmem => simp [c02ShapeRules] at hmem
  | c06 m o mon _ hat hmon hside hmem =>
    simp [c06Rules] at hmem
    obtain ⟨⟨h1, h2⟩, h3⟩ := hmem
    apply h3
    rw [hmon.prev]; exact hP j m o hat hside h1 ((isSome_initSeen hmon).1 h2)
  | code m o want _ hat hw hne hc => simp at hc

theorem sound_rejectedInitState (tv : List String) (tr : Hist) (j : Nat) (hf : FiresAt tv tr j .rejectedInitState) :
    ¬ P_rejected_initialize_keeps_state tr := by
  intro hP
  cases fires_fired hf with
  | panic m _ ha hj hc => exact crashClause_ne hc (by simp) (by simp) (by simp) (by simp) (by simp)
  | shape m o _ hat hmem => simp [c02ShapeRules] at hmem
  | c06 m o mon _ hat hmon hside hmem =>
    simp [c06Rules] at hmem
    obtain ⟨⟨h1, h2⟩, h3⟩ := hmem
    apply h3
    rw [hmon.prev]; exact hP j m o hat hside h1 h2
  | code m o want _ hat hw hne hc => simp at hc

theorem sound_initializedAccepted (tv : List String) (tr : Hist) (j : Nat) (hf : FiresAt tv tr j .initializedAccepted) :
    ¬ P_initialized_premature_or_repeated_rejected tr := by
  intro hP
  cases fires_fired hf with
  | panic m _ ha hj hc => exact crashClause_ne hc (by simp) (by simp) (by simp) (by simp) (by simp)
  | shape m o _ hat hmem => simp [c02ShapeRules] at hmem
  | c06 m o mon _ hat hmon hside hmem =>
    simp [c06Rules] at hmem
    obtain ⟨⟨h1, h2⟩, h3⟩ := hmem
    have hpre : ¬ InitSeen tr j ∨ (prevState (tr.take j)).initd = true := by
      rcases h2 with h2 | h2
      · exact Or.inl ((initSeen_iff hmon).1 h2)
      · exact Or.inr (by rw [← hmon.prev]; exact h2)
    obtain ⟨a, b⟩ := hP j m o hat hside h1 hpre
    rcases h3 with h3 | h3
    · rw [a] at h3; cases h3
    · apply h3; rw [hmon.prev]; exact b
  | code m o want _ hat hw hne hc => simp at hc

theorem sound_initializedTwice (tv : List String) (tr : Hist) (j : Nat) (hf : FiresAt tv tr j .initializedTwice) :
    ¬ P_initialized_handler_once tr := by
  intro hP
  cases fires_fired hf with
  | panic m _ ha hj hc => exact crashClause_ne hc (by simp) (by simp) (by simp) (by simp) (by simp)
  | shape m o _ hat hmem => simp [c02ShapeRules] at hmem
  | c06 m o mon _ hat hmon hside hmem =>
    simp [c06Rules] at hmem
    obtain ⟨⟨h1, h2⟩, h3⟩ := hmem
    have := hP j m o hat hside h1 (hmon.ran.1 h2)
    rw [this] at h3; cases h3
  | code m o want _ hat hw hne hc => simp at hc

theorem sound_pingNotServed (tv : List String) (tr : Hist) (j : Nat) (hf : FiresAt tv tr j .pingNotServed) :
    ¬ P_ping_always_served tr := by
  intro hP
  cases fires_fired hf with
  | panic m _ ha hj hc => exact crashClause_ne hc (by simp) (by simp) (by simp) (by simp) (by simp)
  | shape m o _ hat hmem => simp [c02ShapeRules] at hmem
  | c06 m o mon _ hat hmon hside hmem =>
    simp [c06Rules] at hmem
    obtain ⟨⟨⟨⟨h1, h2⟩, h3⟩, h4, h5⟩, h6⟩ := hmem
    exact h6 (hP j m o hat ⟨hside, h2⟩ h1 h3 h4 h5)
  | code m o want _ hat hw hne hc => simp at hc

theorem sound_incompleteMeta (tv : List String) (tr : Hist) (j : Nat) (hf : FiresAt tv tr j .incompleteMeta) :
    ¬ P_incomplete_meta_invalid_params tr := by
  intro hP
  cases fires_fired hf with
  | panic m _ ha hj hc => exact crashClause_ne hc (by simp) (by simp) (by simp) (by simp) (by simp)
  | shape m o _ hat hmem => simp [c02ShapeRules] at hmem
  | c06 m o mon _ hat hmon hside hmem =>
    simp [c06Rules] at hmem
    obtain ⟨⟨h1, h2⟩, h3⟩ := hmem
    obtain ⟨a, b, c, d⟩ := hP j m o hat ⟨hside, h1⟩ h2
    rcases h3 with ((h3 | h3) | h3) | ⟨h3, h4⟩
    · rw [a] at h3; cases h3
    · rw [b] at h3; cases h3
    · apply h3; rw [hmon.prev]; exact c
    · exact h4 (d h3)
  | code m o want _ hat hw hne hc => simp at hc

theorem sound_f34NotRefused (tv : List String) (tr : Hist) (j : Nat) (hf : FiresAt tv tr j .f34NotRefused) :
    ¬ P_transport_version_refused tv tr := by
  intro hP
  cases fires_fired hf with
  | panic m _ ha hj hc => exact crashClause_ne hc (by simp) (by simp) (by simp) (by simp) (by simp)
  | shape m o _ hat hmem => simp [c02ShapeRules] at hmem
  | c06 m o mon _ hat hmon hside hmem =>
    simp [c06Rules] at hmem
    obtain ⟨⟨⟨⟨⟨h1, h2⟩, h3⟩, h4⟩, h5⟩, h6⟩ := hmem
    rw [hmon.htv] at h5 h6
    obtain ⟨a, b, c, d⟩ := hP j m o hat ⟨hside, h1⟩ h2 h3 h4 h5
    rcases h6 with ((h6 | h6) | h6) | ⟨h6, h7⟩
    · rw [a] at h6; cases h6
    · rw [b] at h6; cases h6
    · apply h6; rw [hmon.prev]; exact c
    · exact h7 (d h6)
  | code m o want _ hat hw hne hc => simp at hc

theorem sound_f34SdkList (tv : List String) (tr : Hist) (j : Nat) (hf : FiresAt tv tr j .f34SdkList) :
    ¬ P_unsupported_version_refused tv tr := by
  intro hP
  cases fires_fired hf with
  | panic m _ ha hj hc => exact crashClause_ne hc (by simp) (by simp) (by simp) (by simp) (by simp)
  | shape m o _ hat hmem => simp [c02ShapeRules] at hmem
  | c06 m o mon _ hat hmon hside hmem =>
    simp [c06Rules] at hmem
    obtain ⟨⟨⟨⟨⟨⟨⟨⟨h1, h2⟩, h3⟩, _⟩, _⟩, _⟩, h7⟩, _⟩, h9⟩ := hmem
    rw [hmon.htv] at h3 h9
    exact h9 ((hP j m o hat ⟨hside, h1⟩ h2 h3).2.2 h7)
  | code m o want _ hat hw hne hc => simp at hc

theorem sound_unsupportedVersion (tv : List String) (tr : Hist) (j : Nat) (hf : FiresAt tv tr j .unsupportedVersion) :
    ¬ P_unsupported_version_refused tv tr := by
  intro hP
  cases fires_fired hf with
  | panic m _ ha hj hc => exact crashClause_ne hc (by simp) (by simp) (by simp) (by simp) (by simp)
  | shape m o _ hat hmem => simp [c02ShapeRules] at hmem
  | c06 m o mon _ hat hmon hside hmem =>
    simp [c06Rules] at hmem
    obtain ⟨⟨⟨h1, h2⟩, h3⟩, h4⟩ := hmem
    rw [hmon.htv] at h3 h4
    obtain ⟨a, c, d⟩ := hP j m o hat ⟨hside, h1⟩ h2 h3
    rcases h4 with (h4 | h4) | ⟨h4, h5⟩
    · rw [a] at h4; cases h4
    · apply h4; rw [hmon.prev]; exact c
    · exact h5 (d h4)
  | code m o want _ hat hw hne hc => simp at hc

theorem sound_removedMethod (tv : List String) (tr : Hist) (j : Nat) (hf : FiresAt tv tr j .removedMethod) :
    ¬ P_removed_methods_not_found tv tr := by
  intro hP
  cases fires_fired hf with
  | panic m _ ha hj hc => exact crashClause_ne hc (by simp) (by simp) (by simp) (by simp) (by simp)
  | shape m o _ hat hmem => simp [c02ShapeRules] at hmem
  | c06 m o mon _ hat hmon hside hmem =>
    simp [c06Rules] at hmem
    obtain ⟨⟨⟨⟨h1, h2⟩, h3⟩, h4⟩, h5⟩ := hmem
    rw [hmon.htv] at h3
    obtain ⟨a, b⟩ := hP j m o hat ⟨hside, h1⟩ h2 h3 h4
    rcases h5 with h5 | ⟨h5, h6⟩
    · rw [a] at h5; cases h5
    · exact h6 (b h5)
  | code m o want _ hat hw hne hc => simp at hc

theorem sound_discoverLegacy (tv : List String) (tr : Hist) (j : Nat) (hf : FiresAt tv tr j .discoverLegacy) :
    ¬ P_discover_only_new_protocol tr := by
  intro hP
  cases fires_fired hf with
  | panic m _ ha hj hc => exact crashClause_ne hc (by simp) (by simp) (by simp) (by simp) (by simp)
  | shape m o _ hat hmem => simp [c02ShapeRules] at hmem
  | c06 m o mon _ hat hmon hside hmem =>
    simp [c06Rules] at hmem
    obtain ⟨⟨h1, h2⟩, h3⟩ := hmem
    obtain ⟨a, b⟩ := hP j m o hat ⟨hside, h2⟩ h1
    rcases h3 with h3 | ⟨h3, h4⟩
    · rw [a] at h3; cases h3
    · exact h4 (b h3)
  | code m o want _ hat hw hne hc => simp at hc

/-- The code clauses: the table fixes `want`, something else went over the wire. -/
theorem sound_code (tv : List String) (tr : Hist) (j : Nat) (cl : Clause) (want : W) (hf : FiresAt tv tr j cl)
    (hcl : cl = .f16 want ∨ cl = .f17 want ∨ cl = .codeWrong want) : ¬ P_error_codes tv tr := by
  intro hP
  cases fires_fired hf with
  | panic m _ ha hj hc =>
    rcases hcl with rfl | rfl | rfl <;> exact crashClause_ne hc (by simp) (by simp) (by simp) (by simp) (by simp)
  | stuck m ha hj => simp at hcl
  | unreadable m ha hj => simp at hcl
  | shape m o _ hat hmem => rcases hcl with rfl | rfl | rfl <;> simp [c02ShapeRules] at hmem
  | c06 m o mon _ hat hmon hside hmem => rcases hcl with rfl | rfl | rfl <;> simp [c06Rules] at hmem
  | code m o want' _ hat hw hne hc => exact hne (hP j m o hat want' (specWire_rule hw))

/-- "Unknown methods … are rejected with … -32601" — server and client receiving side: if the monitor
reports a code clause demanding method-not-found, an envelope whose method is unknown on the receiving
side (or removed from / not part of the protocol it was sent under) was not answered -32601. -/
theorem sound_code_methodNotFound (tv : List String) (tr : Hist) (j : Nat) (hf : FiresAt tv tr j (.codeWrong (.err (-32601) none))) :
    ∃ m o, At tr j m o ∧ m.req.hasId = true ∧ o.w ≠ .err (-32601) none ∧ Rule tv (prevState (tr.take j)).init.isSome m (.err (-32601) none) := by
  cases fires_fired hf with
  | panic m _ ha hj hc => exact (crashClause_ne hc (by simp) (by simp) (by simp) (by simp) (by simp)).elim
  | shape m o _ hat hmem => simp [c02ShapeRules] at hmem
  | c06 m o mon _ hat hmon hside hmem => simp [c06Rules] at hmem
  | code m o want' _ hat hw hne hc =>
    simp only [reduceCtorEq, false_or, Clause.codeWrong.injEq] at hc
    subst hc
    refine ⟨m, o, hat, ?_, hne, specWire_rule hw⟩
    -- a refusal that is an error response belongs to a call
    have hr := specWire_rule hw
    cases hid : m.req.hasId with
    | true => rfl
    | false =>
      exfalso
      generalize hwant : W.err (-32601) none = want at hr
      cases hr <;> simp_all [refusal]

/-- The same for -32600 ("an id on a notification-only method, required params missing") and -32602
("undecodable parameters", incomplete per-request metadata): the demanded answer is in the table. -/
theorem sound_code_wrong (tv : List String) (tr : Hist) (j : Nat) (want : W) (hf : FiresAt tv tr j (.codeWrong want)) :
    ∃ m o, At tr j m o ∧ o.w ≠ want ∧ Rule tv (prevState (tr.take j)).init.isSome m want := by
  cases fires_fired hf with
  | panic m _ ha hj hc => exact (crashClause_ne hc (by simp) (by simp) (by simp) (by simp) (by simp)).elim
  | shape m o _ hat hmem => simp [c02ShapeRules] at hmem
  | c06 m o mon _ hat hmon hside hmem => simp [c06Rules] at hmem
  | code m o want' _ hat hw hne hc =>
    simp only [reduceCtorEq, false_or, Clause.codeWrong.injEq] at hc
    subst hc
    exact ⟨m, o, hat, hne, specWire_rule hw⟩

/-- Why the table demands -32601: the method is removed from the protocol the request was sent under,
or is `server/discover` under a legacy protocol, or — past every earlier check — is unknown to the
receiving side (server or client). -/
theorem rule_methodNotFound {tv : List String} {init : Bool} {m : Msg} (h : Rule tv init m (.err (-32601) none)) :
    m.req.hasId = true ∧
    ((m.new = true ∧ m.mname ∈ removedNames) ∨ (m.side = .server ∧ m.new = false ∧ m.mname = "server/discover") ∨
     (PastChecks tv init m ∧ flagsOf m = none)) := by
  generalize hw : W.err (-32601) none = want at h
  cases h <;> simp_all [refusal]
  all_goals (split at hw <;> simp_all)

/-- Why the table demands -32600: an id on a notification-only method, or required params missing
(absent or null) — on either receiving side. -/
theorem rule_invalidRequest {tv : List String} {init : Bool} {m : Msg} (h : Rule tv init m (.err (-32600) none)) :
    m.req.hasId = true ∧ PastChecks tv init m ∧ ∃ f, flagsOf m = some f ∧
      ((f.notification = true) ∨ (f.missingParamsOK = false ∧ (m.req.params = .absent ∨ m.req.params = .null))) := by
  generalize hw : W.err (-32600) none = want at h
  cases h <;> simp_all [refusal]
  all_goals (try (split at hw <;> simp_all))
  all_goals (first | exact ⟨_, rfl, by simp_all⟩ | skip)

/-- Why the table demands -32602: incomplete per-request metadata, or params that do not decode. -/
theorem rule_invalidParams {tv : List String} {init : Bool} {m : Msg} (h : Rule tv init m (.err (-32602) none)) :
    m.req.hasId = true ∧
    ((m.new = true ∧ metaComplete m.req = false) ∨
     (PastChecks tv init m ∧ (m.req.params = .objUndecodable ∨ m.req.params = .wrongType))) := by
  generalize hw : W.err (-32602) none = want at h
  cases h <;> simp_all [refusal]
  all_goals (try (split at hw <;> simp_all))

/-- "structurally invalid requests (an id on a notification-only method, required params missing) are
rejected with … -32600" — both receiving sides. -/
theorem sound_code_invalidRequest (tv : List String) (tr : Hist) (j : Nat) (hf : FiresAt tv tr j (.codeWrong (.err (-32600) none))) :
    ∃ m o, At tr j m o ∧ m.req.hasId = true ∧ o.w ≠ .err (-32600) none ∧ ∃ f, flagsOf m = some f ∧
      ((f.notification = true) ∨ (f.missingParamsOK = false ∧ (m.req.params = .absent ∨ m.req.params = .null))) := by
  obtain ⟨m, o, hat, hne, hr⟩ := sound_code_wrong tv tr j _ hf
  obtain ⟨h1, _, f, h2, h3⟩ := rule_invalidRequest hr
  exact ⟨m, o, hat, h1, hne, f, h2, h3⟩

/-- "undecodable parameters … are rejected with … -32602" (and incomplete per-request metadata, C06). -/
theorem sound_code_invalidParams (tv : List String) (tr : Hist) (j : Nat) (hf : FiresAt tv tr j (.codeWrong (.err (-32602) none))) :
    ∃ m o, At tr j m o ∧ m.req.hasId = true ∧ o.w ≠ .err (-32602) none ∧
      ((m.new = true ∧ metaComplete m.req = false) ∨ m.req.params = .objUndecodable ∨ m.req.params = .wrongType) := by
  obtain ⟨m, o, hat, hne, hr⟩ := sound_code_wrong tv tr j _ hf
  obtain ⟨h1, h2⟩ := rule_invalidParams hr
  refine ⟨m, o, hat, h1, hne, ?_⟩
  rcases h2 with h | ⟨_, h⟩
  · exact Or.inl h
  · exact Or.inr h

/-- **Every reported clause contradicts the property clause it names.** -/
theorem monitor_sound (tv : List String) (tr : Hist) (j : Nat) (cl : Clause) (h : runMon tv tr = some (j, cl)) :
    ¬ P_of tv cl tr := by
  have hf := runMon_fires h
  cases cl with
  | dropped => exact sound_dropped tv tr j hf
  | multi => exact sound_multi tv tr j hf
  | stray => exact sound_stray tv tr j hf
  | notifAnswered => exact sound_notifAnswered tv tr j hf
  | malformed => exact sound_malformed tv tr j hf
  | f12 => exact sound_crash tv tr j _ hf (by simp)
  | f13Elicit => exact sound_crash tv tr j _ hf (by simp)
  | f13ElicitComplete => exact sound_crash tv tr j _ hf (by simp)
  | f13Sampling => exact sound_crash tv tr j _ hf (by simp)
  | crash => exact sound_crash tv tr j _ hf (by simp)
  | tornDown => exact sound_tornDown tv tr j hf
  | unreadable => exact sound_unreadable tv tr j hf
  | f4Served => exact sound_f4Served tv tr j hf
  | servedBeforeInit => exact sound_servedBeforeInit tv tr j hf
  | f4Passed => exact sound_f4Passed tv tr j hf
  | stateBeforeInit => exact sound_stateBeforeInit tv tr j hf
  | servedUnopened => exact sound_servedUnopened tv tr j hf
  | secondInitAccepted => exact sound_secondInitAccepted tv tr j hf
  | secondInitState => exact sound_secondInitState tv tr j hf
  | rejectedInitState => exact sound_rejectedInitState tv tr j hf
  | initializedAccepted => exact sound_initializedAccepted tv tr j hf
  | initializedTwice => exact sound_initializedTwice tv tr j hf
  | pingNotServed => exact sound_pingNotServed tv tr j hf
  | incompleteMeta => exact sound_incompleteMeta tv tr j hf
  | f34NotRefused => exact sound_f34NotRefused tv tr j hf
  | f34SdkList => exact sound_f34SdkList tv tr j hf
  | unsupportedVersion => exact sound_unsupportedVersion tv tr j hf
  | removedMethod => exact sound_removedMethod tv tr j hf
  | discoverLegacy => exact sound_discoverLegacy tv tr j hf
  | f16 want => exact sound_code tv tr j _ want hf (by simp)
  | f17 want => exact sound_code tv tr j _ want hf (by simp)
  | codeWrong want => exact sound_code tv tr j _ want hf (by simp)

/-! ## Completeness: silence means every clause holds -/

theorem pastChecks_specWire {tv : List String} {init : Bool} {m : Msg} (pg : PastChecks tv init m) :
    specWire tv init m = specTail m := by
  obtain ⟨p1, p2, p3⟩ := pg
  unfold specWire
  simp only [p1, Bool.false_eq_true, if_false]
  cases hn : m.new with
  | true =>
    obtain ⟨a, b, c⟩ := p2 hn
    simp [a, b, c]
  | false =>
    cases hs : m.side with
    | client => simp
    | server =>
      obtain ⟨d, e⟩ := p3 hs hn
      have d' : (m.mname == "server/discover") = false := by simpa using d
      rcases e with e | e
      · simp [d', e]
      · have e2 : m.mname = "initialize" ∨ m.mname = "notifications/initialized" ∨ m.mname = "ping" := by simpa using e
        rcases e2 with e2 | e2 | e2 <;> simp [e2]

/-- The decision table determines `specWire`. -/
theorem rule_specWire {tv : List String} {init : Bool} {m : Msg} {want : W} (h : Rule tv init m want) :
    specWire tv init m = some want := by
  cases h with
  | preempt h1 => simp [specWire, h1]
  | metaIncomplete h1 h2 h3 => simp [specWire, h1, h2, h3]
  | version h1 h2 h3 h4 => simp [specWire, h1, h2, h3, h4]
  | removed h1 h2 h3 h4 h5 =>
    simp [specWire, h1, h2, h3, h4, h5]
  | discoverLegacy h1 h2 h3 h4 => simp [specWire, h1, h2, h3, h4]
  | notInitialized h1 h2 h3 h4 h5 h6 =>
    have h4' : (m.mname == "server/discover") = false := by simpa using h4
    have h6' : (["initialize", "notifications/initialized", "ping"].contains m.mname) = false := by simpa using h6
    unfold specWire
    simp only [h1, h2, h3, h4', h5, h6', Bool.false_eq_true, if_false, Bool.false_and, Bool.and_false, Bool.not_false,
      Bool.and_true, beq_self_eq_true, Bool.true_and, if_true]
  | unknownMethod pg hf => rw [pastChecks_specWire pg]; simp [specTail, hf]
  | idOnNotification f pg hf h1 h2 => rw [pastChecks_specWire pg]; simp [specTail, hf, h1, h2, refusal]
  | callWithoutId f pg hf h1 h2 => rw [pastChecks_specWire pg]; simp [specTail, hf, h1, h2]
  | missingParams f pg hf h1 h2 h3 =>
    rw [pastChecks_specWire pg]
    cases hid : m.req.hasId <;> rw [hid] at h1 <;> rcases h3 with h3 | h3 <;> simp [specTail, hf, h1, h2, h3, hid]
  | undecodable f pg hf h1 h2 h3 =>
    rw [pastChecks_specWire pg]
    have h2' : (!f.missingParamsOK && (m.req.params == PShape.absent || m.req.params == PShape.null)) = false := by
      cases hb : (!f.missingParamsOK && (m.req.params == PShape.absent || m.req.params == PShape.null)) with
      | false => rfl
      | true =>
        exfalso; apply h2
        simpa [Bool.and_eq_true, Bool.or_eq_true] using hb
    cases hid : m.req.hasId <;> rw [hid] at h1 <;> rcases h3 with h3 | h3 <;> simp [specTail, hf, h1, h2', h3, hid] <;>
      simp [h3] at h2'
  | notification f pg hf h1 h2 h3 h4 =>
    rw [pastChecks_specWire pg]
    have h3' : (!f.missingParamsOK && (m.req.params == PShape.absent || m.req.params == PShape.null)) = false := by
      cases hb : (!f.missingParamsOK && (m.req.params == PShape.absent || m.req.params == PShape.null)) with
      | false => rfl
      | true =>
        exfalso; apply h3
        simpa [Bool.and_eq_true, Bool.or_eq_true] using hb
    have h4' : (m.req.params == PShape.objUndecodable || m.req.params == PShape.wrongType) = false := by
      cases hb : (m.req.params == PShape.objUndecodable || m.req.params == PShape.wrongType) with
      | false => rfl
      | true =>
        exfalso; apply h4
        simpa [Bool.or_eq_true] using hb
    simp [specTail, hf, h1, h2, h3', h4']

/-- What silence at a judged envelope gives. -/
structure Silent (tv : List String) (tr : Hist) (j : Nat) (m : Msg) (o : MObs) : Prop where
  shape : ∀ p ∈ c02ShapeRules m o, p.1 = false
  c06 : m.side = .server → ∃ mon, MonAt tv tr j mon ∧ ∀ p ∈ c06Rules mon m o, p.1 = false
  code : ∀ want, specWire tv (prevState (tr.take j)).init.isSome m = some want → o.w = want

theorem silent_at {tv : List String} {tr : Hist} (hs : runMon tv tr = none) {j : Nat} {m : Msg} {o : MObs}
    (hat : At tr j m o) : Silent tv tr j m o := by
  have hm := runFrom_none tr _ 0 hs j m (.seen o) hat.here
  obtain ⟨b1, b2, b3⟩ := book tv (tr.take j)
  have hdead := b2.2 hat.alive
  obtain ⟨c1, c2, c3⟩ := b3 hat.alive
  simp only [monitor, hdead, Bool.false_eq_true, if_false] at hm
  cases h1 : c02Shape m o with
  | some c => rw [h1] at hm; simp [Option.orElse] at hm
  | none =>
    rw [h1] at hm
    simp only [Option.orElse] at hm
    cases h2 : c06 (monAfter (monStart tv) (tr.take j)) m o with
    | some c => rw [h2] at hm; cases hm
    | none =>
      rw [h2] at hm
      simp only at hm
      refine ⟨firstRule_none h1, ?_, ?_⟩
      · intro hside
        refine ⟨_, ⟨b1, c1, c2, c3⟩, ?_⟩
        unfold c06 at h2
        simp only [hside, bne_self_eq_false, Bool.false_eq_true, if_false] at h2
        exact firstRule_none h2
      · intro want hw
        unfold c02Code at hm
        rw [b1, c1, hw] at hm
        simp only at hm
        split at hm
        · rename_i he; simpa using he
        · split at hm
          · cases hm
          · split at hm <;> cases hm

theorem silent_no_crash {tv : List String} {tr : Hist} (hs : runMon tv tr = none) {j : Nat} {m : Msg} {obs : Obs}
    (ha : Alive (tr.take j)) (hj : tr[j]? = some (m, obs)) : ∃ o, obs = .seen o := by
  have hm := runFrom_none tr _ 0 hs j m obs hj
  have hdead := (book tv (tr.take j)).2.1.2 ha
  simp only [monitor, hdead, Bool.false_eq_true, if_false] at hm
  cases obs with
  | seen o => exact ⟨o, rfl⟩
  | panic => cases hm
  | stuck => cases hm
  | unreadable => cases hm

/-- **monitor_complete.** If the monitor run reports nothing on a case, every clause of C06 and of
C02's part of this stream holds on it. -/
theorem monitor_complete (tv : List String) (tr : Hist) (hs : runMon tv tr = none) (cl : Clause) : P_of tv cl tr := by
  have shp : ∀ {j m o}, At tr j m o → _ := fun hat => by
    have H := (silent_at hs hat).shape
    simp [c02ShapeRules] at H
    exact H
  have c6 : ∀ {j m o}, At tr j m o → m.side = .server → ∃ mon, MonAt tv tr j mon ∧ _ := fun hat hside => by
    obtain ⟨mon, hmon, H⟩ := (silent_at hs hat).c06 hside
    simp [c06Rules] at H
    exact ⟨mon, hmon, H⟩
  cases cl with
  | dropped => intro j m o hat hid; exact (shp hat).1 hid
  | multi =>
    intro j m o hat n hw
    have := (shp hat).2.1
    rw [hw] at this; simp at this
  | stray =>
    intro j m o hat n hw
    have := (shp hat).2.2.1
    rw [hw] at this; simp at this
  | notifAnswered => intro j m o hat hid; exact (shp hat).2.2.2.1 hid
  | malformed => intro j m o hat; exact (shp hat).2.2.2.2
  | f12 | f13Elicit | f13ElicitComplete | f13Sampling | crash =>
    intro j m ha hj
    obtain ⟨o, ho⟩ := silent_no_crash hs ha hj
    cases ho
  | tornDown =>
    intro j m ha hj
    obtain ⟨o, ho⟩ := silent_no_crash hs ha hj
    cases ho
  | unreadable =>
    intro j m ha hj
    obtain ⟨o, ho⟩ := silent_no_crash hs ha hj
    cases ho
  | f4Served | servedBeforeInit =>
    intro j m o hat hl hi hp
    obtain ⟨mon, hmon, _, r2, _⟩ := c6 hat hl.1
    have hnone := (initSeen_iff hmon).2 hi
    cases hmw : o.mw with
    | true => exact absurd (r2 hl.2 hnone (Or.inl hmw)) hp
    | false =>
      cases huh : o.uh with
      | true => exact absurd (r2 hl.2 hnone (Or.inr huh)) hp
      | false => exact ⟨rfl, rfl⟩
  | f4Passed =>
    intro j m o hat hl hi hf hid
    obtain ⟨mon, hmon, _, _, r3, _⟩ := c6 hat hl.1
    exact r3 hl.2 ((initSeen_iff hmon).2 hi) hf hid
  | stateBeforeInit =>
    intro j m o hat hl hi hne
    obtain ⟨mon, hmon, _, _, _, r4, _⟩ := c6 hat hl.1
    unfold Unchanged
    rw [← hmon.prev]
    exact Classical.byContradiction fun hc => hne (r4 hl.2 ((initSeen_iff hmon).2 hi) hc)
  | servedUnopened =>
    intro j m o hat hl ho hp
    obtain ⟨mon, hmon, _, _, _, _, r5, _⟩ := c6 hat hl.1
    have hno := (notOpened_iff hmon).2 ho
    refine ⟨?_, ?_, ?_⟩
    · cases hmw : o.mw with
      | true => exact absurd (r5 hl.2 hno (Or.inl (Or.inl hmw))) hp
      | false => rfl
    · cases huh : o.uh with
      | true => exact absurd (r5 hl.2 hno (Or.inl (Or.inr huh))) hp
      | false => rfl
    · intro hc; exact absurd (r5 hl.2 hno (Or.inr hc)) hp
  | secondInitAccepted =>
    intro j m o hat hside hn hi
    obtain ⟨mon, hmon, _, _, _, _, _, r6, _⟩ := c6 hat hside
    exact r6 hn ((isSome_initSeen hmon).2 hi)
  | secondInitState =>
    intro j m o hat hside hn hi
    obtain ⟨mon, hmon, _, _, _, _, _, _, r7, _⟩ := c6 hat hside
    unfold Unchanged; rw [← hmon.prev]
    exact r7 hn ((isSome_initSeen hmon).2 hi)
  | rejectedInitState =>
    intro j m o hat hside hn hw
    obtain ⟨mon, hmon, _, _, _, _, _, _, _, r8, _⟩ := c6 hat hside
    unfold Unchanged; rw [← hmon.prev]
    exact r8 hn hw
  | initializedAccepted =>
    intro j m o hat hside hn hpre
    obtain ⟨mon, hmon, _, _, _, _, _, _, _, _, r9, _⟩ := c6 hat hside
    unfold Unchanged; rw [← hmon.prev]
    apply r9 hn
    rcases hpre with h | h
    · exact Or.inl ((initSeen_iff hmon).2 h)
    · exact Or.inr (by rw [hmon.prev]; exact h)
  | pingNotServed =>
    intro j m o hat hl hn hid h1 h2
    obtain ⟨mon, hmon, _, _, _, _, _, _, _, _, _, r10, _⟩ := c6 hat hl.1
    exact r10 hn hl.2 hid h1 h2
  | incompleteMeta =>
    intro j m o hat hnw hmc
    obtain ⟨mon, hmon, _, _, _, _, _, _, _, _, _, _, r11, _⟩ := c6 hat hnw.1
    obtain ⟨⟨⟨a, b⟩, c⟩, d⟩ := r11 hnw.2 hmc
    exact ⟨a, b, by unfold Unchanged; rw [← hmon.prev]; exact c, d⟩
  | f34NotRefused =>
    intro j m o hat hnw hmc hd hsup hnt
    obtain ⟨mon, hmon, _, _, _, _, _, _, _, _, _, _, _, r12, _⟩ := c6 hat hnw.1
    rw [hmon.htv] at r12
    obtain ⟨⟨⟨a, b⟩, c⟩, d⟩ := r12 hnw.2 hmc hd hsup hnt
    exact ⟨a, b, by unfold Unchanged; rw [← hmon.prev]; exact c, d⟩
  | f34SdkList | unsupportedVersion =>
    intro j m o hat hnw hmc hacc
    obtain ⟨mon, hmon, _, _, _, _, _, _, _, _, _, _, _, _, _, r14, _⟩ := c6 hat hnw.1
    rw [hmon.htv] at r14
    obtain ⟨⟨a, c⟩, d⟩ := r14 hnw.2 hmc hacc
    exact ⟨a, by unfold Unchanged; rw [← hmon.prev]; exact c, d⟩
  | removedMethod =>
    intro j m o hat hnw hmc hacc hr
    obtain ⟨mon, hmon, _, _, _, _, _, _, _, _, _, _, _, _, _, _, r15, _⟩ := c6 hat hnw.1
    rw [hmon.htv] at r15
    exact r15 hnw.2 hmc hacc hr
  | discoverLegacy =>
    intro j m o hat hl hn
    obtain ⟨mon, hmon, _, _, _, _, _, _, _, _, _, _, _, _, _, _, _, r16, _⟩ := c6 hat hl.1
    exact r16 hn hl.2
  | initializedTwice =>
    intro j m o hat hside hn hran
    obtain ⟨mon, hmon, _, _, _, _, _, _, _, _, _, _, _, _, _, _, _, _, r17⟩ := c6 hat hside
    exact r17 hn (hmon.ran.2 hran)
  | f16 want | f17 want | codeWrong want =>
    intro j m o hat w hr
    exact (silent_at hs hat).code w (rule_specWire hr)

end Gate
