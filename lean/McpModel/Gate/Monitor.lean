import McpModel.Gate.Model
/-!
E3 — the typed core of the C06 / C02 monitors of the `envelopes` stream.

The driver (Driver.lean) parses an envelope record into a `Msg` (side, method NAME as sent, the request
descriptor, the member mutations) and the implementation's observation into an `Obs` (what went over
the wire in answer `W`, whether a receiving middleware / a user handler ran, the session state `St` the
implementation reports), calls `monitor`, and renders the `Clause`.  The monitors are written from the
property text — codes as literal numbers, the lifecycle methods named explicitly BY NAME — and read the
session state from the implementation's own observations; they consult neither `admitReq` nor the
model's state.  `Mon` is what they remember of a case: the previous observed session state, whether
an `initialize` was ANSWERED WITH A RESULT or a request carried valid per-request metadata (`opened`,
from the wire), the versions the case's transport serves (an input: the `tr` record), and whether a
crash was already reported.  The string layer — token parser, renderer, clause texts — stays in
Driver.lean.  Core Lean only (linked into the driver).
-/
namespace Gate
open Generated.Gate

inductive Side | server | client
deriving DecidableEq, Repr

structure Msg where
  side : Side
  mname : String            -- the method name as written in the envelope
  req : Req
  muts : List String        -- member mutations applied to the params (`path:absent|null|wrong`)
  deriving Repr

/-- The method a name stands for (`none`: a name in neither method table). -/
def methodOfName (n : String) : Option Method := Method.all.find? (fun m => m.name == n)

/-- What went over the wire in answer to the envelope. -/
inductive W
  | none                                  -- nothing
  | ok                                    -- one response with a result
  | err (code : Int) (data : Option (List String))   -- one error response; `data`: the versions a -32022 carries
  | multi (n : String)                    -- more than one response
  | stray (n : String)                    -- a response bearing another id
  | malformed                             -- a response with neither result nor error
  | other                                 -- unreadable
deriving DecidableEq, Repr

/-- `ServerSessionState` as the implementation reports it after the envelope. -/
structure St where
  init : Option String := none   -- InitializeParams: `<client name>@<version>` (hex), or nil
  initd : Bool := false          -- InitializedParams != nil
  level : String := ""           -- LogLevel (hex)
deriving DecidableEq, Repr

structure MObs where
  w : W
  mw : Bool      -- a receiving middleware / method handler ran
  uh : Bool      -- a user-level handler ran
  st : St
deriving DecidableEq, Repr

inductive Obs
  | panic              -- the process crashed while handling the envelope
  | stuck              -- the implementation stopped reading
  | seen (o : MObs)
  | unreadable
deriving DecidableEq, Repr

structure Mon where
  prevSt : St := {}               -- the implementation's session state after the previous envelope
  dead : Bool := false            -- a crash / teardown was already reported in this case
  /-- an earlier envelope of the case was an `initialize` ANSWERED WITH A RESULT, or carried complete
  per-request metadata naming a supported version: only then may feature traffic be served. Kept from
  what went over the wire, independently of what the implementation's session state claims. -/
  opened : Bool := false
  /-- the versions the case's transport serves: `filterSupportedVersions` of the predicate named by the
  `tr` record (an INPUT of the case; a case without `tr` record runs on a transport that serves all) -/
  tv : List String := supportedProtocolVersions
  /-- the `InitializedHandler` ran for an earlier `notifications/initialized` of the case: the monitor's own
  evidence (from the invocation counter, the property's `observe_at`) that the notification was accepted
  once, independent of the `InitializedParams` the implementation's session state claims -/
  initdRan : Bool := false

inductive Clause
  -- C02: one answer per call, none per notification
  | dropped | multi | stray | notifAnswered | malformed
  -- C02: crashes
  | f12 | f13Elicit | f13ElicitComplete | f13Sampling | crash | tornDown | unreadable
  -- C06
  | f4Served | servedBeforeInit | f4Passed | stateBeforeInit | servedUnopened
  | secondInitAccepted | secondInitState | rejectedInitState | initializedAccepted | pingNotServed
  | incompleteMeta | f34NotRefused | f34SdkList | unsupportedVersion | removedMethod | discoverLegacy
  | initializedTwice
  -- C02: the code mapping
  | f16 (want : W) | f17 (want : W) | codeWrong (want : W)
deriving DecidableEq, Repr

inductive PID | C02 | C06
deriving DecidableEq, Repr

def Clause.pid : Clause → PID
  | .f4Served | .servedBeforeInit | .f4Passed | .stateBeforeInit | .servedUnopened
  | .secondInitAccepted | .secondInitState | .rejectedInitState | .initializedAccepted | .pingNotServed
  | .incompleteMeta | .f34NotRefused | .f34SdkList | .unsupportedVersion | .removedMethod | .discoverLegacy
  | .initializedTwice => .C06
  | _ => .C02

def removedNames : List String :=
  ["initialize", "ping", "notifications/initialized", "notifications/roots/list_changed", "logging/setLevel",
   "resources/subscribe", "resources/unsubscribe"]

def preInitAllowed : List String := ["initialize", "notifications/initialized", "ping", "notifications/cancelled"]
def f4Methods : List String := ["logging/setLevel", "resources/subscribe", "resources/unsubscribe", "notifications/roots/list_changed"]

/-- Known crash shapes (DESIGN §6): the clause names the defect when the envelope has exactly that shape. -/
def crashClause (m : Msg) : Clause :=
  let null (p : String) := m.muts.contains (p ++ ":null") || m.muts.contains (p ++ ":absent")
  if m.side == .server && m.mname == "tools/call" && m.muts.contains "arguments:null" then .f12
  else if m.side == .client && m.mname == "elicitation/create" && (m.req.params == .absent || m.req.params == .null) then .f13Elicit
  else if m.side == .client && m.mname == "notifications/elicitation/complete" && (m.req.params == .absent || m.req.params == .null) then
    .f13ElicitComplete
  else if m.side == .client && m.mname == "sampling/createMessage" && null "messages.0" then .f13Sampling
  else .crash

/-- The version named by `_meta` is one the request may name: one the session's TRANSPORT serves (F34
repair); the server/discover probe only has to name one the SDK knows. -/
def acceptedBy (tv : List String) (m : Msg) : Bool :=
  if m.mname == "server/discover" then supportedProtocolVersions.contains (metaVersion m.req)
  else tv.contains (metaVersion m.req)

/-- The request is sent to the server under the 2026-07-28 protocol. -/
def Msg.new (m : Msg) : Bool := m.side == .server && usesNew m.req

/-- The flags of the method in the receiving side's method table (`none`: unknown there). -/
def flagsOf (m : Msg) : Option Flags :=
  m.req.method.bind (lookup (if m.side == .server then serverMethodInfos else clientMethodInfos))

/-- What a refusal with code `c` looks like on the wire: an error response for a call, nothing for a
notification. -/
def refusal (m : Msg) (c : Int) (data : Option (List String)) : W := if m.req.hasId then .err c data else .none

/-- The method / id / params checks (once the envelope is past metadata, version and gate). -/
def specTail (m : Msg) : Option W :=
  let r := m.req
  match flagsOf m with
  | none => some (refusal m (-32601) none)
  | some f =>
    if f.notification && r.hasId then some (refusal m (-32600) none)
    else if !f.notification && !r.hasId then some .none
    else if !f.missingParamsOK && (r.params == .absent || r.params == .null) then some (refusal m (-32600) none)
    else if r.params == .objUndecodable || r.params == .wrongType then some (refusal m (-32602) none)
    else if !r.hasId then some .none
    else none

/-- The property's answer for an envelope, given only the implementation's own previous session
state. `none` = any single answer (the handler decides). Precedence as documented in Props.lean:
per-request metadata, then version, then the lifecycle gate, then method / id / params checks. -/
def specWire (tv : List String) (prevInit : Bool) (m : Msg) : Option W :=
  let r := m.req
  if preemptDrops r then some .none
  else if m.new && !metaComplete r then some (refusal m (-32602) none)
  else if m.new && !acceptedBy tv m then some (refusal m (-32022) (some tv))
  else if m.new && removedNames.contains m.mname then some (refusal m (-32601) none)
  else if m.side == .server && !m.new && m.mname == "server/discover" then some (refusal m (-32601) none)
  else if m.side == .server && !m.new && !prevInit && !(["initialize", "notifications/initialized", "ping"].contains m.mname) then
    some (refusal m 0 none)
  else specTail m

/-- The first rule of a list whose condition holds. -/
def firstRule (l : List (Bool × Clause)) : Option Clause :=
  l.findSome? (fun p => if p.1 then some p.2 else none)

/-- C02: one answer per call, none per notification. -/
def c02ShapeRules (m : Msg) (o : MObs) : List (Bool × Clause) :=
  [ (m.req.hasId && o.w == .none, .dropped),
    ((match o.w with | .multi _ => true | _ => false), .multi),
    ((match o.w with | .stray _ => true | _ => false), .stray),
    (!m.req.hasId && o.w != .none, .notifAnswered),
    (o.w == .malformed, .malformed) ]

def c02Shape (m : Msg) (o : MObs) : Option Clause := firstRule (c02ShapeRules m o)

/-- C06 (server side): the rules, in the order they are tried. -/
def c06Rules (mon : Mon) (m : Msg) (o : MObs) : List (Bool × Clause) :=
  let r := m.req
  let prevInit := mon.prevSt.init.isSome
  let new := m.new
  let ran := o.mw || o.uh
  let changed := o.st != mon.prevSt
  [ (!new && !prevInit && ran && !preInitAllowed.contains m.mname && f4Methods.contains m.mname, .f4Served),
    (!new && !prevInit && ran && !preInitAllowed.contains m.mname, .servedBeforeInit),
    (!new && !prevInit && f4Methods.contains m.mname && r.hasId && o.w != .err 0 none, .f4Passed),
    (!new && !prevInit && changed && m.mname != "initialize", .stateBeforeInit),
    (!new && !mon.opened && (ran || (r.hasId && o.w == .ok)) && !preInitAllowed.contains m.mname, .servedUnopened),
    (m.mname == "initialize" && prevInit && o.w == .ok, .secondInitAccepted),
    (m.mname == "initialize" && prevInit && changed, .secondInitState),
    (m.mname == "initialize" && o.w != .ok && changed, .rejectedInitState),
    (m.mname == "notifications/initialized" && (!prevInit || mon.prevSt.initd) && (o.uh || changed), .initializedAccepted),
    (m.mname == "ping" && !new && r.hasId && (r.params != .objUndecodable && r.params != .wrongType) && o.w != .ok, .pingNotServed),
    (new && !metaComplete r && (ran || changed || (r.hasId && o.w != .err (-32602) none)), .incompleteMeta),
    (new && metaComplete r && m.mname != "server/discover" && supportedProtocolVersions.contains (metaVersion r) &&
      !mon.tv.contains (metaVersion r) && (ran || changed || (r.hasId && o.w != .err (-32022) (some mon.tv))), .f34NotRefused),
    (new && metaComplete r && !acceptedBy mon.tv m && !o.mw && !o.uh && !changed && r.hasId &&
      o.w == .err (-32022) (some supportedProtocolVersions) && o.w != .err (-32022) (some mon.tv), .f34SdkList),
    (new && metaComplete r && !acceptedBy mon.tv m && (o.mw || changed || (r.hasId && o.w != .err (-32022) (some mon.tv))),
      .unsupportedVersion),
    (new && metaComplete r && acceptedBy mon.tv m && removedNames.contains m.mname && (o.mw || (r.hasId && o.w != .err (-32601) none)),
      .removedMethod),
    (m.mname == "server/discover" && !new && (o.mw || (r.hasId && o.w != .err (-32601) none)), .discoverLegacy),
    (m.mname == "notifications/initialized" && mon.initdRan && o.uh, .initializedTwice) ]

def c06 (mon : Mon) (m : Msg) (o : MObs) : Option Clause :=
  if m.side != .server then none else firstRule (c06Rules mon m o)

/-- C02: the code mapping. -/
def c02Code (mon : Mon) (m : Msg) (o : MObs) : Option Clause :=
  let r := m.req
  match specWire mon.tv mon.prevSt.init.isSome m with
  | none => none
  | some want =>
    if o.w == want then none
    else if m.mname == "initialize" && (r.params == .null || r.params == .objUndecodable || r.params == .wrongType) && o.w == .err 0 none then
      some (.f16 want)
    else if m.mname == "notifications/cancelled" && r.hasId then some (.f17 want)
    else some (.codeWrong want)

/-- **The C06 / C02 monitor of one envelope.** -/
def monitor (mon : Mon) (m : Msg) (obs : Obs) : Option Clause :=
  if mon.dead then none
  else match obs with
    | .panic => some (crashClause m)
    | .stuck => some .tornDown
    | .unreadable => some .unreadable
    | .seen o => (c02Shape m o).orElse fun _ => (c06 mon m o).orElse fun _ => c02Code mon m o

/-- What the monitor remembers after the envelope. -/
def monNext (mon : Mon) (m : Msg) : Obs → Mon
  | .seen o =>
    let validMeta := m.new && metaComplete m.req && acceptedBy mon.tv m
    let accepted := m.side == .server && m.mname == "initialize" && o.w == .ok
    let ran := m.side == .server && m.mname == "notifications/initialized" && o.uh
    { mon with prevSt := o.st, opened := mon.opened || validMeta || accepted, initdRan := mon.initdRan || ran }
  | _ => { mon with dead := true }

/-- A case: its transport's versions, then its envelopes with the observations. -/
def monStart (tv : List String) : Mon := { tv := tv }

def runFrom : Mon → Nat → List (Msg × Obs) → Option (Nat × Clause)
  | _, _, [] => none
  | mon, i, (m, o) :: tr =>
    match monitor mon m o with
    | some cl => some (i, cl)
    | none => runFrom (monNext mon m o) (i + 1) tr

def runMon (tv : List String) (tr : List (Msg × Obs)) : Option (Nat × Clause) := runFrom (monStart tv) 0 tr

def monAfter : Mon → List (Msg × Obs) → Mon
  | mon, [] => mon
  | mon, (m, o) :: tr => monAfter (monNext mon m o) tr

end Gate
