/-
Line protocol shared by every engine driver (DESIGN.md Appendix C).

A harness line is   <case>\t<op tokens, blank separated>\t<implementation observation>[\t<tags>]
The driver answers  <case>\tA                      model and implementation agree, monitor holds
                    <case>\tD\t<model observation>  they differ
with "\tV\t<clause>" appended when the property monitor rejects the implementation's observation.
Core Lean only: this file is linked into the driver executables.
-/
namespace Proto

def hexDigit (n : Nat) : Char :=
  if n < 10 then Char.ofNat (48 + n) else Char.ofNat (87 + n)

def hexVal (c : Char) : Option Nat :=
  if '0' ≤ c ∧ c ≤ '9' then some (c.toNat - 48)
  else if 'a' ≤ c ∧ c ≤ 'f' then some (c.toNat - 87)
  else if 'A' ≤ c ∧ c ≤ 'F' then some (c.toNat - 55)
  else none

/-- Decode a hex string into bytes; `none` on odd length or a non-hex digit. -/
def hexToBytes (s : String) : Option (List UInt8) :=
  let rec go : List Char → List UInt8 → Option (List UInt8)
    | [], acc => some acc.reverse
    | [_], _ => none
    | a :: b :: rest, acc =>
      match hexVal a, hexVal b with
      | some x, some y => go rest (UInt8.ofNat (x * 16 + y) :: acc)
      | _, _ => none
  go s.toList []

def bytesToHex (bs : List UInt8) : String :=
  String.ofList (bs.flatMap fun b => [hexDigit (b.toNat / 16), hexDigit (b.toNat % 16)])

/-- Hex-encoded UTF-8 string token → String (invalid UTF-8 ↦ none). -/
def hexToString (s : String) : Option String := do
  let bs ← hexToBytes s
  String.fromUTF8? (ByteArray.mk bs.toArray)

def stringToHex (s : String) : String := bytesToHex s.toUTF8.toList

def words (s : String) : List String := (s.splitOn " ").filter (· ≠ "")

def parseInt? (s : String) : Option Int := s.toInt?

structure Verdict where
  model : String
  violated : Option String := none

/-- An engine: a state, and a step consuming the op tokens and the implementation's observation. -/
structure Engine (σ : Type) where
  init : σ
  step : σ → List String → String → σ × Verdict

def stripNL (s : String) : String :=
  let s := if s.endsWith "\n" then (s.dropEnd 1).toString else s
  if s.endsWith "\r" then (s.dropEnd 1).toString else s

partial def loop {σ : Type} (e : Engine σ) (h : IO.FS.Stream) (out : IO.FS.Stream) (s : σ) : IO Unit := do
  let line ← h.getLine
  if line.isEmpty then return ()
  let line := stripNL line
  match line.splitOn "\t" with
  | case :: ops :: impl :: _ =>
    -- the harness's hang watchdog (zz_verif_common_test.go, verifWatch): no record for its real-time limit
    -- while a goroutine of the bubble is blocked, not durably, in SDK code.  No model has such a behaviour
    -- (every operation of a model is one total step), so the record is a divergence and a violation.
    if (words ops).head? == some "verif-hang" then
      out.putStrLn s!"{case}\tD\tquiescent\tV\tthe implementation hung: after the operations of this record no goroutine could run and virtual time could not advance, because a goroutine is blocked in SDK code on a lock or channel that nothing will release ({impl})"
      loop e h out s
    else
    let (s', v) := e.step s (words ops) impl
    let base := if v.model == impl then s!"{case}\tA" else s!"{case}\tD\t{v.model}"
    let full := match v.violated with
      | some c => s!"{base}\tV\t{c}"
      | none => base
    out.putStrLn full
    loop e h out s'
  | _ =>
    out.putStrLn s!"?\tD\tbad-line"
    loop e h out s

def run {σ : Type} (e : Engine σ) : IO Unit := do
  let stdin ← IO.getStdin
  let stdout ← IO.getStdout
  loop e stdin stdout e.init
  stdout.flush

end Proto
