import McpModel.Negotiate.Sound
/-!
# C07: the server's transport STACK, reconnecting clients, and a `Server.Connect` that is still running (E4)

* `stack_eq_transport` / `advertisedStack_eq`: what `filterSupportedVersions` reads off a stack of
  wrappers (the SDK's `LoggingTransport`, a forwarding user wrapper, in either order) around a built-in
  transport is exactly what the stack can serve — for EVERY setup and version string.  It needs
  `loggingTransportForwards` (regenerated: `*LoggingTransport` has the delegating method, F46 repair);
  `unforwarding_logging_leaks` is the defect's shape when it does not.
* `monitorW_none_iff`, `sound_hiddenFilter`, `monitorW_accepts_model`: the driver's monitor fires exactly
  when `monitor` does, and its extra clause refutes "supported by the transport" at a cell whose stack
  has a `LoggingTransport`.
* `reconnect_same_options`: a caller reusing ONE `ClientSessionOptions` value for any number of
  connections gets, each time, the outcome of a first connection (Client.Connect reads the value and
  never writes through the pointer: facts `negotiate.client_opts`).
* `Race`: `Server.Connect` as labelled atomic sections next to the session's read loop.
-/
namespace Negotiate
open Generated.Negotiate

theorem pvs_kind (k : TKind) (v : String) : (kindPvs k).supports v = kindSupports k v := by
  cases k <;> rfl

/-- A forwarding `LoggingTransport` is transparent. -/
theorem loggingPvs_supports (p : Pvs) (v : String) : (loggingPvs p).supports v = p.supports v := by
  simp [loggingPvs, loggingPvsWith, loggingTransportForwards, Pvs.supports]

/-- **stack_eq_transport.** For every transport kind, every advertised subset, every position of a
`LoggingTransport` in the stack and every version string: what `Server.Connect` reads off the stack is
what the stack can really serve. -/
theorem stack_eq_transport (S : Setup) (v : String) : stackSupports S v = transportSupports S v := by
  have hs : ∀ (f : String → Bool), Pvs.supports (some f) v = f v := fun _ => rfl
  obtain ⟨k, sub, j, st, lg⟩ := S
  cases lg <;> cases sub <;>
    simp [stackSupports, stackPvs, transportSupports, maskPvs, hs, loggingPvs_supports, pvs_kind]

theorem advertisedStack_eq (S : Setup) : advertisedStack S = advertised S := by
  unfold advertisedStack advertised
  congr 1
  funext v
  exact stack_eq_transport S v

/-- The logging position never changes the outcome of connecting. -/
theorem logging_transparent (wireOK : String → Bool) (req : Option String) (S : Setup) (lg : LogPos) :
    connect wireOK req { S with logging := lg } = connect wireOK req S := rfl

/-- F46's shape: a `LoggingTransport` WITHOUT the method makes the SSE transport look as if it served
2026-07-28 (and a stateful streamable one likewise), which it cannot. -/
theorem unforwarding_logging_leaks :
    (loggingPvsWith false (kindPvs .sse)).supports modern = true ∧ kindSupports .sse modern = false ∧
    (loggingPvsWith false (kindPvs .stateful)).supports modern = true ∧ kindSupports .stateful modern = false := by
  decide

/-! ### the driver's monitor -/

theorem monitorW_none_iff (req : Option String) (S : Setup) (o : Obs) :
    monitorW req S o = none ↔ monitor req S o = none := by
  unfold monitorW
  cases monitor req S o with
  | none => simp
  | some c => simp; split <;> simp

/-- `monitorW` reports nothing on the model's outcome of every cell. -/
theorem monitorW_accepts_model (wireOK : String → Bool) (hw : ∀ v ∈ supportedProtocolVersions, wireOK v = true)
    (req : Option String) (S : Setup) : monitorW req S (obsOf (connect wireOK req S)) = none :=
  (monitorW_none_iff _ _ _).2 (monitor_accepts_model wireOK hw req S)

theorem monitorW_base {req : Option String} {S : Setup} {o : Obs} {c : Clause}
    (h : monitorW req S o = some (.base c)) : monitor req S o = some c := by
  unfold monitorW at h
  cases hm : monitor req S o with
  | none => rw [hm] at h; cases h
  | some c' =>
    rw [hm] at h
    simp only at h
    split at h
    · cases h
    · cases h; rfl

/-- **sound_hiddenFilter.** When the driver's monitor reports F46's clause for a cell, the
implementation connected at a version that cell's transport cannot serve, and a `LoggingTransport`
is part of its stack. -/
theorem sound_hiddenFilter {req : Option String} {S : Setup} {o : Obs} (h : monitorW req S o = some .hiddenFilter) :
    S.logging ≠ .none ∧ ∃ v l k, o = .ok v l k ∧ transportSupports S v = false := by
  unfold monitorW at h
  cases hm : monitor req S o with
  | none => rw [hm] at h; cases h
  | some c =>
    rw [hm] at h
    simp only at h
    split at h
    · rename_i hc
      simp only [Bool.and_eq_true, Bool.or_eq_true, beq_iff_eq, bne_iff_ne, ne_eq] at hc
      refine ⟨hc.2, ?_⟩
      rcases monitor_some hm with ⟨_, e⟩ | ⟨_, e⟩ | ⟨v, l, k, ho, ⟨_, e⟩ | ⟨h2, _⟩ | ⟨_, _, e⟩ | ⟨_, _, e⟩ | ⟨_, e⟩⟩ | ⟨_, ⟨_, e⟩ | ⟨_, e⟩⟩
      all_goals first
        | exact ⟨v, l, k, ho, h2⟩
        | (subst e; rcases hc.1 with h' | h' <;> cases h')
    · cases h

/-- As a statement about traces: the clause refutes "supported by the transport". -/
theorem sound_hiddenFilter_trace (tr : Trace) (c : Cell) (hc : c ∈ tr)
    (h : monitorW c.req c.S c.obs = some .hiddenFilter) : ¬ P_negotiated_supported_by_transport tr := by
  intro hP
  obtain ⟨_, v, l, k, ho, hf⟩ := sound_hiddenFilter h
  rw [hP c hc v l k ho] at hf
  cases hf

example : monitorW none { kind := .sse, subset := none, logging := .outer } (.ok "2026-07-28" false false) = some .hiddenFilter := by decide
example : monitorW none { kind := .sse, subset := none } (.ok "2026-07-28" false false) = some (.base .notTransport) := by decide

/-! ### one options value, several connections -/

/-- `Client.Connect(ctx, t, opts)` as far as the caller's options value goes: it is read, and handed
back unchanged. -/
def connectWith (wireOK : String → Bool) (opts : Option String) (S : Setup) : Option String × Outcome :=
  (opts, connect wireOK opts S)

/-- Reconnecting with the value the previous Connect left behind. -/
def reconnects (wire : TKind → String → Bool) : Option String → List Setup → List Outcome
  | _, [] => []
  | opts, S :: rest => (connectWith (wire S.kind) opts S).2 :: reconnects wire (connectWith (wire S.kind) opts S).1 rest

/-- **reconnect_same_options.** However many connections a caller makes with ONE options value, over
whatever transports and with whatever outcomes before, each is negotiated as a first connection with
that value. -/
theorem reconnect_same_options (wire : TKind → String → Bool) (opts : Option String) (l : List Setup) :
    reconnects wire opts l = l.map (fun S => connect (wire S.kind) opts S) := by
  induction l with
  | nil => rfl
  | cons S rest ih => simp [reconnects, connectWith, ih]

/-- So a fallback on the first connection does not cost the second its requested version. -/
example : reconnects (fun _ _ => true) (some "") [{ kind := .sse, subset := none }, { kind := .mem, subset := none }] =
    [.negotiated "2025-11-25", .negotiated "2026-07-28"] := by decide

/-! ### `Server.Connect` still running while the client's first request arrives

`connect()` binds the session and starts its read loop; only then does `Server.Connect` take `ss.mu`,
compute `filterSupportedVersions(t)` INSIDE the critical section and publish `ss.supportedVersions`.
A `server/discover` handled before the publication finds `nil` and advertises every SDK version.
`step false` is the order in the code: the user's `SupportsProtocolVersion` runs under the lock the
handler needs, so a slow wrapper cannot widen the window (harness mode `w`), and no statement lies
between `connect()` returning and `ss.mu.Lock()` (fact `negotiate.connect_window`; harness mode `g`, a
slow log sink, exhibits a log call put there).  What remains is the handful of instructions between the
start of the read loop and the lock: `late_publication_leaks` is that schedule in the model — a TRUSTED
ASSUMPTION of C07 that it does not occur (it needs the read loop to read, decode and dispatch a request
within those instructions).  `discover_reads_filter` is the guarantee the other order (`step true`:
publish in `bind`, before the loop starts) would give without any assumption. -/
namespace Race

inductive Label | bind | publish | startLoop | discover
deriving DecidableEq, Repr

structure St where
  bound : Bool := false
  published : Bool := false
  looping : Bool := false
  /-- the lists `Server.discover` answered with, newest first -/
  answered : List (List String) := []

/-- One atomic section. `publishFirst`: publication precedes the start of the read loop. -/
def step (publishFirst : Bool) (S : Setup) (σ : St) : Label → Option St
  | .bind => if σ.bound then none else some { σ with bound := true }
  | .publish =>
    if σ.bound && !σ.published && (publishFirst || σ.looping) then some { σ with published := true } else none
  | .startLoop =>
    if σ.bound && !σ.looping && (!publishFirst || σ.published) then some { σ with looping := true } else none
  | .discover =>
    if σ.looping then
      some { σ with answered := (if σ.published then advertised S else supportedProtocolVersions) :: σ.answered }
    else none

def run (publishFirst : Bool) (S : Setup) : St → List Label → Option St
  | σ, [] => some σ
  | σ, l :: ls => match step publishFirst S σ l with
    | none => none
    | some σ' => run publishFirst S σ' ls

def Inv (S : Setup) (σ : St) : Prop := (σ.looping = true → σ.published = true) ∧ ∀ a ∈ σ.answered, a = advertised S

theorem step_inv (S : Setup) (σ σ' : St) (l : Label) (hi : Inv S σ) (h : step true S σ l = some σ') : Inv S σ' := by
  obtain ⟨h1, h2⟩ := hi
  cases l <;> simp only [step] at h
  · split at h
    · cases h
    · cases h; exact ⟨h1, h2⟩
  · split at h
    · cases h; exact ⟨fun _ => rfl, h2⟩
    · cases h
  · split at h
    · rename_i hc
      cases h
      simp at hc
      exact ⟨fun _ => hc.2, h2⟩
    · cases h
  · split at h
    · rename_i hl
      cases h
      refine ⟨h1, ?_⟩
      intro a ha
      simp only [List.mem_cons] at ha
      rcases ha with rfl | ha
      · simp [h1 hl]
      · exact h2 a ha
    · cases h

/-- **discover_reads_filter.** (About the order `step true`, NOT the code's.) With the list published before the read loop starts, in EVERY
interleaving of `Server.Connect`'s sections with `server/discover` requests — however early the
client talks and however slow the user's wrapper or log sink — every answer carries exactly the
transport's version list. -/
theorem discover_reads_filter (S : Setup) : ∀ (ls : List Label) (σ σ' : St), Inv S σ → run true S σ ls = some σ' →
    ∀ a ∈ σ'.answered, a = advertised S
  | [], σ, σ', hi, h => by simp only [run, Option.some.injEq] at h; subst h; exact hi.2
  | l :: ls, σ, σ', hi, h => by
    simp only [run] at h
    cases hs : step true S σ l with
    | none => rw [hs] at h; cases h
    | some σ₁ => rw [hs] at h; exact discover_reads_filter S ls σ₁ σ' (step_inv S σ σ₁ l hi hs) h

theorem discover_reads_filter_init (S : Setup) (ls : List Label) (σ' : St) (h : run true S {} ls = some σ') :
    ∀ a ∈ σ'.answered, a = advertised S :=
  discover_reads_filter S ls {} σ' ⟨by simp, by simp⟩ h

/-- The code's order (`step false`) admits this schedule: the loop runs, the client's probe is answered, and only
then is the list published — over SSE the answer offers 2026-07-28. -/
theorem late_publication_leaks :
    ∃ σ', run false { kind := .sse, subset := none } {} [.bind, .startLoop, .discover, .publish] = some σ' ∧
      σ'.answered = [supportedProtocolVersions] ∧ supportedProtocolVersions ≠ advertised { kind := .sse, subset := none } := by
  refine ⟨_, rfl, rfl, ?_⟩
  decide

/-- non-vacuity: the repaired order admits the early probe too, and answers it with the filter -/
example : (run true { kind := .sse, subset := none } {} [.bind, .publish, .startLoop, .discover]).map (·.answered) =
    some [advertised { kind := .sse, subset := none }] := rfl

end Race
end Negotiate
