import McpModel.Base.Proto
import McpModel.Negotiate.Model
/-!
Driver for E4 (C07).  One record per cell of the configuration matrix:
`connect <default|s<hex>> <mem|pipe|sse|stateful|stateless> <none|m<bits>> <json 0/1> <store 0/1>`
with the implementation's observation `error` or `ok <negotiated hex> <list> <call>`.
The model answer is `Negotiate.connect`; the monitor is the property itself, evaluated on what the
implementation did: negotiated ∈ SDK-supported ∧ the (wrapped) transport supports it ∧ never
2026-07-28 over SSE / stateful HTTP ∧ = requested when mutually supported ∧ the session lists and
calls tools ∧ connect does not fail when the requested version is mutually supported or a legacy
version is served (fallback).  F10's shape has its own clause.
-/
namespace Negotiate
open Proto Generated.Negotiate

/-- Go's `httpguts.ValidHeaderFieldValue` plus "unchanged by header trimming". -/
def headerSafe (s : String) : Bool :=
  let bs := s.toUTF8.toList
  bs.all (fun b => (b ≥ 0x20 && b != 0x7f) || b == 0x09) &&
    (match bs.head? with | some b => b != 0x20 && b != 0x09 | none => true) &&
    (match bs.getLast? with | some b => b != 0x20 && b != 0x09 | none => true)

def wireFor (k : TKind) : String → Bool :=
  match k with
  | .mem | .pipe | .sse => fun _ => true   -- the SSE client does not send Mcp-Protocol-Version
  | _ => headerSafe

def parseKind : String → Option TKind
  | "mem" => some .mem
  | "pipe" => some .pipe
  | "sse" => some .sse
  | "stateful" => some .stateful
  | "stateless" => some .stateless
  | _ => none

def parseSubset (t : String) : Option (Option (List String)) :=
  if t == "none" then some none
  else if t.startsWith "m" then
    let bits := (t.drop 1).toString.toList
    if bits.length != supportedProtocolVersions.length then none
    else some (some ((supportedProtocolVersions.zip bits).filterMap (fun p => if p.2 == '1' then some p.1 else none)))
  else none

def parseReq (t : String) : Option (Option String) :=
  if t == "default" then some none
  else if t.startsWith "s" then (hexToString (t.drop 1).toString).map some
  else none

def showOutcome : Outcome → String
  | .error => "error"
  | .negotiated v => s!"ok {stringToHex v} ok ok"

def isLegacy (v : String) : Bool := decide (v < modern)

def monitor (req : Option String) (S : Setup) (impl : String) : Option String :=
  let pv := startVersion req
  let mutualOK := supportedProtocolVersions.contains pv && transportSupports S pv
  match words impl with
  | ["ok", vh, l, c] =>
    match hexToString vh with
    | none => some "C07: unreadable negotiated version"
    | some v =>
      if !supportedProtocolVersions.contains v then some "C07: negotiated version is not supported by the SDK"
      else if !transportSupports S v then
        if isLegacy v then some "C07: F10 initialize negotiated a legacy version that the transport does not advertise"
        else some "C07: negotiated version is not supported by the transport"
      else if (S.kind == .sse || S.kind == .stateful) && !isLegacy v then
        some "C07: 2026-07-28 negotiated over SSE or a stateful HTTP endpoint"
      else if mutualOK && v != pv then some "C07: requested version is mutually supported but a different one was negotiated"
      else if l != "ok" || c != "ok" then some "C07: connected session cannot list and call tools"
      else none
  | ["error"] =>
    if mutualOK then some "C07: connect failed although the requested version is mutually supported"
    else if (advertised S).any isLegacy then
      some "C07: no fallback to initialize: connect failed although the transport serves a legacy version"
    else none
  | _ => some "C07: connect crashed or produced no outcome"

def engine : Engine Unit where
  init := ()
  step _ toks impl :=
    match toks with
    | ["reset"] => ((), { model := "ok" })
    | ["connect", r, k, sub, j, st] =>
      match parseReq r, parseKind k, parseSubset sub with
      | some req, some kind, some subset =>
        let S : Setup := { kind := kind, subset := subset, json := j == "1", store := st == "1" }
        let out := connect (wireFor kind) req S
        ((), { model := showOutcome out, violated := monitor req S impl })
      | _, _, _ => ((), { model := "bad-op" })
    | _ => ((), { model := "bad-op" })

end Negotiate

def main : IO Unit := Proto.run Negotiate.engine
