import McpModel.Base.Proto
import McpModel.Negotiate.Monitor
/-!
Driver for E4 (C07).  One record per cell of the configuration matrix:
`connect <default|s<hex>> <mem|pipe|sse|stateful|stateless> <none|m<bits>> <json 0/1> <store 0/1>`
with the implementation's observation `error` or `ok <negotiated hex> <list> <call>`.
The model answer is `Negotiate.connect`; the monitor (`Monitor.monitor`, typed; this file keeps the
token parser and the clause texts) is the property itself, evaluated on what the implementation did: negotiated ∈ SDK-supported ∧ the (wrapped) transport supports it ∧ never
2026-07-28 over SSE / stateful HTTP ∧ = requested when mutually supported ∧ the session lists and
calls tools ∧ connect does not fail when the requested version is mutually supported or a legacy
version is served (fallback).  F10's shape has its own clause.

`step <req> <kind> <subset> <json> <store> <hold>`: the same, but all steps of a case are connections
to ONE Server value; the model's answer is history-independent (`seq_step_history_independent`), the
monitor is the same property for THIS step's transport (its clause then says how many connections
the Server had served before).

`foreign <req> <mem|http> <disc> <init>`: the SDK client against a peer that is not this SDK (see the
harness for the token grammar).  Model: `connectPeer`; monitor: `peerVerdict` (proved to accept the
model's outcome for every peer: `peerVerdict_model`) plus "the session lists and calls tools".
-/
namespace Negotiate
open Proto Generated.Negotiate

def parseKind : String → Option TKind
  | "mem" => some .mem
  | "pipe" => some .pipe
  | "sse" => some .sse
  | "stateful" => some .stateful
  | "stateless" => some .stateless
  | "statefulnoid" => some .stateful   -- stateful, the server assigns no session IDs: same negotiation
  | _ => none

def parseMask (t : String) : Option (Option (List String)) :=
  if t == "none" || t == "" then some none
  else if t.startsWith "m" then
    let bits := (t.drop 1).toString.toList
    if bits.length != supportedProtocolVersions.length then none
    else some (some ((supportedProtocolVersions.zip bits).filterMap (fun p => if p.2 == '1' then some p.1 else none)))
  else none

/-- The server's transport stack: `none | m<bits> | L | Lm<bits> | m<bits>L` (L = the SDK's LoggingTransport,
outermost / inside the user's wrapper). -/
def parseSubset (t : String) : Option (Option (List String) × LogPos) :=
  if t.startsWith "L" then (parseMask (t.drop 1).toString).map fun m => (m, .outer)
  else if t.endsWith "L" then (parseMask (t.dropEnd 1).toString).map fun m => (m, .inner)
  else (parseMask t).map fun m => (m, .none)

/-- `default` = nil options, `empty` = an options value with ProtocolVersion unset, `s<hex>` explicit. -/
def parseReq (t : String) : Option (Option String) :=
  if t == "default" then some none
  else if t == "empty" then some (some "")
  else if t.startsWith "s" then (hexToString (t.drop 1).toString).map some
  else none

def showOutcome : Outcome → String
  | .error => "error"
  | .negotiated v => s!"ok {stringToHex v} ok ok"

/-- The implementation's observation, typed: `error` or `ok <negotiated hex> <list> <call>`. -/
def parseObs (impl : String) : Obs :=
  match words impl with
  | ["ok", vh, l, c] =>
    match hexToString vh with
    | none => .garbled
    | some v => .ok v (l == "ok") (c == "ok")
  | ["error"] => .error
  | _ => .other

def clauseText : Clause → String
  | .unreadable => "C07: unreadable negotiated version"
  | .notSDK => "C07: negotiated version is not supported by the SDK"
  | .f10 => "C07: F10 initialize negotiated a legacy version that the transport does not advertise"
  | .notTransport => "C07: negotiated version is not supported by the transport"
  | .modernOnStateful => "C07: 2026-07-28 negotiated over SSE or a stateful HTTP endpoint"
  | .mutualDiff => "C07: requested version is mutually supported but a different one was negotiated"
  | .cannotUse => "C07: connected session cannot list and call tools"
  | .mutualErr => "C07: connect failed although the requested version is mutually supported"
  | .noFallback => "C07: no fallback to initialize: connect failed although the transport serves a legacy version"
  | .crashed => "C07: connect crashed or produced no outcome"

def peerClauseText : PClause → String
  | .f30 => "C07: F30 the client negotiated the requested version although this SDK does not implement it (a DiscoverResult listing it was taken at face value)"
  | .notSDK => "C07: negotiated version is not supported by the SDK (the client accepted a peer's answer naming a version it does not implement)"
  | .legacyNotInit => "C07: a legacy version was negotiated that the peer did not answer the initialize handshake with"
  | .notOffered => "C07: negotiated version was offered neither by the peer's DiscoverResult nor by its initialize answer"
  | .mutualDiff => "C07: requested version is mutually supported but a different one was negotiated"
  | .mutualErr => "C07: connect failed although the requested version is mutually supported"
  | .fallbackLegacy => "C07: connect failed although the peer answers the requested legacy initialize handshake with a supported version"
  | .fallbackUnavailable => "C07: no fallback to initialize: connect failed although discovery is unavailable and the peer answers initialize with a supported version"
  | .fallbackNoOverlap => "C07: no fallback to initialize: connect failed although discovery yields no modern overlap and the peer answers initialize with a supported version"
  | .cannotUse => "C07: connected session cannot list and call tools"
  | .unreadable => "C07: unreadable negotiated version"
  | .crashed => "C07: connect crashed or produced no outcome"

/-- `<hex>.<hex>…` or `-`. -/
def parseList (t : String) : Option (List String) :=
  if t == "-" then some [] else (t.splitOn ".").mapM hexToString

/-- The peer's answer to server/discover, as a function of the version the probe names. -/
def parseDisc (http : Bool) (t : String) : Option (String → DiscResp) :=
  let rest := (t.drop 1).toString
  let wire (f : String → DiscResp) : String → DiscResp :=
    fun v => if http && !headerValid v then .unavailable else f v
  if t.startsWith "h" then (if http then some (fun _ => .unavailable) else none)
  else if t.startsWith "e" then some (fun _ => .unavailable)
  else if t.startsWith "u" || (t.startsWith "U" && http) then
    (parseList rest).map fun l => wire fun v => if l.contains v then .result l else .unsupported l
  else if t.startsWith "r" then (parseList rest).map fun l => wire fun _ => .result l
  else if t.startsWith "n" then (parseList rest).map fun l => wire fun _ => .unsupported l
  else if t.startsWith "x" then
    match rest.splitOn ":" with
    | [a, b] =>
      match parseList a, parseList b with
      | some l, some res => some (wire fun v => if l.contains v then .result res else .unsupported l)
      | _, _ => none
    | _ => none
  else none

def parseInit (t : String) : Option (String → Option String) :=
  if t == "echo" then some (fun iv => some iv)
  else if t == "err" then some (fun _ => none)
  else if t.startsWith "a" then (hexToString (t.drop 1).toString).map fun v => fun _ => some v
  else none

def clauseTextW : ClauseW → String
  | .base c => clauseText c
  | .hiddenFilter => "C07: F46 negotiated version is not supported by the transport: a LoggingTransport in the server's transport stack hides the wrapped transport's ProtocolVersionSupporter"

def cell (r k sub j st impl : String) : Proto.Verdict :=
  match parseReq r, parseKind k, parseSubset sub with
  | some req, some kind, some (subset, lg) =>
    let S : Setup := { kind := kind, subset := subset, json := j == "1", store := st == "1", logging := lg }
    let out := connect (wireFor kind) req S
    { model := showOutcome out, violated := (monitorW req S (parseObs impl)).map clauseTextW }
  | _, _, _ => { model := "bad-op" }

/-- State: the number of connections the case's Server has served so far. -/
def engine : Engine Nat where
  init := 0
  step n toks impl :=
    match toks with
    | ["reset"] => (0, { model := "ok" })
    | ["connect", r, k, sub, j, st] => (n, cell r k sub j st impl)
    -- 7th token: Server.Connect is still running while the client connects (w: a slow user wrapper,
    -- g: a slow log sink); the outcome must not depend on it (`Race.discover_reads_filter`)
    | ["connect", r, k, sub, j, st, _mode] => (n, cell r k sub j st impl)
    | ["step", r, k, sub, j, st, _hold] =>
      match parseReq r, parseKind k, parseSubset sub with
      | some req, some kind, some (subset, lg) =>
        let S : Setup := { kind := kind, subset := subset, json := j == "1", store := st == "1", logging := lg }
        let out := ((Srv.mk []).step wireFor ⟨req, S⟩).2
        let v := ((monitorW req S (parseObs impl)).map clauseTextW).map fun cl =>
          if n == 0 then cl else s!"{cl} [connection #{n + 1} of a case that reuses ONE Server value, ONE Client and the caller's options values: the outcome must be that of a first connection over THIS connection's transport, whatever was connected before]"
        (n + 1, { model := showOutcome out, violated := v })
      | _, _, _ => (n, { model := "bad-op" })
    | ["foreign", r, carrier, d, i] =>
      let http := carrier == "http"
      if carrier != "http" && carrier != "mem" then (n, { model := "bad-op" }) else
      match parseReq r, parseDisc http d, parseInit i with
      | some req, some disc, some ini =>
        let P : Peer := { discover := disc, init := ini }
        (n, { model := showOutcome (connectPeer req P), violated := (monitorPeer req P (parseObs impl)).map peerClauseText })
      | _, _, _ => (n, { model := "bad-op" })
    | _ => (n, { model := "bad-op" })

end Negotiate

def main : IO Unit := Proto.run Negotiate.engine
