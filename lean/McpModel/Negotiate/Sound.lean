import McpModel.Negotiate.Monitor
import McpModel.Negotiate.Props
/-!
# The C07 monitors: no alarm on the model, and clause soundness (E4)

A trace is the list of cells of one run: for the SDK × SDK matrix (`Cell`: requested version,
transport setup, what the IMPLEMENTATION's `Client.Connect` did), for foreign peers (`PCell`: requested
version, the peer as the client can observe it, the observation).  Cells are independent and the
monitors stateless.

* `monitor_accepts_model`: on the model's outcome of EVERY cell (any requested string, any setup) the
  matrix monitor reports nothing — for every `wireOK` under which the SDK's own version strings travel
  (`supported_wire_ok`: true of the driver's instance); `peer_monitor_accepts_model` for every peer.
* Each clause of the property as a predicate `P_…` on traces, written from the property text with the
  regenerated version list and transport filters only (no `connect`); `sound_<clause>`: a reported
  clause refutes it; `monitor_sound`, `monitor_complete` (silence ⇒ every predicate), and the same for
  the foreign-peer monitor (`peer_monitor_sound`, `peer_monitor_complete`).

Reading of "equals the requested version whenever that version is mutually supported": when the
requested version is supported by the SDK and by the transport, connecting succeeds with exactly that
version (`P_requested_honoured_if_mutual` + `P_connects_if_mutual`; the model: `requested_honoured_if_mutual`).
-/
namespace Negotiate
open Generated.Negotiate

/-! ## The SDK × SDK matrix -/

structure Cell where
  req : Option String
  S : Setup
  obs : Obs

abbrev Trace := List Cell

/-- Run the monitor over a trace: the first cell (index) at which a clause is reported. -/
def runMonFrom : Nat → Trace → Option (Nat × Clause)
  | _, [] => none
  | i, c :: tr =>
    match monitor c.req c.S c.obs with
    | some cl => some (i, cl)
    | none => runMonFrom (i + 1) tr

def runMon (tr : Trace) : Option (Nat × Clause) := runMonFrom 0 tr

/-- "a session whose negotiated version is supported by both SDK sides". -/
def P_negotiated_supported_by_sdk (tr : Trace) : Prop :=
  ∀ c ∈ tr, ∀ v l k, c.obs = .ok v l k → v ∈ supportedProtocolVersions

/-- "… and by the transport" (the wrapper's advertised subset included). -/
def P_negotiated_supported_by_transport (tr : Trace) : Prop :=
  ∀ c ∈ tr, ∀ v l k, c.obs = .ok v l k → transportSupports c.S v = true

/-- "2026-07-28 is never negotiated over SSE or a stateful HTTP endpoint". -/
def P_modern_never_on_sse_or_stateful (tr : Trace) : Prop :=
  ∀ c ∈ tr, (c.S.kind = .sse ∨ c.S.kind = .stateful) → ∀ v l k, c.obs = .ok v l k → v < modern

/-- The requested version is supported by the SDK and by the transport. -/
def Mutual (c : Cell) : Prop :=
  startVersion c.req ∈ supportedProtocolVersions ∧ transportSupports c.S (startVersion c.req) = true

/-- "and equals the requested version whenever that version is mutually supported". -/
def P_requested_honoured_if_mutual (tr : Trace) : Prop :=
  ∀ c ∈ tr, Mutual c → ∀ v l k, c.obs = .ok v l k → v = startVersion c.req

/-- … and then connecting does not fail. -/
def P_connects_if_mutual (tr : Trace) : Prop := ∀ c ∈ tr, Mutual c → c.obs ≠ .error

/-- "The client falls back from discovery to the initialize handshake whenever discovery is
unavailable or yields no modern overlap": connecting does not fail while the transport serves a
legacy version. -/
def P_fallback_to_initialize (tr : Trace) : Prop :=
  ∀ c ∈ tr, (∃ v ∈ advertised c.S, v < modern) → c.obs ≠ .error

/-- "every successfully connected session can immediately list and call tools". -/
def P_session_usable (tr : Trace) : Prop :=
  ∀ c ∈ tr, ∀ v l k, c.obs = .ok v l k → l = true ∧ k = true

/-- "connecting either fails with an error or produces a session": nothing else. -/
def P_outcome_observed (tr : Trace) : Prop := ∀ c ∈ tr, c.obs ≠ .other ∧ c.obs ≠ .garbled

/-- The property clause a monitor clause stands for. -/
def P_of : Clause → Trace → Prop
  | .unreadable | .crashed => P_outcome_observed
  | .notSDK => P_negotiated_supported_by_sdk
  | .f10 | .notTransport => P_negotiated_supported_by_transport
  | .modernOnStateful => P_modern_never_on_sse_or_stateful
  | .mutualDiff => P_requested_honoured_if_mutual
  | .cannotUse => P_session_usable
  | .mutualErr => P_connects_if_mutual
  | .noFallback => P_fallback_to_initialize

theorem mutualOK_iff (c : Cell) : mutualOK c.req c.S = true ↔ Mutual c := by
  simp [mutualOK, Mutual]

theorem any_legacy_iff (S : Setup) : (advertised S).any isLegacy = true ↔ ∃ v ∈ advertised S, v < modern := by
  simp [isLegacy, List.any_eq_true]

/-- The monitor reports `cl` at cell `j`. -/
def FiresAt (tr : Trace) (j : Nat) (cl : Clause) : Prop :=
  ∃ c, tr[j]? = some c ∧ monitor c.req c.S c.obs = some cl

theorem runMonFrom_fires : ∀ (tr : Trace) (i j : Nat) (cl : Clause), runMonFrom i tr = some (j, cl) →
    ∃ k c, j = i + k ∧ tr[k]? = some c ∧ monitor c.req c.S c.obs = some cl
  | [], _, _, _, h => by simp [runMonFrom] at h
  | c :: tr, i, j, cl, h => by
    simp only [runMonFrom] at h
    cases hc : monitor c.req c.S c.obs with
    | some cl' =>
      rw [hc] at h
      simp only [Option.some.injEq, Prod.mk.injEq] at h
      obtain ⟨rfl, rfl⟩ := h
      exact ⟨0, c, rfl, rfl, hc⟩
    | none =>
      rw [hc] at h
      obtain ⟨k, c', rfl, h1, h2⟩ := runMonFrom_fires tr _ _ _ h
      exact ⟨k + 1, c', by omega, by simpa using h1, h2⟩

theorem runMon_fires {tr : Trace} {j : Nat} {cl : Clause} (h : runMon tr = some (j, cl)) : FiresAt tr j cl := by
  obtain ⟨k, c, rfl, h1, h2⟩ := runMonFrom_fires tr 0 j cl h
  exact ⟨c, by simpa using h1, h2⟩

theorem runMonFrom_none : ∀ (tr : Trace) (i : Nat), runMonFrom i tr = none → ∀ c ∈ tr, monitor c.req c.S c.obs = none
  | [], _, _, c, hc => by cases hc
  | c0 :: tr, i, h, c, hc => by
    simp only [runMonFrom] at h
    cases h0 : monitor c0.req c0.S c0.obs with
    | some cl => rw [h0] at h; cases h
    | none =>
      rw [h0] at h
      rcases List.mem_cons.1 hc with rfl | hc
      · exact h0
      · exact runMonFrom_none tr _ h c hc

theorem fires_mem {tr : Trace} {j : Nat} {cl : Clause} (h : FiresAt tr j cl) :
    ∃ c ∈ tr, monitor c.req c.S c.obs = some cl := by
  obtain ⟨c, hj, hm⟩ := h
  exact ⟨c, List.mem_of_getElem? hj, hm⟩

/-- What the monitor's answer says about the cell, clause by clause. -/
theorem monitor_some {req : Option String} {S : Setup} {o : Obs} {cl : Clause} (h : monitor req S o = some cl) :
    (o = .garbled ∧ cl = .unreadable) ∨ (o = .other ∧ cl = .crashed) ∨
    (∃ v l k, o = .ok v l k ∧
      ((v ∉ supportedProtocolVersions ∧ cl = .notSDK) ∨
       (transportSupports S v = false ∧ (cl = .f10 ∨ cl = .notTransport)) ∨
       ((S.kind = .sse ∨ S.kind = .stateful) ∧ ¬ v < modern ∧ cl = .modernOnStateful) ∨
       (mutualOK req S = true ∧ v ≠ startVersion req ∧ cl = .mutualDiff) ∨
       (¬ (l = true ∧ k = true) ∧ cl = .cannotUse))) ∨
    (o = .error ∧ ((mutualOK req S = true ∧ cl = .mutualErr) ∨ ((advertised S).any isLegacy = true ∧ cl = .noFallback))) := by
  cases o with
  | garbled => simp only [monitor, Option.some.injEq] at h; exact Or.inl ⟨rfl, h.symm⟩
  | other => simp only [monitor, Option.some.injEq] at h; exact Or.inr (Or.inl ⟨rfl, h.symm⟩)
  | ok v l k =>
    refine Or.inr (Or.inr (Or.inl ⟨v, l, k, rfl, ?_⟩))
    simp only [monitor] at h
    split at h
    · rename_i h1
      simp only [Option.some.injEq] at h
      exact Or.inl ⟨by simpa using h1, h.symm⟩
    · split at h
      · rename_i h2
        refine Or.inr (Or.inl ⟨by simpa using h2, ?_⟩)
        split at h <;> simp only [Option.some.injEq] at h
        · exact Or.inl h.symm
        · exact Or.inr h.symm
      · split at h
        · rename_i h3
          simp only [Option.some.injEq] at h
          simp only [Bool.and_eq_true, Bool.or_eq_true, beq_iff_eq, Bool.not_eq_true', isLegacy,
            decide_eq_false_iff_not] at h3
          exact Or.inr (Or.inr (Or.inl ⟨h3.1, h3.2, h.symm⟩))
        · split at h
          · rename_i h4
            simp only [Option.some.injEq] at h
            simp only [Bool.and_eq_true, bne_iff_ne, ne_eq] at h4
            exact Or.inr (Or.inr (Or.inr (Or.inl ⟨h4.1, h4.2, h.symm⟩)))
          · split at h
            · rename_i h5
              simp only [Option.some.injEq] at h
              refine Or.inr (Or.inr (Or.inr (Or.inr ⟨?_, h.symm⟩)))
              rintro ⟨rfl, rfl⟩
              simp at h5
            · cases h
  | error =>
    refine Or.inr (Or.inr (Or.inr ⟨rfl, ?_⟩))
    simp only [monitor] at h
    split at h
    · rename_i h1; simp only [Option.some.injEq] at h; exact Or.inl ⟨h1, h.symm⟩
    · split at h
      · rename_i h2; simp only [Option.some.injEq] at h; exact Or.inr ⟨h2, h.symm⟩
      · cases h

theorem monitor_none {req : Option String} {S : Setup} {o : Obs} (h : monitor req S o = none) :
    (∃ v, o = .ok v true true ∧ v ∈ supportedProtocolVersions ∧ transportSupports S v = true ∧
      ((S.kind = .sse ∨ S.kind = .stateful) → v < modern) ∧ (mutualOK req S = true → v = startVersion req)) ∨
    (o = .error ∧ mutualOK req S = false ∧ (advertised S).any isLegacy = false) := by
  cases o with
  | garbled => simp [monitor] at h
  | other => simp [monitor] at h
  | ok v l k =>
    left
    simp only [monitor] at h
    split at h
    · cases h
    · rename_i h1
      split at h
      · split at h <;> cases h
      · rename_i h2
        split at h
        · cases h
        · rename_i h3
          split at h
          · cases h
          · rename_i h4
            split at h
            · cases h
            · rename_i h5
              have hl : l = true ∧ k = true := by
                cases l <;> cases k <;> simp at h5 ⊢
              obtain ⟨rfl, rfl⟩ := hl
              refine ⟨v, rfl, by simpa using h1, by simpa using h2, ?_, ?_⟩
              · intro hk
                simp only [Bool.and_eq_true, Bool.or_eq_true, beq_iff_eq, Bool.not_eq_true', isLegacy,
                  decide_eq_false_iff_not, not_and, Classical.not_not] at h3
                exact h3 hk
              · intro hm
                simp only [Bool.and_eq_true, bne_iff_ne, ne_eq, not_and, Classical.not_not] at h4
                exact h4 hm
  | error =>
    right
    simp only [monitor] at h
    split at h
    · cases h
    · rename_i h1
      split at h
      · cases h
      · rename_i h2
        exact ⟨rfl, by simpa using h1, by simpa using h2⟩

/-! ### soundness, clause by clause -/

theorem sound_unreadable (tr : Trace) (j : Nat) (hf : FiresAt tr j .unreadable) : ¬ P_outcome_observed tr := by
  intro hP
  obtain ⟨c, hc, hm⟩ := fires_mem hf
  rcases monitor_some hm with ⟨h, _⟩ | ⟨_, e⟩ | ⟨_, _, _, _, ⟨_, e⟩ | ⟨_, e | e⟩ | ⟨_, _, e⟩ | ⟨_, _, e⟩ | ⟨_, e⟩⟩ | ⟨_, ⟨_, e⟩ | ⟨_, e⟩⟩ <;>
    first | exact (hP c hc).2 h | cases e

theorem sound_crashed (tr : Trace) (j : Nat) (hf : FiresAt tr j .crashed) : ¬ P_outcome_observed tr := by
  intro hP
  obtain ⟨c, hc, hm⟩ := fires_mem hf
  rcases monitor_some hm with ⟨_, e⟩ | ⟨h, _⟩ | ⟨_, _, _, _, ⟨_, e⟩ | ⟨_, e | e⟩ | ⟨_, _, e⟩ | ⟨_, _, e⟩ | ⟨_, e⟩⟩ | ⟨_, ⟨_, e⟩ | ⟨_, e⟩⟩ <;>
    first | exact (hP c hc).1 h | cases e

theorem sound_notSDK (tr : Trace) (j : Nat) (hf : FiresAt tr j .notSDK) : ¬ P_negotiated_supported_by_sdk tr := by
  intro hP
  obtain ⟨c, hc, hm⟩ := fires_mem hf
  rcases monitor_some hm with ⟨_, e⟩ | ⟨_, e⟩ | ⟨v, l, k, ho, ⟨h, _⟩ | ⟨_, e | e⟩ | ⟨_, _, e⟩ | ⟨_, _, e⟩ | ⟨_, e⟩⟩ | ⟨_, ⟨_, e⟩ | ⟨_, e⟩⟩ <;>
    first | exact h (hP c hc v l k ho) | cases e

theorem sound_f10 (tr : Trace) (j : Nat) (hf : FiresAt tr j .f10) : ¬ P_negotiated_supported_by_transport tr := by
  intro hP
  obtain ⟨c, hc, hm⟩ := fires_mem hf
  rcases monitor_some hm with ⟨_, e⟩ | ⟨_, e⟩ | ⟨v, l, k, ho, ⟨_, e⟩ | ⟨h, _⟩ | ⟨_, _, e⟩ | ⟨_, _, e⟩ | ⟨_, e⟩⟩ | ⟨_, ⟨_, e⟩ | ⟨_, e⟩⟩ <;>
    first | (rw [hP c hc v l k ho] at h; cases h) | cases e

theorem sound_notTransport (tr : Trace) (j : Nat) (hf : FiresAt tr j .notTransport) : ¬ P_negotiated_supported_by_transport tr := by
  intro hP
  obtain ⟨c, hc, hm⟩ := fires_mem hf
  rcases monitor_some hm with ⟨_, e⟩ | ⟨_, e⟩ | ⟨v, l, k, ho, ⟨_, e⟩ | ⟨h, _⟩ | ⟨_, _, e⟩ | ⟨_, _, e⟩ | ⟨_, e⟩⟩ | ⟨_, ⟨_, e⟩ | ⟨_, e⟩⟩ <;>
    first | (rw [hP c hc v l k ho] at h; cases h) | cases e

theorem sound_modernOnStateful (tr : Trace) (j : Nat) (hf : FiresAt tr j .modernOnStateful) :
    ¬ P_modern_never_on_sse_or_stateful tr := by
  intro hP
  obtain ⟨c, hc, hm⟩ := fires_mem hf
  rcases monitor_some hm with ⟨_, e⟩ | ⟨_, e⟩ | ⟨v, l, k, ho, ⟨_, e⟩ | ⟨_, e | e⟩ | ⟨hk, h, _⟩ | ⟨_, _, e⟩ | ⟨_, e⟩⟩ | ⟨_, ⟨_, e⟩ | ⟨_, e⟩⟩ <;>
    first | exact h (hP c hc hk v l k ho) | cases e

theorem sound_mutualDiff (tr : Trace) (j : Nat) (hf : FiresAt tr j .mutualDiff) : ¬ P_requested_honoured_if_mutual tr := by
  intro hP
  obtain ⟨c, hc, hm⟩ := fires_mem hf
  rcases monitor_some hm with ⟨_, e⟩ | ⟨_, e⟩ | ⟨v, l, k, ho, ⟨_, e⟩ | ⟨_, e | e⟩ | ⟨_, _, e⟩ | ⟨hmu, h, _⟩ | ⟨_, e⟩⟩ | ⟨_, ⟨_, e⟩ | ⟨_, e⟩⟩ <;>
    first | exact h (hP c hc ((mutualOK_iff c).1 hmu) v l k ho) | cases e

theorem sound_cannotUse (tr : Trace) (j : Nat) (hf : FiresAt tr j .cannotUse) : ¬ P_session_usable tr := by
  intro hP
  obtain ⟨c, hc, hm⟩ := fires_mem hf
  rcases monitor_some hm with ⟨_, e⟩ | ⟨_, e⟩ | ⟨v, l, k, ho, ⟨_, e⟩ | ⟨_, e | e⟩ | ⟨_, _, e⟩ | ⟨_, _, e⟩ | ⟨h, _⟩⟩ | ⟨_, ⟨_, e⟩ | ⟨_, e⟩⟩ <;>
    first | exact h (hP c hc v l k ho) | cases e

theorem sound_mutualErr (tr : Trace) (j : Nat) (hf : FiresAt tr j .mutualErr) : ¬ P_connects_if_mutual tr := by
  intro hP
  obtain ⟨c, hc, hm⟩ := fires_mem hf
  rcases monitor_some hm with ⟨_, e⟩ | ⟨_, e⟩ | ⟨_, _, _, _, ⟨_, e⟩ | ⟨_, e | e⟩ | ⟨_, _, e⟩ | ⟨_, _, e⟩ | ⟨_, e⟩⟩ | ⟨ho, ⟨hmu, _⟩ | ⟨_, e⟩⟩ <;>
    first | exact hP c hc ((mutualOK_iff c).1 hmu) ho | cases e

theorem sound_noFallback (tr : Trace) (j : Nat) (hf : FiresAt tr j .noFallback) : ¬ P_fallback_to_initialize tr := by
  intro hP
  obtain ⟨c, hc, hm⟩ := fires_mem hf
  rcases monitor_some hm with ⟨_, e⟩ | ⟨_, e⟩ | ⟨_, _, _, _, ⟨_, e⟩ | ⟨_, e | e⟩ | ⟨_, _, e⟩ | ⟨_, _, e⟩ | ⟨_, e⟩⟩ | ⟨ho, ⟨_, e⟩ | ⟨hl, _⟩⟩ <;>
    first | exact hP c hc ((any_legacy_iff c.S).1 hl) ho | cases e

/-- **Every reported clause contradicts the property clause it names.** -/
theorem monitor_sound (tr : Trace) (j : Nat) (cl : Clause) (h : runMon tr = some (j, cl)) : ¬ P_of cl tr := by
  have hf := runMon_fires h
  cases cl with
  | unreadable => exact sound_unreadable tr j hf
  | notSDK => exact sound_notSDK tr j hf
  | f10 => exact sound_f10 tr j hf
  | notTransport => exact sound_notTransport tr j hf
  | modernOnStateful => exact sound_modernOnStateful tr j hf
  | mutualDiff => exact sound_mutualDiff tr j hf
  | cannotUse => exact sound_cannotUse tr j hf
  | mutualErr => exact sound_mutualErr tr j hf
  | noFallback => exact sound_noFallback tr j hf
  | crashed => exact sound_crashed tr j hf

/-- **Silence means every clause of the property holds on the trace.** -/
theorem monitor_complete (tr : Trace) (h : runMon tr = none) (cl : Clause) : P_of cl tr := by
  have hall := runMonFrom_none tr 0 h
  have key : ∀ c ∈ tr, _ := fun c hc => monitor_none (hall c hc)
  cases cl with
  | unreadable | crashed =>
    intro c hc
    rcases key c hc with ⟨v, ho, _⟩ | ⟨ho, _⟩ <;> (rw [ho]; exact ⟨(by intro e; cases e), (by intro e; cases e)⟩)
  | notSDK =>
    intro c hc v l k ho
    rcases key c hc with ⟨v', ho', h1, _⟩ | ⟨ho', _⟩
    · rw [ho] at ho'; cases ho'; exact h1
    · rw [ho] at ho'; cases ho'
  | f10 | notTransport =>
    intro c hc v l k ho
    rcases key c hc with ⟨v', ho', _, h2, _⟩ | ⟨ho', _⟩
    · rw [ho] at ho'; cases ho'; exact h2
    · rw [ho] at ho'; cases ho'
  | modernOnStateful =>
    intro c hc hk v l k ho
    rcases key c hc with ⟨v', ho', _, _, h3, _⟩ | ⟨ho', _⟩
    · rw [ho] at ho'; cases ho'; exact h3 hk
    · rw [ho] at ho'; cases ho'
  | mutualDiff =>
    intro c hc hmu v l k ho
    rcases key c hc with ⟨v', ho', _, _, _, h4⟩ | ⟨ho', _⟩
    · rw [ho] at ho'; cases ho'; exact h4 ((mutualOK_iff c).2 hmu)
    · rw [ho] at ho'; cases ho'
  | cannotUse =>
    intro c hc v l k ho
    rcases key c hc with ⟨v', ho', _⟩ | ⟨ho', _⟩
    · rw [ho] at ho'; cases ho'; exact ⟨rfl, rfl⟩
    · rw [ho] at ho'; cases ho'
  | mutualErr =>
    intro c hc hmu ho
    rcases key c hc with ⟨v', ho', _⟩ | ⟨_, h1, _⟩
    · rw [ho] at ho'; cases ho'
    · rw [(mutualOK_iff c).2 hmu] at h1; cases h1
  | noFallback =>
    intro c hc hl ho
    rcases key c hc with ⟨v', ho', _⟩ | ⟨_, _, h2⟩
    · rw [ho] at ho'; cases ho'
    · rw [(any_legacy_iff c.S).2 hl] at h2; cases h2

/-! ### the monitor accepts the model -/

/-- The SDK's own version strings travel on every transport (the driver's instance of `wireOK`). -/
theorem supported_wire_ok (k : TKind) : ∀ v ∈ supportedProtocolVersions, wireFor k v = true := by
  cases k <;> decide

/-- **monitor_accepts_model.** On the model's outcome of every cell — any requested string, any
transport kind, any advertised subset — the monitor reports nothing. -/
theorem monitor_accepts_model (wireOK : String → Bool) (hw : ∀ v ∈ supportedProtocolVersions, wireOK v = true)
    (req : Option String) (S : Setup) : monitor req S (obsOf (connect wireOK req S)) = none := by
  have hreq : connect wireOK req S = connect wireOK (some (startVersion req)) S := by
    have : startVersion (some (startVersion req)) = startVersion req := by
      cases req with
      | none => decide
      | some s => simp only [startVersion]; split <;> simp_all <;> decide
    unfold connect; rw [this]
  have hmut : mutualOK req S = true → connect wireOK req S = .negotiated (startVersion req) := by
    intro hm
    simp only [mutualOK, Bool.and_eq_true] at hm
    have hs : startVersion req ∈ supportedProtocolVersions := by simpa using hm.1
    rw [hreq]
    exact requested_honoured_if_mutual wireOK _ S hs hm.2 (hw _ hs)
  cases hc : connect wireOK req S with
  | negotiated v =>
    obtain he | ⟨v', hv, h1, h2, _⟩ := negotiated_supported wireOK req S
    · rw [hc] at he; cases he
    · rw [hc] at hv; cases hv
      have h1' : supportedProtocolVersions.contains v = true := by simpa using h1
      have h3 : ((S.kind == .sse || S.kind == .stateful) && !isLegacy v) = false := by
        by_cases hk : S.kind = .sse ∨ S.kind = .stateful
        · have := modern_never_on_sse_or_stateful wireOK req S hk v hc
          simp [isLegacy, this]
        · have : (S.kind == .sse || S.kind == .stateful) = false := by
            cases hkk : S.kind <;> simp_all
          simp [this]
      have h4 : (mutualOK req S && v != startVersion req) = false := by
        cases hm : mutualOK req S with
        | false => rfl
        | true =>
          have := hmut hm
          rw [hc] at this; cases this
          simp
      simp [obsOf, monitor, h1, h2, h3, h4]
  | error =>
    have hm : mutualOK req S = false := by
      cases hm : mutualOK req S with
      | false => rfl
      | true => have := hmut hm; rw [hc] at this; cases this
    have hl : (advertised S).any isLegacy = false := by
      cases hl : (advertised S).any isLegacy with
      | false => rfl
      | true =>
        obtain ⟨v, hv, hlt⟩ := (any_legacy_iff S).1 hl
        exact absurd hlt (error_only_without_legacy wireOK req S hc v hv)
    simp [obsOf, monitor, hm, hl]

/-- The model's trace of any list of cells. -/
def modelTrace (wire : TKind → String → Bool) (cells : List (Option String × Setup)) : Trace :=
  cells.map fun c => ⟨c.1, c.2, obsOf (connect (wire c.2.kind) c.1 c.2)⟩

theorem runMon_model (wire : TKind → String → Bool) (hw : ∀ k, ∀ v ∈ supportedProtocolVersions, wire k v = true)
    (cells : List (Option String × Setup)) : runMon (modelTrace wire cells) = none := by
  suffices h : ∀ i, runMonFrom i (modelTrace wire cells) = none from h 0
  induction cells with
  | nil => intro i; rfl
  | cons c rest ih =>
    intro i
    simp only [modelTrace, List.map_cons, runMonFrom, monitor_accepts_model _ (hw c.2.kind)]
    exact ih (i + 1)

/-- **The model satisfies every clause**, in every cell of every matrix — and in every sequence of
connections to one Server value (`seq_step_history_independent`: a step's outcome is the cell's). -/
theorem model_satisfies_P (wire : TKind → String → Bool) (hw : ∀ k, ∀ v ∈ supportedProtocolVersions, wire k v = true)
    (cells : List (Option String × Setup)) (cl : Clause) : P_of cl (modelTrace wire cells) :=
  monitor_complete _ (runMon_model wire hw cells) cl

/-! ## Foreign peers -/

structure PCell where
  req : Option String
  P : Peer
  obs : Obs

abbrev PTrace := List PCell

def runPeerFrom : Nat → PTrace → Option (Nat × PClause)
  | _, [] => none
  | i, c :: tr =>
    match monitorPeer c.req c.P c.obs with
    | some cl => some (i, cl)
    | none => runPeerFrom (i + 1) tr

def runPeer (tr : PTrace) : Option (Nat × PClause) := runPeerFrom 0 tr

/-- The version the client starts from. -/
abbrev PCell.pv (c : PCell) : String := startVersion c.req

/-- The peer answers the legacy handshake the client would attempt with `v`. -/
def InitAnswers (c : PCell) (v : String) : Prop := c.P.init (legacyRequest c.req) = some v

/-- A DiscoverResult the client gets to see lists `v`: the answer to its first probe, or — after a
-32022 naming a modern mutually supported version — the answer to the second one. -/
def Offered (P : Peer) (pv v : String) : Prop :=
  (∃ vs, P.discover pv = .result vs ∧ v ∈ vs) ∨
  (∃ data vs, P.discover pv = .unsupported data ∧ negotiateMutuallySupportedVersion data ≠ "" ∧
    ¬ negotiateMutuallySupportedVersion data < modern ∧
    P.discover (negotiateMutuallySupportedVersion data) = .result vs ∧ v ∈ vs)

/-- The requested version is supported by the SDK and by the peer, on the path it travels. -/
def PeerMutual (c : PCell) : Prop :=
  c.pv ∈ supportedProtocolVersions ∧
  ((c.pv < modern ∧ c.P.init c.pv = some c.pv) ∨
   (¬ c.pv < modern ∧ ∃ vs, c.P.discover c.pv = .result vs ∧ c.pv ∈ vs))

/-- "supported by both sides": the client never settles on a version this SDK does not implement. -/
def P_peer_negotiated_supported_by_sdk (tr : PTrace) : Prop :=
  ∀ c ∈ tr, ∀ v l k, c.obs = .ok v l k → v ∈ supportedProtocolVersions

/-- A legacy version is negotiated only by the initialize handshake, as the peer answered it. -/
def P_peer_legacy_only_by_initialize (tr : PTrace) : Prop :=
  ∀ c ∈ tr, ∀ v l k, c.obs = .ok v l k → v < modern → InitAnswers c v

/-- A modern version is negotiated only if the peer offered it: in a DiscoverResult the client saw, or
in its initialize answer. -/
def P_peer_modern_only_if_offered (tr : PTrace) : Prop :=
  ∀ c ∈ tr, ∀ v l k, c.obs = .ok v l k → ¬ v < modern →
    InitAnswers c v ∨ (¬ c.pv < modern ∧ Offered c.P c.pv v)

def P_peer_requested_honoured_if_mutual (tr : PTrace) : Prop :=
  ∀ c ∈ tr, PeerMutual c → ∀ v l k, c.obs = .ok v l k → v = c.pv

def P_peer_connects_if_mutual (tr : PTrace) : Prop := ∀ c ∈ tr, PeerMutual c → c.obs ≠ .error

/-- "falls back … to the initialize handshake whenever discovery is unavailable or yields no modern
overlap": connecting does not fail while the peer answers the handshake with a supported version. -/
def P_peer_fallback_to_initialize (tr : PTrace) : Prop :=
  ∀ c ∈ tr, (∃ w, InitAnswers c w ∧ w ∈ supportedProtocolVersions) → c.obs ≠ .error

def P_peer_session_usable (tr : PTrace) : Prop :=
  ∀ c ∈ tr, ∀ v l k, c.obs = .ok v l k → l = true ∧ k = true

def P_peer_outcome_observed (tr : PTrace) : Prop := ∀ c ∈ tr, c.obs ≠ .other ∧ c.obs ≠ .garbled

def PP_of : PClause → PTrace → Prop
  | .f30 | .notSDK => P_peer_negotiated_supported_by_sdk
  | .legacyNotInit => P_peer_legacy_only_by_initialize
  | .notOffered => P_peer_modern_only_if_offered
  | .mutualDiff => P_peer_requested_honoured_if_mutual
  | .mutualErr => P_peer_connects_if_mutual
  | .fallbackLegacy | .fallbackUnavailable | .fallbackNoOverlap => P_peer_fallback_to_initialize
  | .cannotUse => P_peer_session_usable
  | .unreadable | .crashed => P_peer_outcome_observed

theorem discLists_any_iff (P : Peer) (pv v : String) :
    (discLists P pv).any (·.contains v) = true ↔ Offered P pv v := by
  unfold discLists Offered
  cases hd : P.discover pv with
  | unavailable => simp
  | result vs => simp
  | unsupported data =>
    simp only [reduceCtorEq, false_and, exists_false, false_or, DiscResp.unsupported.injEq, exists_and_left,
      exists_eq_left']
    by_cases hc : negotiateMutuallySupportedVersion data ≠ "" ∧ ¬ negotiateMutuallySupportedVersion data < modern
    · rw [if_pos hc]
      cases hd2 : P.discover (negotiateMutuallySupportedVersion data) with
      | unavailable => simp
      | unsupported d2 => simp
      | result vs => simp [hc.1, hc.2]
    · rw [if_neg hc]
      simp only [List.any_nil, Bool.false_eq_true, false_iff]
      rintro ⟨h1, h2, _⟩
      exact hc ⟨h1, h2⟩

theorem peerMutual_iff (c : PCell) : peerMutual c.req c.P = true ↔ PeerMutual c := by
  unfold peerMutual PeerMutual PCell.pv
  simp only [Bool.and_eq_true, List.contains_iff_mem]
  constructor
  · rintro ⟨h1, h2⟩
    refine ⟨h1, ?_⟩
    by_cases hlt : startVersion c.req < modern
    · rw [if_pos hlt] at h2; exact Or.inl ⟨hlt, by simpa using h2⟩
    · rw [if_neg hlt] at h2
      cases hd : c.P.discover (startVersion c.req) with
      | unavailable => rw [hd] at h2; cases h2
      | unsupported d => rw [hd] at h2; cases h2
      | result vs => rw [hd] at h2; exact Or.inr ⟨hlt, vs, rfl, by simpa using h2⟩
  · rintro ⟨h1, h2⟩
    refine ⟨h1, ?_⟩
    rcases h2 with ⟨hlt, hi⟩ | ⟨hlt, vs, hd, hv⟩
    · rw [if_pos hlt]; simp [hi]
    · rw [if_neg hlt, hd]; simpa using hv

/-- What `peerVerdict` says about a negotiated version. -/
theorem peerVerdict_negotiated {req : Option String} {P : Peer} {v : String} {cl : PClause}
    (h : peerVerdict req P (.negotiated v) = some cl) :
    (v ∉ supportedProtocolVersions ∧ (cl = .f30 ∨ cl = .notSDK)) ∨
    (v < modern ∧ P.init (legacyRequest req) ≠ some v ∧ cl = .legacyNotInit) ∨
    (¬ v < modern ∧ P.init (legacyRequest req) ≠ some v ∧
      ¬ (¬ startVersion req < modern ∧ Offered P (startVersion req) v) ∧ cl = .notOffered) ∨
    (peerMutual req P = true ∧ v ≠ startVersion req ∧ cl = .mutualDiff) := by
  simp only [peerVerdict] at h
  split at h
  · rename_i h1
    simp only [Option.some.injEq] at h
    refine Or.inl ⟨by simpa using h1, ?_⟩
    split at h
    · exact Or.inl h.symm
    · exact Or.inr h.symm
  · split at h
    · rename_i h2
      simp only [Option.some.injEq] at h
      exact Or.inr (Or.inl ⟨h2.1, h2.2, h.symm⟩)
    · split at h
      · rename_i h3
        simp only [Option.some.injEq] at h
        rw [discLists_any_iff] at h3
        exact Or.inr (Or.inr (Or.inl ⟨h3.1, h3.2.1, h3.2.2, h.symm⟩))
      · split at h
        · rename_i h4
          simp only [Option.some.injEq] at h
          exact Or.inr (Or.inr (Or.inr ⟨h4.1, h4.2, h.symm⟩))
        · cases h

theorem peerVerdict_negotiated_none {req : Option String} {P : Peer} {v : String}
    (h : peerVerdict req P (.negotiated v) = none) :
    v ∈ supportedProtocolVersions ∧ (v < modern → P.init (legacyRequest req) = some v) ∧
    (¬ v < modern → P.init (legacyRequest req) = some v ∨ (¬ startVersion req < modern ∧ Offered P (startVersion req) v)) ∧
    (peerMutual req P = true → v = startVersion req) := by
  simp only [peerVerdict] at h
  split at h
  · cases h
  · rename_i h1
    split at h
    · cases h
    · rename_i h2
      split at h
      · cases h
      · rename_i h3
        split at h
        · cases h
        · rename_i h4
          rw [discLists_any_iff] at h3
          refine ⟨by simpa using h1, ?_, ?_, ?_⟩
          · intro hlt
            exact Classical.byContradiction fun hne => h2 ⟨hlt, hne⟩
          · intro hge
            by_cases hi : P.init (legacyRequest req) = some v
            · exact Or.inl hi
            · exact Or.inr (Classical.byContradiction fun ho => h3 ⟨hge, hi, ho⟩)
          · intro hm
            exact Classical.byContradiction fun hne => h4 ⟨hm, hne⟩

theorem peerVerdict_error {req : Option String} {P : Peer} {cl : PClause} (h : peerVerdict req P .error = some cl) :
    (peerMutual req P = true ∧ cl = .mutualErr) ∨
    (∃ w, P.init (legacyRequest req) = some w ∧ w ∈ supportedProtocolVersions ∧
      (cl = .fallbackLegacy ∨ cl = .fallbackUnavailable ∨ cl = .fallbackNoOverlap)) := by
  simp only [peerVerdict] at h
  split at h
  · rename_i h1; simp only [Option.some.injEq] at h; exact Or.inl ⟨h1, h.symm⟩
  · split at h
    · rename_i w hw
      split at h
      · rename_i hs
        simp only [Option.some.injEq] at h
        refine Or.inr ⟨w, hw, by simpa using hs, ?_⟩
        rw [← h]
        unfold clFallback
        split
        · exact Or.inl rfl
        · split
          · exact Or.inr (Or.inl rfl)
          · exact Or.inr (Or.inr rfl)
      · cases h
    · cases h

theorem peerVerdict_error_none {req : Option String} {P : Peer} (h : peerVerdict req P .error = none) :
    peerMutual req P = false ∧ ∀ w, P.init (legacyRequest req) = some w → w ∉ supportedProtocolVersions := by
  simp only [peerVerdict] at h
  split at h
  · cases h
  · rename_i h1
    refine ⟨by simpa using h1, ?_⟩
    intro w hw
    rw [hw] at h
    simp only at h
    split at h
    · cases h
    · rename_i hs; simpa using hs

def PFiresAt (tr : PTrace) (j : Nat) (cl : PClause) : Prop :=
  ∃ c, tr[j]? = some c ∧ monitorPeer c.req c.P c.obs = some cl

theorem runPeerFrom_fires : ∀ (tr : PTrace) (i j : Nat) (cl : PClause), runPeerFrom i tr = some (j, cl) →
    ∃ k c, j = i + k ∧ tr[k]? = some c ∧ monitorPeer c.req c.P c.obs = some cl
  | [], _, _, _, h => by simp [runPeerFrom] at h
  | c :: tr, i, j, cl, h => by
    simp only [runPeerFrom] at h
    cases hc : monitorPeer c.req c.P c.obs with
    | some cl' =>
      rw [hc] at h
      simp only [Option.some.injEq, Prod.mk.injEq] at h
      obtain ⟨rfl, rfl⟩ := h
      exact ⟨0, c, rfl, rfl, hc⟩
    | none =>
      rw [hc] at h
      obtain ⟨k, c', rfl, h1, h2⟩ := runPeerFrom_fires tr _ _ _ h
      exact ⟨k + 1, c', by omega, by simpa using h1, h2⟩

theorem runPeerFrom_none : ∀ (tr : PTrace) (i : Nat), runPeerFrom i tr = none → ∀ c ∈ tr, monitorPeer c.req c.P c.obs = none
  | [], _, _, c, hc => by cases hc
  | c0 :: tr, i, h, c, hc => by
    simp only [runPeerFrom] at h
    cases h0 : monitorPeer c0.req c0.P c0.obs with
    | some cl => rw [h0] at h; cases h
    | none =>
      rw [h0] at h
      rcases List.mem_cons.1 hc with rfl | hc
      · exact h0
      · exact runPeerFrom_none tr _ h c hc

/-- What the foreign-peer monitor's answer says about the cell. -/
inductive PFired (c : PCell) : PClause → Prop
  | unreadable : c.obs = .garbled → PFired c .unreadable
  | crashed : c.obs = .other → PFired c .crashed
  | verdict (v : String) (l k : Bool) (cl : PClause) : c.obs = .ok v l k →
      peerVerdict c.req c.P (.negotiated v) = some cl → PFired c cl
  | cannotUse (v : String) (l k : Bool) : c.obs = .ok v l k → ¬ (l = true ∧ k = true) → PFired c .cannotUse
  | error (cl : PClause) : c.obs = .error → peerVerdict c.req c.P .error = some cl → PFired c cl

theorem monitorPeer_fired {c : PCell} {cl : PClause} (h : monitorPeer c.req c.P c.obs = some cl) : PFired c cl := by
  cases ho : c.obs with
  | garbled => rw [ho] at h; simp only [monitorPeer, Option.some.injEq] at h; subst h; exact .unreadable ho
  | other => rw [ho] at h; simp only [monitorPeer, Option.some.injEq] at h; subst h; exact .crashed ho
  | error => rw [ho] at h; exact .error cl ho h
  | ok v l k =>
    rw [ho] at h
    simp only [monitorPeer] at h
    cases hv : peerVerdict c.req c.P (.negotiated v) with
    | some cl' => rw [hv] at h; simp only [Option.some.injEq] at h; subst h; exact .verdict v l k _ ho hv
    | none =>
      rw [hv] at h
      simp only at h
      split at h
      · rename_i hlk
        simp only [Option.some.injEq] at h; subst h
        refine .cannotUse v l k ho ?_
        rintro ⟨rfl, rfl⟩; simp at hlk
      · cases h

/-- **Every clause the foreign-peer monitor reports contradicts the property clause it names.** -/
theorem peer_monitor_sound (tr : PTrace) (j : Nat) (cl : PClause) (h : runPeer tr = some (j, cl)) : ¬ PP_of cl tr := by
  obtain ⟨k, c, _, hk, hm⟩ := runPeerFrom_fires tr 0 j cl h
  have hc : c ∈ tr := List.mem_of_getElem? hk
  have hf := monitorPeer_fired hm
  intro hP
  cases hf with
  | unreadable ho => exact (hP c hc).2 ho
  | crashed ho => exact (hP c hc).1 ho
  | cannotUse v l k ho hlk => exact hlk (hP c hc v l k ho)
  | verdict v l k _ ho hv =>
    rcases peerVerdict_negotiated hv with ⟨h1, e | e⟩ | ⟨h1, h2, e⟩ | ⟨h1, h2, h3, e⟩ | ⟨h1, h2, e⟩ <;> subst e
    · exact h1 (hP c hc v l k ho)
    · exact h1 (hP c hc v l k ho)
    · exact h2 (hP c hc v l k ho h1)
    · rcases hP c hc v l k ho h1 with h | h
      · exact h2 h
      · exact h3 h
    · exact h2 (hP c hc ((peerMutual_iff c).1 h1) v l k ho)
  | error _ ho hv =>
    rcases peerVerdict_error hv with ⟨h1, e⟩ | ⟨w, h1, h2, e | e | e⟩ <;> subst e
    · exact hP c hc ((peerMutual_iff c).1 h1) ho
    · exact hP c hc ⟨w, h1, h2⟩ ho
    · exact hP c hc ⟨w, h1, h2⟩ ho
    · exact hP c hc ⟨w, h1, h2⟩ ho

/-- The per-clause statements (the clause reported at cell `j` ⇒ the predicate fails). -/
theorem sound_peer (tr : PTrace) (j : Nat) (cl : PClause) (hf : PFiresAt tr j cl) : ¬ PP_of cl tr := by
  obtain ⟨c, hj, hm⟩ := hf
  have : runPeer (tr.drop j) = some (0, cl) := by
    have hd : tr.drop j = c :: tr.drop (j + 1) := by
      have hlt : j < tr.length := by
        rcases Nat.lt_or_ge j tr.length with h | h
        · exact h
        · rw [List.getElem?_eq_none h] at hj; cases hj
      rw [List.drop_eq_getElem_cons hlt]
      congr 1
      rw [List.getElem?_eq_getElem hlt] at hj
      exact Option.some.inj hj
    rw [hd]; simp [runPeer, runPeerFrom, hm]
  have hs := peer_monitor_sound (tr.drop j) 0 cl this
  intro hP
  apply hs
  have hsub : ∀ x ∈ tr.drop j, x ∈ tr := fun x hx => List.mem_of_mem_drop hx
  cases cl <;> exact fun x hx => hP x (hsub x hx)

/-- **Silence of the foreign-peer monitor means every clause holds.** -/
theorem peer_monitor_complete (tr : PTrace) (h : runPeer tr = none) (cl : PClause) : PP_of cl tr := by
  have hall := runPeerFrom_none tr 0 h
  have okc : ∀ c ∈ tr, ∀ v l k, c.obs = .ok v l k →
      peerVerdict c.req c.P (.negotiated v) = none ∧ l = true ∧ k = true := by
    intro c hc v l k ho
    have := hall c hc
    rw [ho] at this
    simp only [monitorPeer] at this
    cases hv : peerVerdict c.req c.P (.negotiated v) with
    | some cl' => rw [hv] at this; cases this
    | none =>
      rw [hv] at this
      simp only at this
      split at this
      · cases this
      · rename_i hlk
        refine ⟨rfl, ?_⟩
        cases l <;> cases k <;> simp at hlk ⊢
  have errc : ∀ c ∈ tr, c.obs = .error → peerVerdict c.req c.P .error = none := by
    intro c hc ho
    have := hall c hc
    rw [ho] at this
    exact this
  cases cl with
  | f30 | notSDK => intro c hc v l k ho; exact (peerVerdict_negotiated_none (okc c hc v l k ho).1).1
  | legacyNotInit => intro c hc v l k ho hlt; exact (peerVerdict_negotiated_none (okc c hc v l k ho).1).2.1 hlt
  | notOffered => intro c hc v l k ho hge; exact (peerVerdict_negotiated_none (okc c hc v l k ho).1).2.2.1 hge
  | mutualDiff =>
    intro c hc hm v l k ho
    exact (peerVerdict_negotiated_none (okc c hc v l k ho).1).2.2.2 ((peerMutual_iff c).2 hm)
  | mutualErr =>
    intro c hc hm ho
    have := (peerVerdict_error_none (errc c hc ho)).1
    rw [(peerMutual_iff c).2 hm] at this; cases this
  | fallbackLegacy | fallbackUnavailable | fallbackNoOverlap =>
    intro c hc ⟨w, h1, h2⟩ ho
    exact (peerVerdict_error_none (errc c hc ho)).2 w h1 h2
  | cannotUse => intro c hc v l k ho; exact (okc c hc v l k ho).2
  | unreadable | crashed =>
    intro c hc
    have := hall c hc
    cases ho : c.obs with
    | garbled => rw [ho] at this; simp [monitorPeer] at this
    | other => rw [ho] at this; simp [monitorPeer] at this
    | ok v l k => exact ⟨(by intro e; cases e), (by intro e; cases e)⟩
    | error => exact ⟨(by intro e; cases e), (by intro e; cases e)⟩

/-- **peer_monitor_accepts_model.** Against every peer and for every requested string the
foreign-peer monitor reports nothing on the model's outcome. -/
theorem peer_monitor_accepts_model (req : Option String) (P : Peer) :
    monitorPeer req P (obsOf (connectPeer req P)) = none := by
  have := peerVerdict_model req P
  cases hc : connectPeer req P with
  | negotiated v => rw [hc] at this; simp [obsOf, monitorPeer, this]
  | error => rw [hc] at this; simp [obsOf, monitorPeer, this]

/-! ### Non-vacuity: every clause can be reported (concrete cells, evaluated) -/

section Witness
def sMem : Setup := { kind := .mem, subset := none }
def sOnly0618 : Setup := { kind := .mem, subset := some ["2025-06-18"] }
example : runMon [⟨none, sMem, .garbled⟩] = some (0, .unreadable) := by decide
example : runMon [⟨none, sMem, .other⟩] = some (0, .crashed) := by decide
example : runMon [⟨none, sMem, .ok "2099-01-01" true true⟩] = some (0, .notSDK) := by decide
example : runMon [⟨none, sOnly0618, .ok "2025-11-25" true true⟩] = some (0, .f10) := by decide
example : runMon [⟨none, sOnly0618, .ok "2026-07-28" true true⟩] = some (0, .notTransport) := by decide
example : runMon [⟨none, { kind := .stateful, subset := some ["2026-07-28"] }, .ok "2026-07-28" true true⟩] = some (0, .notTransport) := by decide
example : runMon [⟨some "2025-06-18", sMem, .ok "2025-11-25" true true⟩] = some (0, .mutualDiff) := by decide
example : runMon [⟨none, sMem, .ok "2026-07-28" true false⟩] = some (0, .cannotUse) := by decide
example : runMon [⟨none, sMem, .error⟩] = some (0, .mutualErr) := by decide
example : runMon [⟨some "2099-01-01", sOnly0618, .error⟩] = some (0, .noFallback) := by decide
example : runMon (modelTrace (fun _ _ => true) [(none, sMem), (some "2024-01-01", sOnly0618), (some "x", { kind := .sse, subset := none })]) = none := by decide
example : runPeer [⟨some "2099-12-31", { discover := fun _ => .result ["2099-12-31"], init := fun _ => none }, .ok "2099-12-31" true true⟩]
    = some (0, .f30) := by decide
example : runPeer [⟨none, legacyPeer, .ok "2025-11-25" true true⟩] = some (0, .legacyNotInit) := by decide
example : runPeer [⟨none, legacyPeer, .ok "2026-07-28" true true⟩] = some (0, .notOffered) := by decide
example : runPeer [⟨none, legacyPeer, .error⟩] = some (0, .fallbackUnavailable) := by decide
example : runPeer [⟨none, legacyPeer, obsOf (connectPeer none legacyPeer)⟩] = none := by decide
end Witness

end Negotiate
