import McpModel.Negotiate.Model
/-!
# C07 — property theorems for version negotiation (model: `Negotiate.connect`)

`connect wireOK requested S` is a total function; every theorem quantifies over **every**
`requested : Option String` (any string whatsoever, or the default), every transport kind, every
advertised subset (an arbitrary list of strings), both HTTP options and every `wireOK`.  The proofs
are case analyses on the decidable facts the code uses: membership in the regenerated version list
and comparison with `"2026-07-28"`.  They are re-checked against the regenerated
`Generated.Negotiate` on every run, so a changed version list, helper or `SupportsProtocolVersion`
table re-opens them.  `negotiated_supported` needs the F10 repair (`legacyVersionFor`): on a tree
where `initialize` ignores the transport filter it does not go through.
-/
namespace Negotiate
open Generated.Negotiate

theorem mem_advertised {S : Setup} {v : String} :
    v ∈ advertised S ↔ v ∈ supportedProtocolVersions ∧ transportSupports S v = true := by
  simp [advertised, List.mem_filter]

theorem empty_not_supported : "" ∉ supportedProtocolVersions := by decide

/-- `negotiateMutuallySupportedVersion l` is `""` or an SDK-supported member of `l`. -/
theorem mutual_mem (l : List String) (h : negotiateMutuallySupportedVersion l ≠ "") :
    negotiateMutuallySupportedVersion l ∈ l ∧ negotiateMutuallySupportedVersion l ∈ supportedProtocolVersions := by
  unfold negotiateMutuallySupportedVersion at h ⊢
  generalize hf : supportedProtocolVersions.find? (fun ver => l.contains ver) = o at h ⊢
  cases o with
  | none => exact absurd rfl h
  | some w =>
    have h1 := List.find?_some hf
    have h2 := List.mem_of_find?_eq_some hf
    exact ⟨by simpa using h1, h2⟩

/-- The F10 repair: what `initialize` answers is `""` or a version the transport advertises. -/
theorem legacyVersionFor_mem (v : String) (adv : List String) (h : legacyVersionFor v adv ≠ "") :
    legacyVersionFor v adv ∈ adv := by
  unfold legacyVersionFor at h ⊢
  by_cases hc : adv.contains v = true
  · rw [if_pos hc]; simpa using hc
  · rw [if_neg hc] at h ⊢
    generalize hf : supportedProtocolVersions.find?
        (fun v => decide (v < protocolVersion20260728) && adv.contains v) = o at h ⊢
    cases o with
    | none => exact absurd rfl h
    | some w =>
      have h1 := List.find?_some hf
      simp only [Bool.and_eq_true] at h1
      show w ∈ adv
      simpa using h1.2

theorem pick_mem {adv : List String} {v : String} (h : pick adv v ≠ "") : pick adv v ∈ adv := by
  unfold pick at h ⊢
  by_cases hc : adv.contains v = true
  · rw [if_pos hc]; simpa using hc
  · rw [if_neg hc] at h ⊢; exact (mutual_mem _ h).1

theorem discoverOnce_ok {wireOK : String → Bool} {S : Setup} {v n : String}
    (h : discoverOnce wireOK S v = .ok n) : n ∈ advertised S ∧ ¬ n < modern := by
  unfold discoverOnce at h
  by_cases h1 : wireOK v = false
  · rw [if_pos h1] at h; cases h
  · rw [if_neg h1] at h
    by_cases h2 : supportedProtocolVersions.contains v = false
    · rw [if_pos h2] at h; cases h
    · rw [if_neg h2] at h
      by_cases h3 : pick (advertised S) v = "" ∨ pick (advertised S) v < modern
      · rw [if_pos h3] at h; cases h
      · rw [if_neg h3] at h
        injection h with h
        subst h
        exact ⟨pick_mem (fun e => h3 (Or.inl e)), fun e => h3 (Or.inr e)⟩

theorem discoverLoop_some {wireOK : String → Bool} {S : Setup} {pv n : String}
    (h : discoverLoop wireOK S pv = some n) : n ∈ advertised S ∧ ¬ n < modern := by
  unfold discoverLoop at h
  cases hd : discoverOnce wireOK S pv with
  | ok m => rw [hd] at h; injection h with h; subst h; exact discoverOnce_ok hd
  | failed => rw [hd] at h; cases h
  | unsupported data =>
    rw [hd] at h
    simp only at h
    by_cases hc : negotiateMutuallySupportedVersion data ≠ "" ∧ ¬ negotiateMutuallySupportedVersion data < modern
    · rw [if_pos hc] at h
      cases hd2 : discoverOnce wireOK S (negotiateMutuallySupportedVersion data) with
      | ok m => rw [hd2] at h; injection h with h; subst h; exact discoverOnce_ok hd2
      | failed => rw [hd2] at h; cases h
      | unsupported d2 => rw [hd2] at h; cases h
    · rw [if_neg hc] at h; cases h

theorem initHandshake_negotiated {S : Setup} {iv v : String} (h : initHandshake S iv = .negotiated v) :
    v ∈ advertised S := by
  unfold initHandshake at h
  by_cases h1 : legacyVersionFor (negotiatedVersion iv) (advertised S) = ""
  · rw [if_pos h1] at h; cases h
  · rw [if_neg h1] at h
    by_cases h2 : legacyVersionFor (negotiatedVersion iv) (advertised S) ∈ supportedProtocolVersions
    · rw [if_pos h2] at h; injection h with h; subst h; exact legacyVersionFor_mem _ _ h1
    · rw [if_neg h2] at h; cases h

theorem connect_negotiated_mem {wireOK : String → Bool} {requested : Option String} {S : Setup} {v : String}
    (hc : connect wireOK requested S = .negotiated v) : v ∈ advertised S := by
  unfold connect at hc
  by_cases hlt : startVersion requested < modern
  · rw [if_pos hlt] at hc; exact initHandshake_negotiated hc
  · rw [if_neg hlt] at hc
    cases hl : discoverLoop wireOK S (startVersion requested) with
    | some n => rw [hl] at hc; injection hc with hc; subst hc; exact (discoverLoop_some hl).1
    | none => rw [hl] at hc; exact initHandshake_negotiated hc

/-- **negotiated_supported.** For every requested string (or the default), every transport kind,
every advertised subset and both HTTP options: connecting fails, or the negotiated version is
supported by the SDK (hence by both SDK sides) *and* by the transport, wrapper included. -/
theorem negotiated_supported (wireOK : String → Bool) (requested : Option String) (S : Setup) :
    connect wireOK requested S = .error ∨
    ∃ v, connect wireOK requested S = .negotiated v ∧ v ∈ supportedProtocolVersions ∧
      transportSupports S v = true ∧ (∀ l, S.subset = some l → v ∈ l) := by
  cases hc : connect wireOK requested S with
  | error => exact Or.inl rfl
  | negotiated v =>
    refine Or.inr ⟨v, rfl, ?_⟩
    obtain ⟨h1, h2⟩ := mem_advertised.1 (connect_negotiated_mem hc)
    refine ⟨h1, h2, ?_⟩
    intro l hl
    simp only [transportSupports, hl, Bool.and_eq_true] at h2
    simpa using h2.2

/-- **modern_never_on_sse_or_stateful.** Over SSE or a stateful streamable endpoint the negotiated
version is always below 2026-07-28, whatever was requested and whatever a wrapper advertises. -/
theorem modern_never_on_sse_or_stateful (wireOK : String → Bool) (requested : Option String) (S : Setup)
    (hk : S.kind = .sse ∨ S.kind = .stateful) (v : String)
    (h : connect wireOK requested S = .negotiated v) : v < modern := by
  rcases negotiated_supported wireOK requested S with he | ⟨v', hv, _, hts, _⟩
  · rw [he] at h; cases h
  · rw [hv] at h; injection h with h; subst h
    simp only [transportSupports, Bool.and_eq_true] at hts
    rcases hk with hk | hk
    · simp only [kindSupports, hk, sseSupportsProtocolVersion, decide_eq_true_eq] at hts
      exact hts.1
    · simp only [kindSupports, hk, streamableSupportsProtocolVersion] at hts
      by_cases hlt : v' < protocolVersion20260728
      · exact hlt
      · simp [hlt] at hts

/-- **requested_honoured_if_mutual.** If the requested version is supported by the SDK and by the
transport (and its spelling travels: true of every SDK version, `supported_wire_ok` in the driver's
instance), the session negotiates exactly that version — over discover when it is ≥ 2026-07-28, over
initialize otherwise. -/
theorem requested_honoured_if_mutual (wireOK : String → Bool) (r : String) (S : Setup)
    (hs : r ∈ supportedProtocolVersions) (ht : transportSupports S r = true) (hw : wireOK r = true) :
    connect wireOK (some r) S = .negotiated r := by
  have hne : r ≠ "" := fun e => empty_not_supported (e ▸ hs)
  have hadv : (advertised S).contains r = true := by simpa using mem_advertised.2 ⟨hs, ht⟩
  have hsup : supportedProtocolVersions.contains r = true := by simpa using hs
  have hstart : startVersion (some r) = r := by simp [startVersion, hne]
  unfold connect
  rw [hstart]
  by_cases hlt : r < modern
  · rw [if_pos hlt]
    have hnv : negotiatedVersion r = r := by
      unfold negotiatedVersion
      rw [if_pos (by simp [hs, show r < protocolVersion20260728 from hlt])]
    have hlv : legacyVersionFor r (advertised S) = r := by
      unfold legacyVersionFor; rw [if_pos hadv]
    unfold initHandshake
    rw [hnv, hlv, if_neg hne, if_pos hs]
  · rw [if_neg hlt]
    have hp : pick (advertised S) r = r := by unfold pick; rw [if_pos hadv]
    have hd : discoverOnce wireOK S r = .ok r := by
      unfold discoverOnce
      rw [if_neg (by simp [hw]), if_neg (by simp [hs]), hp, if_neg (by simp [hne, hlt])]
    unfold discoverLoop
    rw [hd]

/-- The default request behaves as an explicit request for the latest version. -/
theorem default_is_latest (wireOK : String → Bool) (S : Setup) :
    connect wireOK none S = connect wireOK (some latestProtocolVersion) S := by
  have : startVersion (some latestProtocolVersion) = startVersion none := by decide
  unfold connect
  rw [this]

/-- The version the legacy handshake is attempted with. -/
def legacyRequest (requested : Option String) : String :=
  if startVersion requested < modern then startVersion requested else fallbackVersion

/-- **fallback_when_no_modern_overlap.** Whenever discovery is unavailable (the discover exchange
does not get through) or the transport advertises no version ≥ 2026-07-28, the outcome of `connect`
is exactly the outcome of the initialize handshake (with the requested version when it is below the
threshold, with 2025-11-25 otherwise) — for every requested string. -/
theorem fallback_when_no_modern_overlap (wireOK : String → Bool) (requested : Option String) (S : Setup)
    (h : (∀ v ∈ advertised S, v < modern) ∨ wireOK (startVersion requested) = false) :
    connect wireOK requested S = initHandshake S (legacyRequest requested) := by
  unfold connect legacyRequest
  by_cases hlt : startVersion requested < modern
  · rw [if_pos hlt, if_pos hlt]
  · rw [if_neg hlt, if_neg hlt]
    have hnone : discoverLoop wireOK S (startVersion requested) = none := by
      cases hl : discoverLoop wireOK S (startVersion requested) with
      | none => rfl
      | some n =>
        exfalso
        rcases h with h | h
        · obtain ⟨h1, h2⟩ := discoverLoop_some hl
          exact h2 (h n h1)
        · unfold discoverLoop discoverOnce at hl
          rw [if_pos h] at hl
          cases hl
    rw [hnone]

/-- The legacy handshake yields a legacy version whenever the transport serves one (the newest such,
or the requested one if served), and fails only when it serves none: the F10 repair in both
directions. -/
theorem initHandshake_total (S : Setup) (iv : String) (h : ∃ v ∈ advertised S, v < modern) :
    ∃ v, initHandshake S iv = .negotiated v ∧ v ∈ advertised S := by
  obtain ⟨w, hw, hwl⟩ := h
  have hsub : ∀ x ∈ advertised S, x ∈ supportedProtocolVersions := fun x hx => (mem_advertised.1 hx).1
  have hne : legacyVersionFor (negotiatedVersion iv) (advertised S) ≠ "" := by
    unfold legacyVersionFor
    by_cases hc : (advertised S).contains (negotiatedVersion iv) = true
    · rw [if_pos hc]
      intro e
      have : negotiatedVersion iv ∈ advertised S := by simpa using hc
      exact empty_not_supported (e ▸ hsub _ this)
    · rw [if_neg hc]
      generalize hf : supportedProtocolVersions.find?
          (fun v => decide (v < protocolVersion20260728) && (advertised S).contains v) = o
      cases o with
      | none =>
        exfalso
        rw [List.find?_eq_none] at hf
        have := hf w (hsub w hw)
        simp [show w < protocolVersion20260728 from hwl, hw] at this
      | some x =>
        intro e
        have := List.mem_of_find?_eq_some hf
        exact empty_not_supported ((show x = "" from e) ▸ this)
  have hmem := legacyVersionFor_mem _ _ hne
  refine ⟨_, ?_, hmem⟩
  unfold initHandshake
  rw [if_neg hne, if_pos (hsub _ hmem)]

/-- `connect` fails only when the transport serves no legacy version at all. -/
theorem error_only_without_legacy (wireOK : String → Bool) (requested : Option String) (S : Setup)
    (h : connect wireOK requested S = .error) : ∀ v ∈ advertised S, ¬ v < modern := by
  intro v hv hlt
  have hi : ∀ iv, initHandshake S iv ≠ .error := by
    intro iv e
    obtain ⟨x, hx, _⟩ := initHandshake_total S iv ⟨v, hv, hlt⟩
    rw [e] at hx; cases hx
  unfold connect at h
  by_cases hl : startVersion requested < modern
  · rw [if_pos hl] at h; exact hi _ h
  · rw [if_neg hl] at h
    cases hd : discoverLoop wireOK S (startVersion requested) with
    | some n => rw [hd] at h; cases h
    | none => rw [hd] at h; exact hi _ h

/-! ### Non-vacuity (concrete cells, evaluated) -/

example : connect (fun _ => true) none { kind := .mem, subset := none } = .negotiated "2026-07-28" := by decide
example : connect (fun _ => true) none { kind := .sse, subset := none } = .negotiated "2025-11-25" := by decide
example : connect (fun _ => true) (some "2027-01-01") { kind := .stateless, subset := none } = .negotiated "2026-07-28" := by decide
example : connect (fun _ => true) (some "2024-01-01") { kind := .stateful, subset := none } = .negotiated "2025-11-25" := by decide
/-- F10 repaired: a transport advertising only 2025-06-18 gets 2025-06-18 … -/
example : connect (fun _ => true) none { kind := .mem, subset := some ["2025-06-18"] } = .negotiated "2025-06-18" := by decide
/-- … and a transport serving no legacy version makes the legacy handshake fail. -/
example : connect (fun _ => true) (some "2025-06-18") { kind := .pipe, subset := some ["2026-07-28"] } = .error := by decide

end Negotiate
