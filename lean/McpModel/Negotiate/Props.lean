import McpModel.Negotiate.Model
import McpModel.Negotiate.Peer
/-!
# C07 — property theorems for version negotiation (model: `Negotiate.connect`)

`connect wireOK requested S` is a total function; every theorem quantifies over **every**
`requested : Option String` (any string whatsoever, or the default), every transport kind, every
advertised subset (an arbitrary list of strings), both HTTP options and every `wireOK`.  The proofs
are case analyses on the decidable facts the code uses: membership in the regenerated version list
and comparison with `"2026-07-28"`.  They are re-checked against the regenerated
`Generated.Negotiate` on every run, so a changed version list, helper or `SupportsProtocolVersion`
table re-opens them.  `negotiated_supported` needs the F10 repair (`legacyVersionFor`): on a tree
where `initialize` ignores the transport filter it does not go through.
-/
namespace Negotiate
open Generated.Negotiate

theorem mem_advertised {S : Setup} {v : String} :
    v ∈ advertised S ↔ v ∈ supportedProtocolVersions ∧ transportSupports S v = true := by
  simp [advertised, List.mem_filter]

theorem empty_not_supported : "" ∉ supportedProtocolVersions := by decide

/-- `negotiateMutuallySupportedVersion l` is `""` or an SDK-supported member of `l`. -/
theorem mutual_mem (l : List String) (h : negotiateMutuallySupportedVersion l ≠ "") :
    negotiateMutuallySupportedVersion l ∈ l ∧ negotiateMutuallySupportedVersion l ∈ supportedProtocolVersions := by
  unfold negotiateMutuallySupportedVersion at h ⊢
  generalize hf : supportedProtocolVersions.find? (fun ver => l.contains ver) = o at h ⊢
  cases o with
  | none => exact absurd rfl h
  | some w =>
    have h1 := List.find?_some hf
    have h2 := List.mem_of_find?_eq_some hf
    exact ⟨by simpa using h1, h2⟩

/-- The F10 repair: what `initialize` answers is `""` or a version the transport advertises. -/
theorem legacyVersionFor_mem (v : String) (adv : List String) (h : legacyVersionFor v adv ≠ "") :
    legacyVersionFor v adv ∈ adv := by
  unfold legacyVersionFor at h ⊢
  by_cases hc : adv.contains v = true
  · rw [if_pos hc]; simpa using hc
  · rw [if_neg hc] at h ⊢
    generalize hf : supportedProtocolVersions.find?
        (fun v => decide (v < protocolVersion20260728) && adv.contains v) = o at h ⊢
    cases o with
    | none => exact absurd rfl h
    | some w =>
      have h1 := List.find?_some hf
      simp only [Bool.and_eq_true] at h1
      show w ∈ adv
      simpa using h1.2

theorem pick_mem {adv : List String} {v : String} (h : pick adv v ≠ "") : pick adv v ∈ adv := by
  unfold pick at h ⊢
  by_cases hc : adv.contains v = true
  · rw [if_pos hc]; simpa using hc
  · rw [if_neg hc] at h ⊢; exact (mutual_mem _ h).1

theorem discoverOnce_ok {wireOK : String → Bool} {S : Setup} {v n : String}
    (h : discoverOnce wireOK S v = .ok n) : n ∈ advertised S ∧ ¬ n < modern := by
  unfold discoverOnce at h
  by_cases h1 : wireOK v = false
  · rw [if_pos h1] at h; cases h
  · rw [if_neg h1] at h
    by_cases h2 : supportedProtocolVersions.contains v = false
    · rw [if_pos h2] at h; cases h
    · rw [if_neg h2] at h
      by_cases h3 : pick (advertised S) v = "" ∨ pick (advertised S) v < modern
      · rw [if_pos h3] at h; cases h
      · rw [if_neg h3] at h
        injection h with h
        subst h
        exact ⟨pick_mem (fun e => h3 (Or.inl e)), fun e => h3 (Or.inr e)⟩

theorem discoverLoop_some {wireOK : String → Bool} {S : Setup} {pv n : String}
    (h : discoverLoop wireOK S pv = some n) : n ∈ advertised S ∧ ¬ n < modern := by
  unfold discoverLoop at h
  cases hd : discoverOnce wireOK S pv with
  | ok m => rw [hd] at h; injection h with h; subst h; exact discoverOnce_ok hd
  | failed => rw [hd] at h; cases h
  | unsupported data =>
    rw [hd] at h
    simp only at h
    by_cases hc : negotiateMutuallySupportedVersion data ≠ "" ∧ ¬ negotiateMutuallySupportedVersion data < modern
    · rw [if_pos hc] at h
      cases hd2 : discoverOnce wireOK S (negotiateMutuallySupportedVersion data) with
      | ok m => rw [hd2] at h; injection h with h; subst h; exact discoverOnce_ok hd2
      | failed => rw [hd2] at h; cases h
      | unsupported d2 => rw [hd2] at h; cases h
    · rw [if_neg hc] at h; cases h

theorem initHandshake_negotiated {S : Setup} {iv v : String} (h : initHandshake S iv = .negotiated v) :
    v ∈ advertised S := by
  unfold initHandshake at h
  by_cases h1 : legacyVersionFor (negotiatedVersion iv) (advertised S) = ""
  · rw [if_pos h1] at h; cases h
  · rw [if_neg h1] at h
    by_cases h2 : legacyVersionFor (negotiatedVersion iv) (advertised S) ∈ supportedProtocolVersions
    · rw [if_pos h2] at h; injection h with h; subst h; exact legacyVersionFor_mem _ _ h1
    · rw [if_neg h2] at h; cases h

theorem connect_negotiated_mem {wireOK : String → Bool} {requested : Option String} {S : Setup} {v : String}
    (hc : connect wireOK requested S = .negotiated v) : v ∈ advertised S := by
  unfold connect at hc
  by_cases hlt : startVersion requested < modern
  · rw [if_pos hlt] at hc; exact initHandshake_negotiated hc
  · rw [if_neg hlt] at hc
    cases hl : discoverLoop wireOK S (startVersion requested) with
    | some n => rw [hl] at hc; injection hc with hc; subst hc; exact (discoverLoop_some hl).1
    | none => rw [hl] at hc; exact initHandshake_negotiated hc

/-- **negotiated_supported.** For every requested string (or the default), every transport kind,
every advertised subset and both HTTP options: connecting fails, or the negotiated version is
supported by the SDK (hence by both SDK sides) *and* by the transport, wrapper included. -/
theorem negotiated_supported (wireOK : String → Bool) (requested : Option String) (S : Setup) :
    connect wireOK requested S = .error ∨
    ∃ v, connect wireOK requested S = .negotiated v ∧ v ∈ supportedProtocolVersions ∧
      transportSupports S v = true ∧ (∀ l, S.subset = some l → v ∈ l) := by
  cases hc : connect wireOK requested S with
  | error => exact Or.inl rfl
  | negotiated v =>
    refine Or.inr ⟨v, rfl, ?_⟩
    obtain ⟨h1, h2⟩ := mem_advertised.1 (connect_negotiated_mem hc)
    refine ⟨h1, h2, ?_⟩
    intro l hl
    simp only [transportSupports, hl, Bool.and_eq_true] at h2
    simpa using h2.2

/-- **modern_never_on_sse_or_stateful.** Over SSE or a stateful streamable endpoint the negotiated
version is always below 2026-07-28, whatever was requested and whatever a wrapper advertises. -/
theorem modern_never_on_sse_or_stateful (wireOK : String → Bool) (requested : Option String) (S : Setup)
    (hk : S.kind = .sse ∨ S.kind = .stateful) (v : String)
    (h : connect wireOK requested S = .negotiated v) : v < modern := by
  rcases negotiated_supported wireOK requested S with he | ⟨v', hv, _, hts, _⟩
  · rw [he] at h; cases h
  · rw [hv] at h; injection h with h; subst h
    simp only [transportSupports, Bool.and_eq_true] at hts
    rcases hk with hk | hk
    · simp only [kindSupports, hk, sseSupportsProtocolVersion, decide_eq_true_eq] at hts
      exact hts.1
    · simp only [kindSupports, hk, streamableSupportsProtocolVersion] at hts
      by_cases hlt : v' < protocolVersion20260728
      · exact hlt
      · simp [hlt] at hts

/-- **requested_honoured_if_mutual.** If the requested version is supported by the SDK and by the
transport (and its spelling travels: true of every SDK version, `supported_wire_ok` in the driver's
instance), the session negotiates exactly that version — over discover when it is ≥ 2026-07-28, over
initialize otherwise. -/
theorem requested_honoured_if_mutual (wireOK : String → Bool) (r : String) (S : Setup)
    (hs : r ∈ supportedProtocolVersions) (ht : transportSupports S r = true) (hw : wireOK r = true) :
    connect wireOK (some r) S = .negotiated r := by
  have hne : r ≠ "" := fun e => empty_not_supported (e ▸ hs)
  have hadv : (advertised S).contains r = true := by simpa using mem_advertised.2 ⟨hs, ht⟩
  have hsup : supportedProtocolVersions.contains r = true := by simpa using hs
  have hstart : startVersion (some r) = r := by simp [startVersion, hne]
  unfold connect
  rw [hstart]
  by_cases hlt : r < modern
  · rw [if_pos hlt]
    have hnv : negotiatedVersion r = r := by
      unfold negotiatedVersion
      rw [if_pos (by simp [hs, show r < protocolVersion20260728 from hlt])]
    have hlv : legacyVersionFor r (advertised S) = r := by
      unfold legacyVersionFor; rw [if_pos hadv]
    unfold initHandshake
    rw [hnv, hlv, if_neg hne, if_pos hs]
  · rw [if_neg hlt]
    have hp : pick (advertised S) r = r := by unfold pick; rw [if_pos hadv]
    have hd : discoverOnce wireOK S r = .ok r := by
      unfold discoverOnce
      rw [if_neg (by simp [hw]), if_neg (by simp [hs]), hp, if_neg (by simp [hne, hlt])]
    unfold discoverLoop
    rw [hd]

/-- The default request behaves as an explicit request for the latest version. -/
theorem default_is_latest (wireOK : String → Bool) (S : Setup) :
    connect wireOK none S = connect wireOK (some latestProtocolVersion) S := by
  have : startVersion (some latestProtocolVersion) = startVersion none := by decide
  unfold connect
  rw [this]

/-- **fallback_when_no_modern_overlap.** Whenever discovery is unavailable (the discover exchange
does not get through) or the transport advertises no version ≥ 2026-07-28, the outcome of `connect`
is exactly the outcome of the initialize handshake (with the requested version when it is below the
threshold, with 2025-11-25 otherwise) — for every requested string. -/
theorem fallback_when_no_modern_overlap (wireOK : String → Bool) (requested : Option String) (S : Setup)
    (h : (∀ v ∈ advertised S, v < modern) ∨ wireOK (startVersion requested) = false) :
    connect wireOK requested S = initHandshake S (legacyRequest requested) := by
  unfold connect legacyRequest
  by_cases hlt : startVersion requested < modern
  · rw [if_pos hlt, if_pos hlt]
  · rw [if_neg hlt, if_neg hlt]
    have hnone : discoverLoop wireOK S (startVersion requested) = none := by
      cases hl : discoverLoop wireOK S (startVersion requested) with
      | none => rfl
      | some n =>
        exfalso
        rcases h with h | h
        · obtain ⟨h1, h2⟩ := discoverLoop_some hl
          exact h2 (h n h1)
        · unfold discoverLoop discoverOnce at hl
          rw [if_pos h] at hl
          cases hl
    rw [hnone]

/-- The legacy handshake yields a legacy version whenever the transport serves one (the newest such,
or the requested one if served), and fails only when it serves none: the F10 repair in both
directions. -/
theorem initHandshake_total (S : Setup) (iv : String) (h : ∃ v ∈ advertised S, v < modern) :
    ∃ v, initHandshake S iv = .negotiated v ∧ v ∈ advertised S := by
  obtain ⟨w, hw, hwl⟩ := h
  have hsub : ∀ x ∈ advertised S, x ∈ supportedProtocolVersions := fun x hx => (mem_advertised.1 hx).1
  have hne : legacyVersionFor (negotiatedVersion iv) (advertised S) ≠ "" := by
    unfold legacyVersionFor
    by_cases hc : (advertised S).contains (negotiatedVersion iv) = true
    · rw [if_pos hc]
      intro e
      have : negotiatedVersion iv ∈ advertised S := by simpa using hc
      exact empty_not_supported (e ▸ hsub _ this)
    · rw [if_neg hc]
      generalize hf : supportedProtocolVersions.find?
          (fun v => decide (v < protocolVersion20260728) && (advertised S).contains v) = o
      cases o with
      | none =>
        exfalso
        rw [List.find?_eq_none] at hf
        have := hf w (hsub w hw)
        simp [show w < protocolVersion20260728 from hwl, hw] at this
      | some x =>
        intro e
        have := List.mem_of_find?_eq_some hf
        exact empty_not_supported ((show x = "" from e) ▸ this)
  have hmem := legacyVersionFor_mem _ _ hne
  refine ⟨_, ?_, hmem⟩
  unfold initHandshake
  rw [if_neg hne, if_pos (hsub _ hmem)]

/-- `connect` fails only when the transport serves no legacy version at all. -/
theorem error_only_without_legacy (wireOK : String → Bool) (requested : Option String) (S : Setup)
    (h : connect wireOK requested S = .error) : ∀ v ∈ advertised S, ¬ v < modern := by
  intro v hv hlt
  have hi : ∀ iv, initHandshake S iv ≠ .error := by
    intro iv e
    obtain ⟨x, hx, _⟩ := initHandshake_total S iv ⟨v, hv, hlt⟩
    rw [e] at hx; cases hx
  unfold connect at h
  by_cases hl : startVersion requested < modern
  · rw [if_pos hl] at h; exact hi _ h
  · rw [if_neg hl] at h
    cases hd : discoverLoop wireOK S (startVersion requested) with
    | some n => rw [hd] at h; cases h
    | none => rw [hd] at h; exact hi _ h


/-! ## The client against an arbitrary peer (`connectPeer`), and one Server connected repeatedly -/

theorem pickC_mem {vs : List String} {v : String} (h : pickC vs v ≠ "") :
    pickC vs v ∈ vs ∧ pickC vs v ∈ supportedProtocolVersions := by
  unfold pickC at h ⊢
  by_cases hc : (vs.contains v && supportedProtocolVersions.contains v) = true
  · rw [if_pos hc]
    simp only [Bool.and_eq_true] at hc
    exact ⟨by simpa using hc.1, by simpa using hc.2⟩
  · rw [if_neg hc] at h ⊢; exact mutual_mem _ h

/-- Against a probe naming an SDK-supported version the F30 conjunct is redundant. -/
theorem pickC_eq_pick {vs : List String} {v : String} (h : supportedProtocolVersions.contains v = true) :
    pickC vs v = pick vs v := by
  unfold pickC pick
  rw [h, Bool.and_true]

theorem clientDiscover_ok {resp : DiscResp} {v n : String} (h : clientDiscover resp v = .ok n) :
    ∃ vs, resp = .result vs ∧ n ∈ vs ∧ n ∈ supportedProtocolVersions ∧ ¬ n < modern := by
  unfold clientDiscover at h
  cases resp with
  | unavailable => cases h
  | unsupported d => cases h
  | result vs =>
    simp only at h
    by_cases h3 : pickC vs v = "" ∨ pickC vs v < modern
    · rw [if_pos h3] at h; cases h
    · rw [if_neg h3] at h
      injection h with h
      subst h
      obtain ⟨h1, h2⟩ := pickC_mem (fun e => h3 (Or.inl e))
      exact ⟨vs, rfl, h1, h2, fun e => h3 (Or.inr e)⟩

theorem peerLoop_some {P : Peer} {pv n : String} (h : peerLoop P pv = some n) :
    n ∈ supportedProtocolVersions ∧ ¬ n < modern ∧ (discLists P pv).any (·.contains n) = true := by
  unfold peerLoop at h
  cases hd : clientDiscover (P.discover pv) pv with
  | ok m =>
    rw [hd] at h; injection h with h; subst h
    obtain ⟨vs, hr, h1, h2, h3⟩ := clientDiscover_ok hd
    refine ⟨h2, h3, ?_⟩
    simp [discLists, hr, h1]
  | failed => rw [hd] at h; cases h
  | unsupported data =>
    rw [hd] at h
    simp only at h
    have hresp : P.discover pv = .unsupported data := by
      unfold clientDiscover at hd
      cases hp : P.discover pv with
      | unavailable => rw [hp] at hd; cases hd
      | unsupported d => rw [hp] at hd; injection hd with hd; rw [hd]
      | result vs =>
        rw [hp] at hd; simp only at hd
        by_cases h3 : pickC vs pv = "" ∨ pickC vs pv < modern
        · rw [if_pos h3] at hd; cases hd
        · rw [if_neg h3] at hd; cases hd
    by_cases hc : negotiateMutuallySupportedVersion data ≠ "" ∧ ¬ negotiateMutuallySupportedVersion data < modern
    · rw [if_pos hc] at h
      cases hd2 : clientDiscover (P.discover (negotiateMutuallySupportedVersion data))
          (negotiateMutuallySupportedVersion data) with
      | ok m =>
        rw [hd2] at h; injection h with h; subst h
        obtain ⟨vs, hr, h1, h2, h3⟩ := clientDiscover_ok hd2
        refine ⟨h2, h3, ?_⟩
        simp [discLists, hresp, hc, hr, h1]
      | failed => rw [hd2] at h; cases h
      | unsupported d2 => rw [hd2] at h; cases h
    · rw [if_neg hc] at h; cases h

/-- **peerInit_accepts_iff** (m7's clause). The initialize handshake yields a session exactly when
the peer answers with a version this SDK implements — membership in the regenerated list, not a
range test: an unknown in-range string such as "2025-01-15" or "2026-03-01", an out-of-range or a
malformed one makes Connect fail. -/
theorem peerInit_accepts_iff (P : Peer) (iv v : String) :
    peerInit P iv = .negotiated v ↔ P.init iv = some v ∧ v ∈ supportedProtocolVersions := by
  unfold peerInit
  cases hi : P.init iv with
  | none => simp
  | some w =>
    simp only
    by_cases hw : w ∈ supportedProtocolVersions
    · rw [if_pos hw]
      constructor
      · intro h; injection h with h; subst h; exact ⟨rfl, hw⟩
      · intro ⟨h, _⟩; injection h with h; subst h; rfl
    · rw [if_neg hw]
      constructor
      · intro h; cases h
      · intro ⟨h, h2⟩; injection h with h; subst h; exact absurd h2 hw

/-- **peer_negotiated_supported.** Against EVERY peer — whatever it answers to server/discover and
to initialize, for every requested string — Connect fails or the negotiated version is one this
SDK implements AND one the peer offered: a modern one from a DiscoverResult the client saw, or the
peer's own answer to the initialize handshake. -/
theorem peer_negotiated_supported (requested : Option String) (P : Peer) (v : String)
    (h : connectPeer requested P = .negotiated v) :
    v ∈ supportedProtocolVersions ∧
    ((¬ startVersion requested < modern ∧ ¬ v < modern ∧
        (discLists P (startVersion requested)).any (·.contains v) = true) ∨
      P.init (legacyRequest requested) = some v) := by
  unfold connectPeer at h
  unfold legacyRequest
  by_cases hlt : startVersion requested < modern
  · rw [if_pos hlt] at h ⊢
    obtain ⟨h1, h2⟩ := (peerInit_accepts_iff _ _ _).1 h
    exact ⟨h2, Or.inr h1⟩
  · rw [if_neg hlt] at h ⊢
    cases hl : peerLoop P (startVersion requested) with
    | some n =>
      rw [hl] at h; injection h with h; subst h
      obtain ⟨h1, h2, h3⟩ := peerLoop_some hl
      exact ⟨h1, Or.inl ⟨hlt, h2, h3⟩⟩
    | none =>
      rw [hl] at h
      obtain ⟨h1, h2⟩ := (peerInit_accepts_iff _ _ _).1 h
      exact ⟨h2, Or.inr h1⟩

/-- The supported versions listed in `vs` are all below the threshold. -/
def noModernOverlap (vs : List String) : Prop :=
  ∀ v ∈ vs, v ∈ supportedProtocolVersions → v < modern

theorem clientDiscover_noOverlap {vs : List String} {v : String} (h : noModernOverlap vs) :
    clientDiscover (.result vs) v = .failed := by
  unfold clientDiscover
  simp only
  by_cases h3 : pickC vs v = "" ∨ pickC vs v < modern
  · rw [if_pos h3]
  · exfalso
    obtain ⟨h1, h2⟩ := pickC_mem (fun e => h3 (Or.inl e))
    exact h3 (Or.inr (h _ h1 h2))

/-- **peer_fallback_when_discovery_unavailable_or_no_overlap** (m6's clause). Whenever the probe is
answered with anything that is not a DiscoverResult or a -32022-with-data (HTTP 404/405/400/5xx text,
JSON-RPC method-not-found in any status, …), or with a DiscoverResult / -32022 data without a modern
SDK-supported version, the outcome of Connect is exactly the outcome of the initialize handshake. -/
theorem peer_fallback_when_discovery_unavailable_or_no_overlap (requested : Option String) (P : Peer)
    (h : P.discover (startVersion requested) = .unavailable ∨
      (∃ vs, P.discover (startVersion requested) = .result vs ∧ noModernOverlap vs) ∨
      (∃ d, P.discover (startVersion requested) = .unsupported d ∧ noModernOverlap d)) :
    connectPeer requested P = peerInit P (legacyRequest requested) := by
  unfold connectPeer legacyRequest
  by_cases hlt : startVersion requested < modern
  · rw [if_pos hlt, if_pos hlt]
  · rw [if_neg hlt, if_neg hlt]
    have hnone : peerLoop P (startVersion requested) = none := by
      unfold peerLoop
      rcases h with h | ⟨vs, h, hv⟩ | ⟨d, h, hd⟩
      · rw [h]; rfl
      · rw [h, clientDiscover_noOverlap hv]
      · rw [h]
        simp only [clientDiscover]
        by_cases hc : negotiateMutuallySupportedVersion d ≠ "" ∧ ¬ negotiateMutuallySupportedVersion d < modern
        · exfalso
          obtain ⟨h1, h2⟩ := mutual_mem d hc.1
          exact hc.2 (hd _ h1 h2)
        · rw [if_neg hc]
    rw [hnone]

/-- **peer_error_only_if_init_fails.** Connect fails only when the initialize handshake fails:
whatever went wrong with discovery, a peer that answers initialize with a supported version ends
up with a session. -/
theorem peer_error_only_if_init_fails (requested : Option String) (P : Peer)
    (h : connectPeer requested P = .error) : peerInit P (legacyRequest requested) = .error := by
  unfold connectPeer at h
  unfold legacyRequest
  by_cases hlt : startVersion requested < modern
  · rw [if_pos hlt] at h ⊢; exact h
  · rw [if_neg hlt] at h ⊢
    cases hl : peerLoop P (startVersion requested) with
    | some n => rw [hl] at h; cases h
    | none => rw [hl] at h; exact h

/-- **peer_requested_honoured_if_mutual.** -/
theorem peer_requested_honoured_if_mutual (requested : Option String) (P : Peer)
    (h : peerMutual requested P = true) : connectPeer requested P = .negotiated (startVersion requested) := by
  unfold peerMutual at h
  simp only [Bool.and_eq_true] at h
  obtain ⟨hs, hp⟩ := h
  have hs' : startVersion requested ∈ supportedProtocolVersions := by simpa using hs
  have hne : startVersion requested ≠ "" := fun e => empty_not_supported (e ▸ hs')
  unfold connectPeer
  by_cases hlt : startVersion requested < modern
  · rw [if_pos hlt] at hp ⊢
    exact (peerInit_accepts_iff _ _ _).2 ⟨by simpa using hp, hs'⟩
  · rw [if_neg hlt] at hp ⊢
    cases hd : P.discover (startVersion requested) with
    | unavailable => rw [hd] at hp; cases hp
    | unsupported d => rw [hd] at hp; cases hp
    | result vs =>
      rw [hd] at hp
      simp only at hp
      have hpk : pickC vs (startVersion requested) = startVersion requested := by
        unfold pickC; rw [hp, hs]; rfl
      have : peerLoop P (startVersion requested) = some (startVersion requested) := by
        unfold peerLoop clientDiscover
        rw [hd]
        simp only [hpk]
        rw [if_neg (by simp [hne, hlt])]
      rw [this]

/-- **peerVerdict_model.** The property C07, as the monitor states it for foreign-peer cells, holds
of the model's outcome for every requested string and every peer (so a monitor alarm on the real
code is never an artefact of the model). -/
theorem peerVerdict_model (requested : Option String) (P : Peer) :
    peerVerdict requested P (connectPeer requested P) = none := by
  cases hc : connectPeer requested P with
  | negotiated v =>
    obtain ⟨h1, h2⟩ := peer_negotiated_supported requested P v hc
    have h1' : supportedProtocolVersions.contains v = true := by simpa using h1
    unfold peerVerdict
    simp only
    rw [if_neg (by simp [h1])]
    rw [if_neg (by
      rintro ⟨hlt, hne⟩
      rcases h2 with ⟨_, hge, _⟩ | h2
      · exact hge hlt
      · exact hne h2)]
    rw [if_neg (by
      rintro ⟨_, hne, hno⟩
      rcases h2 with ⟨a, _, c⟩ | h2
      · exact hno ⟨a, c⟩
      · exact hne h2)]
    rw [if_neg (by
      rintro ⟨hm, hne⟩
      have := peer_requested_honoured_if_mutual requested P hm
      rw [hc] at this
      injection this with this
      exact hne this)]
  | error =>
    unfold peerVerdict
    simp only
    have hm : ¬ peerMutual requested P = true := by
      intro hm
      have := peer_requested_honoured_if_mutual requested P hm
      rw [hc] at this; cases this
    rw [if_neg hm]
    have hi := peer_error_only_if_init_fails requested P hc
    cases hw : P.init (legacyRequest requested) with
    | none => rfl
    | some w =>
      simp only
      by_cases hs : supportedProtocolVersions.contains w = true
      · exfalso
        have := (peerInit_accepts_iff P (legacyRequest requested) w).2 ⟨hw, by simpa using hs⟩
        rw [hi] at this; cases this
      · rw [if_neg hs]

/-- **connect_eq_connectPeer.** The SDK x SDK model of `Model.lean` is the instance of `connectPeer`
at the SDK server: everything proved for all peers holds in every cell of the SDK matrix, and the
F30 conjunct of `pickC` changes nothing there. -/
theorem connect_eq_connectPeer (wireOK : String → Bool) (requested : Option String) (S : Setup) :
    connect wireOK requested S = connectPeer requested (sdkPeer wireOK S) := by
  have hdisc : ∀ v, clientDiscover ((sdkPeer wireOK S).discover v) v = discoverOnce wireOK S v := by
    intro v
    unfold sdkPeer discoverOnce clientDiscover
    simp only
    by_cases h1 : wireOK v = false
    · rw [if_pos h1, if_pos h1]
    · rw [if_neg h1, if_neg h1]
      by_cases h2 : supportedProtocolVersions.contains v = false
      · rw [if_pos h2, if_pos h2]
      · rw [if_neg h2, if_neg h2]
        simp only
        rw [pickC_eq_pick (by simpa using h2)]
  have hloop : ∀ pv, peerLoop (sdkPeer wireOK S) pv = discoverLoop wireOK S pv := by
    intro pv
    unfold peerLoop discoverLoop
    rw [hdisc pv]
    cases discoverOnce wireOK S pv with
    | ok n => rfl
    | failed => rfl
    | unsupported data =>
      simp only
      rw [hdisc (negotiateMutuallySupportedVersion data)]
      rfl
  have hinit : ∀ iv, peerInit (sdkPeer wireOK S) iv = initHandshake S iv := by
    intro iv
    unfold peerInit sdkPeer initHandshake
    simp only
    by_cases h1 : legacyVersionFor (negotiatedVersion iv) (advertised S) = ""
    · rw [if_pos h1, if_pos h1]
    · rw [if_neg h1, if_neg h1]
  unfold connect connectPeer
  rw [hloop, hinit, hinit]
  rfl

/-- **seq_step_history_independent** (m8's clause). On ONE Server value, the outcome of a
connection is the outcome of that connection on a fresh Server: the version filter belongs to the
session's own transport, not to the Server or to the transport's type. -/
theorem seq_step_history_independent (wire : TKind → String → Bool) (σ : Srv) (s : Step) :
    (σ.step wire s).2 = connect (wire s.setup.kind) s.requested s.setup := rfl

theorem runSeq_eq_map (wire : TKind → String → Bool) (σ : Srv) (steps : List Step) :
    runSeq wire σ steps = steps.map (fun s => connect (wire s.setup.kind) s.requested s.setup) := by
  induction steps generalizing σ with
  | nil => rfl
  | cons s rest ih => simp [runSeq, Srv.step, ih]

/-- **seq_every_step_supported.** In every sequence of connections to one Server — any length, any
order of transport configurations, any requested strings — every step fails or negotiates a version
supported by the SDK and by THAT step's transport (so never 2026-07-28 on a stateful or SSE step,
whatever was connected before). -/
theorem seq_every_step_supported (wire : TKind → String → Bool) (σ : Srv) (steps : List Step) :
    ∀ p ∈ (runSeq wire σ steps).zip steps,
      p.1 = .error ∨ ∃ v, p.1 = .negotiated v ∧ v ∈ supportedProtocolVersions ∧
        transportSupports p.2.setup v = true := by
  rw [runSeq_eq_map]
  intro p hp
  have : p.1 = connect (wire p.2.setup.kind) p.2.requested p.2.setup := by
    induction steps with
    | nil => simp at hp
    | cons s rest ih =>
      simp only [List.map_cons, List.zip_cons_cons, List.mem_cons] at hp
      rcases hp with hp | hp
      · subst hp; rfl
      · exact ih hp
  rw [this]
  rcases negotiated_supported (wire p.2.setup.kind) p.2.requested p.2.setup with h | ⟨v, hv, h1, h2, _⟩
  · exact Or.inl h
  · exact Or.inr ⟨v, hv, h1, h2⟩

/-! ### Non-vacuity (concrete cells, evaluated) -/

example : connect (fun _ => true) none { kind := .mem, subset := none } = .negotiated "2026-07-28" := by decide
example : connect (fun _ => true) none { kind := .sse, subset := none } = .negotiated "2025-11-25" := by decide
example : connect (fun _ => true) (some "2027-01-01") { kind := .stateless, subset := none } = .negotiated "2026-07-28" := by decide
example : connect (fun _ => true) (some "2024-01-01") { kind := .stateful, subset := none } = .negotiated "2025-11-25" := by decide
/-- F10 repaired: a transport advertising only 2025-06-18 gets 2025-06-18 … -/
example : connect (fun _ => true) none { kind := .mem, subset := some ["2025-06-18"] } = .negotiated "2025-06-18" := by decide
/-- … and a transport serving no legacy version makes the legacy handshake fail. -/
example : connect (fun _ => true) (some "2025-06-18") { kind := .pipe, subset := some ["2026-07-28"] } = .error := by decide

/-! Foreign peers (non-vacuity of the `connectPeer` theorems). -/

/-- a legacy server: discover unavailable (e.g. HTTP 404 text), initialize answered at 2025-06-18 -/
def legacyPeer : Peer := { discover := fun _ => .unavailable, init := fun _ => some "2025-06-18" }
example : connectPeer none legacyPeer = .negotiated "2025-06-18" := by decide
/-- m7's shape: an unknown in-range answer makes Connect fail -/
example : connectPeer none { legacyPeer with init := fun _ => some "2026-03-01" } = .error := by decide
example : connectPeer (some "2025-06-18") { legacyPeer with init := fun _ => some "2025-01-15" } = .error := by decide
/-- F30 repaired: a lax modern peer listing the unknown requested version gets the best mutual one -/
example : connectPeer (some "2099-12-31")
    { discover := fun _ => .result ["2099-12-31", "2026-07-28"], init := fun _ => none } = .negotiated "2026-07-28" := by decide
/-- … and when it lists nothing the SDK implements, the initialize handshake decides -/
example : connectPeer (some "2099-12-31")
    { discover := fun _ => .result ["2099-12-31"], init := fun _ => none } = .error := by decide
/-- renegotiation: -32022 naming 2026-07-28, then a DiscoverResult -/
example : connectPeer (some "2099-12-31")
    { discover := fun v => if v = "2026-07-28" then .result ["2026-07-28"] else .unsupported ["2026-07-28"],
      init := fun _ => none } = .negotiated "2026-07-28" := by decide
/-- one Server: stateless, then stateful, then stateless again -/
example : runSeq (fun _ _ => true) {} [⟨none, { kind := .stateless, subset := none }⟩,
    ⟨none, { kind := .stateful, subset := none }⟩, ⟨none, { kind := .stateless, subset := none }⟩] =
    [.negotiated "2026-07-28", .negotiated "2025-11-25", .negotiated "2026-07-28"] := by decide

end Negotiate
