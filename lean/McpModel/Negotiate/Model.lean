import McpModel.Generated.NegotiateGen
/-
E4 — model of protocol-version negotiation.  Serves C07.

`connect` is a total function of (requested version string or default, transport kind, the subset a
wrapping transport advertises, HTTP options, and `wireOK`) composing
  client  `Client.Connect` (mcp/client.go:308-411): default/explicit version, the `>= 2026-07-28`
          threshold, two discover rounds with one renegotiation, fallback to `initialize` with
          2025-11-25, verification of the server's answer;
          `Client.discover` (client.go:413-458): pick requested-or-best, reject a legacy result;
  server  `ServerSession.handle`: a `server/discover` probe naming a version the SDK does not know ⇒
          -32022 carrying the versions the session's TRANSPORT serves (F34 repair; the probe itself is
          exempt from the transport test that every other method's `_meta` version undergoes); `Server.discover` (server.go:878-917): advertise the session's transport
          filter; `ServerSession.initialize` (server.go:1995-2020): `negotiatedVersion`, then (F10
          repair) `legacyVersionFor` against the transport filter;
  filter  `filterSupportedVersions` (server.go:919-935) over `SupportsProtocolVersion` of the
          transport (SSE, streamable; in-memory and io transports do not implement the interface).
The version list, constants, `negotiatedVersion`, `negotiateMutuallySupportedVersion`,
`legacyVersionFor` and the two `SupportsProtocolVersion` bodies are REGENERATED
(`Generated.Negotiate`); the control flow above is hand-written and pinned by the structural facts
`negotiate.flow`.

`wireOK v` abstracts the one transport effect that depends on the *spelling* of the version: a
server/discover request annotated with `v` reaches the server's version check intact.  On HTTP the
version also travels in the `Mcp-Protocol-Version` header, so a string that is not a valid header
value (or is changed by header trimming) makes that exchange fail and the client falls back.  The
theorems hold for every `wireOK`.
JSON responses / event store do not influence negotiation (they are carried to show exactly that).
Core Lean only (linked into the driver).
-/
namespace Negotiate
open Generated.Negotiate

inductive TKind | mem | pipe | sse | stateful | stateless
deriving DecidableEq, Repr

/-- Where the SDK's own `LoggingTransport` sits in the server's transport stack: not at all, outermost
(`LoggingTransport{wrapper{t}}`), or inside the user's wrapper (`wrapper{LoggingTransport{t}}`). -/
inductive LogPos | none | outer | inner
deriving DecidableEq, Repr

structure Setup where
  kind : TKind
  subset : Option (List String)   -- versions a wrapping transport admits (`none`: no wrapper)
  json : Bool := false
  store : Bool := false
  logging : LogPos := .none

inductive Outcome
  | error
  | negotiated (v : String)
deriving DecidableEq, Repr

/-- The threshold of the stateless protocol. -/
abbrev modern : String := protocolVersion20260728
/-- What the client sends when it falls back to `initialize`. -/
abbrev fallbackVersion : String := protocolVersion20251125

/-- `SupportsProtocolVersion` of the built-in server transport (transports that do not implement
`ProtocolVersionSupporter` support everything). -/
def kindSupports : TKind → String → Bool
  | .mem, _ => true
  | .pipe, _ => true
  | .sse, v => sseSupportsProtocolVersion v
  | .stateful, v => streamableSupportsProtocolVersion false v
  | .stateless, v => streamableSupportsProtocolVersion true v

/-- The wrapped transport: inner support ∧ membership in the advertised subset. -/
def transportSupports (S : Setup) (v : String) : Bool :=
  kindSupports S.kind v && (match S.subset with | none => true | some l => l.contains v)

/-- `filterSupportedVersions(t)` = `ServerSession.supportedVersions`. -/
def advertised (S : Setup) : List String := supportedProtocolVersions.filter (transportSupports S)

/-! ### the transport stack as the code sees it

`filterSupportedVersions(t)` asks the OUTERMOST transport value `t.(ProtocolVersionSupporter)`.  A
transport that does not implement the interface counts as serving everything; a wrapper serves what
it says.  `transportSupports` above is what the stack can REALLY serve (a `LoggingTransport` adds
nothing and removes nothing); `stackSupports` is what `Server.Connect` reads off the stack, layer by
layer.  They agree iff every wrapper forwards the question (`Props.stack_eq_transport`): the harness's
wrapper does, `LoggingTransport` does since the F46 repair (`loggingTransportForwards`, regenerated). -/

/-- `t.(ProtocolVersionSupporter)`: `none` = the interface is not implemented. -/
abbrev Pvs := Option (String → Bool)

/-- How `filterSupportedVersions` reads a `Pvs`. -/
def Pvs.supports : Pvs → String → Bool
  | none, _ => true
  | some f, v => f v

def kindPvs : TKind → Pvs
  | .mem => none
  | .pipe => none
  | .sse => some sseSupportsProtocolVersion
  | .stateful => some (streamableSupportsProtocolVersion false)
  | .stateless => some (streamableSupportsProtocolVersion true)

/-- `LoggingTransport{inner}`: with the method (F46 repair) it answers what the inner transport answers,
`true` when that one has no opinion; without the method it does not implement the interface. -/
def loggingPvsWith (forwards : Bool) (inner : Pvs) : Pvs :=
  if forwards then some (inner.supports) else none

def loggingPvs (inner : Pvs) : Pvs := loggingPvsWith loggingTransportForwards inner

/-- A forwarding user wrapper admitting `l` (the harness's `ngWrap`): inner answer ∧ membership. -/
def maskPvs (l : List String) (inner : Pvs) : Pvs := some fun v => inner.supports v && l.contains v

def stackPvs (S : Setup) : Pvs :=
  match S.logging, S.subset with
  | .none, none => kindPvs S.kind
  | .none, some l => maskPvs l (kindPvs S.kind)
  | .outer, none => loggingPvs (kindPvs S.kind)
  | .outer, some l => loggingPvs (maskPvs l (kindPvs S.kind))
  | .inner, none => loggingPvs (kindPvs S.kind)
  | .inner, some l => maskPvs l (loggingPvs (kindPvs S.kind))

/-- What `Server.Connect` reads off the stack for version `v`. -/
def stackSupports (S : Setup) (v : String) : Bool := (stackPvs S).supports v

/-- `filterSupportedVersions(t)` on the stack. -/
def advertisedStack (S : Setup) : List String := supportedProtocolVersions.filter (stackSupports S)

inductive Disc
  | ok (v : String)            -- discover succeeded with this negotiated version
  | unsupported (data : List String)   -- -32022 carrying `supported`
  | failed                     -- any other error: the client breaks out of the loop

/-- `Client.discover`'s choice: the requested version if the server lists it, else the best mutual one. -/
def pick (adv : List String) (v : String) : String :=
  if adv.contains v then v else negotiateMutuallySupportedVersion adv

/-- One server/discover round with `_meta.protocolVersion = v`. -/
def discoverOnce (wireOK : String → Bool) (S : Setup) (v : String) : Disc :=
  if wireOK v = false then .failed
  else if supportedProtocolVersions.contains v = false then .unsupported (advertised S)
  else if pick (advertised S) v = "" ∨ pick (advertised S) v < modern then .failed
  else .ok (pick (advertised S) v)

/-- The `for range 2` loop of `Client.Connect`: `none` = fall back to initialize. -/
def discoverLoop (wireOK : String → Bool) (S : Setup) (pv : String) : Option String :=
  match discoverOnce wireOK S pv with
  | .ok n => some n
  | .failed => none
  | .unsupported data =>
    if negotiateMutuallySupportedVersion data ≠ "" ∧ ¬ negotiateMutuallySupportedVersion data < modern then
      match discoverOnce wireOK S (negotiateMutuallySupportedVersion data) with
      | .ok n => some n
      | _ => none
    else none

/-- The `initialize` exchange with `params.protocolVersion = iv`, including the client's check of
the answer (`legacyVersionFor` is the F10 repair; `""` makes the server answer with an error). -/
def initHandshake (S : Setup) (iv : String) : Outcome :=
  if legacyVersionFor (negotiatedVersion iv) (advertised S) = "" then .error
  else if legacyVersionFor (negotiatedVersion iv) (advertised S) ∈ supportedProtocolVersions then
    .negotiated (legacyVersionFor (negotiatedVersion iv) (advertised S))
  else .error

/-- The protocol version the client starts from. -/
def startVersion (requested : Option String) : String :=
  match requested with
  | none => latestProtocolVersion
  | some s => if s = "" then latestProtocolVersion else s

def connect (wireOK : String → Bool) (requested : Option String) (S : Setup) : Outcome :=
  if startVersion requested < modern then initHandshake S (startVersion requested)
  else match discoverLoop wireOK S (startVersion requested) with
    | some n => .negotiated n
    | none => initHandshake S fallbackVersion

end Negotiate
