import McpModel.Negotiate.Model
/-
E4 — the CLIENT side of version negotiation against an ARBITRARY peer, and sequences of
connections to one `Server` value.  Serves C07.

`Model.lean` composes the SDK client with the SDK server.  Here the server is abstracted to what
the client can observe of it:

  `Peer.discover v`  the answer to a `server/discover` probe whose `_meta` names version `v`:
       `.unavailable`        every answer that is not a DiscoverResult and not a -32022 error
                             carrying `data.supported`: an HTTP error status with a text body
                             (404/405/400/5xx: a legacy server, a method-routing gateway), a JSON-RPC
                             error of any other code in any HTTP status, -32022 without data, a
                             request that never reached the peer (`Client.Connect` breaks out of the
                             discover loop on *any* such error; the streamable client transport
                             wraps every failed discover POST with `ErrRejected`, so the connection
                             survives: fact `httpclient.discover_rejected`);
       `.unsupported data`   JSON-RPC error -32022 with `data.supported = data`;
       `.result versions`    a DiscoverResult listing `versions` (arbitrary strings);
  `Peer.init iv`     the answer to `initialize` with `params.protocolVersion = iv`: `some v` =
                     an InitializeResult naming `v` (an arbitrary string), `none` = an error.

`connectPeer` is `Client.Connect` (client.go:308-411) + `Client.discover` (client.go:413-458)
against such a peer.  `sdkPeer wireOK S` is the SDK server behind transport setup `S`;
`connect_eq_connectPeer` (Props) shows `Model.connect` is exactly that instance, so everything proved
about `connectPeer` for all peers also holds SDK x SDK.

`pickC` is the client's choice from a DiscoverResult WITH the negotiate-F30 repair
(fixes/negotiate-F30-discover-requested-version-must-be-supported.patch): the requested version is
taken only if the SDK itself implements it (pinned by fact `client.discover_pick`; on an unrepaired
tree that fact fails and the harness exhibits the defect on a concrete foreign peer, clause
"C07: F30 …").  Against the SDK server the conjunct is redundant (the server answers -32022 to a
probe naming an unknown version), which is why `Model.pick` does without it.

`peerVerdict` is the property C07 as a decidable predicate on an observed outcome against a peer
(the typed core of the monitor for foreign-peer cells: `Monitor.monitorPeer`); `peerVerdict_model`
(Props) proves that the model's own outcome always passes it, `Sound.lean` that each clause it
reports contradicts the property.

`Srv`/`runSeq` model ONE `Server` value connected several times in sequence through different
transport configurations: the session's version filter is computed from THIS session's transport
(`ss.supportedVersions = filterSupportedVersions(t)`, fact `server.session_filter`), so a step's
outcome does not depend on the history.
Core Lean only (linked into the driver).
-/
namespace Negotiate
open Generated.Negotiate

inductive DiscResp
  | unavailable
  | unsupported (data : List String)
  | result (versions : List String)
deriving Repr

structure Peer where
  discover : String → DiscResp
  init : String → Option String

/-- `Client.discover`'s choice from a DiscoverResult (with the F30 repair: the requested version is
honoured only when this SDK implements it). -/
def pickC (vs : List String) (v : String) : String :=
  if vs.contains v && supportedProtocolVersions.contains v then v
  else negotiateMutuallySupportedVersion vs

/-- What the client makes of one discover answer (`Client.discover` + the error classification in
`Client.Connect`). -/
def clientDiscover (resp : DiscResp) (v : String) : Disc :=
  match resp with
  | .unavailable => .failed
  | .unsupported data => .unsupported data
  | .result vs => if pickC vs v = "" ∨ pickC vs v < modern then .failed else .ok (pickC vs v)

/-- The `for range 2` loop of `Client.Connect` against a peer: `none` = fall back to initialize. -/
def peerLoop (P : Peer) (pv : String) : Option String :=
  match clientDiscover (P.discover pv) pv with
  | .ok n => some n
  | .failed => none
  | .unsupported data =>
    if negotiateMutuallySupportedVersion data ≠ "" ∧ ¬ negotiateMutuallySupportedVersion data < modern then
      match clientDiscover (P.discover (negotiateMutuallySupportedVersion data))
          (negotiateMutuallySupportedVersion data) with
      | .ok n => some n
      | _ => none
    else none

/-- The `initialize` exchange and the client's verification of the answer
(`slices.Contains(supportedProtocolVersions, res.ProtocolVersion)`). -/
def peerInit (P : Peer) (iv : String) : Outcome :=
  match P.init iv with
  | none => .error
  | some v => if v ∈ supportedProtocolVersions then .negotiated v else .error

def connectPeer (requested : Option String) (P : Peer) : Outcome :=
  if startVersion requested < modern then peerInit P (startVersion requested)
  else match peerLoop P (startVersion requested) with
    | some n => .negotiated n
    | none => peerInit P fallbackVersion

/-- The SDK server behind transport setup `S`, as the client sees it. -/
def sdkPeer (wireOK : String → Bool) (S : Setup) : Peer where
  discover v :=
    if wireOK v = false then .unavailable
    else if supportedProtocolVersions.contains v = false then .unsupported (advertised S)
    else .result (advertised S)
  init iv :=
    if legacyVersionFor (negotiatedVersion iv) (advertised S) = "" then none
    else some (legacyVersionFor (negotiatedVersion iv) (advertised S))

/-- The version the legacy handshake is attempted with. -/
def legacyRequest (requested : Option String) : String :=
  if startVersion requested < modern then startVersion requested else fallbackVersion

/-! ### The property as a predicate on an observed outcome (monitor for foreign-peer cells) -/

/-- The DiscoverResult lists the client gets to see: the answer to its first probe, or — after a
-32022 naming a modern mutually supported version — the answer to the second one. -/
def discLists (P : Peer) (pv : String) : List (List String) :=
  match P.discover pv with
  | .result vs => [vs]
  | .unsupported data =>
    if negotiateMutuallySupportedVersion data ≠ "" ∧ ¬ negotiateMutuallySupportedVersion data < modern then
      match P.discover (negotiateMutuallySupportedVersion data) with
      | .result vs => [vs]
      | _ => []
    else []
  | .unavailable => []

/-- The requested version is supported by the SDK and by the peer, on the path it travels. -/
def peerMutual (requested : Option String) (P : Peer) : Bool :=
  supportedProtocolVersions.contains (startVersion requested) &&
  (if startVersion requested < modern then P.init (startVersion requested) == some (startVersion requested)
   else match P.discover (startVersion requested) with
     | .result vs => vs.contains (startVersion requested)
     | _ => false)

/-- The clauses of C07 a foreign-peer cell can violate (texts: `Driver.peerClauseText`). -/
inductive PClause
  | f30                  -- negotiated the requested version although this SDK does not implement it
  | notSDK               -- negotiated version is not supported by the SDK
  | legacyNotInit        -- a legacy version that the peer did not answer the initialize handshake with
  | notOffered           -- offered neither by a DiscoverResult nor by the initialize answer
  | mutualDiff           -- requested version mutually supported but a different one negotiated
  | mutualErr            -- connect failed although the requested version is mutually supported
  | fallbackLegacy       -- failed although the peer answers the requested legacy handshake with a supported version
  | fallbackUnavailable  -- no fallback although discovery is unavailable and initialize would succeed
  | fallbackNoOverlap    -- no fallback although discovery yields no modern overlap and initialize would succeed
  | cannotUse            -- connected session cannot list and call tools
  | unreadable           -- unreadable negotiated version
  | crashed              -- connect crashed or produced no outcome
deriving DecidableEq, Repr

/-- Why the initialize handshake was due (which fallback clause). -/
def clFallback (requested : Option String) (P : Peer) : PClause :=
  if startVersion requested < modern then .fallbackLegacy
  else match P.discover (startVersion requested) with
    | .unavailable => .fallbackUnavailable
    | _ => .fallbackNoOverlap

def peerVerdict (requested : Option String) (P : Peer) (o : Outcome) : Option PClause :=
  match o with
  | .negotiated v =>
    if supportedProtocolVersions.contains v = false then
      some (if v = startVersion requested then .f30 else .notSDK)
    else if v < modern ∧ P.init (legacyRequest requested) ≠ some v then some .legacyNotInit
    else if ¬ v < modern ∧ P.init (legacyRequest requested) ≠ some v ∧
        ¬ (¬ startVersion requested < modern ∧ (discLists P (startVersion requested)).any (·.contains v) = true) then
      some .notOffered
    else if peerMutual requested P = true ∧ v ≠ startVersion requested then some .mutualDiff
    else none
  | .error =>
    if peerMutual requested P = true then some .mutualErr
    else match P.init (legacyRequest requested) with
      | some w => if supportedProtocolVersions.contains w = true then some (clFallback requested P) else none
      | none => none

/-! ### One Server, several connections in sequence -/

/-- The part of a `Server` value that outlives a session, as far as negotiation could see it: the
transports connected so far. -/
structure Srv where
  history : List Setup := []

structure Step where
  requested : Option String
  setup : Setup

/-- `Server.Connect(t)` + `Client.Connect`: the session's filter is computed from `t` alone. -/
def Srv.step (wire : TKind → String → Bool) (σ : Srv) (s : Step) : Srv × Outcome :=
  ({ history := s.setup :: σ.history }, connect (wire s.setup.kind) s.requested s.setup)

def runSeq (wire : TKind → String → Bool) : Srv → List Step → List Outcome
  | _, [] => []
  | σ, s :: rest => (σ.step wire s).2 :: runSeq wire (σ.step wire s).1 rest

end Negotiate
