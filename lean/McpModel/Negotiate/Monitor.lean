import McpModel.Negotiate.Peer
/-!
E4 — the typed core of the C07 monitors.

The driver (Driver.lean) parses a cell of the configuration matrix (`connect`/`step`: requested
version, transport setup; `foreign`: requested version, scripted peer) and the implementation's
observation into an `Obs`, calls `monitor` / `monitorPeer`, and renders the clause.  The monitors are
the property itself evaluated on what the implementation did; they read the regenerated version list
and transport filters (`supportedProtocolVersions`, `transportSupports`, `advertised`), never
`connect` / `connectPeer`.  Bridge: `Sound.monitor_accepts_model`, `Props.peerVerdict_model`;
soundness per clause: Sound.lean.  Core Lean only (linked into the driver).
-/
namespace Negotiate
open Generated.Negotiate

/-- The implementation's observation of one `Client.Connect`. -/
inductive Obs
  | ok (v : String) (list call : Bool)   -- connected at `v`; ListTools / CallTool right after Connect worked?
  | garbled                              -- connected, the negotiated version is unreadable
  | error                                -- Connect returned an error
  | other                                -- crashed, or no outcome
deriving DecidableEq, Repr

/-- The clauses of C07 a cell of the SDK × SDK matrix can violate (texts: `Driver.clauseText`). -/
inductive Clause
  | unreadable        -- unreadable negotiated version
  | notSDK            -- negotiated version is not supported by the SDK
  | f10               -- initialize negotiated a legacy version that the transport does not advertise
  | notTransport      -- negotiated version is not supported by the transport
  | modernOnStateful  -- 2026-07-28 negotiated over SSE or a stateful HTTP endpoint
  | mutualDiff        -- requested version is mutually supported but a different one was negotiated
  | cannotUse         -- connected session cannot list and call tools
  | mutualErr         -- connect failed although the requested version is mutually supported
  | noFallback        -- connect failed although the transport serves a legacy version
  | crashed           -- connect crashed or produced no outcome
deriving DecidableEq, Repr

def isLegacy (v : String) : Bool := decide (v < modern)

/-- The requested version is supported by both SDK sides and by the (wrapped) transport. -/
def mutualOK (req : Option String) (S : Setup) : Bool :=
  supportedProtocolVersions.contains (startVersion req) && transportSupports S (startVersion req)

/-- **The C07 monitor of one SDK × SDK cell.** -/
def monitor (req : Option String) (S : Setup) : Obs → Option Clause
  | .ok v l c =>
    if !supportedProtocolVersions.contains v then some .notSDK
    else if !transportSupports S v then
      if isLegacy v then some .f10 else some .notTransport
    else if (S.kind == .sse || S.kind == .stateful) && !isLegacy v then some .modernOnStateful
    else if mutualOK req S && v != startVersion req then some .mutualDiff
    else if !l || !c then some .cannotUse
    else none
  | .garbled => some .unreadable
  | .error =>
    if mutualOK req S then some .mutualErr
    else if (advertised S).any isLegacy then some .noFallback
    else none
  | .other => some .crashed

/-- The matrix clauses plus the classification of F46's failing shape. -/
inductive ClauseW
  | base (c : Clause)
  | hiddenFilter   -- the transport cannot serve the negotiated version and a LoggingTransport sits in the stack
deriving DecidableEq, Repr

/-- **The monitor the driver runs**: `monitor`, with "not supported by the transport" reported under its
own clause when a `LoggingTransport` is part of the server's transport stack (F46's shape). It fires
exactly when `monitor` does (`Stack.monitorW_none_iff`). -/
def monitorW (req : Option String) (S : Setup) (o : Obs) : Option ClauseW :=
  match monitor req S o with
  | none => none
  | some c =>
    if (c == .f10 || c == .notTransport) && S.logging != .none then some .hiddenFilter else some (.base c)

/-- **The C07 monitor of one foreign-peer cell.** -/
def monitorPeer (req : Option String) (P : Peer) : Obs → Option PClause
  | .ok v l c =>
    match peerVerdict req P (.negotiated v) with
    | some cl => some cl
    | none => if !l || !c then some .cannotUse else none
  | .garbled => some .unreadable
  | .error => peerVerdict req P .error
  | .other => some .crashed

/-! ### the driver's instance of `wireOK` -/

/-- Go's `httpguts.ValidHeaderFieldValue`: the request can be sent at all.  Go tests the BYTES
(`b ≥ 0x20 ∧ b ≠ 0x7f ∨ b = '\t'`); every byte of the UTF-8 encoding of a non-ASCII character is
≥ 0x80, so the test on characters is the same test (and it evaluates in the kernel: `supported_wire_ok`). -/
def headerValid (s : String) : Bool :=
  s.toList.all (fun c => (c.toNat ≥ 0x20 && c.toNat != 0x7f) || c.toNat == 0x09)

/-- `headerValid` plus "unchanged by header trimming" (the SDK server compares the header with the
body's `_meta` version; a foreign peer is not assumed to). -/
def headerSafe (s : String) : Bool :=
  let cs := s.toList
  headerValid s &&
    (match cs.head? with | some c => c.toNat != 0x20 && c.toNat != 0x09 | none => true) &&
    (match cs.getLast? with | some c => c.toNat != 0x20 && c.toNat != 0x09 | none => true)

def wireFor (k : TKind) : String → Bool :=
  match k with
  | .mem | .pipe | .sse => fun _ => true   -- the SSE client does not send Mcp-Protocol-Version
  | _ => headerSafe

/-- What the monitor would be given if the implementation behaved exactly like the model. -/
def obsOf : Outcome → Obs
  | .negotiated v => .ok v true true
  | .error => .error

end Negotiate
