import McpModel.Paginate.Props
import McpModel.Paginate.Accept
/-!
# C17 — registrations that are not one atomic step, and registrations that are refused

`Server.AddTool` is two sections: it first VALIDATES the tool (tool name, input / output schema — this
marshals the schemas it was given, i.e. runs user code — and the x-mcp-header annotations) without
holding `Server.mu` and without reading any server state (structural fact `paginate.add_sections`),
and then REGISTERS it (`changeAndNotify`: `tools.add` under `Server.mu`).  Anything can happen on the
server between the two: the tool of that name removed, other tools added, the listing traversed (which
rebuilds the sorted index).  `AddResource` / `AddResourceTemplate` validate inside their registering
section, and every `Add*` refuses (panics) before `featureSet.add` when validation fails.

Labels (`Op2`): everything `Op` has, `validate f` (the first section: no effect), `commit f` (the
second: `add [f]`), `refused f` (a registration that panics: no effect).  The harness records them as
`addhold` / `addrelease` / `addbad`; the driver maps the first and the last to `Rec.readonly none` and
`addrelease` to `Rec.add`, which is exactly `stepOp2` (`stepOp2_validate`, `stepOp2_refused`,
`stepOp2_commit`).
-/
set_option linter.unusedSectionVars false
namespace Paginate
variable {κ ν C : Type} [KOrd κ] [DecidableEq κ] [DecidableEq C]

inductive Op2 (κ ν C : Type)
  | op (o : Op κ ν C)
  | validate (f : κ × ν)
  | commit (f : κ × ν)
  | refused (f : κ × ν)

def stepOp2 (cod : Codec κ C) (s : FS κ ν) : Op2 κ ν C → FS κ ν
  | .op o => stepOp cod s o
  | .validate _ => s
  | .commit f => s.add [f]
  | .refused _ => s

def op2OK : Op2 κ ν C → Prop
  | .op o => opOK o
  | _ => True

theorem stepOp2_validate (cod : Codec κ C) (s : FS κ ν) (f : κ × ν) : stepOp2 cod s (.validate f) = s := rfl
theorem stepOp2_refused (cod : Codec κ C) (s : FS κ ν) (f : κ × ν) : stepOp2 cod s (.refused f) = s := rfl
theorem stepOp2_commit (cod : Codec κ C) (s : FS κ ν) (f : κ × ν) :
    stepOp2 cod s (.commit f) = stepOp cod s (.add [f]) := rfl

/-- Reachability with registrations in flight: after any sequence of registrations (atomic, or split
into validation and registering sections with anything in between, any number of them in flight at
once), refused registrations, removals and list requests the index invariant holds. -/
theorem wf_reachable2 (cod : Codec κ C) (ops : List (Op2 κ ν C)) (hp : ∀ op ∈ ops, op2OK op) :
    WF (ops.foldl (stepOp2 cod) (FS.empty : FS κ ν)) := by
  suffices h : ∀ (s : FS κ ν), WF s → WF (ops.foldl (stepOp2 cod) s) from h _ wf_empty
  induction ops with
  | nil => intro s h; exact h
  | cons op r ih =>
    intro s h
    simp only [List.foldl_cons]
    apply ih (fun o ho => hp o (List.mem_cons_of_mem _ ho))
    have hop := hp op (List.mem_cons_self ..)
    cases op with
    | op o =>
      cases o with
      | add fs => exact wf_add s fs h
      | remove uids => exact wf_remove s uids h
      | list p cur => exact (paginate_spec cod p hop s h cur).1
    | validate f => exact h
    | commit f => exact wf_add s [f] h
    | refused f => exact h

theorem mem_insF_self (k : κ) (v : ν) : ∀ (m : List (κ × ν)), (k, v) ∈ insF k v m
  | [] => by simp [insF]
  | (k', v') :: r => by
    simp only [insF]
    split
    · simp
    · split
      · exact List.mem_cons_of_mem _ (mem_insF_self k v r)
      · simp

/-- **held_add_registered.** Whatever happened before the validation section of a registration of `f`
(`pre`) and between it and its registering section (`mid`: the same name removed, replaced, other
registrations — atomic, split or refused —, list requests with any cursor, which rebuild the index):
once the registering section has run, a traversal from the first page (any page size ≥ 1) reaches the
empty cursor without failing, and returns exactly the registered entries, `f` — with the value given to
THIS registration — among them. -/
theorem held_add_registered (cod : Codec κ C) (p : Nat) (hp : 1 ≤ p) (f : κ × ν)
    (pre mid : List (Op2 κ ν C)) (hpre : ∀ op ∈ pre, op2OK op) (hmid : ∀ op ∈ mid, op2OK op)
    (m : Nat) :
    let s := (pre ++ [Op2.validate f] ++ mid ++ [Op2.commit f]).foldl (stepOp2 cod) (FS.empty : FS κ ν)
    s.feats.length ≤ m * p + p →
    WF s ∧ f ∈ s.feats ∧
    (trav cod p (List.replicate m []) s cod.nil).done = true ∧
    (trav cod p (List.replicate m []) s cod.nil).failed = false ∧
    (trav cod p (List.replicate m []) s cod.nil).pages.flatten = s.feats ∧
    f ∈ (trav cod p (List.replicate m []) s cod.nil).pages.flatten := by
  intro s hm
  have hall : ∀ op ∈ pre ++ [Op2.validate f] ++ mid ++ [Op2.commit f], op2OK op := by
    intro op ho
    simp only [List.mem_append, List.mem_singleton] at ho
    rcases ho with ((h | h) | h) | h
    · exact hpre op h
    · subst h; trivial
    · exact hmid op h
    · subst h; trivial
  have hwf : WF s := wf_reachable2 cod _ hall
  have hmem : f ∈ s.feats := by
    show f ∈ ((pre ++ [Op2.validate f] ++ mid ++ [Op2.commit f]).foldl (stepOp2 cod) (FS.empty : FS κ ν)).feats
    rw [List.foldl_append]
    simp only [List.foldl_cons, List.foldl_nil, stepOp2, FS.add]
    exact mem_insF_self f.1 f.2 _
  have t := traversal_is_sorted_keys cod p hp s hwf m hm
  exact ⟨hwf, hmem, t.1, t.2.1, t.2.2.1, by rw [t.2.2.1]; exact hmem⟩

/-- **held_add_stable.** The same with mutations going on after the registering section (any history of
batches between the page fetches of the traversal): if this registration's name stays registered at
every fetch, a traversal that reaches the empty cursor has returned it exactly once; nothing is returned
twice and no fetch fails. -/
theorem held_add_stable (cod : Codec κ C) (p : Nat) (hp : 1 ≤ p) (f : κ × ν)
    (pre mid : List (Op2 κ ν C)) (hpre : ∀ op ∈ pre, op2OK op) (hmid : ∀ op ∈ mid, op2OK op)
    (hist : List (List (Mut κ ν))) :
    let s := (pre ++ [Op2.validate f] ++ mid ++ [Op2.commit f]).foldl (stepOp2 cod) (FS.empty : FS κ ν)
    let t := trav cod p hist s cod.nil
    (keys t.items).Nodup ∧ t.failed = false ∧
    (t.done = true → (∀ st ∈ t.states, f.1 ∈ keys st.feats) → (keys t.items).count f.1 = 1) := by
  intro s t
  have hall : ∀ op ∈ pre ++ [Op2.validate f] ++ mid ++ [Op2.commit f], op2OK op := by
    intro op ho
    simp only [List.mem_append, List.mem_singleton] at ho
    rcases ho with ((h | h) | h) | h
    · exact hpre op h
    · subst h; trivial
    · exact hmid op h
    · subst h; trivial
  have hwf : WF s := wf_reachable2 cod _ hall
  have e := stable_items_exactly_once cod p hp s hwf hist
  exact ⟨e.2.1, e.2.2.1, fun hd hk => e.2.2.2.2.2 hd f.1 hk⟩

/-- **release_demands_listing.** What the monitor demands after the registering section: the registry it
judges every later page against (`regAdd`) lists the tool — with this registration's value, once — from
the first page on, whatever was registered, removed or listed before. -/
theorem release_demands_listing (reg : List Item) (f : Item) :
    f ∈ specRest (regAdd reg f) .nil ∧ ∀ g ∈ specRest (regAdd reg f) .nil, g.1 = f.1 → g = f := by
  constructor
  · simp [specRest, above, mem_sortReg, mem_regAdd]
  · intro g hg hk
    simp only [specRest, List.mem_filter, mem_sortReg, mem_regAdd] at hg
    rcases hg.1 with ⟨_, hne⟩ | h
    · exact absurd hk hne
    · exact h

/-- A registering section that keeps the sorted index because "the name was registered when I looked"
(decided in the validation section). -/
def FS.replaceKeep (s : FS κ ν) (f : κ × ν) : FS κ ν := { feats := insF f.1 f.2 s.feats, cache := s.cache }

/-- **commit_needs_invalidation.** The registering section must not rely on anything the validation
section saw: tools 1 2 3, a replacement of 2 validated, 2 removed, the listing fetched (index rebuilt:
1 3), then the replacement stored with the index kept — 2 is registered and no traversal returns it. -/
theorem commit_needs_invalidation :
    let s0 := (FS.empty : FS Nat Nat).add [(1, 10), (2, 20), (3, 30)]
    let s1 := (paginate natCodec 2 (s0.remove [2]).1 0).1
    let s2 := s1.replaceKeep (2, 21)
    (2, 21) ∈ s2.feats ∧ (trav natCodec 2 [[], []] s2 0).done = true ∧
      (2, 21) ∉ (trav natCodec 2 [[], []] s2 0).pages.flatten ∧
      (2, 21) ∈ (trav natCodec 2 [[], []] (s1.add [(2, 21)]) 0).pages.flatten := by decide

/-- Page size 1, a replacement of `2` validated, `2` removed and the listing walked in between: three
pages, the replacement's value listed. -/
example : (trav natCodec 1 (List.replicate 2 [])
    (([Op2.op (.add [(1, 10), (2, 20), (3, 30)]), .validate (2, 21), .op (.remove [2]), .op (.list 1 0), .op (.list 1 2),
      .commit (2, 21)] : List (Op2 Nat Nat Nat)).foldl (stepOp2 natCodec) FS.empty) 0).pages
    = [[(1, 10)], [(2, 21)], [(3, 30)]] := by decide

/-- **sections_are_records.** The records the driver makes of the sections: `addhold` (validation) and
`addbad` (refused) are `Rec.readonly none` — the model's state and the monitor's state stay as they are,
no clause —, `addrelease` is `Rec.add` of the one tool: the model runs `FS.add [f]` (= `stepOp2 … (.commit f)`),
the monitor's registry `regAdd`. -/
theorem sections_are_records (ms : ModState) (s : MState) (kind : Kind) (f : Item) (ok : Bool) :
    modStep ms (.readonly none) = (ms, .readonly none) ∧ monStep s (.readonly none) = (s, none) ∧
    ((modStep ms (.add kind [f] ok)).1.get kind).fs = stepOp2 dcodec (ms.get kind).fs (.commit f) ∧
    ((monStep s (.add kind [f] ok)).1.get kind).reg = regAdd (s.get kind).reg f := by
  refine ⟨rfl, rfl, ?_, ?_⟩ <;> cases kind <;> rfl

end Paginate
