import McpModel.Paginate.Monitor
import McpModel.Paginate.Lemmas
/-!
E13 (C17): facts about the monitor's registry (`regAdd`, `regRemove`, `sortReg`) and its page
specification (`specPage`), used by both Accept.lean (no clause on the model) and Sound.lean (clause
soundness): the registry keeps one entry per key, `sortReg` is THE ascending listing of it
(`sorted_ext`: there is only one), and `specPage` is "the first `p` entries of the listing above the
cursor" in the vocabulary of Lemmas.lean (`rest`, `nextOf`).
-/
set_option linter.unusedSectionVars false
set_option linter.unusedSimpArgs false
namespace Paginate

/-- One entry per key. -/
def RegOK (reg : List Item) : Prop := (keys reg).Nodup

theorem regOK_nil : RegOK [] := by simp [RegOK]

/-! ### two ascending lists with the same entries are equal -/

theorem sorted_head_min {κ ν : Type} [KOrd κ] {f : κ × ν} {l : List (κ × ν)} (h : Sorted (keys (f :: l))) :
    ∀ x ∈ l, lt f.1 x.1 = true := by
  intro x hx
  simp only [keys_cons, Sorted, List.pairwise_cons] at h
  exact h.1 x.1 (List.mem_map.2 ⟨x, hx, rfl⟩)

theorem sorted_ext {κ ν : Type} [KOrd κ] : ∀ (a b : List (κ × ν)), Sorted (keys a) → Sorted (keys b) →
    (∀ x, x ∈ a ↔ x ∈ b) → a = b
  | [], [], _, _, _ => rfl
  | [], y :: b, _, _, h => by have := (h y).2 (List.mem_cons_self ..); simp at this
  | x :: a, [], _, _, h => by have := (h x).1 (List.mem_cons_self ..); simp at this
  | x :: a, y :: b, ha, hb, h => by
    have hxa := sorted_head_min ha
    have hyb := sorted_head_min hb
    have hxy : x = y := by
      have h1 := (h x).1 (List.mem_cons_self ..)
      have h2 := (h y).2 (List.mem_cons_self ..)
      rcases List.mem_cons.1 h1 with e | hx
      · exact e
      · rcases List.mem_cons.1 h2 with e | hy
        · exact e.symm
        · have l1 := hyb x hx
          have l2 := hxa y hy
          have := KOrd.trans l1 l2
          rw [KOrd.irrefl] at this; cases this
    subst hxy
    have ha' : Sorted (keys a) := by
      simp only [keys_cons, Sorted, List.pairwise_cons] at ha; exact ha.2
    have hb' : Sorted (keys b) := by
      simp only [keys_cons, Sorted, List.pairwise_cons] at hb; exact hb.2
    have hx_not_a : x ∉ a := fun hx => by
      have := hxa x hx; rw [KOrd.irrefl] at this; cases this
    have hx_not_b : x ∉ b := fun hx => by
      have := hyb x hx; rw [KOrd.irrefl] at this; cases this
    have : a = b := by
      apply sorted_ext a b ha' hb'
      intro z
      constructor
      · intro hz
        rcases List.mem_cons.1 ((h z).1 (List.mem_cons_of_mem _ hz)) with e | hz'
        · subst e; exact absurd hz hx_not_a
        · exact hz'
      · intro hz
        rcases List.mem_cons.1 ((h z).2 (List.mem_cons_of_mem _ hz)) with e | hz'
        · subst e; exact absurd hz hx_not_b
        · exact hz'
    rw [this]

/-! ### sortReg -/

theorem mem_insSorted (f : Item) (l : List Item) (x : Item) : x ∈ insSorted f l ↔ x = f ∨ x ∈ l := by
  induction l with
  | nil => simp [insSorted]
  | cons g r ih =>
    simp only [insSorted]
    split
    · simp
    · simp only [List.mem_cons, ih]
      constructor
      · rintro (h | h | h) <;> simp [h]
      · rintro (h | h | h) <;> simp [h]

theorem length_insSorted (f : Item) (l : List Item) : (insSorted f l).length = l.length + 1 := by
  induction l with
  | nil => simp [insSorted]
  | cons g r ih =>
    simp only [insSorted]
    split <;> simp [ih]

theorem sorted_insSorted (f : Item) (l : List Item) (h : Sorted (keys l)) (hf : f.1 ∉ keys l) :
    Sorted (keys (insSorted f l)) := by
  induction l with
  | nil => simp [insSorted, Sorted]
  | cons g r ih =>
    have hgr := sorted_head_min h
    have hr : Sorted (keys r) := by
      simp only [keys_cons, Sorted, List.pairwise_cons] at h; exact h.2
    simp only [insSorted]
    split
    · rename_i hlt
      show List.Pairwise _ (f.1 :: keys (g :: r))
      refine List.pairwise_cons.2 ⟨?_, h⟩
      intro y hy
      rcases List.mem_cons.1 hy with e | hy
      · rw [e]; exact hlt
      · obtain ⟨z, hz, rfl⟩ := List.mem_map.1 hy
        exact KOrd.trans hlt (hgr z hz)
    · rename_i hlt
      have hne : f.1 ≠ g.1 := by intro e; apply hf; simp [e]
      have hgf : lt g.1 f.1 = true := by
        cases hc : lt g.1 f.1 with
        | true => rfl
        | false =>
          exact absurd (KOrd.tri (Bool.eq_false_iff.2 hlt) hc) hne
      have hf' : f.1 ∉ keys r := by intro hm; apply hf; simp [hm]
      have IH := ih hr hf'
      show List.Pairwise _ (g.1 :: keys (insSorted f r))
      refine List.pairwise_cons.2 ⟨?_, IH⟩
      intro y hy
      obtain ⟨z, hz, rfl⟩ := List.mem_map.1 hy
      rcases (mem_insSorted f r z).1 hz with e | hz
      · rw [e]; exact hgf
      · exact hgr z hz

theorem mem_sortReg (reg : List Item) (x : Item) : x ∈ sortReg reg ↔ x ∈ reg := by
  induction reg with
  | nil => simp [sortReg]
  | cons f r ih =>
    have : sortReg (f :: r) = insSorted f (sortReg r) := rfl
    rw [this, mem_insSorted, ih]; simp

theorem length_sortReg (reg : List Item) : (sortReg reg).length = reg.length := by
  induction reg with
  | nil => simp [sortReg]
  | cons f r ih =>
    have : sortReg (f :: r) = insSorted f (sortReg r) := rfl
    rw [this, length_insSorted, ih]; simp

theorem mem_keys_sortReg (reg : List Item) (k : K) : k ∈ keys (sortReg reg) ↔ k ∈ keys reg := by
  simp only [keys, List.mem_map]
  constructor
  · rintro ⟨x, hx, rfl⟩; exact ⟨x, (mem_sortReg reg x).1 hx, rfl⟩
  · rintro ⟨x, hx, rfl⟩; exact ⟨x, (mem_sortReg reg x).2 hx, rfl⟩

theorem sorted_sortReg (reg : List Item) (h : RegOK reg) : Sorted (keys (sortReg reg)) := by
  induction reg with
  | nil => simp [sortReg, Sorted]
  | cons f r ih =>
    have e : sortReg (f :: r) = insSorted f (sortReg r) := rfl
    simp only [RegOK, keys_cons, List.nodup_cons] at h
    rw [e]
    apply sorted_insSorted f _ (ih h.2)
    rw [mem_keys_sortReg]; exact h.1

/-- **`sortReg reg` is the one ascending listing of the registry.** -/
theorem sortReg_unique (reg L : List Item) (h : RegOK reg) (hs : Sorted (keys L)) (hm : ∀ x, x ∈ L ↔ x ∈ reg) :
    L = sortReg reg :=
  sorted_ext L (sortReg reg) hs (sorted_sortReg reg h) (fun x => by rw [hm, mem_sortReg])

/-! ### regAdd / regRemove -/

theorem mem_regAdd (reg : List Item) (f x : Item) : x ∈ regAdd reg f ↔ (x ∈ reg ∧ x.1 ≠ f.1) ∨ x = f := by
  simp [regAdd, List.mem_filter]

theorem mem_regRemove (reg : List Item) (ks : List K) (x : Item) : x ∈ regRemove reg ks ↔ x ∈ reg ∧ x.1 ∉ ks := by
  simp [regRemove, List.mem_filter]

theorem regOK_regAdd (reg : List Item) (f : Item) (h : RegOK reg) : RegOK (regAdd reg f) := by
  unfold RegOK regAdd at *
  rw [keys_append, List.nodup_append]
  refine ⟨(h.sublist ((List.filter_sublist (l := reg)).map _)), by simp [keys], ?_⟩
  intro a ha b hb
  simp only [keys, List.map_cons, List.map_nil, List.mem_singleton] at hb
  subst hb
  obtain ⟨z, hz, rfl⟩ := List.mem_map.1 ha
  simpa using (List.mem_filter.1 hz).2

theorem regOK_foldl_regAdd (fs : List Item) (reg : List Item) (h : RegOK reg) : RegOK (fs.foldl regAdd reg) := by
  induction fs generalizing reg with
  | nil => exact h
  | cons f r ih => exact ih _ (regOK_regAdd reg f h)

theorem regOK_regRemove (reg : List Item) (ks : List K) (h : RegOK reg) : RegOK (regRemove reg ks) := by
  unfold RegOK regRemove at *
  exact h.sublist ((List.filter_sublist (l := reg)).map _)

/-! ### specPage in the vocabulary of Lemmas.lean -/

/-- The lower bound a cursor stands for. -/
def loC : DCur → Option K
  | .good u => some u
  | _ => none

theorem loC_eq (cur : DCur) : loC cur = loOf dcodec cur := by
  cases cur <;> simp [loC, loOf, dcodec]

theorem specRest_eq (reg : List Item) (cur : DCur) : specRest reg cur = rest (loC cur) (sortReg reg) := by
  cases cur <;> simp [specRest, above, rest, loC] <;> rfl

theorem specNext_eq (reg : List Item) (p : Nat) (cur : DCur) :
    specNext reg p cur = nextOf dcodec p (rest (loC cur) (sortReg reg)) := by
  simp only [specNext, specItems, specRest_eq, nextOf, dcodec]
  split
  · rfl
  · cases (List.take p (rest (loC cur) (sortReg reg))).getLast? <;> rfl

theorem specPage_eq (reg : List Item) (p : Nat) (cur : DCur) (h : cur ≠ .bad) :
    specPage reg p cur = .page ((rest (loC cur) (sortReg reg)).take p) (nextOf dcodec p (rest (loC cur) (sortReg reg))) := by
  cases cur with
  | bad => exact absurd rfl h
  | nil => simp only [specPage, specItems, specRest_eq, specNext_eq]
  | good u => simp only [specPage, specItems, specRest_eq, specNext_eq]

end Paginate
