import McpModel.Paginate.Model
/-!
E13 (C17): `trav` (manual paging against the concrete model server under a mutation history) *is*
`manual` against the oracle that history induces — so the iterator theorems, stated for arbitrary
oracles, apply to the concrete server.
-/
set_option linter.unusedSectionVars false
namespace Paginate
variable {κ ν C : Type} [KOrd κ] [DecidableEq κ] [DecidableEq C]

/-- The answer of the model server to the `i`-th list request of a traversal, when the batches of
`hist` are applied between consecutive requests (no more mutations once `hist` is used up). -/
def serverOracle (cod : Codec κ C) (p : Nat) : List (List (Mut κ ν)) → FS κ ν → Nat → C → Res κ ν C
  | _, s, 0, c => (paginate cod p s c).2
  | [], s, _ + 1, c => (paginate cod p s c).2
  | b :: rest, s, i + 1, c => serverOracle cod p rest (applyBatch s.sortKeys b) i c

def Trav.ending (t : Trav κ ν) : Ending :=
  if t.failed then .error else if t.done then .done else .running

theorem paginate_state_of_page (cod : Codec κ C) (p : Nat) (s : FS κ ν) (cur : C)
    (items : List (κ × ν)) (next : C) (h : (paginate cod p s cur).2 = .page items next) :
    (paginate cod p s cur).1 = s.sortKeys := by
  unfold paginate at h ⊢
  by_cases hc : cur = cod.nil
  · simp only [hc, if_true] at h ⊢
    split <;> (try rfl)
    split <;> (try rfl)
    split <;> rfl
  · simp only [hc, if_false] at h ⊢
    cases hd : cod.dec cur with
    | none => simp [hd] at h
    | some uid =>
      simp only [hd] at h ⊢
      split <;> (try rfl)
      split <;> (try rfl)
      split <;> rfl

theorem manual_shift (nil : C) (o o' : Nat → C → Res κ ν C) (h : ∀ j c, o (j + 1) c = o' j c) (f : Nat) :
    ∀ (i : Nat) (c : C), manual nil o f (i + 1) c = manual nil o' f i c := by
  induction f with
  | zero => intro i c; rfl
  | succ f ih =>
    intro i c
    simp only [manual, h i c]
    cases o' i c with
    | page items next => simp only [ih (i + 1) next]
    | invalidParams => rfl
    | panic => rfl

theorem manual_page_more (nil : C) (o : Nat → C → Res κ ν C) (f i : Nat) (cur next : C) (items : List (κ × ν))
    (h : o i cur = .page items next) (hn : next ≠ nil) :
    manual nil o (f + 1) i cur =
      (items :: (manual nil o f (i + 1) next).1, (manual nil o f (i + 1) next).2) := by
  simp [manual, h, hn]

/-- **trav_eq_manual.** For every history, state, cursor and page size: the pages `trav` collects are
exactly what `manual` collects against `serverOracle`, and it ends the same way. -/
theorem trav_eq_manual (cod : Codec κ C) (p : Nat) (hist : List (List (Mut κ ν))) :
    ∀ (s : FS κ ν) (cur : C),
      manual cod.nil (serverOracle cod p hist s) (hist.length + 1) 0 cur =
        ((trav cod p hist s cur).pages, (trav cod p hist s cur).ending) := by
  induction hist with
  | nil =>
    intro s cur
    cases hp : paginate cod p s cur with
    | mk s' r =>
      have ho : serverOracle cod p ([] : List (List (Mut κ ν))) s 0 cur = r := by
        simp [serverOracle, hp]
      cases r with
      | page items next =>
        by_cases hn : next = cod.nil
        · simp [manual, ho, trav, hp, hn, Trav.ending]
        · simp [manual, ho, trav, hp, hn, Trav.ending]
      | invalidParams => simp [manual, ho, trav, hp, Trav.ending]
      | panic => simp [manual, ho, trav, hp, Trav.ending]
  | cons b rest ih =>
    intro s cur
    cases hp : paginate cod p s cur with
    | mk s' r =>
      have ho : serverOracle cod p (b :: rest) s 0 cur = r := by
        simp [serverOracle, hp]
      cases r with
      | page items next =>
        have hs' : s' = s.sortKeys := by
          have := paginate_state_of_page cod p s cur items next (by rw [hp])
          rw [hp] at this; exact this
        by_cases hn : next = cod.nil
        · simp [manual, ho, trav, hp, hn, Trav.ending]
        · have hshift := manual_shift cod.nil (serverOracle cod p (b :: rest) s)
            (serverOracle cod p rest (applyBatch s.sortKeys b)) (by intro j c; rfl) (rest.length + 1) 0 next
          have IH := ih (applyBatch s.sortKeys b) next
          rw [List.length_cons, manual_page_more cod.nil _ _ 0 cur next items ho hn, hshift, IH]
          simp [trav, hp, hn, hs', Trav.cons, Trav.ending]
      | invalidParams => simp [manual, ho, trav, hp, Trav.ending]
      | panic => simp [manual, ho, trav, hp, Trav.ending]

end Paginate
