import McpModel.Paginate.Accept
/-!
E13 (C17): the monitor's reference for a whole iteration against the registry, `iterAll (specOracle
reg p) cur _` (the lazy pager run by a consumer that never breaks), IS manual paging against a server
that answers as the property demands (`iterAll_spec_eq_manualAll`), and that manual paging is the
registered entries above the cursor, in listing order, ending normally — or the invalid-params error
at once for a malformed cursor (`manualAll_spec`).
-/
set_option linter.unusedSectionVars false
set_option linter.unusedSimpArgs false
namespace Paginate

/-- The server never answers an empty page with a non-empty cursor. -/
def NoEmptyMore (o : Nat → DCur → Res K String DCur) : Prop := ∀ i c n, o i c = .page [] n → n = .nil

theorem pull_no_again {o : Nat → DCur → Res K String DCur} (h : NoEmptyMore o) (it : Iter K String DCur) :
    ∀ it', pull DCur.nil o it ≠ (it', .again) := by
  intro it' he
  unfold pull at he
  split at he
  · cases he
  · split at he
    · cases he
    · split at he
      · cases he
      · split at he
        · rename_i items next ho
          split at he
          · cases he
          · split at he
            · cases he
            · rename_i hn
              exact hn (h _ _ _ ho)
        · cases he

theorem pullEvent_eq_pull {o : Nat → DCur → Res K String DCur} (h : NoEmptyMore o) (r : Nat) (it : Iter K String DCur) :
    pullEvent o (r + 1) it = pull DCur.nil o it := by
  simp only [pullEvent]
  cases hp : pull DCur.nil o it with
  | mk it' ev =>
    cases ev with
    | again => exact absurd hp (pull_no_again h it it')
    | item x => rfl
    | stop => rfl
    | err => rfl

/-- Without empty non-final pages the consumer loop of the monitor is `drain`. -/
theorem iterGo_eq_drain {o : Nat → DCur → Res K String DCur} (h : NoEmptyMore o) (r : Nat) : ∀ (n : Nat) (it : Iter K String DCur),
    (drain DCur.nil o n it).2 ≠ .running → ∀ (fuel : Nat), n ≤ fuel → ∀ acc,
    iterGo o (r + 1) fuel it acc = ⟨acc.reverse ++ (drain DCur.nil o n it).1, endOf (drain DCur.nil o n it).2⟩
  | 0, _, hr, _, _, _ => by simp [drain] at hr
  | n + 1, it, hr, fuel, hf, acc => by
    obtain ⟨fuel', rfl⟩ : ∃ f', fuel = f' + 1 := ⟨fuel - 1, by omega⟩
    simp only [iterGo, pullEvent_eq_pull h]
    cases hp : pull DCur.nil o it with
    | mk it' ev =>
      cases ev with
      | again => exact absurd hp (pull_no_again h it it')
      | item x =>
        rw [drain_item DCur.nil o n it it' x hp] at hr ⊢
        simp only
        rw [iterGo_eq_drain h r n it' hr fuel' (by omega) (x :: acc)]
        simp
      | stop => rw [drain_stop DCur.nil o n it it' hp]; simp [endOf]
      | err => rw [drain_err DCur.nil o n it it' hp]; simp [endOf]

theorem specOracle_noEmptyMore (reg : List Item) (p : Nat) (hp : 1 ≤ p) : NoEmptyMore (specOracle reg p) := by
  intro i c n ho
  simp only [specOracle] at ho
  cases c with
  | bad => simp [specPage] at ho
  | nil =>
    simp only [specPage, Res.page.injEq] at ho
    obtain ⟨h1, h2⟩ := ho
    rw [← h2]
    unfold specNext
    have : (specRest reg .nil).length ≤ p := by
      unfold specItems at h1
      have := congrArg List.length h1
      simp only [List.length_take, List.length_nil] at this
      omega
    simp [this]
  | good u =>
    simp only [specPage, Res.page.injEq] at ho
    obtain ⟨h1, h2⟩ := ho
    rw [← h2]
    unfold specNext
    have : (specRest reg (.good u)).length ≤ p := by
      unfold specItems at h1
      have := congrArg List.length h1
      simp only [List.length_take, List.length_nil] at this
      omega
    simp [this]

/-- Manual paging against a server that answers as the property demands: from a decodable cursor it
collects exactly the listing above the cursor and reaches the empty cursor. -/
theorem manual_spec (reg : List Item) (hr : RegOK reg) (p : Nat) (hp : 1 ≤ p) : ∀ (f i : Nat) (c : DCur), c ≠ .bad →
    (rest (loC c) (sortReg reg)).length + 1 ≤ f →
    (manual DCur.nil (specOracle reg p) f i c).2 = .done ∧
    (manual DCur.nil (specOracle reg p) f i c).1.flatten = rest (loC c) (sortReg reg)
  | 0, _, _, _, hf => by omega
  | f + 1, i, c, hc, hf => by
    have ho : specOracle reg p i c = .page ((rest (loC c) (sortReg reg)).take p) (nextOf dcodec p (rest (loC c) (sortReg reg))) := by
      simp only [specOracle]; exact specPage_eq reg p c hc
    rcases nextOf_cases dcodec p hp (rest (loC c) (sortReg reg)) with ⟨h1, h2⟩ | ⟨h1, l, h2, h3⟩
    · rw [h2] at ho
      have hn : dcodec.nil = DCur.nil := rfl
      simp only [manual, ho, hn, if_true, List.flatten_cons, List.flatten_nil, List.append_nil]
      exact ⟨trivial, List.take_of_length_le h1⟩
    · rw [h3] at ho
      have hne : dcodec.enc l.1 ≠ DCur.nil := by intro e; cases e
      have hR : rest (loC (dcodec.enc l.1)) (sortReg reg) = (rest (loC c) (sortReg reg)).drop p :=
        rest_after_cut _ _ p l (sorted_sortReg reg hr) h2
      have IH := manual_spec reg hr p hp f (i + 1) (dcodec.enc l.1) (by intro e; cases e)
        (by rw [hR, List.length_drop]; omega)
      simp only [manual, ho, hne, if_false, List.flatten_cons]
      refine ⟨IH.1, ?_⟩
      rw [IH.2, hR, List.take_append_drop]

theorem manual_spec_bad (reg : List Item) (p : Nat) (f i : Nat) :
    manual DCur.nil (specOracle reg p) (f + 1) i .bad = ([], .error) := by
  simp [manual, specOracle, specPage]

/-- **What manual paging against a conforming server yields** (closed form). -/
theorem manualAll_spec (reg : List Item) (hr : RegOK reg) (p : Nat) (hp : 1 ≤ p) (cur : DCur) :
    (manualAll (specOracle reg p) cur (reg.length + 1)) =
      (match cur with
       | .bad => (⟨[], .err⟩, .error)
       | c => (⟨rest (loC c) (sortReg reg), .fin⟩, .done)) := by
  have hlen : ∀ c, (rest (loC c) (sortReg reg)).length ≤ reg.length := by
    intro c
    rw [← length_sortReg reg]
    exact (rest_sublist _ _).length_le
  cases cur with
  | bad => simp [manualAll, manual_spec_bad, endOf]
  | nil =>
    obtain ⟨h1, h2⟩ := manual_spec reg hr p hp (reg.length + 1) 0 .nil (by intro e; cases e) (by have := hlen .nil; omega)
    simp only [manualAll, h1, h2, endOf]
  | good u =>
    obtain ⟨h1, h2⟩ := manual_spec reg hr p hp (reg.length + 1) 0 (.good u) (by intro e; cases e)
      (by have := hlen (.good u); omega)
    simp only [manualAll, h1, h2, endOf]

/-- **The monitor's reference for a whole iteration is manual paging.** -/
theorem iterAll_spec_eq_manualAll (reg : List Item) (hr : RegOK reg) (p : Nat) (hp : 1 ≤ p) (cur : DCur) :
    iterAll (specOracle reg p) cur (2 * reg.length + 8) = (manualAll (specOracle reg p) cur (reg.length + 1)).1 := by
  have hm := manualAll_spec reg hr p hp cur
  have hend : (manual DCur.nil (specOracle reg p) (reg.length + 1) 0 cur).2 ≠ .running := by
    have := congrArg Prod.snd hm
    simp only [manualAll] at this
    rw [this]
    cases cur <;> (intro e; cases e)
  have hfl : (manual DCur.nil (specOracle reg p) (reg.length + 1) 0 cur).1.flatten.length ≤ reg.length := by
    have h1 := congrArg (fun x => x.1.items) hm
    simp only [manualAll] at h1
    rw [h1]
    cases cur with
    | bad => simp
    | nil => simp only; rw [← length_sortReg reg]; exact (rest_sublist _ _).length_le
    | good u => simp only; rw [← length_sortReg reg]; exact (rest_sublist _ _).length_le
  have hd := drain_eq_manual_of_le DCur.nil (specOracle reg p) (reg.length + 1) cur hend (2 * reg.length + 2) (by omega)
  have hg := iterGo_eq_drain (specOracle_noEmptyMore reg p hp) 2 (2 * reg.length + 2) (Iter.start cur)
    (by rw [hd]; exact hend) (2 * reg.length + 8) (by omega) []
  simp only [iterAll, manualAll]
  rw [hg, hd]
  simp

end Paginate
