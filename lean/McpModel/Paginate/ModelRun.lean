import McpModel.Paginate.Monitor
/-!
E13 (C17): the MODEL's side of a record, typed.  `modStep` replays one record on the model (`FS` with
its lazily rebuilt index, `paginate`, the iterator machine `pull`/`drain`) and returns the same record
carrying the observation the MODEL makes.  The driver renders that observation and compares it with
the implementation's; `Accept.monitor_accepts_model` feeds it to the monitor.  The model never reads
the monitor's state.  Core Lean only (linked into the driver).
-/
namespace Paginate

/-- The model's part of one feature kind. -/
structure ModKind where
  fs : FS K String := FS.empty
  mit : Option (Iter K String DCur) := none   -- the open iterator
  script : Option Script := none               -- the list method is played by a scripted foreign server

structure ModState where
  p : Nat := Generated.Paginate.defaultPageSize
  tools : ModKind := {}
  prompts : ModKind := {}
  resources : ModKind := {}
  templates : ModKind := {}

def ModState.get (s : ModState) : Kind → ModKind
  | .tools => s.tools
  | .prompts => s.prompts
  | .resources => s.resources
  | .templates => s.templates

def ModState.set (s : ModState) (kind : Kind) (k : ModKind) : ModState :=
  match kind with
  | .tools => { s with tools := k }
  | .prompts => { s with prompts := k }
  | .resources => { s with resources := k }
  | .templates => { s with templates := k }

/-- The oracle the model server offers the model iterator. -/
def modelOracle (p : Nat) (fs : FS K String) : Nat → DCur → Res K String DCur :=
  fun _ c => (paginate dcodec p fs c).2

/-- The longest page of a script. -/
def maxPage : Script → Nat
  | [] => 0
  | (_, .page items _) :: r => max items.length (maxPage r)
  | _ :: r => maxPage r

/-- Pulls that suffice to drain an iteration against a script whose manual paging ends within
`sc.length + 2` requests (`Accept.drain_eq_manual_of_le`). -/
def scriptSteps (sc : Script) : Nat := (sc.length + 2) * maxPage sc + (sc.length + 2) + 1

/-- A whole iteration of the model iterator (a consumer that never breaks). -/
def drainAll (o : Nat → DCur → Res K String DCur) (cur : DCur) (steps : Nat) : IObs :=
  let r := drain DCur.nil o steps (Iter.start cur)
  ⟨r.1, endOf r.2⟩

/-- What the harness prints when `ipull` finds no open iterator. -/
def noIter : IObs := ⟨[], .other⟩

/-- One record on the model; the record returned carries the model's observation. -/
def modStep (s : ModState) : Rec → ModState × Rec
  | .reset => ({}, .reset)
  | .server n => ({ p := pageSizeOf n }, .server n)
  | .add kind fs _ =>
    let k := s.get kind
    (s.set kind { k with fs := k.fs.add fs }, .add kind fs true)
  | .remove kind ks =>
    let k := s.get kind
    (s.set kind { k with fs := (k.fs.remove ks).1 }, .remove kind ks)
  | .script kind sc => (s.set kind { s.get kind with script := some sc }, .script kind sc)
  | .unscript kind => (s.set kind { s.get kind with script := none }, .unscript kind)
  | .list kind cur follow _ =>
    let k := s.get kind
    match k.script with
    | some sc => (s, .list kind cur follow (LObs.ofRes (scriptedOracle kind sc 0 cur)))
    | none =>
      let r := paginate dcodec s.p k.fs cur
      (s.set kind { k with fs := r.1 }, .list kind cur follow (LObs.ofRes r.2))
  | .tbegin kind => (s, .tbegin kind)
  | .tend kind => (s, .tend kind)
  | .iopen kind cur => (s.set kind { s.get kind with mit := some (Iter.start cur) }, .iopen kind cur)
  | .ipull kind m _ =>
    let k := s.get kind
    match k.mit with
    | none => (s, .ipull kind m noIter)
    | some mit =>
      match k.script with
      | some sc =>
        -- the iterator machine against the foreign server; any number of empty pages in a row
        let r := pullMany (scriptedOracle kind sc) (sc.length + 3) m mit []
        (s.set kind { k with mit := some r.1 }, .ipull kind m r.2)
      | none =>
        -- the iterator machine against the model server (whose index cache it fills)
        let r := pullMany (modelOracle s.p k.fs) 3 m mit []
        (s.set kind { k with fs := k.fs.sortKeys, mit := some r.1 }, .ipull kind m r.2)
  | .iclose kind => (s.set kind { s.get kind with mit := none }, .iclose kind)
  | .iterall kind cur _ =>
    let k := s.get kind
    match k.script with
    | some sc => (s, .iterall kind cur (drainAll (scriptedOracle kind sc) cur (scriptSteps sc)))
    | none =>
      (s.set kind { k with fs := k.fs.sortKeys },
        .iterall kind cur (iterAll (modelOracle s.p k.fs) cur (2 * k.fs.feats.length + 8)))
  | .roundtrip _ => (s, .roundtrip true)
  | .codec _ => (s, .codec true)
  | .readonly touch =>
    -- `lookupResourceHandler` walks `resourceTemplates.all()`, which (re)builds the sorted index
    match touch with
    | some kind => (s.set kind { s.get kind with fs := (s.get kind).fs.sortKeys }, .readonly touch)
    | none => (s, .readonly touch)

end Paginate
