import McpModel.Paginate.Model
import McpModel.Generated.PaginateGen
/-!
E13 — the typed core of the C17 monitor.

The driver (Driver.lean) parses a harness record into a `Rec` (the operation with the
IMPLEMENTATION's observation as typed data: `LObs` for a list answer, `IObs` for what an iterator
handed out), calls `monStep`, and renders the `Clause` it returns.  Everything that decides WHICH
clause of C17 is violated lives here, on typed data, so that Bridge.lean (`monitor_accepts_model`: no
clause on any behaviour of the model) and Sound.lean (a clause is reported only if the property clause
it names fails on the observed trace) can reason about it.  The string layer — token parser,
renderer, clause texts — stays in Driver.lean.

The monitor keeps its own registry per feature kind (a plain association list, no index, no cache:
`regAdd`, `regRemove`, `sortReg` are the three-line specification of "registered") and judges:
* `monList`: a page is exactly the first `p` registered entries strictly above the cursor's key,
  ascending, `NextCursor` empty exactly when nothing is left and otherwise decoding to the last key
  of the page; a cursor that does not decode is answered with invalid params;
* `monTend`: per traversal (`tbegin` … `tend`) that follows cursors from the first page (`chain`) and
  never failed: keys strictly ascending overall; once the empty cursor was reached every key
  registered at every fetch was received; without mutations the pages are exactly the registered set
  in `max 1 ⌈n/p⌉` pages;
* iterators: what the consumer was handed is what a lazy pager (`pull`: one request when the consumer
  wants an element and the page is used up) / manual paging (`manual`) yields against the registry,
  or against the scripted foreign server.
It never reads `paginate` (the model of the server).  Core Lean only (linked into the driver).
-/
namespace Paginate

abbrev K := List Nat
abbrev Item := K × String

/-- A cursor as the implementation's own `decodeCursor` classifies it. -/
inductive DCur
  | nil
  | good (uid : K)
  | bad
deriving DecidableEq, Repr

/-- The canonical image of the codec: `enc k` is "a cursor that decodes to `k`". -/
def dcodec : Codec K DCur where
  nil := .nil
  enc k := .good k
  dec c := match c with
    | .good k => some k
    | _ => none
  dec_enc _ := rfl
  enc_ne_nil _ := by intro h; cases h

inductive Kind | tools | prompts | resources | templates
deriving DecidableEq, Repr

/-- What the implementation answered to a list request. -/
inductive LObs
  | page (items : List Item) (next : DCur)
  | invalid     -- invalid params (-32602)
  | other       -- anything else: another error, a crash, an unreadable answer
deriving DecidableEq, Repr

def LObs.ofRes : Res K String DCur → LObs
  | .page items next => .page items next
  | .invalidParams => .invalid
  | .panic => .other

/-- How an iterator observation ends: `more` (the consumer stopped asking), `fin` (the iterator
returned), `err` (it yielded invalid params), the two give-ups of the reference machines, anything else. -/
inductive IEnd | more | fin | err | stuck | runaway | other
deriving DecidableEq, Repr

/-- What an iterator handed to its consumer. -/
structure IObs where
  items : List Item
  ending : IEnd
deriving DecidableEq, Repr

/-! ### the monitor's registry (the three-line specification) -/

def insSorted (f : Item) : List Item → List Item
  | [] => [f]
  | g :: r => if ltBytes f.1 g.1 then f :: g :: r else g :: insSorted f r

/-- The listing order: ascending by key (byte-wise, Go's string order). -/
def sortReg (reg : List Item) : List Item := reg.foldr insSorted []

/-- Register (or replace) one feature. -/
def regAdd (reg : List Item) (f : Item) : List Item :=
  reg.filter (fun g => g.1 ≠ f.1) ++ [f]

def regRemove (reg : List Item) (ks : List K) : List Item :=
  reg.filter (fun g => !ks.contains g.1)

/-- Is the entry strictly above the cursor's key (every entry, for the empty cursor)? -/
def above (cur : DCur) (f : Item) : Bool :=
  match cur with
  | .good uid => ltBytes uid f.1
  | _ => true

def specRest (reg : List Item) (cur : DCur) : List Item := (sortReg reg).filter (above cur)

def specItems (reg : List Item) (p : Nat) (cur : DCur) : List Item := (specRest reg cur).take p

def specNext (reg : List Item) (p : Nat) (cur : DCur) : DCur :=
  if (specRest reg cur).length ≤ p then .nil
  else match (specItems reg p cur).getLast? with
    | some l => .good l.1
    | none => .nil

/-- The answer the property demands for a list request. -/
def specPage (reg : List Item) (p : Nat) (cur : DCur) : Res K String DCur :=
  match cur with
  | .bad => .invalidParams
  | _ => .page (specItems reg p cur) (specNext reg p cur)

/-! ### scripted (foreign) servers -/

/-- A foreign server's list method: cursor received ↦ answer (`Model.scriptOracle`). -/
abbrev Script := List (DCur × Res K String DCur)

/-- What `filterValidTools` keeps (only `ListTools` filters): a value ending in `!` marks a tool
with an invalid x-mcp-header annotation. -/
def keepItem (kind : Kind) (f : Item) : Bool := !(kind == .tools && f.2.endsWith "!")

/-- The server as the client's `ListX` sees it: the script, then `ListTools`' per-page filter. -/
def scriptedOracle (kind : Kind) (sc : Script) : Nat → DCur → Res K String DCur :=
  filterOracle (keepItem kind) (scriptOracle sc)

/-- The registry as a server: answers every request as the property demands. -/
def specOracle (reg : List Item) (p : Nat) : Nat → DCur → Res K String DCur :=
  fun _ c => specPage reg p c

/-! ### reference machines for the iterators -/

def endOf : Ending → IEnd
  | .done => .fin
  | .error => .err
  | .running => .runaway

/-- Manual paging (`Model.manual`) as an iterator observation. -/
def manualAll (o : Nat → DCur → Res K String DCur) (cur : DCur) (fuel : Nat) : IObs × Ending :=
  let r := manual DCur.nil o fuel 0 cur
  (⟨r.1.flatten, endOf r.2⟩, r.2)

/-- Pull until an element, the end or an error (`rounds` bounds the empty pages in a row; `again`
beyond that is reported as `stuck`). -/
def pullEvent (o : Nat → DCur → Res K String DCur) : Nat → Iter K String DCur → Iter K String DCur × Event K String
  | 0, it => (it, .again)
  | f + 1, it =>
    match pull DCur.nil o it with
    | (it', .again) => pullEvent o f it'
    | r => r

/-- The consumer asks for (up to) `m` elements. -/
def pullMany (o : Nat → DCur → Res K String DCur) (rounds : Nat) : Nat → Iter K String DCur → List Item → Iter K String DCur × IObs
  | 0, it, acc => (it, ⟨acc.reverse, .more⟩)
  | m + 1, it, acc =>
    match pullEvent o rounds it with
    | (it', .item x) => pullMany o rounds m it' (x :: acc)
    | (it', .stop) => (it', ⟨acc.reverse, .fin⟩)
    | (it', .err) => (it', ⟨acc.reverse, .err⟩)
    | (it', .again) => (it', ⟨acc.reverse, .stuck⟩)

def iterGo (o : Nat → DCur → Res K String DCur) (rounds : Nat) : Nat → Iter K String DCur → List Item → IObs
  | 0, _, acc => ⟨acc.reverse, .runaway⟩
  | f + 1, it, acc =>
    match pullEvent o rounds it with
    | (it', .item x) => iterGo o rounds f it' (x :: acc)
    | (_, .stop) => ⟨acc.reverse, .fin⟩
    | (_, .err) => ⟨acc.reverse, .err⟩
    | (_, .again) => ⟨acc.reverse, .stuck⟩

/-- A consumer that never breaks. -/
def iterAll (o : Nat → DCur → Res K String DCur) (cur : DCur) (fuel : Nat) (rounds : Nat := 3) : IObs :=
  iterGo o rounds fuel (Iter.start cur) []

/-! ### clauses -/

inductive Clause
  | malformedNotRefused     -- malformed cursor not answered with invalid params
  | listFailed              -- list request crashed or failed on a well-formed cursor
  | pageWrong               -- page is not the first p registered entries above the cursor
  | nextUndecodable         -- issued NextCursor refused by the server's own decodeCursor
  | nextWrong               -- NextCursor wrong
  | foreignPage             -- ListX result is not the page the (foreign) server sent
  | addFailed               -- registering a feature failed
  | followRefused           -- the server refused the NextCursor it had just issued
  | travOrder | travMiss | travNotExact | travPages
  | iterForeign | iterManual
  | codecLaw | codecCrash
deriving DecidableEq, Repr

/-- Monitor of one list answer against the registry. -/
def monList (reg : List Item) (p : Nat) (cur : DCur) (obs : LObs) : Option Clause :=
  if obs = LObs.ofRes (specPage reg p cur) then none
  else match cur, obs with
    | .bad, _ => some .malformedNotRefused
    | _, .page items next =>
      if items ≠ specItems reg p cur then some .pageWrong
      else if next = .bad then some .nextUndecodable
      else some .nextWrong
    | _, _ => some .listFailed

/-! ### traversals -/

/-- One list request of a traversal: the registry at that moment, the cursor sent, the answer. -/
structure Fetch where
  reg : List Item
  cur : DCur
  obs : LObs

structure TravMon where
  fetches : List Fetch := []
  mutated : Bool := false

def Fetch.isPage (f : Fetch) : Bool := match f.obs with | .page _ _ => true | _ => false

def Fetch.keys (f : Fetch) : List K := match f.obs with | .page items _ => items.map (·.1) | _ => []

def Fetch.regKeys (f : Fetch) : List K := f.reg.map (·.1)

/-- The traversal follows cursors: the first request carries `c`, every later one the non-empty
`NextCursor` of the answer before it (nothing is requested after the empty cursor). -/
def chain : DCur → List Fetch → Bool
  | _, [] => true
  | c, [f] => f.cur == c
  | c, f :: g :: r =>
    f.cur == c && (match f.obs with
      | .page _ n => n != .nil && chain n (g :: r)
      | _ => false)

def strictlyAscending : List K → Bool
  | [] => true
  | [_] => true
  | a :: b :: r => ltBytes a b && strictlyAscending (b :: r)

def pagesFor' (n p : Nat) : Nat := max 1 ((n + p - 1) / p)

/-- Keys received, in order. -/
def travItems (fs : List Fetch) : List K := fs.flatMap Fetch.keys

/-- Keys registered at every fetch. -/
def travStable : List Fetch → List K
  | [] => []
  | f :: r => f.regKeys.filter (fun k => r.all (fun g => g.regKeys.contains k))

/-- The last answer carried the empty cursor. -/
def travFinished (fs : List Fetch) : Bool :=
  match fs.getLast? with
  | some f => (match f.obs with | .page _ n => n == .nil | _ => false)
  | none => false

/-- Registry at the first fetch. -/
def travFirst (fs : List Fetch) : List Item :=
  match fs with
  | f :: _ => f.reg
  | [] => []

def monTend (t : TravMon) (p : Nat) : Option Clause :=
  if !t.fetches.all Fetch.isPage then none   -- a fetch failed: already reported at the failing fetch
  else if !chain .nil t.fetches then none     -- not a traversal that follows cursors from the first page
  else if !strictlyAscending (travItems t.fetches) then some .travOrder
  else if travFinished t.fetches && !(travStable t.fetches).all (fun k => (travItems t.fetches).contains k) then
    some .travMiss
  else if travFinished t.fetches && !t.mutated && travItems t.fetches != (sortReg (travFirst t.fetches)).map (·.1) then
    some .travNotExact
  else if travFinished t.fetches && !t.mutated && t.fetches.length != pagesFor' (travFirst t.fetches).length p then
    some .travPages
  else none

/-! ### records and state -/

/-- One harness record, typed. `list`'s `follow`: the request carries, byte for byte, the `NextCursor`
of the previous answer for this kind. -/
inductive Rec
  | reset
  | server (n : Nat)                 -- `PageSize: n` (0: the default)
  | add (kind : Kind) (fs : List Item) (ok : Bool)
  | remove (kind : Kind) (ks : List K)
  | script (kind : Kind) (sc : Script)
  | unscript (kind : Kind)
  | list (kind : Kind) (cur : DCur) (follow : Bool) (obs : LObs)
  | tbegin (kind : Kind)
  | tend (kind : Kind)
  | iopen (kind : Kind) (cur : DCur)
  | ipull (kind : Kind) (m : Nat) (obs : IObs)
  | iclose (kind : Kind)
  | iterall (kind : Kind) (cur : DCur) (obs : IObs)
  | roundtrip (same : Bool)
  | codec (ok : Bool)
  /-- a read-only request between the others (resources/read, tools/call, prompts/get, completion,
  ping); `touch`: the feature set whose sorted index the request walks (template lookup), if any -/
  | readonly (touch : Option Kind)

structure MKind where
  reg : List Item := []
  script : Option Script := none   -- `some`: the list method is played by a scripted foreign server
  sit : Option (Iter K String DCur) := none   -- reference iterator of the open pull session
  tr : Option TravMon := none

structure MState where
  p : Nat := Generated.Paginate.defaultPageSize
  tools : MKind := {}
  prompts : MKind := {}
  resources : MKind := {}
  templates : MKind := {}

def MState.get (s : MState) : Kind → MKind
  | .tools => s.tools
  | .prompts => s.prompts
  | .resources => s.resources
  | .templates => s.templates

def MState.set (s : MState) (kind : Kind) (k : MKind) : MState :=
  match kind with
  | .tools => { s with tools := k }
  | .prompts => { s with prompts := k }
  | .resources => { s with resources := k }
  | .templates => { s with templates := k }

/-- `NewServer` replaces page size 0 by the default. -/
def pageSizeOf (n : Nat) : Nat := if n == 0 then Generated.Paginate.defaultPageSize else n

def markMutated (k : MKind) : MKind :=
  { k with tr := k.tr.map (fun t => { t with mutated := true }) }

def monListRec (s : MState) (kind : Kind) (cur : DCur) (follow : Bool) (obs : LObs) : MState × Option Clause :=
  let k := s.get kind
  match k.script with
  | some sc =>
    -- foreign server: `ListX` must hand over the page it was sent (minus dropped tools)
    (s, if obs = LObs.ofRes (scriptedOracle kind sc 0 cur) then none else some .foreignPage)
  | none =>
    let viol := monList k.reg s.p cur obs
    let tr' := k.tr.map (fun t => { t with fetches := t.fetches ++ [⟨k.reg, cur, obs⟩] })
    let viol := if follow && obs = .invalid && viol.isNone then some .followRefused else viol
    (s.set kind { k with tr := tr' }, viol)

/-- **The C17 monitor**: one record. -/
def monStep (s : MState) : Rec → MState × Option Clause
  | .reset => ({}, none)
  | .server n => ({ p := pageSizeOf n }, none)
  | .add kind fs ok =>
    let k := s.get kind
    (s.set kind (markMutated { k with reg := fs.foldl regAdd k.reg }), if ok then none else some .addFailed)
  | .remove kind ks =>
    let k := s.get kind
    (s.set kind (markMutated { k with reg := regRemove k.reg ks }), none)
  | .script kind sc => (s.set kind { s.get kind with script := some sc }, none)
  | .unscript kind => (s.set kind { s.get kind with script := none }, none)
  | .list kind cur follow obs => monListRec s kind cur follow obs
  | .tbegin kind => (s.set kind { s.get kind with tr := some {} }, none)
  | .tend kind =>
    let k := s.get kind
    (s.set kind { k with tr := none }, k.tr.bind (fun t => monTend t s.p))
  | .iopen kind cur => (s.set kind { s.get kind with sit := some (Iter.start cur) }, none)
  | .ipull kind m obs =>
    let k := s.get kind
    match k.sit with
    | none => (s, none)
    | some sit =>
      match k.script with
      | some sc =>
        -- the lazy pager against the foreign server; any number of empty pages in a row
        let r := pullMany (scriptedOracle kind sc) (sc.length + 3) m sit []
        (s.set kind { k with sit := some r.1 }, if obs = r.2 then none else some .iterForeign)
      | none =>
        let r := pullMany (specOracle k.reg s.p) 3 m sit []
        (s.set kind { k with sit := some r.1 }, if obs = r.2 then none else some .iterManual)
  | .iclose kind => (s.set kind { s.get kind with sit := none }, none)
  | .iterall kind cur obs =>
    let k := s.get kind
    match k.script with
    | some sc =>
      -- manual paging, literally (`Model.manual`); a cyclic script has no finite manual listing:
      -- nothing to compare with
      let r := manualAll (scriptedOracle kind sc) cur (sc.length + 2)
      (s, if obs = r.1 || r.2 == .running then none else some .iterForeign)
    | none =>
      (s, if obs = iterAll (specOracle k.reg s.p) cur (2 * k.reg.length + 8) then none else some .iterManual)
  | .roundtrip same => (s, if same then none else some .codecLaw)
  | .codec ok => (s, if ok then none else some .codecCrash)
  | .readonly _ => (s, none)   -- what is registered, and hence every later answer, is unaffected

/-- Run the monitor over a trace: the first record (index) at which a clause is reported. -/
def runMonFrom : MState → Nat → List Rec → Option (Nat × Clause)
  | _, _, [] => none
  | s, i, r :: tr =>
    match (monStep s r).2 with
    | some cl => some (i, cl)
    | none => runMonFrom (monStep s r).1 (i + 1) tr

def runMon (tr : List Rec) : Option (Nat × Clause) := runMonFrom {} 0 tr

/-- The monitor state after a trace. -/
def stateAfter (tr : List Rec) : MState := tr.foldl (fun s r => (monStep s r).1) {}

end Paginate
