import McpModel.Paginate.ModelRun
import McpModel.Paginate.TravLemmas
import McpModel.Paginate.IterLemmas
/-!
# E13 (C17): the monitor accepts the model

`monitor_accepts_model`: feed the typed C17 monitor (`Monitor.monStep`) the records of ANY operation
sequence with the observations the MODEL makes (`ModelRun.modStep`: `paginate` with its lazily rebuilt
index, the iterator machine) — it reports no clause.  So a clause on the implementation's observation
is never an artefact of the monitor disagreeing with the model.

Invariant (`Inv`): page size equal and ≥ 1; per kind the model's feature set is well formed and holds
exactly the monitor's registry (`Rel`, hence `fs.feats = sortReg reg` and the two servers answer every
cursor alike: `rel_page`), same open iterator, same script; every fetch recorded for the open
traversal conforms, with one registry while unmutated.

One hypothesis on the operation sequence, `FollowDecodes`: a request marked `follow` (the harness saw
it carry, byte for byte, the `NextCursor` of the previous answer) does not carry an undecodable
cursor.  The flag is the harness's word; on the model's behaviour it holds because the model never
issues an undecodable cursor (`specNext_ne_bad`).  It is needed: `follow_flag_needed`.
-/
set_option linter.unusedSectionVars false
set_option linter.unusedSimpArgs false
namespace Paginate

/-! ### model state ↔ monitor registry -/

/-- The model's feature set holds exactly the monitor's registry. -/
def Rel (fs : FS K String) (reg : List Item) : Prop := WF fs ∧ RegOK reg ∧ ∀ x, x ∈ fs.feats ↔ x ∈ reg

theorem rel_empty : Rel (FS.empty : FS K String) [] :=
  ⟨wf_empty, regOK_nil, by intro x; simp [FS.empty]⟩

theorem rel_feats {fs : FS K String} {reg : List Item} (h : Rel fs reg) : fs.feats = sortReg reg :=
  sortReg_unique reg fs.feats h.2.1 h.1.1 h.2.2

theorem mem_sorted_iff_lookup {m : List Item} (hs : Sorted (keys m)) (x : Item) :
    x ∈ m ↔ lookupF x.1 m = some x.2 := by
  rw [lookupF_eq_some_iff m hs]

theorem mem_insF_iff {m : List Item} (hs : Sorted (keys m)) (k : K) (v : String) (x : Item) :
    x ∈ insF k v m ↔ (x ∈ m ∧ x.1 ≠ k) ∨ x = (k, v) := by
  rw [mem_sorted_iff_lookup (sorted_insF k v m hs), lookupF_insF, mem_sorted_iff_lookup hs]
  obtain ⟨a, b⟩ := x
  by_cases e : a = k
  · subst e
    simp only [if_true, Option.some.injEq, ne_eq, not_true_eq_false, and_false, false_or, Prod.mk.injEq, true_and]
    exact eq_comm
  · simp [e]

theorem rel_add {fs : FS K String} {reg : List Item} (h : Rel fs reg) (items : List Item) :
    Rel (fs.add items) (items.foldl regAdd reg) := by
  refine ⟨wf_add fs items h.1, regOK_foldl_regAdd items reg h.2.1, ?_⟩
  simp only [FS.add]
  have : ∀ (items : List Item) (m reg : List Item), Sorted (keys m) → (∀ x, x ∈ m ↔ x ∈ reg) →
      ∀ x, x ∈ items.foldl (fun m f => insF f.1 f.2 m) m ↔ x ∈ items.foldl regAdd reg := by
    intro items
    induction items with
    | nil => intro m reg _ hm; simpa using hm
    | cons f r ih =>
      intro m reg hs hm
      simp only [List.foldl_cons]
      apply ih _ _ (sorted_insF _ _ _ hs)
      intro x
      rw [mem_insF_iff hs, mem_regAdd, hm]
  exact this items fs.feats reg h.1.1 h.2.2

theorem rel_remove {fs : FS K String} {reg : List Item} (h : Rel fs reg) (ks : List K) :
    Rel (fs.remove ks).1 (regRemove reg ks) := by
  refine ⟨wf_remove fs ks h.1, regOK_regRemove reg ks h.2.1, ?_⟩
  obtain ⟨_, r2, _, r4⟩ := removeLoop_spec ks fs.feats false h.1.1
  intro x
  rw [mem_regRemove, ← h.2.2]
  show x ∈ (removeLoop ks (fs.feats, false)).1 ↔ _
  constructor
  · intro hx
    refine ⟨r4 x hx, ?_⟩
    exact ((r2 x.1).1 (List.mem_map.2 ⟨x, hx, rfl⟩)).2
  · rintro ⟨hx, hk⟩
    have : x.1 ∈ keys (removeLoop ks (fs.feats, false)).1 := (r2 x.1).2 ⟨List.mem_map.2 ⟨x, hx, rfl⟩, hk⟩
    obtain ⟨v, hv⟩ := mem_keys.1 this
    have hv' := r4 _ hv
    have e1 := (mem_sorted_iff_lookup h.1.1 (x.1, v)).1 hv'
    have e2 := (mem_sorted_iff_lookup h.1.1 x).1 hx
    simp only at e1
    rw [e1] at e2
    injection e2 with e2
    obtain ⟨a, b⟩ := x
    simp only at e2
    rw [← e2]; exact hv

theorem rel_sortKeys {fs : FS K String} {reg : List Item} (h : Rel fs reg) : Rel fs.sortKeys reg := by
  obtain ⟨w1, w2, _⟩ := wf_sortKeys fs h.1
  exact ⟨w1, h.2.1, by rw [w2]; exact h.2.2⟩

/-- **The model server and the registry answer every cursor alike.** -/
theorem rel_page {fs : FS K String} {reg : List Item} (h : Rel fs reg) (p : Nat) (hp : 1 ≤ p) (cur : DCur) :
    (paginate dcodec p fs cur).2 = specPage reg p cur ∧ Rel (paginate dcodec p fs cur).1 reg := by
  obtain ⟨w1, w2, hspec⟩ := paginate_spec dcodec p hp fs h.1 cur
  refine ⟨?_, ⟨w1, h.2.1, by rw [w2]; exact h.2.2⟩⟩
  rcases hspec with ⟨hc, hd, hres⟩ | ⟨hcur, hres⟩
  · cases cur with
    | nil => exact absurd rfl hc
    | good u => simp [dcodec] at hd
    | bad => rw [hres]; rfl
  · have hb : cur ≠ .bad := by
      rintro rfl
      rcases hcur with h1 | h1
      · cases h1
      · simp [dcodec] at h1
    rw [hres, specPage_eq _ _ _ hb, loC_eq, rel_feats h]

theorem rel_oracle {fs : FS K String} {reg : List Item} (h : Rel fs reg) (p : Nat) (hp : 1 ≤ p) :
    modelOracle p fs = specOracle reg p := by
  funext i c
  exact (rel_page h p hp c).1

/-! ### the iterator machine drains what manual paging collects, within a known number of pulls -/

theorem drain_mono {κ ν C : Type} [DecidableEq C] (nil : C) (o : Nat → C → Res κ ν C) : ∀ (n : Nat) (it : Iter κ ν C),
    (drain nil o n it).2 ≠ .running → drain nil o (n + 1) it = drain nil o n it
  | 0, _, h => by simp [drain] at h
  | n + 1, it, h => by
    cases hp : pull nil o it with
    | mk it' ev =>
      cases ev with
      | item x =>
        rw [drain_item nil o (n + 1) it it' x hp, drain_item nil o n it it' x hp] at *
        rw [drain_mono nil o n it' h]
      | again =>
        rw [drain_again nil o (n + 1) it it' hp, drain_again nil o n it it' hp] at *
        exact drain_mono nil o n it' h
      | stop => rw [drain_stop nil o (n + 1) it it' hp, drain_stop nil o n it it' hp]
      | err => rw [drain_err nil o (n + 1) it it' hp, drain_err nil o n it it' hp]

theorem drain_mono_le {κ ν C : Type} [DecidableEq C] (nil : C) (o : Nat → C → Res κ ν C) (n : Nat) (it : Iter κ ν C)
    (h : (drain nil o n it).2 ≠ .running) : ∀ m, n ≤ m → drain nil o m it = drain nil o n it := by
  intro m hm
  obtain ⟨d, rfl⟩ : ∃ d, m = n + d := ⟨m - n, by omega⟩
  induction d with
  | zero => rfl
  | succ d ih =>
    have e : n + (d + 1) = (n + d) + 1 := by omega
    rw [e, drain_mono nil o (n + d) it (by rw [ih (by omega)]; exact h), ih (by omega)]

/-- `drain_eq_manual` with a bound on the number of pulls. -/
theorem drain_eq_manual_le {κ ν C : Type} [DecidableEq C] (nil : C) (o : Nat → C → Res κ ν C) (f : Nat) :
    ∀ (i : Nat) (cur : C) (b : Bool), (b = false ∨ cur ≠ nil) →
      (manual nil o f i cur).2 ≠ .running →
      ∃ steps, steps ≤ (manual nil o f i cur).1.flatten.length + f + 1 ∧
        drain nil o steps { buf := [], next := cur, started := b, n := i, fin := false } =
        ((manual nil o f i cur).1.flatten, (manual nil o f i cur).2) := by
  induction f with
  | zero => intro i cur b _ h; simp [manual] at h
  | succ f ih =>
    intro i cur b hb hrun
    have hcond : ¬ (b = true ∧ cur = nil) := by
      rintro ⟨h1, h2⟩; rcases hb with h | h
      · rw [h] at h1; cases h1
      · exact h h2
    cases ho : o i cur with
    | page items next =>
      by_cases hn : next = nil
      · have em : manual nil o (f + 1) i cur = ([items], .done) := by simp [manual, ho, hn]
        rw [em]
        cases items with
        | nil =>
          refine ⟨0 + 1, by simp, ?_⟩
          rw [drain_stop nil o 0 _ { buf := [], next := next, started := true, n := i + 1, fin := true }
            (by simp [pull, hcond, ho, hn])]
          simp
        | cons x r =>
          refine ⟨(r.length + (0 + 1)) + 1, by simp only [List.flatten_cons, List.flatten_nil, List.length_append, List.length_cons, List.length_nil]; omega, ?_⟩
          rw [drain_item nil o _ _ { buf := r, next := next, started := true, n := i + 1, fin := false } x
            (by simp [pull, hcond, ho]), drain_buf,
            drain_stop nil o 0 _ { buf := [], next := next, started := true, n := i + 1, fin := true }
              (by simp [pull, hn])]
          simp
      · have em : manual nil o (f + 1) i cur =
            (items :: (manual nil o f (i + 1) next).1, (manual nil o f (i + 1) next).2) := by
          simp [manual, ho, hn]
        rw [em] at hrun ⊢
        obtain ⟨steps, hle, hs⟩ := ih (i + 1) next true (Or.inr hn) hrun
        cases items with
        | nil =>
          refine ⟨steps + 1, by simp only [List.flatten_cons, List.length_append, List.length_nil]; omega, ?_⟩
          rw [drain_again nil o _ _ { buf := [], next := next, started := true, n := i + 1, fin := false }
            (by simp [pull, hcond, ho, hn]), hs]
          simp
        | cons x r =>
          refine ⟨(r.length + steps) + 1, by simp only [List.flatten_cons, List.length_append, List.length_cons]; omega, ?_⟩
          rw [drain_item nil o _ _ { buf := r, next := next, started := true, n := i + 1, fin := false } x
            (by simp [pull, hcond, ho]), drain_buf, hs]
          simp
    | invalidParams =>
      refine ⟨0 + 1, by omega, ?_⟩
      rw [drain_err nil o 0 _ { buf := [], next := cur, started := b, n := i, fin := true }
        (by simp [pull, hcond, ho])]
      simp [manual, ho]
    | panic =>
      refine ⟨0 + 1, by omega, ?_⟩
      rw [drain_err nil o 0 _ { buf := [], next := cur, started := b, n := i, fin := true }
        (by simp [pull, hcond, ho])]
      simp [manual, ho]

/-- With `steps` at least the bound, the whole iteration is the manual listing. -/
theorem drain_eq_manual_of_le {κ ν C : Type} [DecidableEq C] (nil : C) (o : Nat → C → Res κ ν C) (f : Nat) (cur : C)
    (hend : (manual nil o f 0 cur).2 ≠ .running) (steps : Nat)
    (hs : (manual nil o f 0 cur).1.flatten.length + f + 1 ≤ steps) :
    drain nil o steps (Iter.start cur) = ((manual nil o f 0 cur).1.flatten, (manual nil o f 0 cur).2) := by
  obtain ⟨n, hn, hd⟩ := drain_eq_manual_le nil o f 0 cur false (Or.inl rfl) hend
  have : (drain nil o n (Iter.start cur)).2 ≠ .running := by
    show (drain nil o n { buf := [], next := cur, started := false, n := 0, fin := false }).2 ≠ .running
    rw [hd]; exact hend
  rw [drain_mono_le nil o n _ this steps (by omega)]
  exact hd

theorem manual_flatten_le {κ ν C : Type} [DecidableEq C] (nil : C) (o : Nat → C → Res κ ν C) (M : Nat)
    (hM : ∀ i c items n, o i c = .page items n → items.length ≤ M) : ∀ (f i : Nat) (cur : C),
    (manual nil o f i cur).1.flatten.length ≤ f * M
  | 0, _, _ => by simp [manual]
  | f + 1, i, cur => by
    cases ho : o i cur with
    | page items next =>
      have h1 := hM i cur items next ho
      have e : (f + 1) * M = f * M + M := Nat.succ_mul f M
      by_cases hn : next = nil
      · simp only [manual, ho, hn, if_true, List.flatten_cons, List.flatten_nil, List.append_nil]
        omega
      · have ih := manual_flatten_le nil o M hM f (i + 1) next
        simp only [manual, ho, hn, if_false, List.flatten_cons, List.length_append]
        omega
    | invalidParams => simp [manual, ho]
    | panic => simp [manual, ho]

theorem lookup_page_le_maxPage : ∀ (sc : Script) (c : DCur) (items : List Item) (n : DCur),
    sc.lookup c = some (.page items n) → items.length ≤ maxPage sc
  | [], _, _, _, h => by simp at h
  | (c', r) :: sc, c, items, n, h => by
    simp only [List.lookup] at h
    cases hc : c == c' with
    | true =>
      rw [hc] at h
      simp only [Option.some.injEq] at h
      subst h
      simp only [maxPage]; omega
    | false =>
      rw [hc] at h
      have := lookup_page_le_maxPage sc c items n h
      cases r with
      | page its nx => simp only [maxPage]; omega
      | invalidParams => simpa [maxPage] using this
      | panic => simpa [maxPage] using this

theorem scriptedOracle_page_le (kind : Kind) (sc : Script) (i : Nat) (c : DCur) (items : List Item) (n : DCur)
    (h : scriptedOracle kind sc i c = .page items n) : items.length ≤ maxPage sc := by
  simp only [scriptedOracle, filterOracle, scriptOracle] at h
  cases hl : sc.lookup c with
  | none => rw [hl] at h; simp [filterRes] at h
  | some r =>
    rw [hl] at h
    cases r with
    | page its nx =>
      simp only [filterRes, Res.page.injEq] at h
      have := lookup_page_le_maxPage sc c its nx hl
      rw [← h.1]
      exact Nat.le_trans (List.length_filter_le _ _) this
    | invalidParams => simp [filterRes] at h
    | panic => simp [filterRes] at h

/-- The model's whole iteration against a script is manual paging, whenever manual paging ends. -/
theorem drainAll_eq_manualAll (kind : Kind) (sc : Script) (cur : DCur)
    (h : (manualAll (scriptedOracle kind sc) cur (sc.length + 2)).2 ≠ .running) :
    drainAll (scriptedOracle kind sc) cur (scriptSteps sc) = (manualAll (scriptedOracle kind sc) cur (sc.length + 2)).1 := by
  simp only [manualAll] at h ⊢
  have hb := manual_flatten_le DCur.nil (scriptedOracle kind sc) (maxPage sc)
    (scriptedOracle_page_le kind sc) (sc.length + 2) 0 cur
  have := drain_eq_manual_of_le DCur.nil (scriptedOracle kind sc) (sc.length + 2) cur h (scriptSteps sc)
    (by simp only [scriptSteps]; omega)
  simp only [drainAll, this]

/-! ### get / set -/

@[simp] theorem MState.get_set_same (s : MState) (kind : Kind) (k : MKind) : (s.set kind k).get kind = k := by
  cases kind <;> rfl

theorem MState.get_set_other (s : MState) {kind kind' : Kind} (k : MKind) (h : kind' ≠ kind) :
    (s.set kind k).get kind' = s.get kind' := by
  cases kind <;> cases kind' <;> first | rfl | exact absurd rfl h

@[simp] theorem MState.p_set (s : MState) (kind : Kind) (k : MKind) : (s.set kind k).p = s.p := by
  cases kind <;> rfl

@[simp] theorem ModState.get_set_same (s : ModState) (kind : Kind) (k : ModKind) : (s.set kind k).get kind = k := by
  cases kind <;> rfl

theorem ModState.get_set_other (s : ModState) {kind kind' : Kind} (k : ModKind) (h : kind' ≠ kind) :
    (s.set kind k).get kind' = s.get kind' := by
  cases kind <;> cases kind' <;> first | rfl | exact absurd rfl h

@[simp] theorem ModState.p_set (s : ModState) (kind : Kind) (k : ModKind) : (s.set kind k).p = s.p := by
  cases kind <;> rfl

theorem MState.set_get_self (s : MState) (kind : Kind) : s.set kind (s.get kind) = s := by
  cases kind <;> rfl

theorem ModState.set_get_self (s : ModState) (kind : Kind) : s.set kind (s.get kind) = s := by
  cases kind <;> rfl

/-! ### the invariant -/

structure KInv (p : Nat) (mk : ModKind) (k : MKind) : Prop where
  rel : Rel mk.fs k.reg
  it : mk.mit = k.sit
  sc : mk.script = k.script
  tr : ∀ t, k.tr = some t →
    (∀ f ∈ t.fetches, Conform p f) ∧ (t.mutated = false → ∀ f ∈ t.fetches, f.reg = k.reg)

structure Inv (ms : ModState) (s : MState) : Prop where
  p : ms.p = s.p
  pos : 1 ≤ s.p
  kinds : ∀ kind, KInv s.p (ms.get kind) (s.get kind)

theorem kinv_empty (p : Nat) : KInv p {} {} :=
  ⟨rel_empty, rfl, rfl, by intro t h; cases h⟩

theorem inv_init (p : Nat) (hp : 1 ≤ p) : Inv { p := p } { p := p } :=
  ⟨rfl, hp, by intro kind; cases kind <;> exact kinv_empty p⟩

theorem pageSizeOf_pos (n : Nat) : 1 ≤ pageSizeOf n := by
  unfold pageSizeOf
  split
  · decide
  · rename_i h; simp at h; omega

theorem inv_set {ms : ModState} {s : MState} (h : Inv ms s) (kind : Kind) {mk : ModKind} {k : MKind}
    (hk : KInv s.p mk k) : Inv (ms.set kind mk) (s.set kind k) := by
  refine ⟨by simp [h.p], by simp [h.pos], ?_⟩
  intro kind'
  by_cases e : kind' = kind
  · subst e; simpa using hk
  · rw [MState.get_set_other _ _ e, ModState.get_set_other _ _ e]; simpa using h.kinds kind'

/-- The domain: a request marked `follow` does not carry an undecodable cursor. -/
def FollowDecodes (rs : List Rec) : Prop :=
  ∀ r ∈ rs, match r with
    | .list _ cur true _ => cur ≠ .bad
    | _ => True

theorem specNext_ne_bad (reg : List Item) (p : Nat) (cur : DCur) : specNext reg p cur ≠ .bad := by
  unfold specNext
  split
  · intro h; cases h
  · split <;> (intro h; cases h)

theorem monList_conform (reg : List Item) (p : Nat) (cur : DCur) :
    monList reg p cur (LObs.ofRes (specPage reg p cur)) = none := by
  simp [monList]

/-- One record: no clause on the model's observation, and the invariant is kept. -/
theorem step_ok {ms : ModState} {s : MState} (h : Inv ms s) (r : Rec)
    (hr : match r with | .list _ cur true _ => cur ≠ .bad | _ => True) :
    (monStep s (modStep ms r).2).2 = none ∧ Inv (modStep ms r).1 (monStep s (modStep ms r).2).1 := by
  cases r with
  | reset => exact ⟨rfl, inv_init _ (by decide)⟩
  | server n => exact ⟨rfl, inv_init _ (pageSizeOf_pos n)⟩
  | add kind fs ok =>
    have hk := h.kinds kind
    refine ⟨rfl, inv_set h kind ⟨rel_add hk.rel fs, hk.it, hk.sc, ?_⟩⟩
    intro t ht
    simp only [markMutated] at ht
    cases htr : (s.get kind).tr with
    | none => rw [htr] at ht; cases ht
    | some t0 =>
      rw [htr] at ht
      simp only [Option.map_some, Option.some.injEq] at ht
      subst ht
      exact ⟨(hk.tr t0 htr).1, by intro hm; cases hm⟩
  | remove kind ks =>
    have hk := h.kinds kind
    refine ⟨rfl, inv_set h kind ⟨rel_remove hk.rel ks, hk.it, hk.sc, ?_⟩⟩
    intro t ht
    simp only [markMutated] at ht
    cases htr : (s.get kind).tr with
    | none => rw [htr] at ht; cases ht
    | some t0 =>
      rw [htr] at ht
      simp only [Option.map_some, Option.some.injEq] at ht
      subst ht
      exact ⟨(hk.tr t0 htr).1, by intro hm; cases hm⟩
  | script kind sc =>
    have hk := h.kinds kind
    exact ⟨rfl, inv_set h kind ⟨hk.rel, hk.it, rfl, hk.tr⟩⟩
  | unscript kind =>
    have hk := h.kinds kind
    exact ⟨rfl, inv_set h kind ⟨hk.rel, hk.it, rfl, hk.tr⟩⟩
  | list kind cur follow obs =>
    have hk := h.kinds kind
    simp only [modStep]
    cases hsc : (ms.get kind).script with
    | some sc =>
      have hsc' : (s.get kind).script = some sc := by rw [← hk.sc]; exact hsc
      simp only [monStep, monListRec, hsc', if_true]
      exact ⟨trivial, h⟩
    | none =>
      have hsc' : (s.get kind).script = none := by rw [← hk.sc]; exact hsc
      obtain ⟨e1, e2⟩ := rel_page hk.rel s.p h.pos cur
      simp only [monStep, monListRec, hsc', h.p, e1, monList_conform]
      refine ⟨?_, ?_⟩
      · cases follow with
        | false => simp
        | true =>
          have hb : cur ≠ .bad := hr
          cases cur with
          | bad => exact absurd rfl hb
          | nil => simp [specPage, LObs.ofRes]
          | good u => simp [specPage, LObs.ofRes]
      · rw [← h.p] at e2 ⊢
        apply inv_set h kind
        refine ⟨e2, hk.it, rfl, ?_⟩
        · intro t ht
          cases htr : (s.get kind).tr with
          | none => rw [htr] at ht; cases ht
          | some t0 =>
            rw [htr] at ht
            simp only [Option.map_some, Option.some.injEq] at ht
            subst ht
            obtain ⟨c1, c2⟩ := hk.tr t0 htr
            refine ⟨?_, ?_⟩
            · intro f hf
              rcases List.mem_append.1 hf with hf | hf
              · exact c1 f hf
              · simp only [List.mem_singleton] at hf
                subst hf
                exact ⟨hk.rel.2.1, by rw [h.p]⟩
            · intro hm f hf
              rcases List.mem_append.1 hf with hf | hf
              · exact c2 hm f hf
              · simp only [List.mem_singleton] at hf
                subst hf; rfl
  | tbegin kind =>
    have hk := h.kinds kind
    refine ⟨rfl, ?_⟩
    have : Inv (ms.set kind (ms.get kind)) (s.set kind { s.get kind with tr := some {} }) :=
      inv_set h kind ⟨hk.rel, hk.it, hk.sc, by
        intro t ht
        simp only [Option.some.injEq] at ht
        subst ht
        exact ⟨by intro f hf; simp at hf, by intro _ f hf; simp at hf⟩⟩
    rw [ModState.set_get_self] at this
    exact this
  | tend kind =>
    have hk := h.kinds kind
    refine ⟨?_, ?_⟩
    · simp only [modStep, monStep]
      cases htr : (s.get kind).tr with
      | none => rfl
      | some t =>
        obtain ⟨c1, c2⟩ := hk.tr t htr
        simp only [Option.bind_some]
        apply monTend_conform h.pos t c1
        intro hm f hf
        rw [c2 hm f hf]
        cases hfs : t.fetches with
        | nil => rw [hfs] at hf; cases hf
        | cons g r => simp only [travFirst]; exact (c2 hm g (by rw [hfs]; simp)).symm
    · have : Inv (ms.set kind (ms.get kind)) (s.set kind { s.get kind with tr := none }) :=
        inv_set h kind ⟨hk.rel, hk.it, hk.sc, by intro t ht; cases ht⟩
      rw [ModState.set_get_self] at this
      exact this
  | iopen kind cur =>
    have hk := h.kinds kind
    exact ⟨rfl, inv_set h kind ⟨hk.rel, rfl, hk.sc, hk.tr⟩⟩
  | ipull kind m obs =>
    have hk := h.kinds kind
    simp only [modStep]
    cases hit : (ms.get kind).mit with
    | none =>
      have hit' : (s.get kind).sit = none := by rw [← hk.it]; exact hit
      simp only [monStep, hit']
      exact ⟨trivial, h⟩
    | some it =>
      have hit' : (s.get kind).sit = some it := by rw [← hk.it]; exact hit
      cases hsc : (ms.get kind).script with
      | some sc =>
        have hsc' : (s.get kind).script = some sc := by rw [← hk.sc]; exact hsc
        simp only [monStep, hit', hsc', if_true]
        exact ⟨trivial, inv_set h kind ⟨hk.rel, rfl, rfl, hk.tr⟩⟩
      | none =>
        have hsc' : (s.get kind).script = none := by rw [← hk.sc]; exact hsc
        have ho : modelOracle ms.p (ms.get kind).fs = specOracle (s.get kind).reg s.p := by
          rw [h.p]; exact rel_oracle hk.rel s.p h.pos
        simp only [monStep, hit', hsc', ho, if_true]
        exact ⟨trivial, inv_set h kind ⟨rel_sortKeys hk.rel, rfl, rfl, hk.tr⟩⟩
  | iclose kind =>
    have hk := h.kinds kind
    exact ⟨rfl, inv_set h kind ⟨hk.rel, rfl, hk.sc, hk.tr⟩⟩
  | iterall kind cur obs =>
    have hk := h.kinds kind
    simp only [modStep]
    cases hsc : (ms.get kind).script with
    | some sc =>
      have hsc' : (s.get kind).script = some sc := by rw [← hk.sc]; exact hsc
      simp only [monStep, hsc']
      refine ⟨?_, h⟩
      by_cases hrun : (manualAll (scriptedOracle kind sc) cur (sc.length + 2)).2 = .running
      · simp [hrun]
      · simp [drainAll_eq_manualAll kind sc cur hrun]
    | none =>
      have hsc' : (s.get kind).script = none := by rw [← hk.sc]; exact hsc
      have ho : modelOracle ms.p (ms.get kind).fs = specOracle (s.get kind).reg s.p := by
        rw [h.p]; exact rel_oracle hk.rel s.p h.pos
      have hl : (ms.get kind).fs.feats.length = (s.get kind).reg.length := by
        rw [rel_feats hk.rel, length_sortReg]
      simp only [monStep, hsc', ho, hl, if_true]
      refine ⟨trivial, ?_⟩
      have := inv_set h kind (mk := { ms.get kind with fs := (ms.get kind).fs.sortKeys }) (k := s.get kind)
        ⟨rel_sortKeys hk.rel, hk.it, hk.sc, hk.tr⟩
      rw [MState.set_get_self] at this
      simpa [hsc] using this
  | roundtrip same => exact ⟨rfl, h⟩
  | codec ok => exact ⟨rfl, h⟩
  | readonly touch =>
    cases touch with
    | none => exact ⟨rfl, h⟩
    | some kind =>
      have hk := h.kinds kind
      refine ⟨rfl, ?_⟩
      have := inv_set h kind (mk := { ms.get kind with fs := (ms.get kind).fs.sortKeys }) (k := s.get kind)
        ⟨rel_sortKeys hk.rel, hk.it, hk.sc, hk.tr⟩
      rw [MState.set_get_self] at this
      exact this

/-- The records of an operation sequence with the MODEL's observations. -/
def modelTrace : ModState → List Rec → List Rec
  | _, [] => []
  | ms, r :: rs => (modStep ms r).2 :: modelTrace (modStep ms r).1 rs

theorem runMonFrom_model : ∀ (rs : List Rec) (ms : ModState) (s : MState) (i : Nat), Inv ms s → FollowDecodes rs →
    runMonFrom s i (modelTrace ms rs) = none
  | [], _, _, _, _, _ => rfl
  | r :: rs, ms, s, i, h, hf => by
    obtain ⟨h1, h2⟩ := step_ok h r (hf r (by simp))
    simp only [modelTrace, runMonFrom, h1]
    exact runMonFrom_model rs _ _ _ h2 (fun x hx => hf x (List.mem_cons_of_mem _ hx))

/-- **monitor_accepts_model.** For every sequence of records (any page sizes, registrations, removals,
scripts, list requests with any cursor, traversal brackets, iterator sessions), run on the model from
the initial state, the C17 monitor reports no clause on the model's observations. -/
theorem monitor_accepts_model (rs : List Rec) (hf : FollowDecodes rs) : runMon (modelTrace {} rs) = none :=
  runMonFrom_model rs {} {} 0 (inv_init _ (by decide)) hf

/-- The hypothesis is needed: on a request that carries an undecodable cursor the model answers
invalid params, and with the `follow` flag set the monitor reads that as "refused the cursor it had
just issued". -/
theorem follow_flag_needed :
    runMon (modelTrace {} [.list .tools .bad true .other]) = some (0, .followRefused) := by decide

/-- …and satisfiable: a traversal of three registered tools with page size 2. -/
example : FollowDecodes [.server 2, .add .tools [([1], "a"), ([2], "b"), ([3], "c")] true, .tbegin .tools,
    .list .tools .nil false .other, .list .tools (.good [2]) true .other, .tend .tools] := by
  intro r hr
  simp only [List.mem_cons, List.mem_nil_iff, or_false] at hr
  rcases hr with rfl | rfl | rfl | rfl | rfl | rfl <;> simp

end Paginate
