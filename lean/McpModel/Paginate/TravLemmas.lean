import McpModel.Paginate.MonLemmas
/-!
E13 (C17): what a traversal that follows cursors receives when every answer is the page the property
demands (`Conform`) — at the level of the monitor's data (`Fetch`, `chain`, `travItems`, …), with the
registry changing arbitrarily between the fetches:
* `trav_sorted`: the keys received are strictly ascending overall, all above the start cursor;
* `trav_complete`: once the empty cursor is reached, every key registered at every fetch was received;
* `trav_static`: with one registry throughout, the keys received are exactly the listing above the
  start cursor, in `max 1 ⌈n/p⌉` pages.
Consequently `monTend` reports nothing on such a traversal (`monTend_conform`).  Used by Accept.lean
(the model's answers conform) and by Sound.lean (`monitor_complete`).
-/
set_option linter.unusedSectionVars false
set_option linter.unusedSimpArgs false
namespace Paginate

/-- The answer is the one the property demands for this registry and cursor. -/
def Conform (p : Nat) (f : Fetch) : Prop := RegOK f.reg ∧ f.obs = LObs.ofRes (specPage f.reg p f.cur)

/-- `k` lies strictly above the cursor's key (any `k`, for the empty cursor). -/
def AboveK (c : DCur) (k : K) : Prop := ∀ u, loC c = some u → lt u k = true

theorem conform_page {p : Nat} {f : Fetch} (h : Conform p f) (hp : f.isPage = true) :
    f.cur ≠ .bad ∧
    f.obs = .page ((rest (loC f.cur) (sortReg f.reg)).take p) (nextOf dcodec p (rest (loC f.cur) (sortReg f.reg))) := by
  have hb : f.cur ≠ .bad := by
    intro e
    have := h.2
    rw [e] at this
    simp only [specPage, LObs.ofRes] at this
    simp [Fetch.isPage, this] at hp
  refine ⟨hb, ?_⟩
  rw [h.2, specPage_eq _ _ _ hb]; rfl

theorem fetch_keys_of_page {f : Fetch} {items : List Item} {n : DCur} (h : f.obs = .page items n) :
    f.keys = keys items := by
  simp [Fetch.keys, h, keys]

theorem travItems_cons (f : Fetch) (r : List Fetch) : travItems (f :: r) = f.keys ++ travItems r := by
  simp [travItems]

theorem strictlyAscending_iff : ∀ (l : List K), strictlyAscending l = true ↔ Sorted l
  | [] => by simp [strictlyAscending, Sorted]
  | [a] => by simp [strictlyAscending, Sorted]
  | a :: b :: r => by
    have ih := strictlyAscending_iff (b :: r)
    simp only [strictlyAscending, Bool.and_eq_true, ih]
    unfold Sorted
    constructor
    · rintro ⟨h1, h2⟩
      refine List.pairwise_cons.2 ⟨?_, h2⟩
      intro y hy
      rcases List.mem_cons.1 hy with e | hy
      · rw [e]; exact h1
      · exact KOrd.trans h1 ((List.pairwise_cons.1 h2).1 y hy)
    · intro h
      have := List.pairwise_cons.1 h
      exact ⟨this.1 b (by simp), this.2⟩

theorem chain_cons_cons {c : DCur} {f g : Fetch} {r : List Fetch} (h : chain c (f :: g :: r) = true) :
    f.cur = c ∧ ∃ items n, f.obs = .page items n ∧ n ≠ .nil ∧ chain n (g :: r) = true := by
  simp only [chain, Bool.and_eq_true, beq_iff_eq] at h
  refine ⟨h.1, ?_⟩
  cases ho : f.obs with
  | page items n =>
    rw [ho] at h
    simp only [Bool.and_eq_true, bne_iff_ne, ne_eq] at h
    exact ⟨items, n, rfl, h.2.1, h.2.2⟩
  | invalid => rw [ho] at h; simp at h
  | other => rw [ho] at h; simp at h

theorem chain_head {c : DCur} {f : Fetch} {r : List Fetch} (h : chain c (f :: r) = true) : f.cur = c := by
  cases r with
  | nil => simpa [chain] using h
  | cons g r => exact (chain_cons_cons h).1

/-- What one conforming, non-final fetch of a chain gives. -/
theorem step_facts {p : Nat} (hp : 1 ≤ p) {f : Fetch} {items : List Item} {n : DCur}
    (hc : Conform p f) (ho : f.obs = .page items n) (hn : n ≠ .nil) :
    items = (rest (loC f.cur) (sortReg f.reg)).take p ∧ p < (rest (loC f.cur) (sortReg f.reg)).length ∧
    ∃ l, ((rest (loC f.cur) (sortReg f.reg)).take p).getLast? = some l ∧ n = .good l.1 := by
  obtain ⟨_, hpg⟩ := conform_page hc (by simp [Fetch.isPage, ho])
  rw [ho] at hpg
  injection hpg with h1 h2
  refine ⟨h1, ?_⟩
  rcases nextOf_cases dcodec p hp (rest (loC f.cur) (sortReg f.reg)) with ⟨_, h4⟩ | ⟨h3, l, h4, h5⟩
  · rw [h4] at h2; exact absurd h2 hn
  · exact ⟨h3, l, h4, by rw [h2, h5]; rfl⟩

/-- What a conforming final fetch (empty `NextCursor`) gives. -/
theorem last_facts {p : Nat} (hp : 1 ≤ p) {f : Fetch} {items : List Item}
    (hc : Conform p f) (ho : f.obs = .page items .nil) :
    items = rest (loC f.cur) (sortReg f.reg) ∧ (rest (loC f.cur) (sortReg f.reg)).length ≤ p := by
  obtain ⟨_, hpg⟩ := conform_page hc (by simp [Fetch.isPage, ho])
  rw [ho] at hpg
  injection hpg with h1 h2
  rcases nextOf_cases dcodec p hp (rest (loC f.cur) (sortReg f.reg)) with ⟨h3, _⟩ | ⟨_, l, _, h5⟩
  · exact ⟨by rw [h1, List.take_of_length_le h3], h3⟩
  · rw [h5] at h2; cases h2

theorem items_sorted_above {f : Fetch} (hr : RegOK f.reg) (p : Nat) :
    Sorted (keys ((rest (loC f.cur) (sortReg f.reg)).take p)) ∧
    ∀ k ∈ keys ((rest (loC f.cur) (sortReg f.reg)).take p), AboveK f.cur k := by
  have hL := sorted_sortReg f.reg hr
  have hsub : ((rest (loC f.cur) (sortReg f.reg)).take p).Sublist (sortReg f.reg) :=
    (List.take_sublist _ _).trans (rest_sublist _ _)
  refine ⟨sorted_sublist (hsub.map _) hL, ?_⟩
  intro k hk u hu
  obtain ⟨v, hv⟩ := mem_keys.1 hk
  exact ((mem_rest _ _ _).1 (List.mem_of_mem_take hv)).2 u hu

/-- **trav_sorted.** -/
theorem trav_sorted {p : Nat} (hp : 1 ≤ p) : ∀ (fs : List Fetch) (c : DCur),
    (∀ f ∈ fs, Conform p f) → fs.all Fetch.isPage = true → chain c fs = true →
    Sorted (travItems fs) ∧ ∀ k ∈ travItems fs, AboveK c k
  | [], _, _, _, _ => by simp [travItems, Sorted]
  | [f], c, hc, hpg, hch => by
    have hcf := hc f (by simp)
    have hpf : f.isPage = true := by simpa using hpg
    obtain ⟨_, ho⟩ := conform_page hcf hpf
    have hcur : f.cur = c := chain_head hch
    rw [travItems_cons]
    simp only [travItems, List.flatMap_nil, List.append_nil]
    rw [fetch_keys_of_page ho, ← hcur]
    exact items_sorted_above hcf.1 p
  | f :: g :: r, c, hc, hpg, hch => by
    obtain ⟨hcur, items, n, ho, hn, hch'⟩ := chain_cons_cons hch
    have hcf := hc f (by simp)
    obtain ⟨hi, hlen, l, hl, hnl⟩ := step_facts hp hcf ho hn
    have hpg' : (g :: r).all Fetch.isPage = true := by
      simp only [List.all_cons, Bool.and_eq_true] at hpg ⊢; exact hpg.2
    have IH := trav_sorted hp (g :: r) n (fun x hx => hc x (List.mem_cons_of_mem _ hx)) hpg' hch'
    obtain ⟨hs1, ha1⟩ := items_sorted_above hcf.1 p
    have hRs := rest_sorted (loC f.cur) (sortReg f.reg) (sorted_sortReg f.reg hcf.1)
    obtain ⟨c1, _, c3⟩ := cut_bounds _ p l hRs hl
    have hlR := (mem_rest _ _ _).1 (List.mem_of_mem_take c3)
    rw [travItems_cons, fetch_keys_of_page ho, hi]
    have habove : ∀ b ∈ travItems (g :: r), lt l.1 b = true := by
      intro b hb
      exact IH.2 b hb l.1 (by rw [hnl]; rfl)
    refine ⟨?_, ?_⟩
    · unfold Sorted
      rw [List.pairwise_append]
      refine ⟨hs1, IH.1, ?_⟩
      intro a ha b hb
      obtain ⟨va, hva⟩ := mem_keys.1 ha
      rcases c1 _ hva with e | e
      · simp only at e; rw [e]; exact habove b hb
      · exact KOrd.trans e (habove b hb)
    · intro k hk
      rcases List.mem_append.1 hk with hk | hk
      · rw [← hcur]; exact ha1 k hk
      · intro u hu
        rw [← hcur] at hu
        exact KOrd.trans (hlR.2 u hu) (habove k hk)

theorem travFinished_cons_cons (f g : Fetch) (r : List Fetch) :
    travFinished (f :: g :: r) = travFinished (g :: r) := by
  simp [travFinished, List.getLast?_cons_cons]

theorem travFinished_single {f : Fetch} (h : travFinished [f] = true) : ∃ items, f.obs = .page items .nil := by
  simp only [travFinished, List.getLast?_singleton] at h
  cases ho : f.obs with
  | page items n =>
    rw [ho] at h
    simp only [beq_iff_eq] at h
    exact ⟨items, by rw [h]⟩
  | invalid => rw [ho] at h; cases h
  | other => rw [ho] at h; cases h

/-- **trav_complete.** -/
theorem trav_complete {p : Nat} (hp : 1 ≤ p) : ∀ (fs : List Fetch) (c : DCur),
    (∀ f ∈ fs, Conform p f) → chain c fs = true → travFinished fs = true →
    ∀ k, (∀ f ∈ fs, k ∈ f.regKeys) → AboveK c k → k ∈ travItems fs
  | [], _, _, _, hf, _, _, _ => by simp [travFinished] at hf
  | [f], c, hc, hch, hf, k, hk, hab => by
    obtain ⟨items, ho⟩ := travFinished_single hf
    have hcf := hc f (by simp)
    obtain ⟨hi, _⟩ := last_facts hp hcf ho
    have hcur : f.cur = c := chain_head hch
    rw [travItems_cons]
    simp only [travItems, List.flatMap_nil, List.append_nil]
    rw [fetch_keys_of_page ho, hi]
    have hkr : k ∈ keys f.reg := hk f (by simp)
    obtain ⟨v, hv⟩ := mem_keys.1 hkr
    exact mem_keys.2 ⟨v, (mem_rest _ _ _).2 ⟨(mem_sortReg _ _).2 hv, by rw [hcur]; exact hab⟩⟩
  | f :: g :: r, c, hc, hch, hf, k, hk, hab => by
    obtain ⟨hcur, items, n, ho, hn, hch'⟩ := chain_cons_cons hch
    have hcf := hc f (by simp)
    obtain ⟨hi, hlen, l, hl, hnl⟩ := step_facts hp hcf ho hn
    rw [travFinished_cons_cons] at hf
    have IH := trav_complete hp (g :: r) n (fun x hx => hc x (List.mem_cons_of_mem _ hx)) hch' hf k
      (fun x hx => hk x (List.mem_cons_of_mem _ hx))
    have hRs := rest_sorted (loC f.cur) (sortReg f.reg) (sorted_sortReg f.reg hcf.1)
    obtain ⟨_, c2, _⟩ := cut_bounds _ p l hRs hl
    rw [travItems_cons, fetch_keys_of_page ho, hi, List.mem_append]
    have hkr : k ∈ keys f.reg := hk f (by simp)
    obtain ⟨v, hv⟩ := mem_keys.1 hkr
    have hkR : (k, v) ∈ rest (loC f.cur) (sortReg f.reg) :=
      (mem_rest _ _ _).2 ⟨(mem_sortReg _ _).2 hv, by rw [hcur]; exact hab⟩
    rw [← List.take_append_drop p (rest (loC f.cur) (sortReg f.reg)), List.mem_append] at hkR
    rcases hkR with h1 | h2
    · exact Or.inl (mem_keys.2 ⟨v, h1⟩)
    · refine Or.inr (IH ?_)
      intro u hu
      rw [hnl] at hu
      simp only [loC, Option.some.injEq] at hu
      subst hu
      exact c2 _ h2

theorem pagesFor'_eq (n p : Nat) : pagesFor' n p = pagesFor n p := rfl

/-- **trav_static.** One registry throughout. -/
theorem trav_static_spec {p : Nat} (hp : 1 ≤ p) (reg : List Item) (hr : RegOK reg) : ∀ (fs : List Fetch) (c : DCur),
    (∀ f ∈ fs, Conform p f) → (∀ f ∈ fs, f.reg = reg) → chain c fs = true → travFinished fs = true →
    travItems fs = keys (rest (loC c) (sortReg reg)) ∧
    fs.length = pagesFor' (rest (loC c) (sortReg reg)).length p
  | [], _, _, _, _, hf => by simp [travFinished] at hf
  | [f], c, hc, hreg, hch, hf => by
    obtain ⟨items, ho⟩ := travFinished_single hf
    have hcf := hc f (by simp)
    obtain ⟨hi, hle⟩ := last_facts hp hcf ho
    have hcur : f.cur = c := chain_head hch
    have hfr : f.reg = reg := hreg f (by simp)
    rw [hcur, hfr] at hi hle
    rw [travItems_cons]
    simp only [travItems, List.flatMap_nil, List.append_nil]
    rw [fetch_keys_of_page ho, hi, pagesFor'_eq, pagesFor_small _ _ hp hle]
    exact ⟨rfl, rfl⟩
  | f :: g :: r, c, hc, hreg, hch, hf => by
    obtain ⟨hcur, items, n, ho, hn, hch'⟩ := chain_cons_cons hch
    have hcf := hc f (by simp)
    obtain ⟨hi, hlen, l, hl, hnl⟩ := step_facts hp hcf ho hn
    have hfr : f.reg = reg := hreg f (by simp)
    rw [hcur, hfr] at hi hlen hl
    rw [travFinished_cons_cons] at hf
    obtain ⟨i1, i2⟩ := trav_static_spec hp reg hr (g :: r) n (fun x hx => hc x (List.mem_cons_of_mem _ hx))
      (fun x hx => hreg x (List.mem_cons_of_mem _ hx)) hch' hf
    have hR : rest (loC n) (sortReg reg) = (rest (loC c) (sortReg reg)).drop p := by
      rw [hnl]; exact rest_after_cut _ _ p l (sorted_sortReg reg hr) hl
    refine ⟨?_, ?_⟩
    · rw [travItems_cons, fetch_keys_of_page ho, hi, i1, hR, ← keys_append, List.take_append_drop]
    · rw [List.length_cons, i2, hR, List.length_drop, pagesFor'_eq, pagesFor'_eq, pagesFor_big _ _ hp hlen]

theorem mem_travStable : ∀ (fs : List Fetch) (k : K), k ∈ travStable fs → ∀ f ∈ fs, k ∈ f.regKeys
  | [], _, h, _, _ => by simp [travStable] at h
  | f :: r, k, h, x, hx => by
    simp only [travStable, List.mem_filter, List.all_eq_true, List.contains_iff_mem] at h
    rcases List.mem_cons.1 hx with e | hx
    · rw [e]; exact h.1
    · exact h.2 x hx

theorem travStable_of_mem : ∀ (fs : List Fetch) (k : K), fs ≠ [] → (∀ f ∈ fs, k ∈ f.regKeys) → k ∈ travStable fs
  | [], _, h, _ => absurd rfl h
  | f :: r, k, _, h => by
    simp only [travStable, List.mem_filter, List.all_eq_true, List.contains_iff_mem]
    exact ⟨h f (by simp), fun x hx => h x (List.mem_cons_of_mem _ hx)⟩

/-- **No traversal clause when every answer conforms.** (`t.mutated = false` only if the registry was
the same at every fetch.) -/
theorem monTend_conform {p : Nat} (hp : 1 ≤ p) (t : TravMon) (hc : ∀ f ∈ t.fetches, Conform p f)
    (hm : t.mutated = false → ∀ f ∈ t.fetches, f.reg = travFirst t.fetches) : monTend t p = none := by
  unfold monTend
  by_cases h1 : t.fetches.all Fetch.isPage = true
  · by_cases h2 : chain .nil t.fetches = true
    · have hs := trav_sorted hp t.fetches .nil hc h1 h2
      have e3 : strictlyAscending (travItems t.fetches) = true := (strictlyAscending_iff _).2 hs.1
      simp only [h1, h2, e3, Bool.not_true, Bool.false_eq_true, if_false]
      by_cases hf : travFinished t.fetches = true
      · have hcomp := trav_complete hp t.fetches .nil hc h2 hf
        have e4 : (travStable t.fetches).all (fun k => (travItems t.fetches).contains k) = true := by
          rw [List.all_eq_true]
          intro k hk
          rw [List.contains_iff_mem]
          exact hcomp k (mem_travStable _ k hk) (by intro u hu; simp [loC] at hu)
        simp only [hf, e4, Bool.not_true, Bool.and_false, Bool.false_eq_true, if_false, Bool.true_and]
        cases hmu : t.mutated with
        | true => simp
        | false =>
          have hregs := hm hmu
          have hne : t.fetches ≠ [] := by intro e; rw [e] at hf; simp [travFinished] at hf
          have hfirst : RegOK (travFirst t.fetches) := by
            cases hfs : t.fetches with
            | nil => exact absurd hfs hne
            | cons f r => simp only [travFirst]; exact (hc f (by rw [hfs]; simp)).1
          obtain ⟨s1, s2⟩ := trav_static_spec hp (travFirst t.fetches) hfirst t.fetches .nil hc hregs h2 hf
          simp only [loC, rest] at s1 s2
          rw [length_sortReg] at s2
          have e5 : (travItems t.fetches != (sortReg (travFirst t.fetches)).map (·.1)) = false := by
            rw [s1]; simp [keys]
          have e6 : (t.fetches.length != pagesFor' (travFirst t.fetches).length p) = false := by
            rw [← s2]; simp
          simp [e5, e6]
      · have hf' : travFinished t.fetches = false := by simpa using hf
        simp [hf']
    · have : chain .nil t.fetches = false := by simpa using h2
      simp [h1, this]
  · have : t.fetches.all Fetch.isPage = false := by simpa using h1
    simp [this]

end Paginate
