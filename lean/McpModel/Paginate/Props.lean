import McpModel.Paginate.Lemmas
import McpModel.Paginate.IterLemmas
import McpModel.Paginate.Bridge
import McpModel.Paginate.ForeignLemmas
import McpModel.Generated.PaginateGen
/-!
# C17 — property theorems for keyset pagination (model: `Paginate.paginate`, `trav`, `pull`)

All theorems quantify over *every* key type with a strict total order (`KOrd`; the driver uses
`String`, instance in `Model`), every value type, every cursor codec satisfying
`dec (enc k) = some k` and `enc k ≠ ""`, every page size `p ≥ 1`, every reachable server state
(`WF`, shown to hold after any sequence of add/remove/list operations: `wf_reachable`), every cursor
value and every history of mutation batches between page fetches.  Nothing is bounded.
-/
set_option linter.unusedSectionVars false
namespace Paginate
variable {κ ν C : Type} [KOrd κ] [DecidableEq κ] [DecidableEq C]

/-- Operations on one feature set of a server. -/
inductive Op (κ ν C : Type)
  | add (fs : List (κ × ν))
  | remove (uids : List κ)
  | list (p : Nat) (cur : C)

def stepOp (cod : Codec κ C) (s : FS κ ν) : Op κ ν C → FS κ ν
  | .add fs => s.add fs
  | .remove uids => (s.remove uids).1
  | .list p cur => (paginate cod p s cur).1

def opOK : Op κ ν C → Prop
  | .list p _ => 1 ≤ p
  | _ => True

/-- Reachability: after any sequence of registrations, removals and list requests (any page sizes
≥ 1, any cursors) the index invariant holds: the map's canonical form is ascending and `sortedKeys`,
when non-nil, is the current sorted key list — i.e. every mutation invalidated it. -/
theorem wf_reachable (cod : Codec κ C) (ops : List (Op κ ν C)) (hp : ∀ op ∈ ops, opOK op) :
    WF (ops.foldl (stepOp cod) (FS.empty : FS κ ν)) := by
  suffices h : ∀ (s : FS κ ν), WF s → WF (ops.foldl (stepOp cod) s) from h _ wf_empty
  induction ops with
  | nil => intro s h; exact h
  | cons op r ih =>
    intro s h
    simp only [List.foldl_cons]
    apply ih (fun o ho => hp o (List.mem_cons_of_mem _ ho))
    have hop := hp op (List.mem_cons_self ..)
    cases op with
    | add fs => exact wf_add s fs h
    | remove uids => exact wf_remove s uids h
    | list p cur => exact (paginate_spec cod p hop s h cur).1

/-- The page size the server really uses is ≥ 1: `NewServer` panics on a negative `PageSize` and
replaces 0 by `DefaultPageSize` (regenerated constant; structural fact `paginate.pagesize_default`). -/
theorem defaultPageSize_pos : 1 ≤ Generated.Paginate.defaultPageSize := by decide

/-- **any_cursor_total.** No cursor value — issued, stale (its key since removed), or arbitrary —
crashes a list request on a reachable state; the answer is invalid-params exactly when the cursor is
non-empty and does not decode, and otherwise it is exactly the first `p` registered entries strictly
above the decoded key (all entries for the empty cursor), with the next cursor empty iff nothing is
left and otherwise encoding the last returned key. -/
theorem any_cursor_total (cod : Codec κ C) (p : Nat) (hp : 1 ≤ p) (s : FS κ ν) (h : WF s) (cur : C) :
    (paginate cod p s cur).2 ≠ .panic ∧
    ((paginate cod p s cur).2 = .invalidParams ↔ (cur ≠ cod.nil ∧ cod.dec cur = none)) ∧
    (¬ (cur ≠ cod.nil ∧ cod.dec cur = none) →
      (paginate cod p s cur).2 = .page ((rest (loOf cod cur) s.feats).take p)
        (nextOf cod p (rest (loOf cod cur) s.feats))) := by
  obtain ⟨_, _, hspec⟩ := paginate_spec cod p hp s h cur
  rcases hspec with ⟨hc, hd, hres⟩ | ⟨hcur, hres⟩
  · refine ⟨(by rw [hres]; intro e; cases e), ⟨fun _ => ⟨hc, hd⟩, fun _ => hres⟩, fun hn => absurd ⟨hc, hd⟩ hn⟩
  · refine ⟨(by rw [hres]; intro e; cases e), ⟨?_, ?_⟩, fun _ => hres⟩
    · rw [hres]; intro e; cases e
    · rintro ⟨hc, hd⟩
      rcases hcur with h1 | h1
      · exact absurd h1 hc
      · simp [hd] at h1

/-- **malformed_cursor_invalid_params.** A non-empty cursor that does not decode is answered with
invalid params, in every state (well-formed or not), for every page size, and the registered set
is untouched. -/
theorem malformed_cursor_invalid_params (cod : Codec κ C) (p : Nat) (s : FS κ ν) (cur : C)
    (hc : cur ≠ cod.nil) (hd : cod.dec cur = none) :
    paginate cod p s cur = (s, .invalidParams) := by
  unfold paginate; simp [hc, hd]

/-- **traversal_is_sorted_keys.** For every registered set and page size `p ≥ 1`, following cursors
from the first page (no mutations; `m` fetch slots with `n ≤ (m+1)·p`) reaches the empty cursor,
never fails, the concatenated pages are exactly the registered entries — each once, ascending by key
— and the number of pages is `max 1 ⌈n/p⌉`. -/
theorem traversal_is_sorted_keys (cod : Codec κ C) (p : Nat) (hp : 1 ≤ p) (s : FS κ ν) (h : WF s)
    (m : Nat) (hm : s.feats.length ≤ m * p + p) :
    (trav cod p (List.replicate m []) s cod.nil).done = true ∧
    (trav cod p (List.replicate m []) s cod.nil).failed = false ∧
    (trav cod p (List.replicate m []) s cod.nil).pages.flatten = s.feats ∧
    Sorted (keys s.feats) ∧ (keys s.feats).Nodup ∧
    (trav cod p (List.replicate m []) s cod.nil).pages.length = pagesFor s.feats.length p := by
  have := trav_static cod p hp m s cod.nil h (Or.inl rfl) (by simpa [loOf_nil, rest] using hm)
  simp only [loOf_nil, rest] at this
  exact ⟨this.1, this.2.1, this.2.2.1, h.1, sorted_nodup h.1, this.2.2.2⟩

/-- The concatenation of the pages of a traversal. -/
def Trav.items (t : Trav κ ν) : List (κ × ν) := t.pages.flatten

/-- **stable_items_exactly_once.** For every history of mutation batches (add / replace / remove, any
number, any content) interleaved between the page fetches of a traversal from the first page:
the keys received are strictly ascending overall (so no key is ever received twice, finished or not),
every received entry was registered — with that value — at the moment its page was fetched, no
fetch fails, every page has at most `p` entries, and once the empty cursor is reached every key that
was registered at every fetch of the traversal has been received exactly once. -/
theorem stable_items_exactly_once (cod : Codec κ C) (p : Nat) (hp : 1 ≤ p) (s : FS κ ν) (h : WF s)
    (hist : List (List (Mut κ ν))) :
    let t := trav cod p hist s cod.nil
    Sorted (keys t.items) ∧ (keys t.items).Nodup ∧ t.failed = false ∧
    (∀ x ∈ t.pages.zip t.states, ∀ f ∈ x.1, f ∈ x.2.feats) ∧
    (∀ pg ∈ t.pages, pg.length ≤ p) ∧
    (t.done = true → ∀ k, (∀ st ∈ t.states, k ∈ keys st.feats) → (keys t.items).count k = 1) := by
  intro t
  have ok := trav_ok cod p hp hist s cod.nil h
  refine ⟨ok.sorted, sorted_nodup ok.sorted, ok.nofail (Or.inl rfl), ok.registered, ok.pagesize, ?_⟩
  intro hd k hk
  have hmem := ok.complete hd k hk (by intro uid hu; simp [loOf_nil] at hu)
  show List.count k (keys (trav cod p hist s _).pages.flatten) = 1
  rw [(sorted_nodup ok.sorted).count]; simp [hmem]

/-- The same from an arbitrary (issued, stale or forged-but-decodable) start cursor: everything
received lies strictly above the cursor's key, ascending; stable keys above it are received once. -/
theorem stable_items_from_cursor (cod : Codec κ C) (p : Nat) (hp : 1 ≤ p) (s : FS κ ν) (h : WF s)
    (hist : List (List (Mut κ ν))) (cur : C) (uid : κ) (hcur : cur ≠ cod.nil) (hd : cod.dec cur = some uid) :
    let t := trav cod p hist s cur
    Sorted (keys t.items) ∧ t.failed = false ∧ (∀ x ∈ keys t.items, lt uid x = true) ∧
    (t.done = true → ∀ k, (∀ st ∈ t.states, k ∈ keys st.feats) → lt uid k = true →
      (keys t.items).count k = 1) := by
  intro t
  have ok := trav_ok cod p hp hist s cur h
  have hlo : loOf cod cur = some uid := by simp [loOf, hcur, hd]
  refine ⟨ok.sorted, ok.nofail (Or.inr (by simp [hd])), ok.above uid hlo, ?_⟩
  intro hdone k hk hgt
  have hmem := ok.complete hdone k hk (by intro u hu; rw [hlo] at hu; cases hu; exact hgt)
  show List.count k (keys (trav cod p hist s _).pages.flatten) = 1
  rw [(sorted_nodup ok.sorted).count]; simp [hmem]

/-- **iterator_equals_manual_paging.** Against *any* server behaviour `o` (the answer to the `i`-th
list request as a function of the cursor sent — hence any registered set, page size and mutation
history) and from any start cursor: if manual paging ends within `f` requests (empty cursor, or an
error), then the iterator run to completion hands its consumer exactly the concatenation of the
manual pages, in order, and ends the same way (normally, or by yielding the error). -/
theorem iterator_equals_manual_paging (nil : C) (o : Nat → C → Res κ ν C) (f : Nat) (cur : C)
    (hend : (manual nil o f 0 cur).2 ≠ .running) :
    ∃ steps, drain nil o steps (Iter.start cur) = ((manual nil o f 0 cur).1.flatten, (manual nil o f 0 cur).2) :=
  drain_eq_manual nil o f 0 cur false (Or.inl rfl) hend

/-- **iterator_prefix** (consumer breaks early). After any number of pulls, what the iterator has
handed out is a prefix of the manual-paging sequence, and it has made no more list requests than
elements-plus-one require (each pull makes at most one request). -/
theorem iterator_prefix (nil : C) (o : Nat → C → Res κ ν C) (steps : Nat) (cur : C) :
    (drain nil o steps (Iter.start cur)).1 <+: (manual nil o steps 0 cur).1.flatten := by
  have := drain_prefix nil o steps steps (Iter.start cur) (Nat.le_refl _)
  simpa [remaining, Iter.start] using this

/-- **iterator_on_server.** The two halves put together for the concrete server: for every mutation
history (batches applied between consecutive list requests), state, start cursor and page size, if
the manual traversal `trav` ends (empty cursor or error), the client iterator run against the same
server hands out exactly the concatenation of `trav`'s pages and ends the same way
(`trav_eq_manual` in `Bridge`: `trav` is `manual` against `serverOracle`). -/
theorem iterator_on_server (cod : Codec κ C) (p : Nat) (hist : List (List (Mut κ ν))) (s : FS κ ν) (cur : C)
    (hend : (trav cod p hist s cur).ending ≠ .running) :
    ∃ steps, drain cod.nil (serverOracle cod p hist s) steps (Iter.start cur) =
      ((trav cod p hist s cur).pages.flatten, (trav cod p hist s cur).ending) := by
  have e := trav_eq_manual cod p hist s cur
  have := iterator_equals_manual_paging cod.nil (serverOracle cod p hist s) (hist.length + 1) cur
    (by rw [e]; exact hend)
  rw [e] at this
  exact this

/-- **issued_cursor_accepted.** Whatever the registered names are (the key type is arbitrary: any
length, any bytes): when a list request on a reachable state answers with a non-empty `NextCursor`,
that cursor decodes — by the server's own `dec` — to the key of the last entry of the page, and no
later request carrying it (any reachable state, any page size ≥ 1: the entry may have been removed,
the set emptied) is refused as invalid params or crashes.  A traversal can therefore never die on a
cursor the server handed out itself. -/
theorem issued_cursor_accepted (cod : Codec κ C) (p : Nat) (hp : 1 ≤ p) (s : FS κ ν) (h : WF s) (cur : C)
    (items : List (κ × ν)) (next : C)
    (hres : (paginate cod p s cur).2 = .page items next) (hn : next ≠ cod.nil) :
    (∃ l, items.getLast? = some l ∧ cod.dec next = some l.1) ∧
    ∀ (p' : Nat), 1 ≤ p' → ∀ (s' : FS κ ν), WF s' →
      (paginate cod p' s' next).2 ≠ .invalidParams ∧ (paginate cod p' s' next).2 ≠ .panic := by
  obtain ⟨_, hinv, hpage⟩ := any_cursor_total cod p hp s h cur
  have hdec : ∃ l, items.getLast? = some l ∧ cod.dec next = some l.1 := by
    by_cases hbad : cur ≠ cod.nil ∧ cod.dec cur = none
    · have := hinv.2 hbad
      rw [this] at hres; cases hres
    · have hp' := hpage hbad
      rw [hp'] at hres
      injection hres with hi hx
      subst hi
      unfold nextOf at hx
      split at hx
      · exact absurd hx.symm hn
      · split at hx
        · rename_i l hl
          exact ⟨l, hl, by rw [← hx]; exact cod.dec_enc _⟩
        · exact absurd hx.symm hn
  refine ⟨hdec, ?_⟩
  intro p' hp' s' h'
  obtain ⟨l, _, hd⟩ := hdec
  obtain ⟨hnp, hinv', _⟩ := any_cursor_total cod p' hp' s' h' next
  refine ⟨?_, hnp⟩
  intro e
  have := (hinv'.1 e).2
  rw [hd] at this; cases this

/-- **iterator_through_filter.** `ClientSession.ListTools` drops, page by page, the tools rejected by
`filterValidTools` (`filterOracle keep`); `NextCursor` is left alone.  Against any server `o` and
from any start cursor: if manual paging of the *unfiltered* listing ends within `f` requests, the
`Tools` iterator hands out exactly the kept entries of the whole listing, in order, and ends the
same way — in particular a page on which every entry is dropped (which reaches the iterator empty,
with a cursor) does not end the iteration. -/
theorem iterator_through_filter (nil : C) (keep : κ × ν → Bool) (o : Nat → C → Res κ ν C) (f : Nat) (cur : C)
    (hend : (manual nil o f 0 cur).2 ≠ .running) :
    ∃ steps, drain nil (filterOracle keep o) steps (Iter.start cur) =
      ((manual nil o f 0 cur).1.flatten.filter keep, (manual nil o f 0 cur).2) := by
  have e := manual_filter nil keep o f 0 cur
  have := iterator_equals_manual_paging nil (filterOracle keep o) f cur (by rw [e]; exact hend)
  rw [e, flatten_map_filter] at this
  exact this

/-- **iterator_yields_whole_listing.** A foreign server may cut its listing into pages any way it
likes — empty pages at the start, in the middle, several in a row, at the end (`pagesOracle`; the
cursor is the only end-of-list signal).  For every such cut: manual paging receives exactly these
pages and ends normally; the iterator hands out every entry of every page, in order, and ends
normally; and so does the filtering iterator for the kept entries. -/
theorem iterator_yields_whole_listing (pages : List (List (κ × ν))) (hne : pages ≠ []) (keep : κ × ν → Bool) :
    manual 0 (pagesOracle pages) pages.length 0 0 = (pages, .done) ∧
    (∃ steps, drain 0 (pagesOracle pages) steps (Iter.start 0) = (pages.flatten, .done)) ∧
    (∃ steps, drain 0 (filterOracle keep (pagesOracle pages)) steps (Iter.start 0) =
      (pages.flatten.filter keep, .done)) := by
  have hlen : 0 < pages.length := List.length_pos_iff.mpr hne
  have hm := manual_pagesOracle pages pages.length 0 0 hlen (by omega)
  rw [List.drop_zero] at hm
  refine ⟨hm, ?_, ?_⟩
  · have := iterator_equals_manual_paging 0 (pagesOracle pages) pages.length 0 (by rw [hm]; intro e; cases e)
    rw [hm] at this; exact this
  · have := iterator_through_filter 0 keep (pagesOracle pages) pages.length 0 (by rw [hm]; intro e; cases e)
    rw [hm] at this; exact this

/-- **readonly_ops_preserve_listing.** A read-only request (`resources/read`, `tools/call`, `prompts/get`,
…) at most (re)builds the sorted index of a feature set (`lookupResourceHandler` walks
`resourceTemplates.all()`): the index invariant is kept, nothing registered changes, and EVERY later
list request — any page size ≥ 1, any cursor — is answered exactly as it would have been without it.
(The code side: structural fact `paginate.sortedKeys_uses` — no function lets the index escape or
re-sorts it.) -/
theorem readonly_ops_preserve_listing (cod : Codec κ C) (s : FS κ ν) (h : WF s) :
    WF s.sortKeys ∧ s.sortKeys.feats = s.feats ∧
    ∀ (p : Nat), 1 ≤ p → ∀ cur, (paginate cod p s.sortKeys cur).2 = (paginate cod p s cur).2 := by
  obtain ⟨w1, w2, _⟩ := wf_sortKeys s h
  refine ⟨w1, w2, ?_⟩
  intro p hp cur
  obtain ⟨_, _, h1⟩ := paginate_spec cod p hp s h cur
  obtain ⟨_, _, h2⟩ := paginate_spec cod p hp s.sortKeys w1 cur
  rw [w2] at h2
  rcases h1 with ⟨a1, a2, e1⟩ | ⟨a1, e1⟩ <;> rcases h2 with ⟨b1, b2, e2⟩ | ⟨b1, e2⟩
  · rw [e1, e2]
  · exfalso; rcases b1 with b | b
    · exact a1 b
    · rw [a2] at b; cases b
  · exfalso; rcases a1 with a | a
    · exact b1 a
    · rw [b2] at a; cases a
  · rw [e1, e2]

/-! ### Non-vacuity -/

instance : KOrd Nat where
  lt a b := decide (a < b)
  irrefl a := by simp
  trans := by intro a b c h1 h2; simp at *; omega
  tri := by intro a b h1 h2; simp at *; omega

/-- A concrete codec on `Nat` keys: cursor `k+1` encodes key `k`, `0` is the empty cursor. -/
def natCodec : Codec Nat Nat where
  nil := 0
  enc k := k + 1
  dec c := if c = 0 then none else some (c - 1)
  dec_enc k := by simp
  enc_ne_nil k := by simp

/-- Five entries, page size 2: three pages, all entries once in order. -/
example : (trav natCodec 2 (List.replicate 3 [])
    ((FS.empty : FS Nat Nat).add [(5, 50), (1, 10), (3, 30), (2, 20), (4, 40)]) 0).pages
    = [[(1, 10), (2, 20)], [(3, 30), (4, 40)], [(5, 50)]] := by decide

/-- With mutations between fetches (remove an already-seen key, add a key below the cursor and one
above it): the stable keys 2,3,5 come exactly once; the late key 0 is missed, the late key 4 is seen. -/
example : (trav natCodec 2 [[.remove [1], .add [(0, 0), (4, 40)]], [], []]
    ((FS.empty : FS Nat Nat).add [(5, 50), (1, 10), (3, 30), (2, 20)]) 0).pages
    = [[(1, 10), (2, 20)], [(3, 30), (4, 40)], [(5, 50)]] := by decide

/-- A foreign listing `[a b] / [] / [c] / [d]`: the iterator walks past the empty page. -/
example : drain 0 (pagesOracle [[(1, 10), (2, 20)], [], [(3, 30)], [(4, 40)]]) 8 (Iter.start 0)
    = ([(1, 10), (2, 20), (3, 30), (4, 40)], .done) := by decide

/-- `ListTools` drops every tool of the first page (odd keys): the later pages are still yielded. -/
example : drain 0 (filterOracle (fun f => f.1 % 2 == 0) (pagesOracle [[(1, 10), (3, 30)], [(2, 20), (4, 40)]])) 5
    (Iter.start 0) = ([(2, 20), (4, 40)], .done) := by decide

/-- Long names as the last entry of non-final pages: their cursors are accepted on the next request. -/
example : (trav natCodec 1 (List.replicate 3 [])
    ((FS.empty : FS Nat Nat).add [(7, 70), (123456789012345678901234567890, 1), (123456789012345678901234567891, 2)]) 0).pages
    = [[(7, 70)], [(123456789012345678901234567890, 1)], [(123456789012345678901234567891, 2)]] := by decide

end Paginate
