/-
E13 — model of keyset pagination: `mcp/features.go` (featureSet), `mcp/server.go` `paginateList`
+ cursor codec (abstract), `mcp/client.go` `paginate` (the client iterators).  Serves C17.

Transliteration contract
* `FS.feats` is Go's `map[string]T` in canonical form (ascending by key, one entry per key); a Go map
  has no observable order except through `slices.Sorted(maps.Keys(m))`, which is `feats.map (·.1)`.
* `FS.cache` is `sortedKeys` (`none` = nil).  `add` always drops it, `remove` drops it iff something
  was removed, `sortKeys` rebuilds it iff it is nil.  (`slices.Sorted` of an empty map returns nil, so
  Go rebuilds an empty index every time; `some []` and `none` are not distinguishable from outside.)
* `lowerBound` is what `slices.BinarySearch` returns on a sorted slice (smallest index whose key is
  not below the target); on unsorted input Go's result is unspecified — `WF` rules that out.
* `paginate` = `paginateList` inside `listTools`/`listPrompts`/`listResources`/`listResourceTemplates`
  (each holds `Server.mu` for its whole body: one atomic step).  `.panic` models the two ways the Go
  code can crash: dereferencing the zero feature read through a stale `sortedKeys` entry, and
  `features[len(features)-1]` with page size 0.  Both are proved unreachable (`Props`).
* The cursor codec (gob + base64) is abstract: `Codec` assumes only `dec (enc k) = some k` and that an
  issued cursor is not the empty string (`nil`), which `paginateList` and the client both read as
  "first page" / "no more pages".
* `Iter`/`pull` = the loop of `paginate` in client.go seen from the consumer: one `pull` is one
  request for the next element; at most one `listFunc` call per pull.
Core Lean only (linked into the driver).
-/
namespace Paginate

/-- Strict total order on keys.  Go compares strings byte-wise; the driver instantiates this with
byte strings (`List Nat`, `ltBytes`), so non-ASCII keys are ordered exactly as Go orders them. -/
class KOrd (κ : Type) where
  lt : κ → κ → Bool
  irrefl : ∀ a, lt a a = false
  trans : ∀ {a b c}, lt a b = true → lt b c = true → lt a c = true
  tri : ∀ {a b}, lt a b = false → lt b a = false → a = b

export KOrd (lt)

/-- The opaque cursor codec (`encodeCursor`/`decodeCursor`). `nil` is the empty string. -/
structure Codec (κ C : Type) where
  nil : C
  enc : κ → C
  dec : C → Option κ
  dec_enc : ∀ k, dec (enc k) = some k
  enc_ne_nil : ∀ k, enc k ≠ nil

structure FS (κ ν : Type) where
  feats : List (κ × ν)
  cache : Option (List κ)
deriving Repr

variable {κ ν C : Type} [KOrd κ] [DecidableEq κ] [DecidableEq C]

def FS.empty : FS κ ν := { feats := [], cache := none }

/-- `s.features[uid] = f` on the canonical form. -/
def insF (k : κ) (v : ν) : List (κ × ν) → List (κ × ν)
  | [] => [(k, v)]
  | (k', v') :: r =>
    if lt k k' then (k, v) :: (k', v') :: r
    else if lt k' k then (k', v') :: insF k v r
    else (k, v) :: r

def hasF (k : κ) (m : List (κ × ν)) : Bool := m.any (fun f => f.1 = k)

def delF (k : κ) (m : List (κ × ν)) : List (κ × ν) := m.filter (fun f => f.1 ≠ k)

def lookupF (k : κ) : List (κ × ν) → Option ν
  | [] => none
  | (k', v) :: r => if k' = k then some v else lookupF k r

/-- `featureSet.add(fs...)`: insert or replace each, then `sortedKeys = nil`. -/
def FS.add (s : FS κ ν) (fs : List (κ × ν)) : FS κ ν :=
  { feats := fs.foldl (fun m f => insF f.1 f.2 m) s.feats, cache := none }

def removeLoop : List κ → List (κ × ν) × Bool → List (κ × ν) × Bool
  | [], acc => acc
  | uid :: r, (m, ch) => if hasF uid m then removeLoop r (delF uid m, true) else removeLoop r (m, ch)

/-- `featureSet.remove(uids...)`: delete the present ones; `sortedKeys = nil` iff something changed. -/
def FS.remove (s : FS κ ν) (uids : List κ) : FS κ ν × Bool :=
  let r := removeLoop uids (s.feats, false)
  ({ feats := r.1, cache := if r.2 then none else s.cache }, r.2)

/-- `featureSet.sortKeys`. -/
def FS.sortKeys (s : FS κ ν) : FS κ ν :=
  match s.cache with
  | some _ => s
  | none => { s with cache := some (s.feats.map (·.1)) }

/-- `slices.BinarySearch(sortedKeys, uid)`'s index on a sorted slice. -/
def lowerBound (uid : κ) : List κ → Nat
  | [] => 0
  | k :: r => if lt k uid then lowerBound uid r + 1 else 0

/-- `above`: index of the first key yielded (`index++` when found). -/
def aboveIdx (uid : κ) (keys : List κ) : Nat :=
  let i := lowerBound uid keys
  if keys[i]? = some uid then i + 1 else i

/-- `s.features[s.sortedKeys[i]]` for each yielded index; `none` = a zero (nil) feature, whose
dereference in `setFunc`/`uniqueID` panics. -/
def lookupAll (m : List (κ × ν)) : List κ → Option (List (κ × ν))
  | [] => some []
  | k :: r =>
    match lookupF k m, lookupAll m r with
    | some v, some t => some ((k, v) :: t)
    | _, _ => none

inductive Res (κ ν C : Type)
  | page (items : List (κ × ν)) (next : C)
  | invalidParams
  | panic
deriving Repr

/-- `paginateList` (with `pageSize = p`, `*params.cursorPtr() = cur`, nil pointer ↦ `nil`). -/
def paginate (cod : Codec κ C) (p : Nat) (s : FS κ ν) (cur : C) : FS κ ν × Res κ ν C :=
  let start : Option (FS κ ν × Nat) :=
    if cur = cod.nil then some (s.sortKeys, 0)
    else match cod.dec cur with
      | none => none
      | some uid => some (s.sortKeys, aboveIdx uid (s.sortKeys.cache.getD []))
  match start with
  | none => (s, .invalidParams)
  | some (s', idx) =>
    let seq := (s'.cache.getD []).drop idx
    match lookupAll s'.feats (seq.take p) with
    | none => (s', .panic)
    | some items =>
      if seq.length < p + 1 then (s', .page items cod.nil)
      else match items.getLast? with
        | none => (s', .panic)
        | some l => (s', .page items (cod.enc l.1))

/-! ### Mutations between page fetches -/

inductive Mut (κ ν : Type)
  | add (fs : List (κ × ν))
  | remove (uids : List κ)
deriving Repr

def applyMut (s : FS κ ν) : Mut κ ν → FS κ ν
  | .add fs => s.add fs
  | .remove uids => (s.remove uids).1

def applyBatch (s : FS κ ν) (b : List (Mut κ ν)) : FS κ ν := b.foldl applyMut s

/-- A traversal by manual paging: the pages received, the server state at each fetch, whether the
empty cursor was reached, whether a fetch failed. -/
structure Trav (κ ν : Type) where
  pages : List (List (κ × ν))
  states : List (FS κ ν)
  done : Bool
  failed : Bool

def Trav.cons (items : List (κ × ν)) (s : FS κ ν) (t : Trav κ ν) : Trav κ ν :=
  { pages := items :: t.pages, states := s :: t.states, done := t.done, failed := t.failed }

/-- Follow cursors from `cur`; `hist` gives the batch of mutations applied after each page (the
traversal stops when the history is used up — quantifying over all histories, including ones padded
with empty batches, covers every traversal). -/
def trav (cod : Codec κ C) (p : Nat) : List (List (Mut κ ν)) → FS κ ν → C → Trav κ ν
  | [], s, cur =>
    match paginate cod p s cur with
    | (_, .page items next) => { pages := [items], states := [s], done := next = cod.nil, failed := false }
    | _ => { pages := [], states := [s], done := false, failed := true }
  | b :: rest, s, cur =>
    match paginate cod p s cur with
    | (s', .page items next) =>
      if next = cod.nil then { pages := [items], states := [s], done := true, failed := false }
      else Trav.cons items s (trav cod p rest (applyBatch s' b) next)
    | _ => { pages := [], states := [s], done := false, failed := true }

/-! ### Client side: manual paging and the iterator, over an arbitrary server

`o i cur` is the server's answer to the `i`-th list request when asked with cursor `cur` (any
mutation history, any server). -/

inductive Ending | done | error | running
deriving DecidableEq, Repr

/-- Manual paging: call, keep the page, follow `NextCursor` until it is empty. -/
def manual (nil : C) (o : Nat → C → Res κ ν C) : Nat → Nat → C → List (List (κ × ν)) × Ending
  | 0, _, _ => ([], .running)
  | f + 1, i, cur =>
    match o i cur with
    | .page items next =>
      if next = nil then ([items], .done)
      else ((items :: (manual nil o f (i + 1) next).1), (manual nil o f (i + 1) next).2)
    | _ => ([], .error)

/-- State of `paginate` (client.go) between two elements handed to the consumer. -/
structure Iter (κ ν C : Type) where
  buf : List (κ × ν)   -- rest of `items(res)`
  next : C             -- `*params.cursorPtr()` for the next call / `NextCursor` of the current page
  started : Bool       -- a page has been fetched
  n : Nat              -- number of list calls made
  fin : Bool           -- the iterator function has returned

def Iter.start (cur : C) : Iter κ ν C := { buf := [], next := cur, started := false, n := 0, fin := false }

inductive Event (κ ν : Type)
  | item (x : κ × ν)
  | stop
  | err
  | again     -- an empty page with a non-empty cursor was received: the loop goes round
deriving Repr

def pull (nil : C) (o : Nat → C → Res κ ν C) (it : Iter κ ν C) : Iter κ ν C × Event κ ν :=
  if it.fin then (it, .stop) else
  match it.buf with
  | x :: r => ({ it with buf := r }, .item x)
  | [] =>
    if it.started ∧ it.next = nil then ({ it with fin := true }, .stop)
    else match o it.n it.next with
      | .page items next =>
        match items with
        | x :: r => ({ buf := r, next := next, started := true, n := it.n + 1, fin := false }, .item x)
        | [] =>
          if next = nil then ({ buf := [], next := next, started := true, n := it.n + 1, fin := true }, .stop)
          else ({ buf := [], next := next, started := true, n := it.n + 1, fin := false }, .again)
      | _ => ({ it with fin := true }, .err)

/-- Pull `steps` times (a consumer that never breaks), collecting the elements. -/
def drain (nil : C) (o : Nat → C → Res κ ν C) : Nat → Iter κ ν C → List (κ × ν) × Ending
  | 0, _ => ([], .running)
  | n + 1, it =>
    match pull nil o it with
    | (it', .item x) => (x :: (drain nil o n it').1, (drain nil o n it').2)
    | (it', .again) => drain nil o n it'
    | (_, .stop) => ([], .done)
    | (_, .err) => ([], .error)

/-! ### Foreign servers and the client-side page filter

The client iterators and `ListX` talk to *any* server.  A foreign server is an oracle `o`; three
concrete shapes are used by the driver and the theorems:
* `scriptOracle tbl`: a table from the cursor received to the answer; an unknown cursor is refused;
* `pagesOracle pages`: a listing cut into the given pages — any of them may be empty — linked by the
  cursors `1, 2, …` (`0` is the empty cursor);
* `filterOracle keep o`: `o` as seen through `ClientSession.ListTools`, which drops from every page
  the tools that `filterValidTools` rejects and leaves `NextCursor` alone. -/

def scriptOracle (tbl : List (C × Res κ ν C)) : Nat → C → Res κ ν C :=
  fun _ c => match tbl.lookup c with
    | some r => r
    | none => .invalidParams

def filterRes (keep : κ × ν → Bool) : Res κ ν C → Res κ ν C
  | .page items next => .page (items.filter keep) next
  | r => r

def filterOracle (keep : κ × ν → Bool) (o : Nat → C → Res κ ν C) : Nat → C → Res κ ν C :=
  fun i c => filterRes keep (o i c)

/-- Request with cursor `c` (0 = first page) is answered with page number `c`; the next cursor is
`c + 1` unless that was the last page. A cursor beyond the listing is refused. -/
def pagesOracle (pages : List (List (κ × ν))) : Nat → Nat → Res κ ν Nat :=
  fun _ c => match pages[c]? with
    | some items => .page items (if c + 1 < pages.length then c + 1 else 0)
    | none => .invalidParams

end Paginate

namespace Paginate
/-- Lean `String` order (lexicographic on code points) is an instance too; the driver uses the
byte-string instance below, which is Go's order even on invalid UTF-8. -/
instance : KOrd String where
  lt a b := decide (a < b)
  irrefl a := by simp
  trans := by intro a b c h1 h2; simp only [decide_eq_true_eq] at *; exact String.lt_trans h1 h2
  tri := by
    intro a b h1 h2
    simp only [decide_eq_false_iff_not, String.not_lt] at h1 h2
    exact String.le_antisymm h2 h1

/-- Go's string order: lexicographic on byte values. -/
def ltBytes : List Nat → List Nat → Bool
  | _, [] => false
  | [], _ :: _ => true
  | a :: as, b :: bs => if a < b then true else if b < a then false else ltBytes as bs

theorem ltBytes_irrefl : ∀ a, ltBytes a a = false
  | [] => rfl
  | a :: as => by simp [ltBytes, ltBytes_irrefl as]

theorem ltBytes_trans : ∀ {a b c}, ltBytes a b = true → ltBytes b c = true → ltBytes a c = true
  | [], [], _ => by intro h; simp [ltBytes] at h
  | _ :: _, [], _ => by intro h; simp [ltBytes] at h
  | _, _ :: _, [] => by intro _ h; simp [ltBytes] at h
  | [], _ :: _, _ :: _ => by intros; simp [ltBytes]
  | a :: as, b :: bs, c :: cs => by
    intro h1 h2
    simp only [ltBytes] at h1 h2 ⊢
    split at h1
    · split at h2
      · have : a < c := by omega
        simp [this]
      · split at h2
        · cases h2
        · have : a < c := by omega
          simp [this]
    · split at h1
      · cases h1
      · split at h2
        · have : a < c := by omega
          simp [this]
        · split at h2
          · cases h2
          · have h3 : ¬ a < c := by omega
            have h4 : ¬ c < a := by omega
            simp only [h3, h4, if_false]
            exact ltBytes_trans h1 h2

theorem ltBytes_tri : ∀ {a b}, ltBytes a b = false → ltBytes b a = false → a = b
  | [], [] => by intros; rfl
  | [], _ :: _ => by intro h; simp [ltBytes] at h
  | _ :: _, [] => by intro _ h; simp [ltBytes] at h
  | a :: as, b :: bs => by
    intro h1 h2
    simp only [ltBytes] at h1 h2
    split at h1
    · cases h1
    · split at h1
      · rename_i hba; simp [hba] at h2
      · rename_i hab hba
        simp only [hba, hab, if_false] at h2
        have : a = b := by omega
        rw [this, ltBytes_tri h1 h2]

instance : KOrd (List Nat) where
  lt := ltBytes
  irrefl := ltBytes_irrefl
  trans := ltBytes_trans
  tri := ltBytes_tri
end Paginate
