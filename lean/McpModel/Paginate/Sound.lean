import McpModel.Paginate.IterSpec
/-!
# Clause soundness of the C17 monitor (E13)

For every clause the monitor can report (`Clause`) the corresponding clause of the property is stated
as a predicate `P_…` on observation traces — a trace is the list of typed records of one case: what
the harness did (page size, registrations, removals, scripts of a foreign server, list requests with
their cursor, traversal brackets, iterator sessions) and what the IMPLEMENTATION answered (`LObs`,
`IObs`) — written from the property text, with quantifiers over positions of the trace; no monitor
state, no `paginate`.  `sound_<clause>`: whenever the monitor run reports the clause at record `j`
(`FiresAt`), the predicate fails on the trace.  `monitor_sound` packages them, `monitor_complete` is
the converse (silence ⇒ every predicate holds), `model_satisfies_P` combines it with
`monitor_accepts_model`.

Vocabulary (all about the trace):
* `pageSize h`, `registry kind h`, `script kind h` — what the history `h` (the records before the one
  judged) says: the page size of the last `server` record (0 ↦ the default), the entries registered
  and not removed since (one per key, a later registration replaces), the script installed last.
  Defined by recursion on the history read backwards; `book_*`: the monitor's state holds these.
* `Listing reg L` — `L` is the registered entries, each once, ascending by key (byte order): the
  "one stable order".  `IsPage`, `NextOk` — "the first `p` entries of the listing strictly above the
  cursor's key", "`NextCursor` empty exactly when nothing is left, else decoding to the last key".
* `Traversal kind h seg` — the trace reads `h ++ tbegin kind :: seg ++ tend kind :: …` with no other
  bracket of that kind and no `reset`/`server` inside `seg`; `segFetches` are its list requests
  (answered by the SDK server) with the registry at that moment; `Follows` — the first request carries
  the empty cursor, every later one the non-empty `NextCursor` of the answer before it.
* `pager kind h` — the lazy pager of the open iterator session: the property's "manual paging" done by
  a consumer that asks for one element at a time (`Model.pull`: keep the rest of the current page,
  request the next page with the `NextCursor` only when an element is wanted and the page is used up,
  stop on the empty cursor or the first error); drained, it is manual paging
  (`iterator_equals_manual_paging`, `iterator_prefix`).
-/
set_option linter.unusedSectionVars false
set_option linter.unusedSimpArgs false
namespace Paginate

abbrev Trace := List Rec

/-! ## What a history says (read backwards: latest record first) -/

def pageSizeRev : List Rec → Nat
  | [] => Generated.Paginate.defaultPageSize
  | .reset :: _ => Generated.Paginate.defaultPageSize
  | .server n :: _ => pageSizeOf n
  | _ :: h => pageSizeRev h

def registryRev (kind : Kind) : List Rec → List Item
  | [] => []
  | .reset :: _ => []
  | .server _ :: _ => []
  | .add k fs _ :: h => if k = kind then fs.foldl regAdd (registryRev kind h) else registryRev kind h
  | .remove k ks :: h => if k = kind then regRemove (registryRev kind h) ks else registryRev kind h
  | _ :: h => registryRev kind h

def scriptRev (kind : Kind) : List Rec → Option Script
  | [] => none
  | .reset :: _ => none
  | .server _ :: _ => none
  | .script k sc :: h => if k = kind then some sc else scriptRev kind h
  | .unscript k :: h => if k = kind then none else scriptRev kind h
  | _ :: h => scriptRev kind h

/-- The page size in force after history `h`. -/
def pageSize (h : Trace) : Nat := pageSizeRev h.reverse
/-- The entries registered after history `h`. -/
def registry (kind : Kind) (h : Trace) : List Item := registryRev kind h.reverse
/-- The foreign server playing the kind's list method after history `h`, if any. -/
def script (kind : Kind) (h : Trace) : Option Script := scriptRev kind h.reverse

/-- The server the client talks to after history `h`: the script (through `ListX`'s filter), or a
server that answers as the property demands for the registry. -/
def serverAfter (kind : Kind) (h : Trace) : Nat → DCur → Res K String DCur :=
  match script kind h with
  | some sc => scriptedOracle kind sc
  | none => specOracle (registry kind h) (pageSize h)

def roundsAfter (kind : Kind) (h : Trace) : Nat :=
  match script kind h with
  | some sc => sc.length + 3
  | none => 3

/-- The lazy pager of the open iterator session after a history. -/
def pagerRev (kind : Kind) : List Rec → Option (Iter K String DCur)
  | [] => none
  | .reset :: _ => none
  | .server _ :: _ => none
  | .iopen k cur :: h => if k = kind then some (Iter.start cur) else pagerRev kind h
  | .iclose k :: h => if k = kind then none else pagerRev kind h
  | .ipull k m _ :: h =>
    if k = kind then
      (pagerRev kind h).map (fun it => (pullMany (serverAfter kind h.reverse) (roundsAfter kind h.reverse) m it []).1)
    else pagerRev kind h
  | _ :: h => pagerRev kind h

def pager (kind : Kind) (h : Trace) : Option (Iter K String DCur) := pagerRev kind h.reverse

theorem stateAfter_snoc (h : Trace) (r : Rec) : stateAfter (h ++ [r]) = (monStep (stateAfter h) r).1 := by
  simp [stateAfter, List.foldl_append]

theorem pageSize_snoc (h : Trace) (r : Rec) : pageSize (h ++ [r]) = pageSizeRev (r :: h.reverse) := by
  simp [pageSize]
theorem registry_snoc (kind : Kind) (h : Trace) (r : Rec) : registry kind (h ++ [r]) = registryRev kind (r :: h.reverse) := by
  simp [registry]
theorem script_snoc (kind : Kind) (h : Trace) (r : Rec) : script kind (h ++ [r]) = scriptRev kind (r :: h.reverse) := by
  simp [script]
theorem pager_snoc (kind : Kind) (h : Trace) (r : Rec) : pager kind (h ++ [r]) = pagerRev kind (r :: h.reverse) := by
  simp [pager]

theorem monListRec_fst (s : MState) (kind : Kind) (cur : DCur) (fl : Bool) (obs : LObs) :
    (monListRec s kind cur fl obs).1 =
      match (s.get kind).script with
      | some _ => s
      | none => s.set kind { s.get kind with
          tr := (s.get kind).tr.map (fun t => { t with fetches := t.fetches ++ [⟨(s.get kind).reg, cur, obs⟩] }) } := by
  cases h : (s.get kind).script with
  | some sc => simp [monListRec, h]
  | none => simp [monListRec, h]

/-- Induction on a trace from the right. -/
theorem snoc_induction {P : Trace → Prop} (nil : P []) (snoc : ∀ h r, P h → P (h ++ [r])) (h : Trace) : P h := by
  have : ∀ hr : List Rec, P hr.reverse := by
    intro hr
    induction hr with
    | nil => exact nil
    | cons r hr ih => rw [List.reverse_cons]; exact snoc _ r ih
  simpa using this h.reverse

def Book (h : Trace) : Prop :=
  (stateAfter h).p = pageSize h ∧
  ∀ kind, ((stateAfter h).get kind).reg = registry kind h ∧ ((stateAfter h).get kind).script = script kind h ∧
    ((stateAfter h).get kind).sit = pager kind h

theorem book_step (h : Trace) (r : Rec) (ih : Book h) : Book (h ++ [r]) := by
    unfold Book
    obtain ⟨ihp, ihk⟩ := ih
    rw [stateAfter_snoc, pageSize_snoc]
    have keep : ∀ (s' : MState), s'.p = (stateAfter h).p →
        (∀ kind, (s'.get kind).reg = ((stateAfter h).get kind).reg ∧ (s'.get kind).script = ((stateAfter h).get kind).script ∧
          (s'.get kind).sit = ((stateAfter h).get kind).sit) →
        pageSizeRev (r :: h.reverse) = pageSizeRev h.reverse →
        (∀ kind, registryRev kind (r :: h.reverse) = registryRev kind h.reverse ∧
          scriptRev kind (r :: h.reverse) = scriptRev kind h.reverse ∧ pagerRev kind (r :: h.reverse) = pagerRev kind h.reverse) →
        s'.p = pageSizeRev (r :: h.reverse) ∧
        ∀ kind, (s'.get kind).reg = registry kind (h ++ [r]) ∧ (s'.get kind).script = script kind (h ++ [r]) ∧
          (s'.get kind).sit = pager kind (h ++ [r]) := by
      intro s' hp hk e1 e2
      refine ⟨by rw [hp, e1, ihp]; rfl, ?_⟩
      intro kind
      rw [registry_snoc, script_snoc, pager_snoc, (e2 kind).1, (e2 kind).2.1, (e2 kind).2.2,
        (hk kind).1, (hk kind).2.1, (hk kind).2.2]
      exact ihk kind
    -- a record that touches one kind `k0` only, replacing its `MKind` by `k'`
    have touch : ∀ (k0 : Kind) (k' : MKind),
        pageSizeRev (r :: h.reverse) = pageSizeRev h.reverse →
        (∀ kind, kind ≠ k0 → registryRev kind (r :: h.reverse) = registryRev kind h.reverse ∧
          scriptRev kind (r :: h.reverse) = scriptRev kind h.reverse ∧ pagerRev kind (r :: h.reverse) = pagerRev kind h.reverse) →
        (k'.reg = registryRev k0 (r :: h.reverse) ∧ k'.script = scriptRev k0 (r :: h.reverse) ∧
          k'.sit = pagerRev k0 (r :: h.reverse)) →
        ((stateAfter h).set k0 k').p = pageSizeRev (r :: h.reverse) ∧
        ∀ kind, (((stateAfter h).set k0 k').get kind).reg = registry kind (h ++ [r]) ∧
          (((stateAfter h).set k0 k').get kind).script = script kind (h ++ [r]) ∧
          (((stateAfter h).set k0 k').get kind).sit = pager kind (h ++ [r]) := by
      intro k0 k' e1 e2 e3
      refine ⟨by rw [MState.p_set, e1, ihp]; rfl, ?_⟩
      intro kind
      rw [registry_snoc, script_snoc, pager_snoc]
      by_cases e : kind = k0
      · subst e; rw [MState.get_set_same]; exact e3
      · rw [MState.get_set_other _ _ e, (e2 kind e).1, (e2 kind e).2.1, (e2 kind e).2.2]
        exact ihk kind
    have R := fun kind => (ihk kind).1
    have S := fun kind => (ihk kind).2.1
    have G := fun kind => (ihk kind).2.2
    simp only [registry, script, pager] at R S G
    cases r with
    | reset => exact ⟨rfl, by intro kind; rw [registry_snoc, script_snoc, pager_snoc]; cases kind <;> exact ⟨rfl, rfl, rfl⟩⟩
    | server n => exact ⟨rfl, by intro kind; rw [registry_snoc, script_snoc, pager_snoc]; cases kind <;> exact ⟨rfl, rfl, rfl⟩⟩
    | add k0 fs ok =>
      apply touch k0 _ rfl
      · intro kind e; simp [registryRev, scriptRev, pagerRev, Ne.symm e]
      · refine ⟨?_, ?_, ?_⟩
        · simp [markMutated, registryRev, R k0]
        · simpa [markMutated, scriptRev] using S k0
        · simpa [markMutated, pagerRev] using G k0
    | remove k0 ks =>
      apply touch k0 _ rfl
      · intro kind e; simp [registryRev, scriptRev, pagerRev, Ne.symm e]
      · refine ⟨?_, ?_, ?_⟩
        · simp [markMutated, registryRev, R k0]
        · simpa [markMutated, scriptRev] using S k0
        · simpa [markMutated, pagerRev] using G k0
    | script k0 sc =>
      apply touch k0 _ rfl
      · intro kind e; simp [registryRev, scriptRev, pagerRev, Ne.symm e]
      · refine ⟨?_, ?_, ?_⟩
        · simpa [registryRev] using R k0
        · simp [scriptRev]
        · simpa [pagerRev] using G k0
    | unscript k0 =>
      apply touch k0 _ rfl
      · intro kind e; simp [registryRev, scriptRev, pagerRev, Ne.symm e]
      · refine ⟨?_, ?_, ?_⟩
        · simpa [registryRev] using R k0
        · simp [scriptRev]
        · simpa [pagerRev] using G k0
    | list k0 cur fl obs =>
      simp only [monStep, monListRec_fst]
      cases hsc : ((stateAfter h).get k0).script with
      | some sc =>
        exact keep _ rfl (fun _ => ⟨rfl, rfl, rfl⟩) rfl (fun _ => ⟨rfl, rfl, rfl⟩)
      | none =>
        apply touch k0 _ rfl
        · intro kind e; exact ⟨rfl, rfl, rfl⟩
        · refine ⟨?_, ?_, ?_⟩
          · simpa [registryRev] using R k0
          · have := S k0; rw [hsc] at this; simpa [scriptRev] using this
          · simpa [pagerRev] using G k0
    | tbegin k0 =>
      apply touch k0 _ rfl
      · intro kind e; exact ⟨rfl, rfl, rfl⟩
      · exact ⟨R k0, S k0, G k0⟩
    | tend k0 =>
      apply touch k0 _ rfl
      · intro kind e; exact ⟨rfl, rfl, rfl⟩
      · exact ⟨R k0, S k0, G k0⟩
    | iopen k0 cur =>
      apply touch k0 _ rfl
      · intro kind e; simp [registryRev, scriptRev, pagerRev, Ne.symm e]
      · refine ⟨?_, ?_, ?_⟩
        · simpa [registryRev] using R k0
        · simpa [scriptRev] using S k0
        · simp [pagerRev]
    | ipull k0 m obs =>
      have hrev : ∀ kind, kind ≠ k0 → registryRev kind (Rec.ipull k0 m obs :: h.reverse) = registryRev kind h.reverse ∧
          scriptRev kind (Rec.ipull k0 m obs :: h.reverse) = scriptRev kind h.reverse ∧
          pagerRev kind (Rec.ipull k0 m obs :: h.reverse) = pagerRev kind h.reverse := by
        intro kind e; simp [registryRev, scriptRev, pagerRev, Ne.symm e]
      simp only [monStep]
      cases hsit : ((stateAfter h).get k0).sit with
      | none =>
        apply keep _ rfl (fun _ => ⟨rfl, rfl, rfl⟩) rfl
        intro kind
        by_cases e : kind = k0
        · subst e
          have : pagerRev kind h.reverse = none := by rw [← hsit, G kind]
          simp [registryRev, scriptRev, pagerRev, this]
        · exact hrev kind e
      | some it =>
        have hpg : pagerRev k0 h.reverse = some it := by rw [← hsit, G k0]
        cases hsc : ((stateAfter h).get k0).script with
        | some sc =>
          have hs : scriptRev k0 h.reverse = some sc := by rw [← S k0, hsc]
          apply touch k0 _ rfl hrev
          refine ⟨?_, ?_, ?_⟩
          · simpa [registryRev] using R k0
          · simp [scriptRev, hs]
          · simp [pagerRev, hpg, serverAfter, roundsAfter, script, hs]
        | none =>
          have hs : scriptRev k0 h.reverse = none := by rw [← S k0, hsc]
          apply touch k0 _ rfl hrev
          refine ⟨?_, ?_, ?_⟩
          · simpa [registryRev] using R k0
          · simp [scriptRev, hs]
          · have ihp' : (stateAfter h).p = pageSizeRev h.reverse := ihp
            simp [pagerRev, hpg, serverAfter, roundsAfter, script, hs, registry, pageSize, ← R k0, ihp']
    | iclose k0 =>
      apply touch k0 _ rfl
      · intro kind e; simp [registryRev, scriptRev, pagerRev, Ne.symm e]
      · refine ⟨?_, ?_, ?_⟩
        · simpa [registryRev] using R k0
        · simpa [scriptRev] using S k0
        · simp [pagerRev]
    | iterall k0 cur obs =>
      simp only [monStep]
      cases ((stateAfter h).get k0).script <;>
        exact keep _ rfl (fun _ => ⟨rfl, rfl, rfl⟩) rfl (fun _ => ⟨rfl, rfl, rfl⟩)
    | roundtrip same => exact keep _ rfl (fun _ => ⟨rfl, rfl, rfl⟩) rfl (fun _ => ⟨rfl, rfl, rfl⟩)
    | codec ok => exact keep _ rfl (fun _ => ⟨rfl, rfl, rfl⟩) rfl (fun _ => ⟨rfl, rfl, rfl⟩)
    | readonly t => exact keep _ rfl (fun _ => ⟨rfl, rfl, rfl⟩) rfl (fun _ => ⟨rfl, rfl, rfl⟩)

/-- **Bookkeeping**: the monitor's page size, registries, scripts and reference pagers are what the
history says. -/
theorem book (h : Trace) : Book h :=
  snoc_induction ⟨rfl, by intro kind; cases kind <;> exact ⟨rfl, rfl, rfl⟩⟩ book_step h


theorem registryRev_regOK (kind : Kind) : ∀ (h : List Rec), RegOK (registryRev kind h)
  | [] => regOK_nil
  | r :: h => by
    have ih := registryRev_regOK kind h
    cases r <;> simp only [registryRev] <;> first | exact regOK_nil | exact ih | skip
    · split
      · exact regOK_foldl_regAdd _ _ ih
      · exact ih
    · split
      · exact regOK_regRemove _ _ ih
      · exact ih

theorem registry_regOK (kind : Kind) (h : Trace) : RegOK (registry kind h) := registryRev_regOK kind _

theorem pageSizeRev_pos : ∀ (h : List Rec), 1 ≤ pageSizeRev h
  | [] => by decide
  | r :: h => by
    have ih := pageSizeRev_pos h
    cases r <;> simp only [pageSizeRev] <;> first | exact ih | exact pageSizeOf_pos _ | decide

theorem pageSize_pos (h : Trace) : 1 ≤ pageSize h := pageSizeRev_pos _

/-! ## Where the monitor run fires -/

/-- The monitor reports clause `cl` at record `j`: the step on that record, from the state
accumulated over the records before it, returns `cl`. -/
def FiresAt (tr : Trace) (j : Nat) (cl : Clause) : Prop :=
  ∃ r, tr[j]? = some r ∧ (monStep (stateAfter (tr.take j)) r).2 = some cl

def stateFrom (s : MState) (l : List Rec) : MState := l.foldl (fun s r => (monStep s r).1) s

theorem runMonFrom_fires : ∀ (tr : Trace) (s : MState) (i j : Nat) (cl : Clause),
    runMonFrom s i tr = some (j, cl) →
    ∃ k r, j = i + k ∧ tr[k]? = some r ∧ (monStep (stateFrom s (tr.take k)) r).2 = some cl
  | [], _, _, _, _, h => by simp [runMonFrom] at h
  | r :: tr, s, i, j, cl, h => by
    simp only [runMonFrom] at h
    cases hc : (monStep s r).2 with
    | some cl' =>
      rw [hc] at h
      simp only [Option.some.injEq, Prod.mk.injEq] at h
      obtain ⟨rfl, rfl⟩ := h
      exact ⟨0, r, rfl, rfl, by simpa [stateFrom] using hc⟩
    | none =>
      rw [hc] at h
      obtain ⟨k, r', rfl, h1, h2⟩ := runMonFrom_fires tr _ _ _ _ h
      exact ⟨k + 1, r', by omega, by simpa using h1, by simpa [stateFrom] using h2⟩

theorem runMon_fires {tr : Trace} {j : Nat} {cl : Clause} (h : runMon tr = some (j, cl)) : FiresAt tr j cl := by
  obtain ⟨k, r, rfl, h1, h2⟩ := runMonFrom_fires tr {} 0 j cl h
  exact ⟨r, by simpa using h1, by simpa [stateFrom, stateAfter] using h2⟩

theorem runMonFrom_none : ∀ (tr : Trace) (s : MState) (i : Nat), runMonFrom s i tr = none →
    ∀ k r, tr[k]? = some r → (monStep (stateFrom s (tr.take k)) r).2 = none
  | [], _, _, _, k, r, hk => by simp at hk
  | r0 :: tr, s, i, h, k, r, hk => by
    simp only [runMonFrom] at h
    cases hc : (monStep s r0).2 with
    | some cl' => rw [hc] at h; cases h
    | none =>
      rw [hc] at h
      cases k with
      | zero => simp at hk; subst hk; simpa [stateFrom] using hc
      | succ k =>
        have := runMonFrom_none tr _ _ h k r (by simpa using hk)
        simpa [stateFrom] using this

theorem runMon_none {tr : Trace} (h : runMon tr = none) :
    ∀ j r, tr[j]? = some r → (monStep (stateAfter (tr.take j)) r).2 = none := by
  intro j r hj
  have := runMonFrom_none tr {} 0 h j r hj
  simpa [stateFrom, stateAfter] using this

/-! ## The property clauses, as predicates on traces -/

/-- `L` is the registered entries, each once, ascending by key: the listing order. -/
def Listing (reg L : List Item) : Prop := Sorted (keys L) ∧ ∀ x, x ∈ L ↔ x ∈ reg

/-- `items` is the first `p` entries of the listing strictly above the cursor's key. -/
def IsPage (reg : List Item) (p : Nat) (cur : DCur) (items : List Item) : Prop :=
  ∃ L, Listing reg L ∧ items = (L.filter (above cur)).take p

/-- `NextCursor` is empty exactly when nothing is left above the page, and otherwise decodes to the
last key of the page. -/
def NextOk (reg : List Item) (p : Nat) (cur : DCur) (items : List Item) (next : DCur) : Prop :=
  ∃ L, Listing reg L ∧
    ((L.filter (above cur)).length ≤ p → next = .nil) ∧
    (p < (L.filter (above cur)).length → ∃ l, items.getLast? = some l ∧ next = .good l.1)

/-- Record `j` is a list request answered by the SDK server (no script installed for the kind). -/
def ListAt (tr : Trace) (j : Nat) (kind : Kind) (cur : DCur) (fl : Bool) (obs : LObs) : Prop :=
  tr[j]? = some (Rec.list kind cur fl obs) ∧ script kind (tr.take j) = none

/-- "A malformed cursor is rejected with invalid-params". -/
def P_malformed_cursor_invalid_params (tr : Trace) : Prop :=
  ∀ j kind fl obs, ListAt tr j kind .bad fl obs → obs = .invalid

/-- "no cursor value can crash the server": a request with a well-formed cursor (empty, issued, stale,
forged) is answered with a page. -/
def P_any_cursor_answered (tr : Trace) : Prop :=
  ∀ j kind cur fl obs, ListAt tr j kind cur fl obs → cur ≠ .bad → ∃ items next, obs = .page items next

/-- "returns every registered item exactly once, in one stable order": a page is the first `p`
registered entries strictly above the cursor, in listing order. -/
def P_page_is_first_p_above (tr : Trace) : Prop :=
  ∀ j kind cur fl items next, ListAt tr j kind cur fl (.page items next) → cur ≠ .bad →
    IsPage (registry kind (tr.take j)) (pageSize (tr.take j)) cur items

/-- "following cursors": a `NextCursor` the server issues is one its own decoder accepts. -/
def P_next_cursor_decodes (tr : Trace) : Prop :=
  ∀ j kind cur fl items next, ListAt tr j kind cur fl (.page items next) → next ≠ .bad

/-- "ending with an empty cursor": the cursor is empty exactly on the last page. -/
def P_next_cursor_right (tr : Trace) : Prop :=
  ∀ j kind cur fl items next, ListAt tr j kind cur fl (.page items next) → cur ≠ .bad →
    NextOk (registry kind (tr.take j)) (pageSize (tr.take j)) cur items next

/-- What `ListX` must hand over when a foreign server sent `sc`'s answer for the cursor. -/
def ForeignAnswer (kind : Kind) (sc : Script) (cur : DCur) : LObs :=
  match sc.lookup cur with
  | some (.page items n) => .page (items.filter (keepItem kind)) n
  | some .panic => .other
  | _ => .invalid

/-- `ListX` against a foreign server hands over the page it was sent: items in order, `NextCursor`
unchanged; `ListTools` minus the tools with invalid annotations. -/
def P_foreign_page_handed_over (tr : Trace) : Prop :=
  ∀ (j : Nat) kind cur fl obs sc, tr[j]? = some (Rec.list kind cur fl obs) → script kind (tr.take j) = some sc →
    obs = ForeignAnswer kind sc cur

def P_registration_succeeds (tr : Trace) : Prop :=
  ∀ (j : Nat) kind fs ok, tr[j]? = some (Rec.add kind fs ok) → ok = true

/-- A request that carries the `NextCursor` of the previous answer is not refused as invalid params. -/
def P_issued_cursor_accepted (tr : Trace) : Prop :=
  ∀ j kind cur obs, ListAt tr j kind cur true obs → obs ≠ .invalid

def P_codec_law (tr : Trace) : Prop := ∀ (j : Nat) same, tr[j]? = some (Rec.roundtrip same) → same = true

def P_codec_total (tr : Trace) : Prop := ∀ (j : Nat) ok, tr[j]? = some (Rec.codec ok) → ok = true

/-! ### traversals -/

/-- No bracket of this kind, no new server, inside the segment. -/
def NoBracket (kind : Kind) (seg : List Rec) : Prop :=
  ∀ r ∈ seg, r ≠ .tbegin kind ∧ r ≠ .tend kind ∧ r ≠ .reset ∧ ∀ n, r ≠ .server n

/-- The fetch a record contributes to a traversal of `kind`, after history `h`. -/
def fetchOf (kind : Kind) (h : Trace) : Rec → List Fetch
  | .list k cur _ obs => if k = kind ∧ script kind h = none then [⟨registry kind h, cur, obs⟩] else []
  | _ => []

/-- The list requests of a segment (answered by the SDK server), each with the registry at that moment. -/
def segFetches (kind : Kind) : Trace → List Rec → List Fetch
  | _, [] => []
  | h, r :: seg => fetchOf kind h r ++ segFetches kind (h ++ [r]) seg

def mutatesB (kind : Kind) : Rec → Bool
  | .add k _ _ => k == kind
  | .remove k _ => k == kind
  | _ => false

/-- A registration or removal of this kind happens inside the segment. -/
def Mutates (kind : Kind) (seg : List Rec) : Prop := ∃ r ∈ seg, mutatesB kind r = true

/-- The trace reads `h ++ tbegin kind :: seg ++ tend kind :: …`. -/
def IsTrav (tr : Trace) (kind : Kind) (h : Trace) (seg : List Rec) : Prop :=
  (∃ post, tr = h ++ .tbegin kind :: seg ++ .tend kind :: post) ∧ NoBracket kind seg

/-- The requests follow cursors from `c`. -/
inductive Follows : DCur → List Fetch → Prop
  | nil (c) : Follows c []
  | single (f : Fetch) : Follows f.cur [f]
  | cons (f g : Fetch) (r : List Fetch) (items : List Item) (n : DCur) :
      f.obs = .page items n → n ≠ .nil → Follows n (g :: r) → Follows f.cur (f :: g :: r)

/-- A traversal "following cursors from the first page" in which no request failed. -/
def GoodTrav (fs : List Fetch) : Prop := Follows .nil fs ∧ ∀ f ∈ fs, f.isPage = true

/-- The empty cursor was reached. -/
def Finished (fs : List Fetch) : Prop := ∃ pre f items, fs = pre ++ [f] ∧ f.obs = .page items .nil

/-- "in one stable order": the keys received over a traversal are strictly ascending — no key twice,
finished or not, whatever is added or removed between the pages. -/
def P_traversal_ascending (tr : Trace) : Prop :=
  ∀ kind h seg, IsTrav tr kind h seg → GoodTrav (segFetches kind (h ++ [.tbegin kind]) seg) →
    Sorted (travItems (segFetches kind (h ++ [.tbegin kind]) seg))

/-- "items that stay registered throughout a traversal appear exactly once" (at least once here; at
most once is `P_traversal_ascending`). -/
def P_traversal_stable_items (tr : Trace) : Prop :=
  ∀ kind h seg, IsTrav tr kind h seg → GoodTrav (segFetches kind (h ++ [.tbegin kind]) seg) →
    Finished (segFetches kind (h ++ [.tbegin kind]) seg) →
    ∀ k, (∀ f ∈ segFetches kind (h ++ [.tbegin kind]) seg, k ∈ f.regKeys) →
      k ∈ travItems (segFetches kind (h ++ [.tbegin kind]) seg)

/-- "following cursors from the first page returns every registered item exactly once": without
mutations the keys received are exactly the listing. -/
def P_traversal_static_exact (tr : Trace) : Prop :=
  ∀ kind h seg, IsTrav tr kind h seg → GoodTrav (segFetches kind (h ++ [.tbegin kind]) seg) →
    Finished (segFetches kind (h ++ [.tbegin kind]) seg) → ¬ Mutates kind seg →
    ∀ L, Listing (travFirst (segFetches kind (h ++ [.tbegin kind]) seg)) L →
      travItems (segFetches kind (h ++ [.tbegin kind]) seg) = keys L

/-- "any page size": `n` registered entries take `max 1 ⌈n/p⌉` pages. -/
def P_traversal_static_pages (tr : Trace) : Prop :=
  ∀ kind h seg, IsTrav tr kind h seg → GoodTrav (segFetches kind (h ++ [.tbegin kind]) seg) →
    Finished (segFetches kind (h ++ [.tbegin kind]) seg) → ¬ Mutates kind seg →
    (segFetches kind (h ++ [.tbegin kind]) seg).length =
      max 1 (((travFirst (segFetches kind (h ++ [.tbegin kind]) seg)).length + pageSize (h ++ .tbegin kind :: seg) - 1) /
        pageSize (h ++ .tbegin kind :: seg))

/-! ### iterators -/

/-- "the client-side iterators yield the same sequence as manual paging", pull by pull: what the
consumer is handed is what the lazy pager of the session hands out against the server as it stands. -/
def P_iterator_pull_eq_manual (tr : Trace) : Prop :=
  ∀ (j : Nat) kind m obs it, tr[j]? = some (Rec.ipull kind m obs) → pager kind (tr.take j) = some it →
    script kind (tr.take j) = none →
    obs = (pullMany (specOracle (registry kind (tr.take j)) (pageSize (tr.take j))) 3 m it []).2

def P_iterator_pull_foreign (tr : Trace) : Prop :=
  ∀ (j : Nat) kind m obs it sc, tr[j]? = some (Rec.ipull kind m obs) → pager kind (tr.take j) = some it →
    script kind (tr.take j) = some sc →
    obs = (pullMany (scriptedOracle kind sc) (sc.length + 3) m it []).2

/-- … and for a whole iteration: exactly the concatenated pages of manual paging (`Model.manual`)
against a server that answers as the property demands, ending the same way. -/
def P_iterator_all_eq_manual (tr : Trace) : Prop :=
  ∀ (j : Nat) kind cur obs, tr[j]? = some (Rec.iterall kind cur obs) → script kind (tr.take j) = none →
    obs = (manualAll (specOracle (registry kind (tr.take j)) (pageSize (tr.take j))) cur
      ((registry kind (tr.take j)).length + 1)).1

/-- … against a foreign server, whenever manual paging ends (within `|script| + 2` requests). -/
def P_iterator_all_foreign (tr : Trace) : Prop :=
  ∀ (j : Nat) kind cur obs sc, tr[j]? = some (Rec.iterall kind cur obs) → script kind (tr.take j) = some sc →
    (manualAll (scriptedOracle kind sc) cur (sc.length + 2)).2 ≠ .running →
    obs = (manualAll (scriptedOracle kind sc) cur (sc.length + 2)).1

/-- The property clause a monitor clause stands for. -/
def P_of : Clause → Trace → Prop
  | .malformedNotRefused => P_malformed_cursor_invalid_params
  | .listFailed => P_any_cursor_answered
  | .pageWrong => P_page_is_first_p_above
  | .nextUndecodable => P_next_cursor_decodes
  | .nextWrong => P_next_cursor_right
  | .foreignPage => P_foreign_page_handed_over
  | .addFailed => P_registration_succeeds
  | .followRefused => P_issued_cursor_accepted
  | .travOrder => P_traversal_ascending
  | .travMiss => P_traversal_stable_items
  | .travNotExact => P_traversal_static_exact
  | .travPages => P_traversal_static_pages
  | .iterForeign => fun tr => P_iterator_pull_foreign tr ∧ P_iterator_all_foreign tr
  | .iterManual => fun tr => P_iterator_pull_eq_manual tr ∧ P_iterator_all_eq_manual tr
  | .codecLaw => P_codec_law
  | .codecCrash => P_codec_total

/-! ## The monitor's computations say what the vocabulary says -/

theorem listing_sortReg (reg : List Item) (h : RegOK reg) : Listing reg (sortReg reg) :=
  ⟨sorted_sortReg reg h, mem_sortReg reg⟩

theorem listing_unique {reg L : List Item} (h : RegOK reg) (hl : Listing reg L) : L = sortReg reg :=
  sortReg_unique reg L h hl.1 hl.2

theorem isPage_iff {reg : List Item} (h : RegOK reg) (p : Nat) (cur : DCur) (items : List Item) :
    IsPage reg p cur items ↔ items = specItems reg p cur := by
  constructor
  · rintro ⟨L, hl, rfl⟩
    rw [listing_unique h hl]; rfl
  · intro e
    exact ⟨sortReg reg, listing_sortReg reg h, e⟩

theorem nextOk_iff {reg : List Item} (h : RegOK reg) (p : Nat) (hp : 1 ≤ p) (cur : DCur) (next : DCur) :
    NextOk reg p cur (specItems reg p cur) next ↔ next = specNext reg p cur := by
  have key : ∀ L, Listing reg L → L.filter (above cur) = specRest reg cur := by
    intro L hl; rw [listing_unique h hl]; rfl
  unfold specNext
  constructor
  · rintro ⟨L, hl, h1, h2⟩
    rw [key L hl] at h1 h2
    by_cases hle : (specRest reg cur).length ≤ p
    · simp [hle, h1 hle]
    · obtain ⟨l, hl1, hl2⟩ := h2 (by omega)
      simp [hle, hl1, hl2]
  · intro e
    refine ⟨sortReg reg, listing_sortReg reg h, ?_, ?_⟩
    · intro hle
      have hle' : (specRest reg cur).length ≤ p := hle
      simp [e, hle']
    · intro hlt
      have hlt' : ¬ (specRest reg cur).length ≤ p := by
        have : p < (specRest reg cur).length := hlt
        omega
      cases hg : (specItems reg p cur).getLast? with
      | some l => exact ⟨l, rfl, by simp [e, hlt', hg]⟩
      | none =>
        exfalso
        rw [List.getLast?_eq_none_iff] at hg
        have := congrArg List.length hg
        simp only [specItems, List.length_take, List.length_nil] at this
        omega

theorem foreignAnswer_eq (kind : Kind) (sc : Script) (cur : DCur) :
    LObs.ofRes (scriptedOracle kind sc 0 cur) = ForeignAnswer kind sc cur := by
  simp only [scriptedOracle, filterOracle, scriptOracle, ForeignAnswer]
  cases sc.lookup cur with
  | none => rfl
  | some r => cases r <;> rfl

/-! ## What it takes for a step to report a clause -/

theorem monList_some {reg : List Item} {p : Nat} {cur : DCur} {obs : LObs} {cl : Clause}
    (h : monList reg p cur obs = some cl) :
    obs ≠ LObs.ofRes (specPage reg p cur) ∧
    ((cur = .bad ∧ cl = .malformedNotRefused) ∨
     (cur ≠ .bad ∧
      ((∃ items next, obs = .page items next ∧
          ((items ≠ specItems reg p cur ∧ cl = .pageWrong) ∨
           (items = specItems reg p cur ∧ next = .bad ∧ cl = .nextUndecodable) ∨
           (items = specItems reg p cur ∧ next ≠ .bad ∧ cl = .nextWrong))) ∨
       ((∀ items next, obs ≠ .page items next) ∧ cl = .listFailed)))) := by
  unfold monList at h
  split at h
  · cases h
  · rename_i hne
    refine ⟨hne, ?_⟩
    cases cur with
    | bad => simp only [Option.some.injEq] at h; exact Or.inl ⟨rfl, h.symm⟩
    | nil =>
      refine Or.inr ⟨(by intro e; cases e), ?_⟩
      cases obs with
      | page items next =>
        left; refine ⟨items, next, rfl, ?_⟩
        simp only at h
        split at h
        · rename_i h1; simp only [Option.some.injEq] at h; exact Or.inl ⟨h1, h.symm⟩
        · rename_i h1
          have h1' : items = specItems reg p .nil := by simpa using h1
          split at h
          · rename_i h2; simp only [Option.some.injEq] at h; exact Or.inr (Or.inl ⟨h1', h2, h.symm⟩)
          · rename_i h2; simp only [Option.some.injEq] at h; exact Or.inr (Or.inr ⟨h1', h2, h.symm⟩)
      | invalid => simp only [Option.some.injEq] at h; exact Or.inr ⟨(by intro _ _ e; cases e), h.symm⟩
      | other => simp only [Option.some.injEq] at h; exact Or.inr ⟨(by intro _ _ e; cases e), h.symm⟩
    | good u =>
      refine Or.inr ⟨(by intro e; cases e), ?_⟩
      cases obs with
      | page items next =>
        left; refine ⟨items, next, rfl, ?_⟩
        simp only at h
        split at h
        · rename_i h1; simp only [Option.some.injEq] at h; exact Or.inl ⟨h1, h.symm⟩
        · rename_i h1
          have h1' : items = specItems reg p (.good u) := by simpa using h1
          split at h
          · rename_i h2; simp only [Option.some.injEq] at h; exact Or.inr (Or.inl ⟨h1', h2, h.symm⟩)
          · rename_i h2; simp only [Option.some.injEq] at h; exact Or.inr (Or.inr ⟨h1', h2, h.symm⟩)
      | invalid => simp only [Option.some.injEq] at h; exact Or.inr ⟨(by intro _ _ e; cases e), h.symm⟩
      | other => simp only [Option.some.injEq] at h; exact Or.inr ⟨(by intro _ _ e; cases e), h.symm⟩

theorem monList_none {reg : List Item} {p : Nat} {cur : DCur} {obs : LObs} :
    monList reg p cur obs = none ↔ obs = LObs.ofRes (specPage reg p cur) := by
  constructor
  · intro h
    unfold monList at h
    split at h
    · assumption
    · exfalso
      cases cur <;> cases obs <;> simp at h <;> (repeat' split at h) <;> simp at h
  · intro e; rw [e]; exact monList_conform reg p cur

/-- A list record: which clause, and why. -/
theorem monListRec_some {s : MState} {kind : Kind} {cur : DCur} {fl : Bool} {obs : LObs} {cl : Clause}
    (h : (monListRec s kind cur fl obs).2 = some cl) :
    (∃ sc, (s.get kind).script = some sc ∧ obs ≠ LObs.ofRes (scriptedOracle kind sc 0 cur) ∧ cl = .foreignPage) ∨
    ((s.get kind).script = none ∧
      ((fl = true ∧ obs = .invalid ∧ monList (s.get kind).reg s.p cur obs = none ∧ cl = .followRefused) ∨
       monList (s.get kind).reg s.p cur obs = some cl)) := by
  unfold monListRec at h
  cases hsc : (s.get kind).script with
  | some sc =>
    left
    simp only [hsc] at h
    split at h
    · cases h
    · rename_i hne; simp only [Option.some.injEq] at h; exact ⟨sc, rfl, hne, h.symm⟩
  | none =>
    right
    refine ⟨rfl, ?_⟩
    simp only [hsc] at h
    split at h
    · rename_i hc
      simp only [Bool.and_eq_true, decide_eq_true_eq, Option.isNone_iff_eq_none] at hc
      simp only [Option.some.injEq] at h
      exact Or.inl ⟨hc.1.1, hc.1.2, hc.2, h.symm⟩
    · exact Or.inr h

theorem monListRec_none {s : MState} {kind : Kind} {cur : DCur} {fl : Bool} {obs : LObs}
    (h : (monListRec s kind cur fl obs).2 = none) :
    (∀ sc, (s.get kind).script = some sc → obs = LObs.ofRes (scriptedOracle kind sc 0 cur)) ∧
    ((s.get kind).script = none → monList (s.get kind).reg s.p cur obs = none ∧ ¬ (fl = true ∧ obs = .invalid)) := by
  unfold monListRec at h
  cases hsc : (s.get kind).script with
  | some sc =>
    simp only [hsc] at h
    refine ⟨?_, (by intro e; cases e)⟩
    intro sc' e
    cases e
    split at h
    · assumption
    · cases h
  | none =>
    simp only [hsc] at h
    refine ⟨(by intro sc e; cases e), fun _ => ?_⟩
    split at h
    · cases h
    · rename_i hc
      simp only [Bool.and_eq_true, decide_eq_true_eq, Option.isNone_iff_eq_none, not_and] at hc
      refine ⟨h, ?_⟩
      rintro ⟨h1, h2⟩
      exact hc ⟨h1, h2⟩ h

/-- Facts the soundness proofs take from a firing list record. -/
theorem fires_list {tr : Trace} {j : Nat} {kind : Kind} {cur : DCur} {fl : Bool} {obs : LObs} {cl : Clause}
    (hj : tr[j]? = some (.list kind cur fl obs))
    (hc : (monListRec (stateAfter (tr.take j)) kind cur fl obs).2 = some cl) :
    (∃ sc, script kind (tr.take j) = some sc ∧ obs ≠ ForeignAnswer kind sc cur ∧ cl = .foreignPage) ∨
    (ListAt tr j kind cur fl obs ∧
      ((fl = true ∧ obs = .invalid ∧ cl = .followRefused) ∨
       monList (registry kind (tr.take j)) (pageSize (tr.take j)) cur obs = some cl)) := by
  obtain ⟨bp, bk⟩ := book (tr.take j)
  obtain ⟨br, bs, _⟩ := bk kind
  rcases monListRec_some hc with ⟨sc, h1, h2, h3⟩ | ⟨h1, h2⟩
  · left; exact ⟨sc, by rw [← bs, h1], by rw [← foreignAnswer_eq]; exact h2, h3⟩
  · right
    refine ⟨⟨hj, by rw [← bs, h1]⟩, ?_⟩
    rcases h2 with ⟨a, b, _, d⟩ | h2
    · exact Or.inl ⟨a, b, d⟩
    · right; rw [← br, ← bp]; exact h2

theorem monTend_some {t : TravMon} {p : Nat} {cl : Clause} (h : monTend t p = some cl) :
    t.fetches.all Fetch.isPage = true ∧ chain .nil t.fetches = true ∧
    ((strictlyAscending (travItems t.fetches) = false ∧ cl = .travOrder) ∨
     (travFinished t.fetches = true ∧
        (travStable t.fetches).all (fun k => (travItems t.fetches).contains k) = false ∧ cl = .travMiss) ∨
     (travFinished t.fetches = true ∧ t.mutated = false ∧
        travItems t.fetches ≠ (sortReg (travFirst t.fetches)).map (·.1) ∧ cl = .travNotExact) ∨
     (travFinished t.fetches = true ∧ t.mutated = false ∧
        t.fetches.length ≠ pagesFor' (travFirst t.fetches).length p ∧ cl = .travPages)) := by
  unfold monTend at h
  split at h
  · cases h
  · rename_i h1
    split at h
    · cases h
    · rename_i h2
      refine ⟨by simpa using h1, by simpa using h2, ?_⟩
      split at h
      · rename_i h3
        simp only [Option.some.injEq] at h
        exact Or.inl ⟨by simpa using h3, h.symm⟩
      · split at h
        · rename_i h4
          simp only [Option.some.injEq] at h
          simp only [Bool.and_eq_true, Bool.not_eq_true'] at h4
          exact Or.inr (Or.inl ⟨h4.1, h4.2, h.symm⟩)
        · split at h
          · rename_i h5
            simp only [Option.some.injEq] at h
            simp only [Bool.and_eq_true, Bool.not_eq_true', bne_iff_ne, ne_eq] at h5
            exact Or.inr (Or.inr (Or.inl ⟨h5.1.1, h5.1.2, h5.2, h.symm⟩))
          · split at h
            · rename_i h6
              simp only [Option.some.injEq] at h
              simp only [Bool.and_eq_true, Bool.not_eq_true', bne_iff_ne, ne_eq] at h6
              exact Or.inr (Or.inr (Or.inr ⟨h6.1.1, h6.1.2, h6.2, h.symm⟩))
            · cases h

/-- What a step that reports a clause looks like. -/
inductive Fired (s : MState) : Rec → Clause → Prop
  | add (kind : Kind) (fs : List Item) : Fired s (.add kind fs false) .addFailed
  | list (kind : Kind) (cur : DCur) (fl : Bool) (obs : LObs) (cl : Clause) :
      (monListRec s kind cur fl obs).2 = some cl → Fired s (.list kind cur fl obs) cl
  | tend (kind : Kind) (t : TravMon) (cl : Clause) :
      (s.get kind).tr = some t → monTend t s.p = some cl → Fired s (.tend kind) cl
  | ipullF (kind : Kind) (m : Nat) (obs : IObs) (it : Iter K String DCur) (sc : Script) :
      (s.get kind).sit = some it → (s.get kind).script = some sc →
      obs ≠ (pullMany (scriptedOracle kind sc) (sc.length + 3) m it []).2 → Fired s (.ipull kind m obs) .iterForeign
  | ipullM (kind : Kind) (m : Nat) (obs : IObs) (it : Iter K String DCur) :
      (s.get kind).sit = some it → (s.get kind).script = none →
      obs ≠ (pullMany (specOracle (s.get kind).reg s.p) 3 m it []).2 → Fired s (.ipull kind m obs) .iterManual
  | iterallF (kind : Kind) (cur : DCur) (obs : IObs) (sc : Script) :
      (s.get kind).script = some sc → obs ≠ (manualAll (scriptedOracle kind sc) cur (sc.length + 2)).1 →
      (manualAll (scriptedOracle kind sc) cur (sc.length + 2)).2 ≠ .running → Fired s (.iterall kind cur obs) .iterForeign
  | iterallM (kind : Kind) (cur : DCur) (obs : IObs) :
      (s.get kind).script = none →
      obs ≠ iterAll (specOracle (s.get kind).reg s.p) cur (2 * (s.get kind).reg.length + 8) →
      Fired s (.iterall kind cur obs) .iterManual
  | roundtrip : Fired s (.roundtrip false) .codecLaw
  | codec : Fired s (.codec false) .codecCrash

theorem monStep_fired {s : MState} {r : Rec} {cl : Clause} (h : (monStep s r).2 = some cl) : Fired s r cl := by
  cases r with
  | reset => cases h
  | server n => cases h
  | add kind fs ok =>
    simp only [monStep] at h
    cases ok with
    | true => cases h
    | false => simp only [Bool.false_eq_true, if_false, Option.some.injEq] at h; subst h; exact .add kind fs
  | remove kind ks => cases h
  | script kind sc => cases h
  | unscript kind => cases h
  | list kind cur fl obs => exact .list kind cur fl obs cl h
  | tbegin kind => cases h
  | tend kind =>
    simp only [monStep] at h
    cases ht : ((s.get kind).tr) with
    | none => rw [ht] at h; cases h
    | some t => rw [ht] at h; exact .tend kind t cl ht h
  | iopen kind cur => cases h
  | ipull kind m obs =>
    simp only [monStep] at h
    cases hs : (s.get kind).sit with
    | none => rw [hs] at h; cases h
    | some it =>
      rw [hs] at h
      cases hsc : (s.get kind).script with
      | some sc =>
        rw [hsc] at h
        simp only at h
        split at h
        · cases h
        · rename_i hne; simp only [Option.some.injEq] at h; subst h; exact .ipullF kind m obs it sc hs hsc hne
      | none =>
        rw [hsc] at h
        simp only at h
        split at h
        · cases h
        · rename_i hne; simp only [Option.some.injEq] at h; subst h; exact .ipullM kind m obs it hs hsc hne
  | iclose kind => cases h
  | iterall kind cur obs =>
    simp only [monStep] at h
    cases hsc : (s.get kind).script with
    | some sc =>
      rw [hsc] at h
      simp only at h
      split at h
      · cases h
      · rename_i hne
        simp only [Option.some.injEq] at h; subst h
        simp only [Bool.or_eq_true, decide_eq_true_eq, beq_iff_eq, not_or] at hne
        exact .iterallF kind cur obs sc hsc hne.1 hne.2
    | none =>
      rw [hsc] at h
      simp only at h
      split at h
      · cases h
      · rename_i hne; simp only [Option.some.injEq] at h; subst h; exact .iterallM kind cur obs hsc hne
  | roundtrip same =>
    simp only [monStep] at h
    cases same with
    | true => cases h
    | false => simp only [Bool.false_eq_true, if_false, Option.some.injEq] at h; subst h; exact .roundtrip
  | codec ok =>
    simp only [monStep] at h
    cases ok with
    | true => cases h
    | false => simp only [Bool.false_eq_true, if_false, Option.some.injEq] at h; subst h; exact .codec
  | readonly t => cases h

/-- A firing step on a list answer of the SDK server, with the monitor's reason. -/
theorem fires_monList {tr : Trace} {j : Nat} {cl : Clause} (hf : FiresAt tr j cl)
    (hcl : cl = .malformedNotRefused ∨ cl = .listFailed ∨ cl = .pageWrong ∨ cl = .nextUndecodable ∨ cl = .nextWrong) :
    ∃ kind cur fl obs, ListAt tr j kind cur fl obs ∧
      monList (registry kind (tr.take j)) (pageSize (tr.take j)) cur obs = some cl := by
  obtain ⟨r, hj, hc⟩ := hf
  cases monStep_fired hc with
  | list kind cur fl obs _ h =>
    rcases fires_list hj h with ⟨sc, _, _, e⟩ | ⟨hl, ⟨_, _, e⟩ | hm⟩
    · subst e; simp at hcl
    · subst e; simp at hcl
    · exact ⟨kind, cur, fl, obs, hl, hm⟩
  | tend kind t _ _ hm =>
    obtain ⟨_, _, e⟩ := monTend_some hm
    rcases e with ⟨_, e⟩ | ⟨_, _, e⟩ | ⟨_, _, _, e⟩ | ⟨_, _, _, e⟩ <;> (subst e; simp at hcl)
  | add => simp at hcl
  | ipullF => simp at hcl
  | ipullM => simp at hcl
  | iterallF => simp at hcl
  | iterallM => simp at hcl
  | roundtrip => simp at hcl
  | codec => simp at hcl

/-! ## Soundness of the clauses about one list answer -/

theorem sound_malformedNotRefused (tr : Trace) (j : Nat) (hf : FiresAt tr j .malformedNotRefused) :
    ¬ P_malformed_cursor_invalid_params tr := by
  intro hP
  obtain ⟨kind, cur, fl, obs, hl, hm⟩ := fires_monList hf (by simp)
  obtain ⟨hne, h | ⟨_, h⟩⟩ := monList_some hm
  · obtain ⟨rfl, _⟩ := h
    exact hne (by rw [hP j kind fl obs hl]; rfl)
  · rcases h with ⟨_, _, _, ⟨_, e⟩ | ⟨_, _, e⟩ | ⟨_, _, e⟩⟩ | ⟨_, e⟩ <;> cases e

theorem sound_listFailed (tr : Trace) (j : Nat) (hf : FiresAt tr j .listFailed) : ¬ P_any_cursor_answered tr := by
  intro hP
  obtain ⟨kind, cur, fl, obs, hl, hm⟩ := fires_monList hf (by simp)
  obtain ⟨_, h | ⟨hb, h⟩⟩ := monList_some hm
  · cases h.2
  · rcases h with ⟨_, _, _, ⟨_, e⟩ | ⟨_, _, e⟩ | ⟨_, _, e⟩⟩ | ⟨hno, _⟩
    · cases e
    · cases e
    · cases e
    · obtain ⟨items, next, e⟩ := hP j kind cur fl obs hl hb
      exact hno items next e

theorem sound_pageWrong (tr : Trace) (j : Nat) (hf : FiresAt tr j .pageWrong) : ¬ P_page_is_first_p_above tr := by
  intro hP
  obtain ⟨kind, cur, fl, obs, hl, hm⟩ := fires_monList hf (by simp)
  obtain ⟨_, h | ⟨hb, h⟩⟩ := monList_some hm
  · cases h.2
  · rcases h with ⟨items, next, rfl, ⟨hne, _⟩ | ⟨_, _, e⟩ | ⟨_, _, e⟩⟩ | ⟨_, e⟩
    · exact hne ((isPage_iff (registry_regOK kind _) _ cur items).1 (hP j kind cur fl items next hl hb))
    · cases e
    · cases e
    · cases e

theorem sound_nextUndecodable (tr : Trace) (j : Nat) (hf : FiresAt tr j .nextUndecodable) : ¬ P_next_cursor_decodes tr := by
  intro hP
  obtain ⟨kind, cur, fl, obs, hl, hm⟩ := fires_monList hf (by simp)
  obtain ⟨_, h | ⟨hb, h⟩⟩ := monList_some hm
  · cases h.2
  · rcases h with ⟨items, next, rfl, ⟨_, e⟩ | ⟨_, hn, _⟩ | ⟨_, _, e⟩⟩ | ⟨_, e⟩
    · cases e
    · exact hP j kind cur fl items next hl hn
    · cases e
    · cases e

theorem sound_nextWrong (tr : Trace) (j : Nat) (hf : FiresAt tr j .nextWrong) : ¬ P_next_cursor_right tr := by
  intro hP
  obtain ⟨kind, cur, fl, obs, hl, hm⟩ := fires_monList hf (by simp)
  obtain ⟨hne, h | ⟨hb, h⟩⟩ := monList_some hm
  · cases h.2
  · rcases h with ⟨items, next, rfl, ⟨_, e⟩ | ⟨_, _, e⟩ | ⟨hi, _, _⟩⟩ | ⟨_, e⟩
    · cases e
    · cases e
    · have := hP j kind cur fl items next hl hb
      rw [hi] at this
      have hn := (nextOk_iff (registry_regOK kind _) _ (pageSize_pos _) cur next).1 this
      apply hne
      rw [hi, hn]
      cases cur with
      | bad => exact absurd rfl hb
      | nil => rfl
      | good u => rfl
    · cases e

theorem sound_foreignPage (tr : Trace) (j : Nat) (hf : FiresAt tr j .foreignPage) : ¬ P_foreign_page_handed_over tr := by
  intro hP
  obtain ⟨r, hj, hc⟩ := hf
  cases monStep_fired hc with
  | list kind cur fl obs _ h =>
    rcases fires_list hj h with ⟨sc, hs, hne, _⟩ | ⟨_, ⟨_, _, e⟩ | hm⟩
    · exact hne (hP j kind cur fl obs sc hj hs)
    · cases e
    · obtain ⟨_, h | ⟨_, h⟩⟩ := monList_some hm
      · cases h.2
      · rcases h with ⟨_, _, _, ⟨_, e⟩ | ⟨_, _, e⟩ | ⟨_, _, e⟩⟩ | ⟨_, e⟩ <;> cases e
  | tend kind t _ _ hm =>
    obtain ⟨_, _, e⟩ := monTend_some hm
    rcases e with ⟨_, e⟩ | ⟨_, _, e⟩ | ⟨_, _, _, e⟩ | ⟨_, _, _, e⟩ <;> cases e

theorem sound_addFailed (tr : Trace) (j : Nat) (hf : FiresAt tr j .addFailed) : ¬ P_registration_succeeds tr := by
  intro hP
  obtain ⟨r, hj, hc⟩ := hf
  cases monStep_fired hc with
  | add kind fs => have := hP j kind fs false hj; cases this
  | list kind cur fl obs _ h =>
    rcases fires_list hj h with ⟨sc, _, _, e⟩ | ⟨_, ⟨_, _, e⟩ | hm⟩
    · cases e
    · cases e
    · obtain ⟨_, h | ⟨_, h⟩⟩ := monList_some hm
      · cases h.2
      · rcases h with ⟨_, _, _, ⟨_, e⟩ | ⟨_, _, e⟩ | ⟨_, _, e⟩⟩ | ⟨_, e⟩ <;> cases e
  | tend kind t _ _ hm =>
    obtain ⟨_, _, e⟩ := monTend_some hm
    rcases e with ⟨_, e⟩ | ⟨_, _, e⟩ | ⟨_, _, _, e⟩ | ⟨_, _, _, e⟩ <;> cases e

theorem sound_followRefused (tr : Trace) (j : Nat) (hf : FiresAt tr j .followRefused) : ¬ P_issued_cursor_accepted tr := by
  intro hP
  obtain ⟨r, hj, hc⟩ := hf
  cases monStep_fired hc with
  | list kind cur fl obs _ h =>
    rcases fires_list hj h with ⟨sc, _, _, e⟩ | ⟨hl, ⟨rfl, ho, _⟩ | hm⟩
    · cases e
    · exact hP j kind cur obs hl ho
    · obtain ⟨_, h | ⟨_, h⟩⟩ := monList_some hm
      · cases h.2
      · rcases h with ⟨_, _, _, ⟨_, e⟩ | ⟨_, _, e⟩ | ⟨_, _, e⟩⟩ | ⟨_, e⟩ <;> cases e
  | tend kind t _ _ hm =>
    obtain ⟨_, _, e⟩ := monTend_some hm
    rcases e with ⟨_, e⟩ | ⟨_, _, e⟩ | ⟨_, _, _, e⟩ | ⟨_, _, _, e⟩ <;> cases e

theorem sound_codecLaw (tr : Trace) (j : Nat) (hf : FiresAt tr j .codecLaw) : ¬ P_codec_law tr := by
  intro hP
  obtain ⟨r, hj, hc⟩ := hf
  cases monStep_fired hc with
  | roundtrip => have := hP j false hj; cases this
  | list kind cur fl obs _ h =>
    rcases fires_list hj h with ⟨sc, _, _, e⟩ | ⟨_, ⟨_, _, e⟩ | hm⟩
    · cases e
    · cases e
    · obtain ⟨_, h | ⟨_, h⟩⟩ := monList_some hm
      · cases h.2
      · rcases h with ⟨_, _, _, ⟨_, e⟩ | ⟨_, _, e⟩ | ⟨_, _, e⟩⟩ | ⟨_, e⟩ <;> cases e
  | tend kind t _ _ hm =>
    obtain ⟨_, _, e⟩ := monTend_some hm
    rcases e with ⟨_, e⟩ | ⟨_, _, e⟩ | ⟨_, _, _, e⟩ | ⟨_, _, _, e⟩ <;> cases e

theorem sound_codecCrash (tr : Trace) (j : Nat) (hf : FiresAt tr j .codecCrash) : ¬ P_codec_total tr := by
  intro hP
  obtain ⟨r, hj, hc⟩ := hf
  cases monStep_fired hc with
  | codec => have := hP j false hj; cases this
  | list kind cur fl obs _ h =>
    rcases fires_list hj h with ⟨sc, _, _, e⟩ | ⟨_, ⟨_, _, e⟩ | hm⟩
    · cases e
    · cases e
    · obtain ⟨_, h | ⟨_, h⟩⟩ := monList_some hm
      · cases h.2
      · rcases h with ⟨_, _, _, ⟨_, e⟩ | ⟨_, _, e⟩ | ⟨_, _, e⟩⟩ | ⟨_, e⟩ <;> cases e
  | tend kind t _ _ hm =>
    obtain ⟨_, _, e⟩ := monTend_some hm
    rcases e with ⟨_, e⟩ | ⟨_, _, e⟩ | ⟨_, _, _, e⟩ | ⟨_, _, _, e⟩ <;> cases e

/-! ## Traversal bookkeeping: the fetches the monitor holds are the segment's -/

/-- Records after which an open traversal of `kind` is still the same traversal. -/
def neutral (kind : Kind) : Rec → Bool
  | .reset => false
  | .server _ => false
  | .tbegin k => k != kind
  | .tend k => k != kind
  | _ => true

def fetchOfS (kind : Kind) (s : MState) : Rec → List Fetch
  | .list k cur _ obs => if k = kind ∧ (s.get kind).script = none then [⟨(s.get kind).reg, cur, obs⟩] else []
  | _ => []

theorem map_noop (o : Option TravMon) :
    o.map (fun t => ({ fetches := t.fetches ++ [], mutated := t.mutated || false } : TravMon)) = o := by
  cases o <;> simp

theorem tr_step (s : MState) (kind : Kind) (r : Rec) (hn : neutral kind r = true) :
    ((monStep s r).1.get kind).tr =
      (s.get kind).tr.map (fun t => { fetches := t.fetches ++ fetchOfS kind s r, mutated := t.mutated || mutatesB kind r }) := by
  have other : ∀ (k0 : Kind) (k' : MKind), k0 ≠ kind → ((s.set k0 k').get kind).tr = (s.get kind).tr := by
    intro k0 k' e; rw [MState.get_set_other _ _ (Ne.symm e)]
  cases r with
  | reset => cases hn
  | server n => cases hn
  | add k0 fs ok =>
    simp only [monStep, fetchOfS, mutatesB]
    by_cases e : k0 = kind
    · subst e; simp [markMutated]
    · rw [other _ _ e]
      have eb : (k0 == kind) = false := by simpa using e
      cases (s.get kind).tr <;> simp [eb]
  | remove k0 ks =>
    simp only [monStep, fetchOfS, mutatesB]
    by_cases e : k0 = kind
    · subst e; simp [markMutated]
    · rw [other _ _ e]
      have eb : (k0 == kind) = false := by simpa using e
      cases (s.get kind).tr <;> simp [eb]
  | script k0 sc =>
    simp only [monStep, fetchOfS, mutatesB]
    by_cases e : k0 = kind
    · subst e; simp [map_noop]
    · rw [other _ _ e]; simp [map_noop]
  | unscript k0 =>
    simp only [monStep, fetchOfS, mutatesB]
    by_cases e : k0 = kind
    · subst e; simp [map_noop]
    · rw [other _ _ e]; simp [map_noop]
  | list k0 cur fl obs =>
    simp only [monStep, monListRec_fst, fetchOfS, mutatesB]
    by_cases e : k0 = kind
    · subst e
      cases hsc : (s.get k0).script with
      | some sc => simp [map_noop]
      | none => simp
    · cases hsc : (s.get k0).script with
      | some sc => simp [e, map_noop]
      | none => simp only; rw [other _ _ e]; simp [e, map_noop]
  | tbegin k0 =>
    have e : k0 ≠ kind := by simpa [neutral] using hn
    simp only [monStep, fetchOfS, mutatesB]
    rw [other _ _ e]; simp [map_noop]
  | tend k0 =>
    have e : k0 ≠ kind := by simpa [neutral] using hn
    simp only [monStep, fetchOfS, mutatesB]
    rw [other _ _ e]; simp [map_noop]
  | iopen k0 cur =>
    simp only [monStep, fetchOfS, mutatesB]
    by_cases e : k0 = kind
    · subst e; simp [map_noop]
    · rw [other _ _ e]; simp [map_noop]
  | ipull k0 m obs =>
    simp only [monStep, fetchOfS, mutatesB]
    cases (s.get k0).sit with
    | none => simp [map_noop]
    | some it =>
      cases (s.get k0).script with
      | some sc =>
        simp only
        by_cases e : k0 = kind
        · subst e; simp [map_noop]
        · rw [other _ _ e]; simp [map_noop]
      | none =>
        simp only
        by_cases e : k0 = kind
        · subst e; simp [map_noop]
        · rw [other _ _ e]; simp [map_noop]
  | iclose k0 =>
    simp only [monStep, fetchOfS, mutatesB]
    by_cases e : k0 = kind
    · subst e; simp [map_noop]
    · rw [other _ _ e]; simp [map_noop]
  | iterall k0 cur obs =>
    simp only [monStep, fetchOfS, mutatesB]
    cases (s.get k0).script <;> simp [map_noop]
  | roundtrip same => simp [monStep, fetchOfS, mutatesB, map_noop]
  | codec ok => simp [monStep, fetchOfS, mutatesB, map_noop]
  | readonly t => simp [monStep, fetchOfS, mutatesB, map_noop]

theorem tr_step_nonneutral (s : MState) (kind : Kind) (r : Rec) (hn : neutral kind r = false) :
    (r = .tbegin kind ∧ ((monStep s r).1.get kind).tr = some {}) ∨ ((monStep s r).1.get kind).tr = none := by
  cases r <;> simp [neutral] at hn
  · right; cases kind <;> rfl
  · right; cases kind <;> rfl
  · subst hn; left; simp [monStep]
  · subst hn; right; simp [monStep]

theorem fetchOfS_book (kind : Kind) (h : Trace) (r : Rec) : fetchOfS kind (stateAfter h) r = fetchOf kind h r := by
  obtain ⟨_, bk⟩ := book h
  obtain ⟨br, bs, _⟩ := bk kind
  cases r <;> simp [fetchOfS, fetchOf, br, bs]

theorem segFetches_snoc (kind : Kind) : ∀ (seg : List Rec) (h : Trace) (r : Rec),
    segFetches kind h (seg ++ [r]) = segFetches kind h seg ++ fetchOf kind (h ++ seg) r
  | [], h, r => by simp [segFetches]
  | x :: seg, h, r => by
    simp [segFetches, segFetches_snoc kind seg (h ++ [x]) r]

theorem noBracket_snoc {kind : Kind} {seg : List Rec} {r : Rec} (h : NoBracket kind seg) (hn : neutral kind r = true) :
    NoBracket kind (seg ++ [r]) := by
  intro x hx
  rcases List.mem_append.1 hx with hx | hx
  · exact h x hx
  · simp only [List.mem_singleton] at hx
    subst hx
    cases x <;> simp_all [neutral]

theorem mutates_snoc (kind : Kind) (seg : List Rec) (r : Rec) :
    Mutates kind (seg ++ [r]) ↔ Mutates kind seg ∨ mutatesB kind r = true := by
  simp only [Mutates, List.mem_append, List.mem_singleton]
  constructor
  · rintro ⟨x, hx | rfl, hm⟩
    · exact Or.inl ⟨x, hx, hm⟩
    · exact Or.inr hm
  · rintro (⟨x, hx, hm⟩ | hm)
    · exact ⟨x, Or.inl hx, hm⟩
    · exact ⟨r, Or.inr rfl, hm⟩

/-- The open traversal the monitor holds for `kind` after history `h` is the segment since the last
`tbegin kind`: same fetches, mutated flag = a registration or removal of the kind inside. -/
def TravBook (h : Trace) : Prop :=
  ∀ kind t, ((stateAfter h).get kind).tr = some t →
    ∃ pre seg, h = pre ++ .tbegin kind :: seg ∧ NoBracket kind seg ∧
      t.fetches = segFetches kind (pre ++ [.tbegin kind]) seg ∧ (t.mutated = true ↔ Mutates kind seg)

theorem travBook (h : Trace) : TravBook h := by
  refine snoc_induction ?_ ?_ h
  · intro kind t ht
    cases kind <;> cases ht
  · intro h r ih kind t ht
    rw [stateAfter_snoc] at ht
    cases hn : neutral kind r with
    | true =>
      rw [tr_step _ kind r hn, fetchOfS_book] at ht
      cases ht0 : ((stateAfter h).get kind).tr with
      | none => rw [ht0] at ht; cases ht
      | some t0 =>
        rw [ht0] at ht
        simp only [Option.map_some, Option.some.injEq] at ht
        obtain ⟨pre, seg, rfl, hnb, hfs, hmu⟩ := ih kind t0 ht0
        refine ⟨pre, seg ++ [r], by simp, noBracket_snoc hnb hn, ?_, ?_⟩
        · rw [← ht, segFetches_snoc]
          simp only [hfs, List.append_assoc, List.singleton_append]
        · rw [← ht, mutates_snoc, ← hmu]
          simp
    | false =>
      rcases tr_step_nonneutral (stateAfter h) kind r hn with ⟨rfl, e⟩ | e
      · rw [e] at ht
        simp only [Option.some.injEq] at ht
        subst ht
        refine ⟨h, [], rfl, (by intro x hx; cases hx), rfl, ?_⟩
        simp [Mutates]
      · rw [e] at ht; cases ht

/-! ## The monitor's reading of a traversal ↔ the vocabulary -/

theorem follows_iff_chain : ∀ (fs : List Fetch) (c : DCur), chain c fs = true ↔ Follows c fs
  | [], c => by simp [chain]; exact .nil c
  | [f], c => by
    simp only [chain, beq_iff_eq]
    constructor
    · rintro rfl; exact .single f
    · intro h; cases h; rfl
  | f :: g :: r, c => by
    constructor
    · intro h
      obtain ⟨rfl, items, n, ho, hn, hc⟩ := chain_cons_cons h
      exact .cons f g r items n ho hn ((follows_iff_chain (g :: r) n).1 hc)
    · intro h
      cases h with
      | cons _ _ _ items n ho hn hf =>
        simp only [chain, beq_self_eq_true, Bool.true_and, ho, Bool.and_eq_true, bne_iff_ne, ne_eq]
        exact ⟨hn, (follows_iff_chain (g :: r) n).2 hf⟩

theorem goodTrav_iff (fs : List Fetch) : GoodTrav fs ↔ (fs.all Fetch.isPage = true ∧ chain .nil fs = true) := by
  unfold GoodTrav
  rw [← follows_iff_chain, List.all_eq_true]
  exact And.comm

theorem finished_iff (fs : List Fetch) : travFinished fs = true ↔ Finished fs := by
  unfold travFinished Finished
  constructor
  · intro h
    cases hg : fs.getLast? with
    | none => rw [hg] at h; cases h
    | some f =>
      rw [hg] at h
      simp only at h
      obtain ⟨pre, rfl⟩ := List.getLast?_eq_some_iff.1 hg
      cases ho : f.obs with
      | page items n =>
        rw [ho] at h
        simp only [beq_iff_eq] at h
        exact ⟨pre, f, items, rfl, by rw [ho, h]⟩
      | invalid => rw [ho] at h; cases h
      | other => rw [ho] at h; cases h
  · rintro ⟨pre, f, items, rfl, ho⟩
    simp [ho]

/-- The decomposition of the trace at a `tend` record, from the monitor's open traversal. -/
theorem trav_at {tr : Trace} {j : Nat} {kind : Kind} {t : TravMon} (hj : tr[j]? = some (.tend kind))
    (ht : ((stateAfter (tr.take j)).get kind).tr = some t) :
    ∃ h seg, IsTrav tr kind h seg ∧ tr.take j = h ++ .tbegin kind :: seg ∧
      t.fetches = segFetches kind (h ++ [.tbegin kind]) seg ∧ (t.mutated = true ↔ Mutates kind seg) := by
  obtain ⟨pre, seg, hpre, hnb, hfs, hmu⟩ := travBook (tr.take j) kind t ht
  refine ⟨pre, seg, ⟨⟨tr.drop (j + 1), ?_⟩, hnb⟩, hpre, hfs, hmu⟩
  have hlt : j < tr.length := by
    rcases Nat.lt_or_ge j tr.length with h | h
    · exact h
    · rw [List.getElem?_eq_none h] at hj; cases hj
  have e1 : tr = tr.take j ++ tr.drop j := (List.take_append_drop j tr).symm
  have e2 : tr.drop j = Rec.tend kind :: tr.drop (j + 1) := by
    rw [List.drop_eq_getElem_cons hlt]
    congr 1
    have := List.getElem?_eq_getElem hlt
    rw [this] at hj
    exact Option.some.inj hj
  rw [e2, hpre] at e1
  simpa using e1

theorem fires_tend {tr : Trace} {j : Nat} {cl : Clause} (hf : FiresAt tr j cl)
    (hcl : cl = .travOrder ∨ cl = .travMiss ∨ cl = .travNotExact ∨ cl = .travPages) :
    ∃ kind h seg t, IsTrav tr kind h seg ∧ tr.take j = h ++ .tbegin kind :: seg ∧
      t.fetches = segFetches kind (h ++ [.tbegin kind]) seg ∧ (t.mutated = true ↔ Mutates kind seg) ∧
      monTend t (pageSize (tr.take j)) = some cl := by
  obtain ⟨r, hj, hc⟩ := hf
  cases monStep_fired hc with
  | tend kind t _ ht hm =>
    obtain ⟨h, seg, h1, h2, h3, h4⟩ := trav_at hj ht
    exact ⟨kind, h, seg, t, h1, h2, h3, h4, by rw [← (book (tr.take j)).1]; exact hm⟩
  | list kind cur fl obs _ h =>
    exfalso
    rcases fires_list hj h with ⟨sc, _, _, e⟩ | ⟨_, ⟨_, _, e⟩ | hm⟩
    · subst e; simp at hcl
    · subst e; simp at hcl
    · obtain ⟨_, h | ⟨_, h⟩⟩ := monList_some hm
      · rw [h.2] at hcl; simp at hcl
      · rcases h with ⟨_, _, _, ⟨_, e⟩ | ⟨_, _, e⟩ | ⟨_, _, e⟩⟩ | ⟨_, e⟩ <;> (subst e; simp at hcl)
  | add => simp at hcl
  | ipullF => simp at hcl
  | ipullM => simp at hcl
  | iterallF => simp at hcl
  | iterallM => simp at hcl
  | roundtrip => simp at hcl
  | codec => simp at hcl

/-! ## Soundness of the traversal clauses -/

theorem sound_travOrder (tr : Trace) (j : Nat) (hf : FiresAt tr j .travOrder) : ¬ P_traversal_ascending tr := by
  intro hP
  obtain ⟨kind, h, seg, t, hT, _, hfs, _, hm⟩ := fires_tend hf (by simp)
  obtain ⟨h1, h2, e⟩ := monTend_some hm
  rw [hfs] at h1 h2 e
  have hs := hP kind h seg hT ((goodTrav_iff _).2 ⟨h1, h2⟩)
  rcases e with ⟨h3, _⟩ | ⟨_, _, e⟩ | ⟨_, _, _, e⟩ | ⟨_, _, _, e⟩
  · rw [(strictlyAscending_iff _).2 hs] at h3; cases h3
  · cases e
  · cases e
  · cases e

theorem sound_travMiss (tr : Trace) (j : Nat) (hf : FiresAt tr j .travMiss) : ¬ P_traversal_stable_items tr := by
  intro hP
  obtain ⟨kind, h, seg, t, hT, _, hfs, _, hm⟩ := fires_tend hf (by simp)
  obtain ⟨h1, h2, e⟩ := monTend_some hm
  rw [hfs] at h1 h2 e
  rcases e with ⟨_, e⟩ | ⟨h3, h4, _⟩ | ⟨_, _, _, e⟩ | ⟨_, _, _, e⟩
  · cases e
  · have := hP kind h seg hT ((goodTrav_iff _).2 ⟨h1, h2⟩) ((finished_iff _).1 h3)
    have hall : (travStable (segFetches kind (h ++ [.tbegin kind]) seg)).all
        (fun k => (travItems (segFetches kind (h ++ [.tbegin kind]) seg)).contains k) = true := by
      rw [List.all_eq_true]
      intro k hk
      rw [List.contains_iff_mem]
      exact this k (mem_travStable _ k hk)
    rw [hall] at h4; cases h4
  · cases e
  · cases e

theorem sound_travNotExact (tr : Trace) (j : Nat) (hf : FiresAt tr j .travNotExact) : ¬ P_traversal_static_exact tr := by
  intro hP
  obtain ⟨kind, h, seg, t, hT, _, hfs, hmu, hm⟩ := fires_tend hf (by simp)
  obtain ⟨h1, h2, e⟩ := monTend_some hm
  rw [hfs] at h1 h2 e
  rcases e with ⟨_, e⟩ | ⟨_, _, e⟩ | ⟨h3, h4, h5, _⟩ | ⟨_, _, _, e⟩
  · cases e
  · cases e
  · have hnm : ¬ Mutates kind seg := by intro hx; rw [hmu.2 hx] at h4; cases h4
    have hne : segFetches kind (h ++ [.tbegin kind]) seg ≠ [] := by
      intro e; rw [e] at h3; simp [travFinished] at h3
    have hreg : RegOK (travFirst (segFetches kind (h ++ [.tbegin kind]) seg)) := by
      -- the first fetch carries a registry of the history
      cases hseg : segFetches kind (h ++ [.tbegin kind]) seg with
      | nil => exact absurd hseg hne
      | cons f r =>
        simp only [travFirst]
        have : ∀ (seg : List Rec) (h0 : Trace), ∀ f ∈ segFetches kind h0 seg, RegOK f.reg := by
          intro seg
          induction seg with
          | nil => intro h0 f hf; cases hf
          | cons x seg ih =>
            intro h0 f hf
            simp only [segFetches, List.mem_append] at hf
            rcases hf with hf | hf
            · cases x <;> simp only [fetchOf, List.not_mem_nil] at hf
              split at hf
              · simp only [List.mem_singleton] at hf; subst hf; exact registry_regOK kind _
              · cases hf
            · exact ih _ f hf
        exact this seg _ f (by rw [hseg]; simp)
    exact h5 (hP kind h seg hT ((goodTrav_iff _).2 ⟨h1, h2⟩) ((finished_iff _).1 h3) hnm _ (listing_sortReg _ hreg))
  · cases e

theorem sound_travPages (tr : Trace) (j : Nat) (hf : FiresAt tr j .travPages) : ¬ P_traversal_static_pages tr := by
  intro hP
  obtain ⟨kind, h, seg, t, hT, htake, hfs, hmu, hm⟩ := fires_tend hf (by simp)
  obtain ⟨h1, h2, e⟩ := monTend_some hm
  rw [hfs] at h1 h2 e
  rcases e with ⟨_, e⟩ | ⟨_, _, e⟩ | ⟨_, _, _, e⟩ | ⟨h3, h4, h5, _⟩
  · cases e
  · cases e
  · cases e
  · have hnm : ¬ Mutates kind seg := by intro hx; rw [hmu.2 hx] at h4; cases h4
    have := hP kind h seg hT ((goodTrav_iff _).2 ⟨h1, h2⟩) ((finished_iff _).1 h3) hnm
    rw [htake] at h5
    exact h5 this

/-! ## Soundness of the iterator clauses -/

theorem sound_iterManual (tr : Trace) (j : Nat) (hf : FiresAt tr j .iterManual) :
    ¬ (P_iterator_pull_eq_manual tr ∧ P_iterator_all_eq_manual tr) := by
  rintro ⟨hP1, hP2⟩
  obtain ⟨r, hj, hc⟩ := hf
  obtain ⟨bp, bk⟩ := book (tr.take j)
  cases monStep_fired hc with
  | ipullM kind m obs it hs hsc hne =>
    obtain ⟨br, bs, bg⟩ := bk kind
    apply hne
    rw [br, bp]
    exact hP1 j kind m obs it hj (by rw [← bg, hs]) (by rw [← bs, hsc])
  | iterallM kind cur obs hsc hne =>
    obtain ⟨br, bs, _⟩ := bk kind
    apply hne
    rw [br, bp, iterAll_spec_eq_manualAll _ (registry_regOK kind _) _ (pageSize_pos _)]
    exact hP2 j kind cur obs hj (by rw [← bs, hsc])
  | list kind cur fl obs _ h =>
    rcases fires_list hj h with ⟨sc, _, _, e⟩ | ⟨_, ⟨_, _, e⟩ | hm⟩
    · cases e
    · cases e
    · obtain ⟨_, h | ⟨_, h⟩⟩ := monList_some hm
      · cases h.2
      · rcases h with ⟨_, _, _, ⟨_, e⟩ | ⟨_, _, e⟩ | ⟨_, _, e⟩⟩ | ⟨_, e⟩ <;> cases e
  | tend kind t _ _ hm =>
    obtain ⟨_, _, e⟩ := monTend_some hm
    rcases e with ⟨_, e⟩ | ⟨_, _, e⟩ | ⟨_, _, _, e⟩ | ⟨_, _, _, e⟩ <;> cases e

theorem sound_iterForeign (tr : Trace) (j : Nat) (hf : FiresAt tr j .iterForeign) :
    ¬ (P_iterator_pull_foreign tr ∧ P_iterator_all_foreign tr) := by
  rintro ⟨hP1, hP2⟩
  obtain ⟨r, hj, hc⟩ := hf
  obtain ⟨bp, bk⟩ := book (tr.take j)
  cases monStep_fired hc with
  | ipullF kind m obs it sc hs hsc hne =>
    obtain ⟨br, bs, bg⟩ := bk kind
    exact hne (hP1 j kind m obs it sc hj (by rw [← bg, hs]) (by rw [← bs, hsc]))
  | iterallF kind cur obs sc hsc hne hrun =>
    obtain ⟨br, bs, _⟩ := bk kind
    exact hne (hP2 j kind cur obs sc hj (by rw [← bs, hsc]) hrun)
  | list kind cur fl obs _ h =>
    rcases fires_list hj h with ⟨sc, _, _, e⟩ | ⟨_, ⟨_, _, e⟩ | hm⟩
    · cases e
    · cases e
    · obtain ⟨_, h | ⟨_, h⟩⟩ := monList_some hm
      · cases h.2
      · rcases h with ⟨_, _, _, ⟨_, e⟩ | ⟨_, _, e⟩ | ⟨_, _, e⟩⟩ | ⟨_, e⟩ <;> cases e
  | tend kind t _ _ hm =>
    obtain ⟨_, _, e⟩ := monTend_some hm
    rcases e with ⟨_, e⟩ | ⟨_, _, e⟩ | ⟨_, _, _, e⟩ | ⟨_, _, _, e⟩ <;> cases e

/-- **Every reported clause contradicts the property clause it names.** -/
theorem monitor_sound (tr : Trace) (j : Nat) (cl : Clause) (h : runMon tr = some (j, cl)) : ¬ P_of cl tr := by
  have hf := runMon_fires h
  cases cl with
  | malformedNotRefused => exact sound_malformedNotRefused tr j hf
  | listFailed => exact sound_listFailed tr j hf
  | pageWrong => exact sound_pageWrong tr j hf
  | nextUndecodable => exact sound_nextUndecodable tr j hf
  | nextWrong => exact sound_nextWrong tr j hf
  | foreignPage => exact sound_foreignPage tr j hf
  | addFailed => exact sound_addFailed tr j hf
  | followRefused => exact sound_followRefused tr j hf
  | travOrder => exact sound_travOrder tr j hf
  | travMiss => exact sound_travMiss tr j hf
  | travNotExact => exact sound_travNotExact tr j hf
  | travPages => exact sound_travPages tr j hf
  | iterForeign => exact sound_iterForeign tr j hf
  | iterManual => exact sound_iterManual tr j hf
  | codecLaw => exact sound_codecLaw tr j hf
  | codecCrash => exact sound_codecCrash tr j hf

/-! ## Completeness: silence means every clause of the property holds on the trace -/

theorem segFetches_regOK (kind : Kind) : ∀ (seg : List Rec) (h0 : Trace), ∀ f ∈ segFetches kind h0 seg, RegOK f.reg := by
  intro seg
  induction seg with
  | nil => intro h0 f hf; cases hf
  | cons x seg ih =>
    intro h0 f hf
    simp only [segFetches, List.mem_append] at hf
    rcases hf with hf | hf
    · cases x <;> simp only [fetchOf, List.not_mem_nil] at hf
      split at hf
      · simp only [List.mem_singleton] at hf; subst hf; exact registry_regOK kind _
      · cases hf
    · exact ih _ f hf

theorem travFirst_regOK (kind : Kind) (seg : List Rec) (h0 : Trace) : RegOK (travFirst (segFetches kind h0 seg)) := by
  cases hseg : segFetches kind h0 seg with
  | nil => exact regOK_nil
  | cons f r => exact segFetches_regOK kind seg h0 f (by rw [hseg]; simp)

/-- Converse of `travBook`: after `h ++ tbegin kind :: seg` the monitor holds the segment's fetches. -/
theorem travBook_conv (kind : Kind) (h : Trace) (seg : List Rec) (hnb : NoBracket kind seg) :
    ∃ t, ((stateAfter (h ++ .tbegin kind :: seg)).get kind).tr = some t ∧
      t.fetches = segFetches kind (h ++ [.tbegin kind]) seg ∧ (t.mutated = true ↔ Mutates kind seg) := by
  revert hnb
  refine snoc_induction (P := fun seg => NoBracket kind seg → ∃ t, ((stateAfter (h ++ .tbegin kind :: seg)).get kind).tr = some t ∧
      t.fetches = segFetches kind (h ++ [.tbegin kind]) seg ∧ (t.mutated = true ↔ Mutates kind seg)) ?_ ?_ seg
  · intro _
    refine ⟨{}, ?_, rfl, by simp [Mutates]⟩
    rw [stateAfter_snoc]
    simp [monStep]
  · intro seg r ih hnb
    have hnb' : NoBracket kind seg := fun x hx => hnb x (List.mem_append_left _ hx)
    have hn : neutral kind r = true := by
      have := hnb r (by simp)
      cases r <;> simp_all [neutral]
    obtain ⟨t, ht, hfs, hmu⟩ := ih hnb'
    have e : h ++ Rec.tbegin kind :: (seg ++ [r]) = (h ++ Rec.tbegin kind :: seg) ++ [r] := by simp
    rw [e, stateAfter_snoc, tr_step _ kind r hn, fetchOfS_book, ht]
    refine ⟨_, rfl, ?_, ?_⟩
    · simp only [hfs, segFetches_snoc]
      simp
    · simp only [mutates_snoc, ← hmu]
      simp

theorem monTend_none {t : TravMon} {p : Nat} (h : monTend t p = none)
    (h1 : t.fetches.all Fetch.isPage = true) (h2 : chain .nil t.fetches = true) :
    strictlyAscending (travItems t.fetches) = true ∧
    (travFinished t.fetches = true →
      (travStable t.fetches).all (fun k => (travItems t.fetches).contains k) = true ∧
      (t.mutated = false → travItems t.fetches = (sortReg (travFirst t.fetches)).map (·.1) ∧
        t.fetches.length = pagesFor' (travFirst t.fetches).length p)) := by
  unfold monTend at h
  simp only [h1, h2, Bool.not_true, Bool.false_eq_true, if_false] at h
  split at h
  · cases h
  · rename_i h3
    refine ⟨by simpa using h3, ?_⟩
    intro hf
    simp only [hf, Bool.true_and] at h
    split at h
    · cases h
    · rename_i h4
      refine ⟨by simpa using h4, ?_⟩
      intro hm
      simp only [hm, Bool.not_false, Bool.true_and] at h
      split at h
      · cases h
      · rename_i h5
        split at h
        · cases h
        · rename_i h6
          exact ⟨by simpa using h5, by simpa using h6⟩

/-- The silent step at the `tend` of a traversal. -/
theorem silent_tend {tr : Trace} (hs : runMon tr = none) {kind : Kind} {h : Trace} {seg : List Rec}
    (hT : IsTrav tr kind h seg) :
    ∃ t, t.fetches = segFetches kind (h ++ [.tbegin kind]) seg ∧ (t.mutated = true ↔ Mutates kind seg) ∧
      monTend t (pageSize (h ++ .tbegin kind :: seg)) = none := by
  obtain ⟨⟨post, htr⟩, hnb⟩ := hT
  obtain ⟨t, ht, hfs, hmu⟩ := travBook_conv kind h seg hnb
  refine ⟨t, hfs, hmu, ?_⟩
  have hj : tr[(h ++ .tbegin kind :: seg).length]? = some (.tend kind) := by
    rw [htr]
    have : h ++ Rec.tbegin kind :: seg ++ Rec.tend kind :: post = (h ++ Rec.tbegin kind :: seg) ++ (Rec.tend kind :: post) := by simp
    rw [this, List.getElem?_append_right (Nat.le_refl _)]
    simp
  have htake : tr.take (h ++ .tbegin kind :: seg).length = h ++ .tbegin kind :: seg := by
    rw [htr]
    have : h ++ Rec.tbegin kind :: seg ++ Rec.tend kind :: post = (h ++ Rec.tbegin kind :: seg) ++ (Rec.tend kind :: post) := by simp
    rw [this, List.take_left']
    rfl
  have := runMon_none hs _ _ hj
  rw [htake] at this
  simp only [monStep, ht, Option.bind_some] at this
  rw [← (book _).1]
  exact this

theorem silent_list {tr : Trace} (hs : runMon tr = none) {j : Nat} {kind : Kind} {cur : DCur} {fl : Bool} {obs : LObs}
    (hl : ListAt tr j kind cur fl obs) :
    obs = LObs.ofRes (specPage (registry kind (tr.take j)) (pageSize (tr.take j)) cur) ∧ ¬ (fl = true ∧ obs = .invalid) := by
  have := runMon_none hs j _ hl.1
  simp only [monStep] at this
  obtain ⟨bp, bk⟩ := book (tr.take j)
  obtain ⟨br, bs, _⟩ := bk kind
  obtain ⟨h1, h2⟩ := (monListRec_none this).2 (by rw [bs]; exact hl.2)
  rw [br, bp] at h1
  exact ⟨monList_none.1 h1, h2⟩

/-- **monitor_complete.** If the monitor run reports nothing, every clause of the property holds on
the trace. -/
theorem monitor_complete (tr : Trace) (hs : runMon tr = none) (cl : Clause) : P_of cl tr := by
  cases cl with
  | malformedNotRefused =>
    intro j kind fl obs hl
    rw [(silent_list hs hl).1]; rfl
  | listFailed =>
    intro j kind cur fl obs hl hb
    rw [(silent_list hs hl).1]
    cases cur with
    | bad => exact absurd rfl hb
    | nil => exact ⟨_, _, rfl⟩
    | good u => exact ⟨_, _, rfl⟩
  | pageWrong =>
    intro j kind cur fl items next hl hb
    have := (silent_list hs hl).1
    rw [isPage_iff (registry_regOK kind _)]
    cases cur with
    | bad => exact absurd rfl hb
    | nil => simp only [specPage, LObs.ofRes, LObs.page.injEq] at this; exact this.1
    | good u => simp only [specPage, LObs.ofRes, LObs.page.injEq] at this; exact this.1
  | nextUndecodable =>
    intro j kind cur fl items next hl
    have := (silent_list hs hl).1
    cases cur with
    | bad => simp [specPage, LObs.ofRes] at this
    | nil => simp only [specPage, LObs.ofRes, LObs.page.injEq] at this; rw [this.2]; exact specNext_ne_bad _ _ _
    | good u => simp only [specPage, LObs.ofRes, LObs.page.injEq] at this; rw [this.2]; exact specNext_ne_bad _ _ _
  | nextWrong =>
    intro j kind cur fl items next hl hb
    have := (silent_list hs hl).1
    have key : items = specItems (registry kind (tr.take j)) (pageSize (tr.take j)) cur ∧
        next = specNext (registry kind (tr.take j)) (pageSize (tr.take j)) cur := by
      cases cur with
      | bad => exact absurd rfl hb
      | nil => simpa [specPage, LObs.ofRes] using this
      | good u => simpa [specPage, LObs.ofRes] using this
    rw [key.1]
    exact (nextOk_iff (registry_regOK kind _) _ (pageSize_pos _) cur next).2 key.2
  | foreignPage =>
    intro j kind cur fl obs sc hj hsc
    have := runMon_none hs j _ hj
    simp only [monStep] at this
    obtain ⟨_, bk⟩ := book (tr.take j)
    obtain ⟨_, bs, _⟩ := bk kind
    rw [← foreignAnswer_eq]
    exact (monListRec_none this).1 sc (by rw [bs]; exact hsc)
  | addFailed =>
    intro j kind fs ok hj
    have := runMon_none hs j _ hj
    simp only [monStep] at this
    cases ok with
    | true => rfl
    | false => simp at this
  | followRefused =>
    intro j kind cur obs hl ho
    exact (silent_list hs hl).2 ⟨rfl, ho⟩
  | travOrder =>
    intro kind h seg hT hg
    obtain ⟨t, hfs, _, hm⟩ := silent_tend hs hT
    obtain ⟨g1, g2⟩ := (goodTrav_iff _).1 hg
    rw [← hfs] at g1 g2 ⊢
    exact (strictlyAscending_iff _).1 (monTend_none hm g1 g2).1
  | travMiss =>
    intro kind h seg hT hg hfin k hk
    obtain ⟨t, hfs, _, hm⟩ := silent_tend hs hT
    obtain ⟨g1, g2⟩ := (goodTrav_iff _).1 hg
    rw [← hfs] at g1 g2 hfin hk ⊢
    have hall := ((monTend_none hm g1 g2).2 ((finished_iff _).2 hfin)).1
    rw [List.all_eq_true] at hall
    have hne : t.fetches ≠ [] := by
      obtain ⟨pre, f, _, e, _⟩ := hfin
      rw [e]; simp
    have := hall k (travStable_of_mem _ k hne hk)
    rwa [List.contains_iff_mem] at this
  | travNotExact =>
    intro kind h seg hT hg hfin hnm L hL
    obtain ⟨t, hfs, hmu, hm⟩ := silent_tend hs hT
    obtain ⟨g1, g2⟩ := (goodTrav_iff _).1 hg
    have hreg := travFirst_regOK kind seg (h ++ [.tbegin kind])
    rw [← hfs] at g1 g2 hfin hL hreg ⊢
    have hmf : t.mutated = false := by
      cases hb : t.mutated with
      | false => rfl
      | true => exact absurd (hmu.1 hb) hnm
    rw [(((monTend_none hm g1 g2).2 ((finished_iff _).2 hfin)).2 hmf).1, listing_unique hreg hL]
    rfl
  | travPages =>
    intro kind h seg hT hg hfin hnm
    obtain ⟨t, hfs, hmu, hm⟩ := silent_tend hs hT
    obtain ⟨g1, g2⟩ := (goodTrav_iff _).1 hg
    rw [← hfs] at g1 g2 hfin ⊢
    have hmf : t.mutated = false := by
      cases hb : t.mutated with
      | false => rfl
      | true => exact absurd (hmu.1 hb) hnm
    exact (((monTend_none hm g1 g2).2 ((finished_iff _).2 hfin)).2 hmf).2
  | iterForeign =>
    refine ⟨?_, ?_⟩
    · intro j kind m obs it sc hj hpg hsc
      have := runMon_none hs j _ hj
      obtain ⟨_, bk⟩ := book (tr.take j)
      obtain ⟨_, bs, bg⟩ := bk kind
      simp only [monStep, bg, hpg, bs, hsc] at this
      split at this
      · assumption
      · cases this
    · intro j kind cur obs sc hj hsc hrun
      have := runMon_none hs j _ hj
      obtain ⟨_, bk⟩ := book (tr.take j)
      obtain ⟨_, bs, _⟩ := bk kind
      simp only [monStep, bs, hsc] at this
      split at this
      · rename_i hc
        simp only [Bool.or_eq_true, decide_eq_true_eq, beq_iff_eq] at hc
        rcases hc with hc | hc
        · exact hc
        · exact absurd hc hrun
      · cases this
  | iterManual =>
    refine ⟨?_, ?_⟩
    · intro j kind m obs it hj hpg hsc
      have := runMon_none hs j _ hj
      obtain ⟨bp, bk⟩ := book (tr.take j)
      obtain ⟨br, bs, bg⟩ := bk kind
      simp only [monStep, bg, hpg, bs, hsc, br, bp] at this
      split at this
      · assumption
      · cases this
    · intro j kind cur obs hj hsc
      have := runMon_none hs j _ hj
      obtain ⟨bp, bk⟩ := book (tr.take j)
      obtain ⟨br, bs, _⟩ := bk kind
      simp only [monStep, bs, hsc, br, bp] at this
      rw [← iterAll_spec_eq_manualAll _ (registry_regOK kind _) _ (pageSize_pos _)]
      split at this
      · assumption
      · cases this
  | codecLaw =>
    intro j same hj
    have := runMon_none hs j _ hj
    simp only [monStep] at this
    cases same with
    | true => rfl
    | false => simp at this
  | codecCrash =>
    intro j ok hj
    have := runMon_none hs j _ hj
    simp only [monStep] at this
    cases ok with
    | true => rfl
    | false => simp at this

/-- **The model satisfies every clause** on every operation sequence of the domain. -/
theorem model_satisfies_P (rs : List Rec) (hf : FollowDecodes rs) (cl : Clause) : P_of cl (modelTrace {} rs) :=
  monitor_complete _ (monitor_accepts_model rs hf) cl

/-! ## Non-vacuity: every clause can be reported

For each clause a short trace on which the monitor run reports exactly that clause (so the hypothesis
`FiresAt` of each `sound_…` theorem is satisfiable), and a trace of the model on which all predicates
hold.  Three tools `a < b < c`, page size 2. -/

section Witness

def w3 : List Item := [([1], "a"), ([2], "b"), ([3], "c")]
def wSetup : List Rec := [.server 2, .add .tools w3 true]

example : runMon (wSetup ++ [.list .tools .bad false (.page [] .nil)]) = some (2, .malformedNotRefused) := by decide
example : runMon (wSetup ++ [.list .tools .nil false .other]) = some (2, .listFailed) := by decide
example : runMon (wSetup ++ [.list .tools .nil false (.page [([1], "a"), ([3], "c")] (.good [3]))]) = some (2, .pageWrong) := by decide
example : runMon (wSetup ++ [.list .tools .nil false (.page [([1], "a"), ([2], "b")] .bad)]) = some (2, .nextUndecodable) := by decide
example : runMon (wSetup ++ [.list .tools .nil false (.page [([1], "a"), ([2], "b")] .nil)]) = some (2, .nextWrong) := by decide
example : runMon [.script .prompts [(.nil, .page [([1], "a")] .nil)], .list .prompts .nil false (.page [] .nil)]
    = some (1, .foreignPage) := by decide
example : runMon [.add .tools w3 false] = some (0, .addFailed) := by decide
example : runMon (wSetup ++ [.list .tools .bad true .invalid]) = some (2, .followRefused) := by decide
example : (monTend ⟨[⟨w3, .nil, .page [([1], "a"), ([2], "b")] (.good [2])⟩, ⟨w3, .good [2], .page [([2], "b")] .nil⟩], true⟩ 2)
    = some .travOrder := by decide
example : (monTend ⟨[⟨w3, .nil, .page [([1], "a"), ([2], "b")] (.good [2])⟩, ⟨w3, .good [2], .page [] .nil⟩], true⟩ 2)
    = some .travMiss := by decide
example : (monTend ⟨[⟨w3, .nil, .page [([1], "a"), ([2], "b"), ([3], "c"), ([4], "d")] .nil⟩], false⟩ 2) = some .travNotExact := by decide
example : (monTend ⟨[⟨w3, .nil, .page [([1], "a"), ([2], "b"), ([3], "c")] .nil⟩], false⟩ 2) = some .travPages := by decide
example : runMon (wSetup ++ [.iterall .tools .nil ⟨[([1], "a"), ([2], "b")], .fin⟩]) = some (2, .iterManual) := by decide
example : runMon (wSetup ++ [.iopen .tools .nil, .ipull .tools 1 ⟨[([2], "b")], .more⟩]) = some (3, .iterManual) := by decide
example : runMon [.script .prompts [(.nil, .page [] (.good [7])), (.good [7], .page [([1], "a")] .nil)],
    .iterall .prompts .nil ⟨[], .fin⟩] = some (1, .iterForeign) := by decide
example : runMon [.roundtrip false] = some (0, .codecLaw) := by decide
example : runMon [.codec false] = some (0, .codecCrash) := by decide

/-- The model's run of a traversal with a mutation between the pages, an iterator session and a whole
iteration: nothing is reported (an instance of `monitor_accepts_model`, evaluated). -/
example : runMon (modelTrace {} (wSetup ++ [.tbegin .tools, .list .tools .nil false .other, .remove .tools [[1]],
    .list .tools (.good [2]) true .other, .tend .tools, .iopen .tools .nil, .ipull .tools 2 noIter,
    .add .tools [([4], "d")] true, .ipull .tools 5 noIter, .iterall .tools (.good [1]) noIter])) = none := by decide

/-- **False alarm of the monitor as it was before it was lifted** (repaired in `monTend`: the `chain`
test).  It judged every `tbegin … tend` segment; on a segment that does NOT follow cursors — the first
page requested twice — the model's own (correct) answers repeat a key, and "traversal repeats or
reorders keys" was reported although the property speaks of "following cursors from the first page".
The harness never produces such a segment. -/
theorem nonfollowing_segment_not_judged :
    let tr := modelTrace {} (wSetup ++ [.tbegin .tools, .list .tools .nil false .other, .list .tools .nil false .other, .tend .tools])
    runMon tr = none ∧
    ∃ t, ((stateAfter (tr.take 5)).get .tools).tr = some t ∧ strictlyAscending (travItems t.fetches) = false := by
  refine ⟨by decide, ⟨_, rfl, by decide⟩⟩

end Witness

end Paginate
