import McpModel.Paginate.Model
/-!
Helper lemmas for E13 (C17): order facts, the canonical map operations, `above` = "keys strictly
greater", and the functional specification of one `paginate` step (`paginate_spec`).
-/
set_option linter.unusedSectionVars false
set_option linter.unusedSimpArgs false
namespace Paginate
variable {κ ν C : Type} [KOrd κ] [DecidableEq κ] [DecidableEq C]

theorem lt_asymm {a b : κ} (h : lt a b = true) : lt b a = false := by
  cases hb : lt b a with
  | false => rfl
  | true => have := KOrd.trans h hb; rw [KOrd.irrefl] at this; cases this

theorem lt_ne {a b : κ} (h : lt a b = true) : a ≠ b := by
  intro e; subst e; rw [KOrd.irrefl] at h; cases h

/-- Strictly ascending. -/
def Sorted (l : List κ) : Prop := l.Pairwise (fun a b => lt a b = true)

def keys (m : List (κ × ν)) : List κ := m.map (·.1)

@[simp] theorem keys_nil : keys ([] : List (κ × ν)) = [] := rfl
@[simp] theorem keys_cons (f : κ × ν) (m : List (κ × ν)) : keys (f :: m) = f.1 :: keys m := rfl

/-- Well-formed state: the canonical form is ascending and the cached index, when present, is current. -/
def WF (s : FS κ ν) : Prop := Sorted (keys s.feats) ∧ ∀ c, s.cache = some c → c = keys s.feats

theorem sorted_nodup {l : List κ} (h : Sorted l) : l.Nodup := by
  unfold Sorted at h
  exact h.imp (fun {a b} hab => lt_ne hab)

/-! ### insF -/

theorem mem_keys_insF (k : κ) (v : ν) (m : List (κ × ν)) (x : κ) :
    x ∈ keys (insF k v m) ↔ x = k ∨ x ∈ keys m := by
  induction m with
  | nil => simp [insF]
  | cons f r ih =>
    obtain ⟨k', v'⟩ := f
    simp only [insF]
    split
    · simp
    · split
      · simp only [keys_cons, List.mem_cons, ih]
        constructor
        · rintro (h | h | h) <;> simp [h]
        · rintro (h | h | h) <;> simp [h]
      · rename_i h1 h2
        have : k = k' := KOrd.tri (by simpa using h1) (by simpa using h2)
        subst this
        simp

theorem sorted_insF (k : κ) (v : ν) (m : List (κ × ν)) (h : Sorted (keys m)) :
    Sorted (keys (insF k v m)) := by
  induction m with
  | nil => simp [insF, Sorted]
  | cons f r ih =>
    obtain ⟨k', v'⟩ := f
    simp only [Sorted, keys_cons, List.pairwise_cons] at h
    obtain ⟨h1, h2⟩ := h
    simp only [insF]
    split
    · rename_i hk
      simp only [Sorted, keys_cons, List.pairwise_cons, List.mem_cons]
      refine ⟨?_, h1, h2⟩
      rintro a (rfl | ha)
      · exact hk
      · exact KOrd.trans hk (h1 a ha)
    · split
      · rename_i hk
        simp only [Sorted, keys_cons, List.pairwise_cons]
        refine ⟨?_, ih h2⟩
        intro a ha
        rcases (mem_keys_insF k v r a).1 ha with rfl | ha
        · exact hk
        · exact h1 a ha
      · rename_i hk1 hk2
        have : k = k' := KOrd.tri (by simpa using hk1) (by simpa using hk2)
        subst this
        simp only [Sorted, keys_cons, List.pairwise_cons]
        exact ⟨h1, h2⟩

theorem lookupF_eq_some_iff (m : List (κ × ν)) (hs : Sorted (keys m)) (k : κ) (v : ν) :
    lookupF k m = some v ↔ (k, v) ∈ m := by
  induction m with
  | nil => simp [lookupF]
  | cons f r ih =>
    obtain ⟨k', v'⟩ := f
    simp only [Sorted, keys_cons, List.pairwise_cons] at hs
    simp only [lookupF]
    split
    · rename_i hk
      subst hk
      constructor
      · intro h; simp at h; subst h; simp
      · intro h
        simp only [List.mem_cons, Prod.mk.injEq, true_and] at h
        rcases h with h | h
        · simp [h]
        · have : k' ∈ keys r := List.mem_map.2 ⟨_, h, rfl⟩
          have := hs.1 _ this
          rw [KOrd.irrefl] at this; cases this
    · rename_i hk
      rw [ih hs.2]
      simp only [List.mem_cons, Prod.mk.injEq]
      constructor
      · exact Or.inr
      · rintro (⟨h, _⟩ | h)
        · exact absurd h.symm hk
        · exact h

theorem lookupF_none_iff (m : List (κ × ν)) (k : κ) : lookupF k m = none ↔ k ∉ keys m := by
  induction m with
  | nil => simp [lookupF]
  | cons f r ih =>
    obtain ⟨k', v'⟩ := f
    simp only [lookupF]
    split
    · rename_i hk; subst hk; simp
    · rename_i hk
      rw [ih]; simp only [keys_cons, List.mem_cons, not_or]
      constructor
      · intro h; exact ⟨fun e => hk e.symm, h⟩
      · exact fun h => h.2

theorem lookupF_insF (k : κ) (v : ν) (m : List (κ × ν)) (x : κ) :
    lookupF x (insF k v m) = if x = k then some v else lookupF x m := by
  induction m with
  | nil =>
    simp only [insF, lookupF]
    by_cases h : x = k
    · subst h; simp
    · simp [h, Ne.symm h]
  | cons f r ih =>
    obtain ⟨k', v'⟩ := f
    simp only [insF]
    split
    · simp only [lookupF]
      by_cases h : x = k
      · subst h; simp
      · simp [h, Ne.symm h]
    · split
      · rename_i h1 h2
        simp only [lookupF, ih]
        have hne : k' ≠ k := lt_ne h2
        by_cases h : k' = x
        · subst h; simp [hne]
        · simp [h]
      · rename_i h1 h2
        have : k = k' := KOrd.tri (by simpa using h1) (by simpa using h2)
        subst this
        simp only [lookupF]
        by_cases h : x = k
        · subst h; simp
        · simp [h, Ne.symm h]

/-! ### add -/

theorem foldl_insF_sorted (fs : List (κ × ν)) (m : List (κ × ν)) (h : Sorted (keys m)) :
    Sorted (keys (fs.foldl (fun m f => insF f.1 f.2 m) m)) := by
  induction fs generalizing m with
  | nil => simpa
  | cons f r ih => simp only [List.foldl_cons]; exact ih _ (sorted_insF _ _ _ h)

theorem mem_keys_foldl_insF (fs : List (κ × ν)) (m : List (κ × ν)) (x : κ) :
    x ∈ keys (fs.foldl (fun m f => insF f.1 f.2 m) m) ↔ x ∈ keys fs ∨ x ∈ keys m := by
  induction fs generalizing m with
  | nil => simp
  | cons f r ih =>
    simp only [List.foldl_cons, ih, mem_keys_insF, keys_cons, List.mem_cons]
    constructor
    · rintro (h | h | h) <;> simp [h]
    · rintro ((h | h) | h) <;> simp [h]

theorem wf_add (s : FS κ ν) (fs : List (κ × ν)) (h : WF s) : WF (s.add fs) :=
  ⟨foldl_insF_sorted fs s.feats h.1, by intro c hc; simp [FS.add] at hc⟩

theorem mem_keys_add (s : FS κ ν) (fs : List (κ × ν)) (x : κ) :
    x ∈ keys (s.add fs).feats ↔ x ∈ keys fs ∨ x ∈ keys s.feats :=
  mem_keys_foldl_insF fs s.feats x

/-! ### remove -/

theorem keys_delF_sorted (k : κ) (m : List (κ × ν)) (h : Sorted (keys m)) : Sorted (keys (delF k m)) := by
  unfold Sorted keys delF at *
  rw [List.pairwise_map] at h ⊢
  exact h.filter _

theorem mem_keys_delF (k : κ) (m : List (κ × ν)) (x : κ) :
    x ∈ keys (delF k m) ↔ x ∈ keys m ∧ x ≠ k := by
  simp only [keys, delF, List.mem_map, List.mem_filter, decide_eq_true_eq]
  constructor
  · rintro ⟨a, ⟨h1, h2⟩, rfl⟩; exact ⟨⟨a, h1, rfl⟩, h2⟩
  · rintro ⟨⟨a, h1, rfl⟩, h2⟩; exact ⟨a, ⟨h1, h2⟩, rfl⟩

theorem hasF_iff (k : κ) (m : List (κ × ν)) : hasF k m = true ↔ k ∈ keys m := by
  simp only [hasF, keys, List.any_eq_true, decide_eq_true_eq, List.mem_map]

theorem removeLoop_spec (uids : List κ) (m : List (κ × ν)) (ch : Bool) (h : Sorted (keys m)) :
    Sorted (keys (removeLoop uids (m, ch)).1) ∧
    (∀ x, x ∈ keys (removeLoop uids (m, ch)).1 ↔ x ∈ keys m ∧ x ∉ uids) ∧
    ((removeLoop uids (m, ch)).2 = false → (removeLoop uids (m, ch)).1 = m) ∧
    (∀ f, f ∈ (removeLoop uids (m, ch)).1 → f ∈ m) := by
  induction uids generalizing m ch with
  | nil => simp [removeLoop, h]
  | cons u r ih =>
    simp only [removeLoop]
    split
    · rename_i hu
      obtain ⟨i1, i2, i3, i4⟩ := ih (delF u m) true (keys_delF_sorted u m h)
      refine ⟨i1, ?_, ?_, ?_⟩
      · intro x; rw [i2, mem_keys_delF]; simp only [List.mem_cons, not_or]
        constructor
        · rintro ⟨⟨a, b⟩, c⟩; exact ⟨a, b, c⟩
        · rintro ⟨a, b, c⟩; exact ⟨⟨a, b⟩, c⟩
      · intro hf
        -- changed flag is sticky: once true it stays true
        exfalso
        have : ∀ (us : List κ) (m' : List (κ × ν)), (removeLoop us (m', true)).2 = true := by
          intro us
          induction us with
          | nil => intro m'; rfl
          | cons a t iht => intro m'; simp only [removeLoop]; split <;> exact iht _
        rw [this] at hf; cases hf
      · intro f hf; have := i4 f hf; exact (List.mem_filter.1 this).1
    · rename_i hu
      obtain ⟨i1, i2, i3, i4⟩ := ih m ch h
      refine ⟨i1, ?_, i3, i4⟩
      intro x; rw [i2]; simp only [List.mem_cons, not_or]
      have hu' : u ∉ keys m := by rw [← hasF_iff]; simpa using hu
      constructor
      · rintro ⟨a, b⟩; exact ⟨a, fun e => hu' (e ▸ a), b⟩
      · rintro ⟨a, _, c⟩; exact ⟨a, c⟩

theorem wf_remove (s : FS κ ν) (uids : List κ) (h : WF s) : WF (s.remove uids).1 := by
  obtain ⟨r1, _, r3, _⟩ := removeLoop_spec uids s.feats false h.1
  refine ⟨r1, ?_⟩
  intro c hc
  simp only [FS.remove] at hc ⊢
  cases hch : (removeLoop uids (s.feats, false)).2 with
  | true => simp [hch] at hc
  | false => simp only [hch] at hc; rw [r3 hch]; exact h.2 c (by simpa using hc)

theorem mem_keys_remove (s : FS κ ν) (uids : List κ) (h : WF s) (x : κ) :
    x ∈ keys (s.remove uids).1.feats ↔ x ∈ keys s.feats ∧ x ∉ uids :=
  (removeLoop_spec uids s.feats false h.1).2.1 x

/-! ### sortKeys, above -/

theorem wf_sortKeys (s : FS κ ν) (h : WF s) :
    WF s.sortKeys ∧ s.sortKeys.feats = s.feats ∧ s.sortKeys.cache.getD [] = keys s.feats := by
  cases hc : s.cache with
  | none =>
    have e : s.sortKeys = { s with cache := some (keys s.feats) } := by simp [FS.sortKeys, hc, keys]
    rw [e]
    exact ⟨⟨h.1, by intro c hc'; simp at hc'; exact hc'.symm⟩, rfl, rfl⟩
  | some c =>
    have e : s.sortKeys = s := by simp [FS.sortKeys, hc]
    rw [e]
    exact ⟨h, rfl, by simp [hc, h.2 c hc]⟩

theorem filter_gt_of_all_gt (uid : κ) (l : List κ) (h : ∀ a ∈ l, lt uid a = true) :
    l.filter (fun k => lt uid k) = l := List.filter_eq_self.2 h

/-- On an ascending key list, the suffix `above` yields is exactly the keys strictly above `uid`
— whether or not `uid` itself is (still) a key. -/
theorem drop_aboveIdx (uid : κ) (ks : List κ) (h : Sorted ks) :
    ks.drop (aboveIdx uid ks) = ks.filter (fun k => lt uid k) := by
  induction ks with
  | nil => simp [aboveIdx, lowerBound]
  | cons k r ih =>
    simp only [Sorted, List.pairwise_cons] at h
    obtain ⟨h1, h2⟩ := h
    have ih := ih h2
    by_cases hk : lt k uid = true
    · have e : aboveIdx uid (k :: r) = aboveIdx uid r + 1 := by
        simp only [aboveIdx, lowerBound, hk, if_true, List.getElem?_cons_succ]
        split <;> rfl
      rw [e, List.drop_succ_cons, ih, List.filter_cons, lt_asymm hk]
      simp
    · have hk' : lt k uid = false := by simpa using hk
      by_cases he : k = uid
      · subst he
        have e : aboveIdx k (k :: r) = 1 := by simp [aboveIdx, lowerBound, KOrd.irrefl]
        rw [e, List.filter_cons, KOrd.irrefl]
        simp only [List.drop_succ_cons, List.drop_zero, Bool.false_eq_true, if_false]
        exact (filter_gt_of_all_gt k r h1).symm
      · have hgt : lt uid k = true := by
          cases hu : lt uid k with
          | true => rfl
          | false => exact absurd (KOrd.tri hk' hu) he
        have e : aboveIdx uid (k :: r) = 0 := by
          simp [aboveIdx, lowerBound, hk', he]
        rw [e, List.drop_zero]
        exact (filter_gt_of_all_gt uid (k :: r) (by
          intro a ha
          rcases List.mem_cons.1 ha with rfl | ha
          · exact hgt
          · exact KOrd.trans hgt (h1 a ha))).symm

theorem lookupAll_sublist (m sub : List (κ × ν)) (hs : Sorted (keys m)) (h : sub.Sublist m) :
    lookupAll m (keys sub) = some sub := by
  induction sub with
  | nil => rfl
  | cons f r ih =>
    obtain ⟨k, v⟩ := f
    have hr : r.Sublist m := (List.sublist_cons_self _ _).trans h
    have hmem : (k, v) ∈ m := h.subset (List.mem_cons_self ..)
    simp only [keys_cons, lookupAll, (lookupF_eq_some_iff m hs k v).2 hmem]
    have := ih hr
    simp only [keys] at this
    simp [keys, this]

theorem keys_filter_gt (uid : κ) (m : List (κ × ν)) :
    (keys m).filter (fun k => lt uid k) = keys (m.filter (fun f => lt uid f.1)) := by
  simp only [keys, List.filter_map]; rfl

theorem keys_take (n : Nat) (m : List (κ × ν)) : (keys m).take n = keys (m.take n) := by
  simp [keys, List.map_take]

/-- The entries a request with cursor `cur` still has to see: everything for the empty cursor,
the entries strictly above the decoded key otherwise. -/
def rest (lo : Option κ) (m : List (κ × ν)) : List (κ × ν) :=
  match lo with
  | none => m
  | some uid => m.filter (fun f => lt uid f.1)

theorem rest_sublist (lo : Option κ) (m : List (κ × ν)) : (rest lo m).Sublist m := by
  cases lo <;> simp [rest]

/-- The lower bound a cursor stands for: none for the empty cursor, the decoded key otherwise. -/
def loOf (cod : Codec κ C) (cur : C) : Option κ := if cur = cod.nil then none else cod.dec cur

/-- `NextCursor` of a page cut from `R`. -/
def nextOf (cod : Codec κ C) (p : Nat) (R : List (κ × ν)) : C :=
  if R.length ≤ p then cod.nil else
    match (R.take p).getLast? with
    | some l => cod.enc l.1
    | none => cod.nil

/-- The functional specification of one list request on a well-formed state. -/
theorem paginate_spec (cod : Codec κ C) (p : Nat) (hp : 1 ≤ p) (s : FS κ ν) (h : WF s) (cur : C) :
    WF (paginate cod p s cur).1 ∧ (paginate cod p s cur).1.feats = s.feats ∧
    ((cur ≠ cod.nil ∧ cod.dec cur = none ∧ (paginate cod p s cur).2 = .invalidParams) ∨
     ((cur = cod.nil ∨ (cod.dec cur).isSome) ∧
       (paginate cod p s cur).2 =
         .page ((rest (loOf cod cur) s.feats).take p) (nextOf cod p (rest (loOf cod cur) s.feats)))) := by
  obtain ⟨w1, w2, w3⟩ := wf_sortKeys s h
  -- common tail once the start index is known
  have tail : ∀ (lo : Option κ) (idx : Nat), (keys s.feats).drop idx = keys (rest lo s.feats) →
      (match (some (s.sortKeys, idx) : Option (FS κ ν × Nat)) with
        | none => (s, Res.invalidParams)
        | some (s', idx) =>
          let seq := (s'.cache.getD []).drop idx
          match lookupAll s'.feats (seq.take p) with
          | none => (s', .panic)
          | some items =>
            if seq.length < p + 1 then (s', .page items cod.nil)
            else match items.getLast? with
              | none => (s', .panic)
              | some l => (s', .page items (cod.enc l.1))) =
      (s.sortKeys, Res.page ((rest lo s.feats).take p) (nextOf cod p (rest lo s.feats))) := by
    intro lo idx hidx
    simp only [w3, w2, hidx, keys_take, nextOf]
    rw [lookupAll_sublist s.feats _ h.1 ((List.take_sublist _ _).trans (rest_sublist lo s.feats))]
    simp only [keys, List.length_map]
    by_cases hl : (rest lo s.feats).length ≤ p
    · simp [hl, Nat.lt_succ_of_le hl]
    · have : ¬ (rest lo s.feats).length < p + 1 := by omega
      simp only [this, if_false, hl]
      cases hg : ((rest lo s.feats).take p).getLast? with
      | some l => rfl
      | none =>
        exfalso
        rw [List.getLast?_eq_none_iff] at hg
        have := congrArg List.length hg
        simp only [List.length_take, List.length_nil] at this
        omega
  by_cases hc : cur = cod.nil
  · have e : paginate cod p s cur =
        (s.sortKeys, Res.page ((rest none s.feats).take p) (nextOf cod p (rest none s.feats))) := by
      unfold paginate
      simp only [hc, if_true]
      exact tail none 0 (by simp [rest])
    have hlo : loOf cod cur = none := by simp [loOf, hc]
    rw [e, hlo]
    exact ⟨w1, w2, Or.inr ⟨Or.inl hc, rfl⟩⟩
  · cases hd : cod.dec cur with
    | none =>
      have e : paginate cod p s cur = (s, Res.invalidParams) := by
        unfold paginate; simp [hc, hd]
      rw [e]
      exact ⟨h, rfl, Or.inl ⟨hc, rfl, rfl⟩⟩
    | some uid =>
      have e : paginate cod p s cur =
          (s.sortKeys, Res.page ((rest (some uid) s.feats).take p) (nextOf cod p (rest (some uid) s.feats))) := by
        unfold paginate
        simp only [hc, if_false, hd]
        apply tail (some uid)
        rw [w3, drop_aboveIdx uid _ h.1, keys_filter_gt]
        rfl
      have hlo : loOf cod cur = some uid := by simp [loOf, hc, hd]
      rw [e, hlo]
      exact ⟨w1, w2, Or.inr ⟨Or.inr rfl, rfl⟩⟩

/-! ### traversals -/

theorem wf_empty : WF (FS.empty : FS κ ν) := ⟨by simp [FS.empty, Sorted], by intro c hc; simp [FS.empty] at hc⟩

theorem wf_applyMut (s : FS κ ν) (m : Mut κ ν) (h : WF s) : WF (applyMut s m) := by
  cases m with
  | add fs => exact wf_add s fs h
  | remove uids => exact wf_remove s uids h

theorem wf_applyBatch (s : FS κ ν) (b : List (Mut κ ν)) (h : WF s) : WF (applyBatch s b) := by
  induction b generalizing s with
  | nil => exact h
  | cons m r ih => exact ih _ (wf_applyMut s m h)

theorem loOf_enc (cod : Codec κ C) (k : κ) : loOf cod (cod.enc k) = some k := by
  simp [loOf, cod.enc_ne_nil, cod.dec_enc]

theorem loOf_nil (cod : Codec κ C) : loOf cod cod.nil = none := by simp [loOf]

theorem keys_append (a b : List (κ × ν)) : keys (a ++ b) = keys a ++ keys b := by simp [keys]

theorem mem_keys {m : List (κ × ν)} {k : κ} : k ∈ keys m ↔ ∃ v, (k, v) ∈ m := by
  simp only [keys, List.mem_map]
  constructor
  · rintro ⟨⟨a, b⟩, h, rfl⟩; exact ⟨b, h⟩
  · rintro ⟨v, h⟩; exact ⟨(k, v), h, rfl⟩

theorem sorted_sublist {a b : List κ} (h : a.Sublist b) (hb : Sorted b) : Sorted a :=
  List.Pairwise.sublist h hb

theorem rest_sorted (lo : Option κ) (m : List (κ × ν)) (h : Sorted (keys m)) : Sorted (keys (rest lo m)) :=
  sorted_sublist ((rest_sublist lo m).map _) h

theorem mem_rest (lo : Option κ) (m : List (κ × ν)) (f : κ × ν) :
    f ∈ rest lo m ↔ f ∈ m ∧ ∀ uid, lo = some uid → lt uid f.1 = true := by
  cases lo with
  | none => simp [rest]
  | some u => simp [rest, List.mem_filter]

theorem nextOf_cases (cod : Codec κ C) (p : Nat) (hp : 1 ≤ p) (R : List (κ × ν)) :
    (R.length ≤ p ∧ nextOf cod p R = cod.nil) ∨
    (p < R.length ∧ ∃ l, (R.take p).getLast? = some l ∧ nextOf cod p R = cod.enc l.1) := by
  by_cases hl : R.length ≤ p
  · exact Or.inl ⟨hl, by simp [nextOf, hl]⟩
  · refine Or.inr ⟨by omega, ?_⟩
    cases hg : (R.take p).getLast? with
    | some l => exact ⟨l, rfl, by simp [nextOf, hl, hg]⟩
    | none =>
      exfalso
      rw [List.getLast?_eq_none_iff] at hg
      have := congrArg List.length hg
      simp only [List.length_take, List.length_nil] at this
      omega

/-- In an ascending list cut after `p` entries, the cut's last key bounds both sides. -/
theorem cut_bounds (R : List (κ × ν)) (p : Nat) (l : κ × ν) (hs : Sorted (keys R))
    (hl : (R.take p).getLast? = some l) :
    (∀ x ∈ R.take p, x.1 = l.1 ∨ lt x.1 l.1 = true) ∧ (∀ y ∈ R.drop p, lt l.1 y.1 = true) ∧ l ∈ R.take p := by
  obtain ⟨ys, hys⟩ := List.getLast?_eq_some_iff.1 hl
  have hR : R = (ys ++ [l]) ++ R.drop p := by rw [← hys, List.take_append_drop]
  rw [hR, keys_append, keys_append] at hs
  unfold Sorted at hs
  rw [List.pairwise_append] at hs
  obtain ⟨h1, _, h3⟩ := hs
  rw [List.pairwise_append] at h1
  obtain ⟨_, _, h13⟩ := h1
  refine ⟨?_, ?_, ?_⟩
  · intro x hx
    rw [hys, List.mem_append] at hx
    rcases hx with hx | hx
    · exact Or.inr (h13 x.1 (List.mem_map.2 ⟨x, hx, rfl⟩) l.1 (by simp [keys]))
    · simp at hx; exact Or.inl (by rw [hx])
  · intro y hy
    exact h3 l.1 (by simp [keys]) y.1 (List.mem_map.2 ⟨y, hy, rfl⟩)
  · rw [hys]; simp

/-- What a traversal guarantees (for any start cursor). -/
structure TravOK (cod : Codec κ C) (p : Nat) (cur : C) (t : Trav κ ν) : Prop where
  sorted : Sorted (keys t.pages.flatten)
  above : ∀ uid, loOf cod cur = some uid → ∀ x ∈ keys t.pages.flatten, lt uid x = true
  complete : t.done = true → ∀ k, (∀ st ∈ t.states, k ∈ keys st.feats) →
    (∀ uid, loOf cod cur = some uid → lt uid k = true) → k ∈ keys t.pages.flatten
  registered : ∀ x ∈ t.pages.zip t.states, ∀ f ∈ x.1, f ∈ x.2.feats
  nofail : (cur = cod.nil ∨ (cod.dec cur).isSome) → t.failed = false
  wf : ∀ st ∈ t.states, WF st
  pagesize : ∀ pg ∈ t.pages, pg.length ≤ p

theorem trav_fail (cod : Codec κ C) (p : Nat) (hist : List (List (Mut κ ν))) (s : FS κ ν) (cur : C)
    (h : (paginate cod p s cur).2 = .invalidParams) :
    trav cod p hist s cur = { pages := [], states := [s], done := false, failed := true } := by
  cases hpg : paginate cod p s cur with
  | mk s' r =>
    rw [hpg] at h; simp only at h; subst h
    cases hist <;> simp [trav, hpg]

theorem trav_nil_page (cod : Codec κ C) (p : Nat) (s : FS κ ν) (cur : C) (items : List (κ × ν)) (next : C)
    (h : (paginate cod p s cur).2 = .page items next) :
    trav cod p [] s cur = { pages := [items], states := [s], done := decide (next = cod.nil), failed := false } := by
  cases hpg : paginate cod p s cur with
  | mk s' r =>
    rw [hpg] at h; simp only at h; subst h
    simp [trav, hpg]

theorem trav_cons_last (cod : Codec κ C) (p : Nat) (b : List (Mut κ ν)) (rest' : List (List (Mut κ ν)))
    (s : FS κ ν) (cur : C) (items : List (κ × ν))
    (h : (paginate cod p s cur).2 = .page items cod.nil) :
    trav cod p (b :: rest') s cur = { pages := [items], states := [s], done := true, failed := false } := by
  cases hpg : paginate cod p s cur with
  | mk s' r =>
    rw [hpg] at h; simp only at h; subst h
    simp [trav, hpg]

theorem trav_cons_more (cod : Codec κ C) (p : Nat) (b : List (Mut κ ν)) (rest' : List (List (Mut κ ν)))
    (s : FS κ ν) (cur : C) (items : List (κ × ν)) (next : C) (hn : next ≠ cod.nil)
    (h : (paginate cod p s cur).2 = .page items next) :
    trav cod p (b :: rest') s cur =
      Trav.cons items s (trav cod p rest' (applyBatch (paginate cod p s cur).1 b) next) := by
  cases hpg : paginate cod p s cur with
  | mk s' r =>
    rw [hpg] at h; simp only at h; subst h
    simp [trav, hpg, hn]

/-- A traversal consisting of one page cut from `R = rest lo feats`. -/
theorem single_ok (cod : Codec κ C) (p : Nat) (s : FS κ ν) (h : WF s) (cur : C) (d : Bool)
    (hcur : cur = cod.nil ∨ (cod.dec cur).isSome)
    (hd : d = true → (rest (loOf cod cur) s.feats).length ≤ p) :
    TravOK cod p cur { pages := [(rest (loOf cod cur) s.feats).take p], states := [s], done := d, failed := false } := by
  have hsub : ((rest (loOf cod cur) s.feats).take p).Sublist s.feats :=
    (List.take_sublist _ _).trans (rest_sublist _ _)
  refine ⟨?_, ?_, ?_, ?_, fun _ => rfl, ?_, ?_⟩
  · simp only [List.flatten_cons, List.flatten_nil, List.append_nil]
    exact sorted_sublist (hsub.map _) h.1
  · intro uid hu x hx
    simp only [List.flatten_cons, List.flatten_nil, List.append_nil] at hx
    obtain ⟨v, hv⟩ := mem_keys.1 hx
    exact ((mem_rest _ _ _).1 (List.mem_of_mem_take hv)).2 uid hu
  · intro hdone k hk hlo
    simp only [List.flatten_cons, List.flatten_nil, List.append_nil]
    rw [List.take_of_length_le (hd hdone)]
    obtain ⟨v, hv⟩ := mem_keys.1 (hk s (by simp))
    exact mem_keys.2 ⟨v, (mem_rest _ _ _).2 ⟨hv, hlo⟩⟩
  · intro x hx f hf
    simp only [List.zip_cons_cons, List.zip_nil_right, List.mem_singleton] at hx
    subst hx
    exact hsub.subset hf
  · intro st hst; simp only [List.mem_singleton] at hst; subst hst; exact h
  · intro pg hpg; simp only [List.mem_singleton] at hpg; subst hpg; simp [List.length_take]; omega

theorem failed_ok (cod : Codec κ C) (p : Nat) (s : FS κ ν) (h : WF s) (cur : C)
    (hc : cur ≠ cod.nil) (hd : cod.dec cur = none) :
    TravOK cod p cur { pages := [], states := [s], done := false, failed := true } := by
  refine ⟨by simp [Sorted], by simp, by simp, by simp, ?_, ?_, by simp⟩
  · rintro (h1 | h1)
    · exact absurd h1 hc
    · simp [hd] at h1
  · intro st hst; simp only [List.mem_singleton] at hst; subst hst; exact h

/-- The traversal invariant, for every mutation history, start state, start cursor and page size. -/
theorem trav_ok (cod : Codec κ C) (p : Nat) (hp : 1 ≤ p) (hist : List (List (Mut κ ν))) :
    ∀ (s : FS κ ν) (cur : C), WF s → TravOK cod p cur (trav cod p hist s cur) := by
  induction hist with
  | nil =>
    intro s cur h
    obtain ⟨_, _, hspec⟩ := paginate_spec cod p hp s h cur
    rcases hspec with ⟨hc, hd, hres⟩ | ⟨hcur, hres⟩
    · rw [trav_fail cod p [] s cur hres]; exact failed_ok cod p s h cur hc hd
    · rw [trav_nil_page cod p s cur _ _ hres]
      apply single_ok cod p s h cur _ hcur
      intro hd
      rcases nextOf_cases cod p hp (rest (loOf cod cur) s.feats) with ⟨h1, _⟩ | ⟨_, l, _, h3⟩
      · exact h1
      · rw [h3] at hd; simp [cod.enc_ne_nil] at hd
  | cons b rest' ih =>
    intro s cur h
    obtain ⟨hw', hf', hspec⟩ := paginate_spec cod p hp s h cur
    rcases hspec with ⟨hc, hd, hres⟩ | ⟨hcur, hres⟩
    · rw [trav_fail cod p _ s cur hres]; exact failed_ok cod p s h cur hc hd
    · rcases nextOf_cases cod p hp (rest (loOf cod cur) s.feats) with ⟨h1, h2⟩ | ⟨h1, l, h2, h3⟩
      · rw [h2] at hres
        rw [trav_cons_last cod p b rest' s cur _ hres]
        exact single_ok cod p s h cur true hcur (fun _ => h1)
      · rw [h3] at hres
        rw [trav_cons_more cod p b rest' s cur _ _ (cod.enc_ne_nil _) hres]
        have hws : WF (applyBatch (paginate cod p s cur).1 b) := wf_applyBatch _ _ hw'
        have IH := ih (applyBatch (paginate cod p s cur).1 b) (cod.enc l.1) hws
        generalize trav cod p rest' (applyBatch (paginate cod p s cur).1 b) (cod.enc l.1) = t at IH
        have hRs := rest_sorted (loOf cod cur) s.feats h.1
        obtain ⟨c1, c2, c3⟩ := cut_bounds _ p l hRs h2
        have hsub : ((rest (loOf cod cur) s.feats).take p).Sublist s.feats :=
          (List.take_sublist _ _).trans (rest_sublist _ _)
        have hlR : l ∈ rest (loOf cod cur) s.feats := List.mem_of_mem_take c3
        refine ⟨?_, ?_, ?_, ?_, ?_, ?_, ?_⟩
        · -- sorted
          simp only [Trav.cons, List.flatten_cons, keys_append]
          unfold Sorted
          rw [List.pairwise_append]
          refine ⟨sorted_sublist (hsub.map _) h.1, IH.sorted, ?_⟩
          intro a ha b' hb
          obtain ⟨va, hva⟩ := mem_keys.1 ha
          have hb' := IH.above l.1 (loOf_enc cod l.1) b' hb
          rcases c1 _ hva with e | e
          · simp only at e; rw [e]; exact hb'
          · exact KOrd.trans e hb'
        · -- above
          intro uid hu x hx
          simp only [Trav.cons, List.flatten_cons, keys_append, List.mem_append] at hx
          rcases hx with hx | hx
          · obtain ⟨v, hv⟩ := mem_keys.1 hx
            exact ((mem_rest _ _ _).1 (List.mem_of_mem_take hv)).2 uid hu
          · exact KOrd.trans (((mem_rest _ _ _).1 hlR).2 uid hu) (IH.above l.1 (loOf_enc cod l.1) x hx)
        · -- complete
          intro hdone k hk hlo
          simp only [Trav.cons, List.flatten_cons, keys_append, List.mem_append]
          obtain ⟨v, hv⟩ := mem_keys.1 (hk s (by simp [Trav.cons]))
          have hkR : (k, v) ∈ rest (loOf cod cur) s.feats := (mem_rest _ _ _).2 ⟨hv, hlo⟩
          rw [← List.take_append_drop p (rest (loOf cod cur) s.feats), List.mem_append] at hkR
          rcases hkR with hk1 | hk2
          · exact Or.inl (mem_keys.2 ⟨v, hk1⟩)
          · refine Or.inr (IH.complete hdone k (fun st hst => hk st (by simp [Trav.cons, hst])) ?_)
            intro uid hu
            rw [loOf_enc] at hu; cases hu
            exact c2 _ hk2
        · -- registered
          intro x hx f hf
          simp only [Trav.cons, List.zip_cons_cons, List.mem_cons] at hx
          rcases hx with hx | hx
          · subst hx; exact hsub.subset hf
          · exact IH.registered x hx f hf
        · intro _; simp only [Trav.cons]; exact IH.nofail (Or.inr (by simp [cod.dec_enc]))
        · intro st hst
          simp only [Trav.cons, List.mem_cons] at hst
          rcases hst with hst | hst
          · subst hst; exact h
          · exact IH.wf st hst
        · intro pg hpg
          simp only [Trav.cons, List.mem_cons] at hpg
          rcases hpg with hpg | hpg
          · subst hpg; simp [List.length_take]; omega
          · exact IH.pagesize pg hpg

/-! ### traversal without mutations -/

theorem applyBatch_nil (s : FS κ ν) : applyBatch s ([] : List (Mut κ ν)) = s := rfl

/-- After a page cut from `R`, the entries above the cut's last key are exactly the rest of `R`. -/
theorem rest_after_cut (lo : Option κ) (m : List (κ × ν)) (p : Nat) (l : κ × ν) (hs : Sorted (keys m))
    (hl : ((rest lo m).take p).getLast? = some l) :
    rest (some l.1) m = (rest lo m).drop p := by
  obtain ⟨c1, c2, c3⟩ := cut_bounds _ p l (rest_sorted lo m hs) hl
  have hlR := (mem_rest _ _ _).1 (List.mem_of_mem_take c3)
  have e1 : rest (some l.1) m = (rest lo m).filter (fun f => lt l.1 f.1) := by
    cases lo with
    | none => simp [rest]
    | some u =>
      simp only [rest, List.filter_filter]
      apply List.filter_congr
      intro x _
      cases hx : lt l.1 x.1 with
      | false => simp
      | true => simp [KOrd.trans (hlR.2 u rfl) hx]
  rw [e1]
  conv => lhs; rw [← List.take_append_drop p (rest lo m)]
  rw [List.filter_append]
  have t1 : ((rest lo m).take p).filter (fun f => lt l.1 f.1) = [] := by
    rw [List.filter_eq_nil_iff]
    intro x hx
    rcases c1 x hx with e | e
    · rw [e, KOrd.irrefl]; simp
    · rw [lt_asymm e]; simp
  have t2 : ((rest lo m).drop p).filter (fun f => lt l.1 f.1) = (rest lo m).drop p :=
    List.filter_eq_self.2 (fun y hy => c2 y hy)
  rw [t1, t2]; rfl

/-- Number of pages for `n` remaining entries. -/
def pagesFor (n p : Nat) : Nat := max 1 ((n + p - 1) / p)

theorem pagesFor_small (n p : Nat) (hp : 1 ≤ p) (h : n ≤ p) : pagesFor n p = 1 := by
  unfold pagesFor
  have : (n + p - 1) / p ≤ 1 := by
    apply Nat.le_of_lt_succ
    rw [Nat.div_lt_iff_lt_mul (by omega)]
    omega
  omega

theorem pagesFor_big (n p : Nat) (hp : 1 ≤ p) (h : p < n) : pagesFor n p = pagesFor (n - p) p + 1 := by
  unfold pagesFor
  have e : n + p - 1 = (n - p + p - 1) + p := by omega
  rw [e, Nat.add_div_right _ (by omega : 0 < p)]
  have : 1 ≤ (n - p + p - 1) / p := by
    rw [Nat.le_div_iff_mul_le (by omega)]
    omega
  omega

theorem trav_static (cod : Codec κ C) (p : Nat) (hp : 1 ≤ p) (m : Nat) :
    ∀ (s : FS κ ν) (cur : C), WF s → (cur = cod.nil ∨ (cod.dec cur).isSome) →
      (rest (loOf cod cur) s.feats).length ≤ m * p + p →
      (trav cod p (List.replicate m []) s cur).done = true ∧
      (trav cod p (List.replicate m []) s cur).failed = false ∧
      (trav cod p (List.replicate m []) s cur).pages.flatten = rest (loOf cod cur) s.feats ∧
      (trav cod p (List.replicate m []) s cur).pages.length = pagesFor (rest (loOf cod cur) s.feats).length p := by
  induction m with
  | zero =>
    intro s cur h hcur hlen
    obtain ⟨_, _, hspec⟩ := paginate_spec cod p hp s h cur
    rcases hspec with ⟨hc, hd, _⟩ | ⟨_, hres⟩
    · rcases hcur with h1 | h1
      · exact absurd h1 hc
      · simp [hd] at h1
    · have hle : (rest (loOf cod cur) s.feats).length ≤ p := by omega
      rcases nextOf_cases cod p hp (rest (loOf cod cur) s.feats) with ⟨_, h2⟩ | ⟨h1, _⟩
      · rw [h2] at hres
        simp only [List.replicate_zero]
        rw [trav_nil_page cod p s cur _ _ hres]
        simp [List.take_of_length_le hle, pagesFor_small _ _ hp hle]
      · omega
  | succ m ih =>
    intro s cur h hcur hlen
    obtain ⟨hw', hf', hspec⟩ := paginate_spec cod p hp s h cur
    rcases hspec with ⟨hc, hd, _⟩ | ⟨_, hres⟩
    · rcases hcur with h1 | h1
      · exact absurd h1 hc
      · simp [hd] at h1
    · simp only [List.replicate_succ]
      rcases nextOf_cases cod p hp (rest (loOf cod cur) s.feats) with ⟨h1, h2⟩ | ⟨h1, l, h2, h3⟩
      · rw [h2] at hres
        rw [trav_cons_last cod p [] _ s cur _ hres]
        simp [List.take_of_length_le h1, pagesFor_small _ _ hp h1]
      · rw [h3] at hres
        rw [trav_cons_more cod p [] _ s cur _ _ (cod.enc_ne_nil _) hres, applyBatch_nil]
        have hR : rest (loOf cod (cod.enc l.1)) (paginate cod p s cur).1.feats
            = (rest (loOf cod cur) s.feats).drop p := by
          rw [hf', loOf_enc]; exact rest_after_cut _ _ p l h.1 h2
        have hlen' : (rest (loOf cod (cod.enc l.1)) (paginate cod p s cur).1.feats).length ≤ m * p + p := by
          rw [hR, List.length_drop]
          have : (m + 1) * p = m * p + p := Nat.succ_mul m p
          omega
        obtain ⟨i1, i2, i3, i4⟩ := ih (paginate cod p s cur).1 (cod.enc l.1) hw'
          (Or.inr (by simp [cod.dec_enc])) hlen'
        refine ⟨by simpa [Trav.cons] using i1, by simpa [Trav.cons] using i2, ?_, ?_⟩
        · simp only [Trav.cons, List.flatten_cons, i3, hR, List.take_append_drop]
        · simp only [Trav.cons, List.length_cons, i4, hR, List.length_drop]
          rw [pagesFor_big _ _ hp h1]

end Paginate
