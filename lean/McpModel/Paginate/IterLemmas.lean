import McpModel.Paginate.Model
/-!
E13 (C17): the client iterator (`paginate` in client.go, as the pull machine `Iter`/`pull`) against
manual paging, over an arbitrary server `o`.
-/
set_option linter.unusedSectionVars false
namespace Paginate
variable {κ ν C : Type} [DecidableEq C]

theorem drain_item (nil : C) (o : Nat → C → Res κ ν C) (n : Nat) (it it' : Iter κ ν C) (x : κ × ν)
    (h : pull nil o it = (it', .item x)) :
    drain nil o (n + 1) it = (x :: (drain nil o n it').1, (drain nil o n it').2) := by
  simp [drain, h]

theorem drain_again (nil : C) (o : Nat → C → Res κ ν C) (n : Nat) (it it' : Iter κ ν C)
    (h : pull nil o it = (it', .again)) : drain nil o (n + 1) it = drain nil o n it' := by
  simp [drain, h]

theorem drain_stop (nil : C) (o : Nat → C → Res κ ν C) (n : Nat) (it it' : Iter κ ν C)
    (h : pull nil o it = (it', .stop)) : drain nil o (n + 1) it = ([], .done) := by
  simp [drain, h]

theorem drain_err (nil : C) (o : Nat → C → Res κ ν C) (n : Nat) (it it' : Iter κ ν C)
    (h : pull nil o it = (it', .err)) : drain nil o (n + 1) it = ([], .error) := by
  simp [drain, h]

/-- Draining a non-empty buffer hands out exactly the buffered elements, then goes on. -/
theorem drain_buf (nil : C) (o : Nat → C → Res κ ν C) (buf : List (κ × ν)) (nx : C) (st : Bool) (k n : Nat) :
    drain nil o (buf.length + n) { buf := buf, next := nx, started := st, n := k, fin := false } =
      (buf ++ (drain nil o n { buf := [], next := nx, started := st, n := k, fin := false }).1,
       (drain nil o n { buf := [], next := nx, started := st, n := k, fin := false }).2) := by
  induction buf with
  | nil => simp
  | cons x r ih =>
    have e : (x :: r).length + n = (r.length + n) + 1 := by simp; omega
    rw [e, drain_item nil o _ _ { buf := r, next := nx, started := st, n := k, fin := false } x (by simp [pull]), ih]
    simp

/-- Run to completion: if manual paging ends (empty cursor or error) within `f` requests, the iterator
hands the consumer exactly the concatenation of the manual pages and ends the same way. -/
theorem drain_eq_manual (nil : C) (o : Nat → C → Res κ ν C) (f : Nat) :
    ∀ (i : Nat) (cur : C) (b : Bool), (b = false ∨ cur ≠ nil) →
      (manual nil o f i cur).2 ≠ .running →
      ∃ steps, drain nil o steps { buf := [], next := cur, started := b, n := i, fin := false } =
        ((manual nil o f i cur).1.flatten, (manual nil o f i cur).2) := by
  induction f with
  | zero => intro i cur b _ h; simp [manual] at h
  | succ f ih =>
    intro i cur b hb hrun
    have hcond : ¬ (b = true ∧ cur = nil) := by
      rintro ⟨h1, h2⟩; rcases hb with h | h
      · rw [h] at h1; cases h1
      · exact h h2
    cases ho : o i cur with
    | page items next =>
      by_cases hn : next = nil
      · -- last page
        have em : manual nil o (f + 1) i cur = ([items], .done) := by simp [manual, ho, hn]
        rw [em]
        cases items with
        | nil =>
          refine ⟨0 + 1, ?_⟩
          rw [drain_stop nil o 0 _ { buf := [], next := next, started := true, n := i + 1, fin := true }
            (by simp [pull, hcond, ho, hn])]
          simp
        | cons x r =>
          refine ⟨(r.length + (0 + 1)) + 1, ?_⟩
          rw [drain_item nil o _ _ { buf := r, next := next, started := true, n := i + 1, fin := false } x
            (by simp [pull, hcond, ho]), drain_buf,
            drain_stop nil o 0 _ { buf := [], next := next, started := true, n := i + 1, fin := true }
              (by simp [pull, hn])]
          simp
      · have em : manual nil o (f + 1) i cur =
            (items :: (manual nil o f (i + 1) next).1, (manual nil o f (i + 1) next).2) := by
          simp [manual, ho, hn]
        rw [em] at hrun ⊢
        obtain ⟨steps, hs⟩ := ih (i + 1) next true (Or.inr hn) hrun
        cases items with
        | nil =>
          refine ⟨steps + 1, ?_⟩
          rw [drain_again nil o _ _ { buf := [], next := next, started := true, n := i + 1, fin := false }
            (by simp [pull, hcond, ho, hn]), hs]
          simp
        | cons x r =>
          refine ⟨(r.length + steps) + 1, ?_⟩
          rw [drain_item nil o _ _ { buf := r, next := next, started := true, n := i + 1, fin := false } x
            (by simp [pull, hcond, ho]), drain_buf, hs]
          simp
    | invalidParams =>
      refine ⟨0 + 1, ?_⟩
      rw [drain_err nil o 0 _ { buf := [], next := cur, started := b, n := i, fin := true }
        (by simp [pull, hcond, ho])]
      simp [manual, ho]
    | panic =>
      refine ⟨0 + 1, ?_⟩
      rw [drain_err nil o 0 _ { buf := [], next := cur, started := b, n := i, fin := true }
        (by simp [pull, hcond, ho])]
      simp [manual, ho]

/-- What the iterator still owes the consumer, measured by manual paging with `f` requests. -/
def remaining (nil : C) (o : Nat → C → Res κ ν C) (f : Nat) (it : Iter κ ν C) : List (κ × ν) :=
  it.buf ++ (if it.fin then [] else if it.started ∧ it.next = nil then []
    else (manual nil o f it.n it.next).1.flatten)

/-- Early stop: whatever has been handed out after any number of pulls is a prefix of the manual
sequence (each pull makes at most one request, so `steps` requests of manual paging suffice). -/
theorem drain_prefix (nil : C) (o : Nat → C → Res κ ν C) (steps : Nat) :
    ∀ (f : Nat) (it : Iter κ ν C), steps ≤ f → (drain nil o steps it).1 <+: remaining nil o f it := by
  induction steps with
  | zero => intro f it _; simp [drain]
  | succ n ih =>
    intro f it hf
    obtain ⟨f', rfl⟩ : ∃ f', f = f' + 1 := ⟨f - 1, by omega⟩
    have hn : n ≤ f' := by omega
    obtain ⟨buf, next, started, k, fin⟩ := it
    by_cases hfin : fin = true
    · subst hfin; simp [drain, pull]
    · have hfin' : fin = false := by simpa using hfin
      subst hfin'
      cases buf with
      | cons x r =>
        simp only [drain, pull, Bool.false_eq_true, if_false]
        have := ih (f' + 1) { buf := r, next := next, started := started, n := k, fin := false } (by omega)
        simp only [remaining, Bool.false_eq_true, if_false] at this ⊢
        simpa using this
      | nil =>
        by_cases hc : started = true ∧ next = nil
        · simp [drain, pull, hc]
        · simp only [drain, pull, Bool.false_eq_true, if_false, hc]
          cases ho : o k next with
          | page items nx =>
            cases items with
            | cons x r =>
              have := ih f' { buf := r, next := nx, started := true, n := k + 1, fin := false } hn
              simp only [remaining, Bool.false_eq_true, if_false, hc, List.nil_append, manual, ho] at this ⊢
              by_cases hnx : nx = nil
              · simp only [hnx, if_true, true_and, List.flatten_cons, List.flatten_nil, List.append_nil] at this ⊢
                simpa using this
              · simp only [hnx, if_false, true_and, List.flatten_cons] at this ⊢
                simpa using this
            | nil =>
              by_cases hnx : nx = nil
              · simp [hnx]
              · have := ih f' { buf := [], next := nx, started := true, n := k + 1, fin := false } hn
                simp only [remaining, Bool.false_eq_true, if_false, hc, List.nil_append, manual, ho, hnx,
                  true_and, List.flatten_cons] at this ⊢
                simpa using this
          | invalidParams => simp
          | panic => simp

end Paginate
