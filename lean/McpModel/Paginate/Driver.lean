import McpModel.Base.Proto
import McpModel.Paginate.Model
import McpModel.Generated.PaginateGen
/-!
Driver for E13 (C17).  Replays the harness's operation lines on the model (`FS` with its lazily
rebuilt index, `paginate`, the iterator machine `pull`) and evaluates the C17 monitor on the
*implementation's* observations.

Keys travel hex-encoded and are compared as byte strings (`List Nat`, Go's order); values stay hex.
The cursor codec is abstract in the model; here a cursor is what the implementation's own
`decodeCursor` says about it (the harness reports that next to the raw cursor): `-` empty, `b` does
not decode, `k<hex>` decodes to that key.

The monitor keeps its own registry per feature kind (a plain association list, no index, no cache)
and checks, on what the implementation answered:
* every page is exactly the first `p` registered entries strictly above the cursor's key, ascending,
  with the value registered at that moment; `NextCursor` is empty exactly when nothing is left and
  otherwise decodes to the last key of the page (this is where `dec (enc k) = k` is checked);
* a cursor that does not decode is answered with invalid params; nothing else fails or crashes;
* per traversal (`tbegin` … `tend`): the received keys are strictly ascending overall, and when the
  empty cursor was reached every key registered at every fetch was received exactly once; without
  mutations the pages are all entries in `max 1 ⌈n/p⌉` pages;
* iterators hand out exactly what manual paging against the registry yields.
-/
namespace Paginate
open Proto

abbrev K := List Nat

inductive DCur
  | nil
  | good (uid : K)
  | bad
deriving DecidableEq, Repr

/-- The canonical image of the codec: `enc k` is "a cursor that decodes to `k`". -/
def dcodec : Codec K DCur where
  nil := .nil
  enc k := .good k
  dec c := match c with
    | .good k => some k
    | _ => none
  dec_enc _ := rfl
  enc_ne_nil _ := by intro h; cases h

def hexToKey (s : String) : Option K := (hexToBytes s).map (·.map UInt8.toNat)
/-- Op tokens carry keys and values as `x<hex>` (so that the empty string is still a token). -/
def xToKey (s : String) : Option K := if s.startsWith "x" then hexToKey (s.drop 1).toString else none
def xToVal (s : String) : Option String := if s.startsWith "x" then some (s.drop 1).toString else none
def keyToHex (k : K) : String := bytesToHex (k.map UInt8.ofNat)

def parseCur (t : String) : Option DCur :=
  if t == "-" then some .nil
  else if t == "b" then some .bad
  else if t.startsWith "k" then (hexToKey (t.drop 1).toString).map .good
  else none

def showCur : DCur → String
  | .nil => "-"
  | .bad => "b"
  | .good k => "k" ++ keyToHex k

def showItem (f : K × String) : String := keyToHex f.1 ++ ":" ++ f.2

def errInvalid : String := s!"err {Generated.Paginate.codeInvalidParams}"

def showRes : Res K String DCur → String
  | .page items next => " ".intercalate ("page" :: items.map showItem ++ ["next=" ++ showCur next])
  | .invalidParams => errInvalid
  | .panic => "panic"

/-! ### the monitor's registry (the three-line specification) -/

def insSorted (f : K × String) : List (K × String) → List (K × String)
  | [] => [f]
  | g :: r => if ltBytes f.1 g.1 then f :: g :: r else g :: insSorted f r

def sortReg (reg : List (K × String)) : List (K × String) := reg.foldr insSorted []

def regAdd (reg : List (K × String)) (f : K × String) : List (K × String) :=
  reg.filter (fun g => g.1 ≠ f.1) ++ [f]

def regRemove (reg : List (K × String)) (ks : List K) : List (K × String) :=
  reg.filter (fun g => !ks.contains g.1)

def specPage (reg : List (K × String)) (p : Nat) (cur : DCur) : Res K String DCur :=
  match cur with
  | .bad => .invalidParams
  | _ =>
    let all := sortReg reg
    let R := match cur with
      | .good uid => all.filter (fun (f : K × String) => ltBytes uid f.1)
      | _ => all
    let items := R.take p
    if R.length ≤ p then .page items .nil
    else match items.getLast? with
      | some l => .page items (.good l.1)
      | none => .page items .nil

structure TravMon where
  items : List K := []         -- keys received so far (implementation)
  stable : Option (List K) := none   -- keys registered at every fetch so far
  finished : Bool := false     -- last page had an empty cursor
  broken : Bool := false       -- a fetch failed
  mutated : Bool := false
  pages : Nat := 0
  first : List (K × String) := []   -- registry at the first fetch

/-- A foreign server's list method: cursor received ↦ answer (`Model.scriptOracle`). -/
abbrev Script := List (DCur × Res K String DCur)

structure KindSt where
  fs : FS K String := FS.empty
  reg : List (K × String) := []
  script : Option Script := none   -- `some`: the list method is played by a scripted foreign server
  mit : Option (Iter K String DCur) := none   -- model iterator
  sit : Option (Iter K String DCur) := none   -- monitor iterator (against the registry)
  tr : Option TravMon := none

structure DState where
  p : Nat := Generated.Paginate.defaultPageSize
  kinds : List (String × KindSt) := [("tools", {}), ("prompts", {}), ("resources", {}), ("templates", {})]

def DState.get (d : DState) (kind : String) : Option KindSt := d.kinds.lookup kind

def DState.set (d : DState) (kind : String) (k : KindSt) : DState :=
  { d with kinds := d.kinds.map (fun q => if q.1 == kind then (q.1, k) else q) }

def parsePairs : List String → Option (List (K × String))
  | [] => some []
  | [_] => none
  | a :: b :: r => do
    let k ← xToKey a
    let v ← xToVal b
    let t ← parsePairs r
    some ((k, v) :: t)

def parseKeys : List String → Option (List K)
  | [] => some []
  | a :: r => do
    let k ← xToKey a
    let t ← parseKeys r
    some (k :: t)

/-- Parse `page k:v … next=tok` as printed by the harness. -/
def parsePageObs (impl : String) : Option (List (K × String) × DCur) :=
  match words impl with
  | "page" :: rest =>
    match rest.getLast? with
    | none => none
    | some nx =>
      if !nx.startsWith "next=" then none else do
        let cur ← parseCur (nx.drop 5).toString
        let items ← (rest.dropLast).mapM (fun w =>
          match w.splitOn ":" with
          | [a, b] => (hexToKey a).map (fun k => (k, b))
          | _ => none)
        some (items, cur)
  | _ => none

/-! ### scripted (foreign) servers -/

/-- Script cursors travel as `-` / `x<hex>`; a foreign cursor is its own name (`.good bytes`). -/
def parseSCur (t : String) : Option DCur :=
  if t == "-" then some .nil else (xToKey t).map .good

def parseSItem (w : String) : Option (K × String) :=
  match w.splitOn ":" with
  | [a, b] => (hexToKey a).map (fun k => (k, b))
  | _ => none

/-- `<cur>=<items>=<next>` or `<cur>=!`; a value ending in `!` marks a tool that `ListTools` drops. -/
def parseSEntry (t : String) : Option (DCur × Res K String DCur) :=
  match t.splitOn "=" with
  | [c, "!"] => (parseSCur c).map (fun c => (c, .invalidParams))
  | [c, its, n] => do
    let c ← parseSCur c
    let n ← parseSCur n
    let items ← (if its == "" then some [] else (its.splitOn ",").mapM parseSItem)
    some (c, .page items n)
  | _ => none

/-- What `filterValidTools` keeps (only `ListTools` filters). -/
def keepItem (kind : String) (f : K × String) : Bool := !(kind == "tools" && f.2.endsWith "!")

/-- The server as the client's `ListX` sees it: the script, then `ListTools`' per-page filter. -/
def scriptedOracle (kind : String) (sc : Script) : Nat → DCur → Res K String DCur :=
  filterOracle (keepItem kind) (scriptOracle sc)

def scriptItems (sc : Script) : Nat :=
  sc.foldl (fun n e => match e.2 with | .page items _ => n + items.length | _ => n) 0

def showEnding : Ending → String
  | .done => "end"
  | .error => errInvalid
  | .running => "runaway"

/-- Manual paging (`Model.manual`) rendered like an `iterall` observation. -/
def manualAll (o : Nat → DCur → Res K String DCur) (cur : DCur) (fuel : Nat) : String × Ending :=
  let r := manual DCur.nil o fuel 0 cur
  (" ".intercalate (("items" :: r.1.flatten.map showItem) ++ [showEnding r.2]), r.2)

def strictlyAscending : List K → Bool
  | [] => true
  | [_] => true
  | a :: b :: r => ltBytes a b && strictlyAscending (b :: r)

def pagesFor' (n p : Nat) : Nat := max 1 ((n + p - 1) / p)

/-- Monitor of one list answer against the registry. -/
def monList (reg : List (K × String)) (p : Nat) (cur : DCur) (impl : String) : Option String :=
  let want := specPage reg p cur
  if impl == showRes want then none
  else match cur, parsePageObs impl with
    | .bad, _ => some "C17: malformed cursor not answered with invalid params (-32602)"
    | _, none => some "C17: list request crashed or failed on a well-formed cursor"
    | _, some (items, next) =>
      match want with
      | .page witems wnext =>
        if items != witems then some "C17: page is not the first p registered entries above the cursor, ascending"
        else if next == .bad then some "C17: the NextCursor the server issued is refused by the server's own decodeCursor (following cursors cannot reach the remaining items)"
        else if next != wnext then some "C17: NextCursor wrong (empty exactly on the last page, else decodes to the last key returned)"
        else some "C17: page differs from the specification"
      | _ => some "C17: page differs from the specification"

def travFetch (t : TravMon) (reg : List (K × String)) (impl : String) : TravMon :=
  let regKeys := reg.map (·.1)
  let stable := match t.stable with
    | none => regKeys
    | some s => s.filter (fun k => regKeys.contains k)
  let first := if t.pages == 0 then reg else t.first
  match parsePageObs impl with
  | none => { t with broken := true, stable := some stable, pages := t.pages + 1, first := first }
  | some (items, next) =>
    { t with items := t.items ++ items.map (·.1), stable := some stable, finished := next == .nil,
             pages := t.pages + 1, first := first }

def monTend (t : TravMon) (p : Nat) : Option String :=
  if t.broken then none   -- already reported at the failing fetch
  else if !strictlyAscending t.items then some "C17: traversal repeats or reorders keys (not strictly ascending)"
  else if t.finished ∧ !(t.stable.getD []).all (fun k => t.items.contains k) then
    some "C17: traversal misses an item that stayed registered throughout"
  else if t.finished ∧ !t.mutated ∧ t.items != (sortReg t.first).map (·.1) then
    some "C17: traversal without mutations is not exactly the registered set"
  else if t.finished ∧ !t.mutated ∧ t.pages != pagesFor' t.first.length p then
    some "C17: traversal without mutations used a wrong number of pages"
  else none

/-- Pull until an element, the end or an error (the model server never returns an empty page with a
non-empty cursor, so two rounds suffice; `again` beyond that is reported). -/
def pullEvent (o : Nat → DCur → Res K String DCur) : Nat → Iter K String DCur → Iter K String DCur × Event K String
  | 0, it => (it, .again)
  | f + 1, it =>
    match pull DCur.nil o it with
    | (it', .again) => pullEvent o f it'
    | r => r

def pullMany (o : Nat → DCur → Res K String DCur) (rounds : Nat) : Nat → Iter K String DCur → List String → Iter K String DCur × String
  | 0, it, acc => (it, " ".intercalate (("items" :: acc.reverse) ++ ["more"]))
  | m + 1, it, acc =>
    match pullEvent o rounds it with
    | (it', .item x) => pullMany o rounds m it' (showItem x :: acc)
    | (it', .stop) => (it', " ".intercalate (("items" :: acc.reverse) ++ ["end"]))
    | (it', .err) => (it', " ".intercalate (("items" :: acc.reverse) ++ [errInvalid]))
    | (it', .again) => (it', " ".intercalate (("items" :: acc.reverse) ++ ["stuck"]))

def iterAll (o : Nat → DCur → Res K String DCur) (cur : DCur) (fuel : Nat) (rounds : Nat := 3) : String :=
  let rec go : Nat → Iter K String DCur → List String → String
    | 0, _, acc => " ".intercalate (("items" :: acc.reverse) ++ ["runaway"])
    | f + 1, it, acc =>
      match pullEvent o rounds it with
      | (it', .item x) => go f it' (showItem x :: acc)
      | (_, .stop) => " ".intercalate (("items" :: acc.reverse) ++ ["end"])
      | (_, .err) => " ".intercalate (("items" :: acc.reverse) ++ [errInvalid])
      | (_, .again) => " ".intercalate (("items" :: acc.reverse) ++ ["stuck"])
  go fuel (Iter.start cur) []

def markMutated (k : KindSt) : KindSt :=
  { k with tr := k.tr.map (fun t => { t with mutated := true }) }

def stepList (d : DState) (kind cur : String) (impl : String) : DState × Verdict :=
  match d.get kind, parseCur cur with
  | some k, some c =>
    match k.script with
    | some sc =>
      -- foreign server: `ListX` must hand over the page it was sent (minus dropped tools)
      let want := showRes (scriptedOracle kind sc 0 c)
      let viol := if impl == want then none
        else some "C17: ListX result is not the page the server sent (items in order, NextCursor unchanged; ListTools minus tools with invalid x-mcp-header annotations)"
      (d, { model := want, violated := viol })
    | none =>
      let (fs', res) := paginate dcodec d.p k.fs c
      let viol := monList k.reg d.p c impl
      let tr' := k.tr.map (fun t => travFetch t k.reg impl)
      (d.set kind { k with fs := fs', tr := tr' }, { model := showRes res, violated := viol })
  | _, _ => (d, { model := "bad-op" })

def engine : Engine DState where
  init := {}
  step d toks impl :=
    match toks with
    | ["reset"] => ({}, { model := "ok" })
    | ["server", n, _] =>
      match n.toNat? with
      | none => (d, { model := "bad-op" })
      | some n =>
        let d' : DState := { p := if n == 0 then Generated.Paginate.defaultPageSize else n }
        (d', { model := "ok" })
    | "add" :: kind :: rest =>
      match d.get kind, parsePairs rest with
      | some k, some fs =>
        let k' := markMutated { k with fs := k.fs.add fs, reg := fs.foldl regAdd k.reg }
        let viol := if impl == "ok" then none else some "C17: registering a feature failed"
        (d.set kind k', { model := "ok", violated := viol })
      | _, _ => (d, { model := "bad-op" })
    | "remove" :: kind :: rest =>
      match d.get kind, parseKeys rest with
      | some k, some ks =>
        let k' := markMutated { k with fs := (k.fs.remove ks).1, reg := regRemove k.reg ks }
        (d.set kind k', { model := "ok" })
      | _, _ => (d, { model := "bad-op" })
    | "script" :: kind :: rest =>
      match d.get kind, rest.mapM parseSEntry with
      | some k, some sc => (d.set kind { k with script := some sc }, { model := "ok" })
      | _, _ => (d, { model := "bad-op" })
    | ["unscript", kind] =>
      match d.get kind with
      | some k => (d.set kind { k with script := none }, { model := "ok" })
      | none => (d, { model := "bad-op" })
    | ["list", kind, cur, _, "follow"] =>
      -- the request carries the NextCursor of the previous answer for this kind
      let (d', out) := stepList d kind cur impl
      let scripted := match d.get kind with
        | some k => k.script.isSome
        | none => false
      if impl == errInvalid && out.violated.isNone && !scripted then
        (d', { out with violated := some "C17: the server refused (invalid params) the NextCursor it had just issued" })
      else (d', out)
    | ["list", kind, cur, _] => stepList d kind cur impl
    | ["tbegin", kind] =>
      match d.get kind with
      | some k => (d.set kind { k with tr := some {} }, { model := "ok" })
      | none => (d, { model := "bad-op" })
    | ["tend", kind] =>
      match d.get kind with
      | some k =>
        let viol := match k.tr with
          | some t => monTend t d.p
          | none => none
        (d.set kind { k with tr := none }, { model := "ok", violated := viol })
      | none => (d, { model := "bad-op" })
    | ["iopen", kind, cur, _] =>
      match d.get kind, parseCur cur with
      | some k, some c =>
        (d.set kind { k with mit := some (Iter.start c), sit := some (Iter.start c) }, { model := "ok" })
      | _, _ => (d, { model := "bad-op" })
    | ["ipull", kind, m] =>
      match d.get kind, m.toNat? with
      | some k, some m =>
        match k.mit, k.sit with
        | some mit, some sit =>
          match k.script with
          | some sc =>
            -- the iterator machine against the foreign server; any number of empty pages in a row
            let o := scriptedOracle kind sc
            let (mit', mout) := pullMany o (sc.length + 3) m mit []
            let viol := if impl == mout then none
              else some "C17: iterator sequence differs from manual paging against a foreign server (start at the given cursor, follow NextCursor until it is empty whatever the pages hold, stop at the first error)"
            (d.set kind { k with mit := some mit', sit := some mit' }, { model := mout, violated := viol })
          | none =>
          -- model: the iterator machine against the model server (whose index cache it fills)
          let fsAfter := k.fs.sortKeys
          let (mit', mout) := pullMany (fun _ c => (paginate dcodec d.p k.fs c).2) 3 m mit []
          let (sit', sout) := pullMany (fun _ c => specPage k.reg d.p c) 3 m sit []
          let viol := if impl == sout then none
            else some "C17: iterator sequence differs from manual paging"
          (d.set kind { k with fs := fsAfter, mit := some mit', sit := some sit' }, { model := mout, violated := viol })
        | _, _ => (d, { model := "noiter" })
      | _, _ => (d, { model := "bad-op" })
    | ["iclose", kind] =>
      match d.get kind with
      | some k => (d.set kind { k with mit := none, sit := none }, { model := "ok" })
      | none => (d, { model := "bad-op" })
    | ["iterall", kind, cur, _] =>
      match d.get kind, parseCur cur with
      | some k, some c =>
        match k.script with
        | some sc =>
          -- model: the iterator machine; monitor: manual paging, literally (`Model.manual`)
          let o := scriptedOracle kind sc
          let mout := iterAll o c (scriptItems sc + 4) (sc.length + 3)
          let (sout, ending) := manualAll o c (sc.length + 2)
          -- (a cyclic script has no finite manual listing: nothing to compare with)
          let viol := if impl == sout || ending == .running then none
            else some "C17: iterator sequence differs from manual paging against a foreign server (start at the given cursor, follow NextCursor until it is empty whatever the pages hold, stop at the first error)"
          (d, { model := mout, violated := viol })
        | none =>
        let fuel := 2 * k.reg.length + 8
        let mout := iterAll (fun _ c => (paginate dcodec d.p k.fs c).2) c fuel
        let sout := iterAll (fun _ c => specPage k.reg d.p c) c fuel
        let viol := if impl == sout then none
          else some "C17: iterator sequence differs from manual paging"
        (d.set kind { k with fs := k.fs.sortKeys }, { model := mout, violated := viol })
      | _, _ => (d, { model := "bad-op" })
    | ["roundtrip", _] =>
      let viol := if impl == "same" then none else some "C17: cursor codec law dec (enc k) = k, enc k non-empty, is broken"
      (d, { model := "same", violated := viol })
    | ["codec", _] =>
      let viol := if impl == "ok" then none else some "C17: decodeCursor crashed on a cursor string"
      (d, { model := "ok", violated := viol })
    | [_, _, "p", _] =>
      (d, { model := "bad-op", violated := some "C17: decodeCursor crashed on a cursor string" })
    | _ => (d, { model := "bad-op" })

end Paginate

def main : IO Unit := Proto.run Paginate.engine
