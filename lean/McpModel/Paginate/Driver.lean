import McpModel.Base.Proto
import McpModel.Paginate.ModelRun
/-!
Driver for E13 (C17): the string layer.  Parses the harness's operation lines into typed records
(`Monitor.Rec`), replays them on the model (`FS` with its lazily rebuilt index, `paginate`, the
iterator machine `pull`) and renders the clause the typed C17 monitor (`Monitor.monStep`) reports on
the *implementation's* observations.

Keys travel hex-encoded and are compared as byte strings (`List Nat`, Go's order); values stay hex.
The cursor codec is abstract in the model; here a cursor is what the implementation's own
`decodeCursor` says about it (the harness reports that next to the raw cursor): `-` empty, `b` does
not decode, `k<hex>` decodes to that key, `p` `decodeCursor` itself crashed.

An observation that is not in the canonical form the renderers below produce is read as
`LObs.other` / `IEnd.other` (so that typed equality with the expected observation is string equality);
the expected observation is rendered and read back on every record (`LIBDISC render/parse` if that
round trip fails).
-/
namespace Paginate
open Proto

def hexToKey (s : String) : Option K := (hexToBytes s).map (·.map UInt8.toNat)
/-- Op tokens carry keys and values as `x<hex>` (so that the empty string is still a token). -/
def xToKey (s : String) : Option K := if s.startsWith "x" then hexToKey (s.drop 1).toString else none
def xToVal (s : String) : Option String := if s.startsWith "x" then some (s.drop 1).toString else none
def keyToHex (k : K) : String := bytesToHex (k.map UInt8.ofNat)

def parseCur (t : String) : Option DCur :=
  if t == "-" then some .nil
  else if t == "b" then some .bad
  else if t.startsWith "k" then (hexToKey (t.drop 1).toString).map .good
  else none

def showCur : DCur → String
  | .nil => "-"
  | .bad => "b"
  | .good k => "k" ++ keyToHex k

def showItem (f : Item) : String := keyToHex f.1 ++ ":" ++ f.2

def errInvalid : String := s!"err {Generated.Paginate.codeInvalidParams}"

def showRes : Res K String DCur → String
  | .page items next => " ".intercalate ("page" :: items.map showItem ++ ["next=" ++ showCur next])
  | .invalidParams => errInvalid
  | .panic => "panic"

def parseKind (s : String) : Option Kind :=
  if s == "tools" then some .tools
  else if s == "prompts" then some .prompts
  else if s == "resources" then some .resources
  else if s == "templates" then some .templates
  else none

def parsePairs : List String → Option (List Item)
  | [] => some []
  | [_] => none
  | a :: b :: r => do
    let k ← xToKey a
    let v ← xToVal b
    let t ← parsePairs r
    some ((k, v) :: t)

def parseKeys : List String → Option (List K)
  | [] => some []
  | a :: r => do
    let k ← xToKey a
    let t ← parseKeys r
    some (k :: t)

def parseItem (w : String) : Option Item :=
  match w.splitOn ":" with
  | [a, b] => (hexToKey a).map (fun k => (k, b))
  | _ => none

/-- Parse `page k:v … next=tok` as printed by the harness. -/
def parsePageObs (impl : String) : Option (List Item × DCur) :=
  match words impl with
  | "page" :: rest =>
    match rest.getLast? with
    | none => none
    | some nx =>
      if !nx.startsWith "next=" then none else do
        let cur ← parseCur (nx.drop 5).toString
        let items ← (rest.dropLast).mapM parseItem
        some (items, cur)
  | _ => none

/-- The implementation's answer to a list request, typed (canonical text only). -/
def parseLObs (impl : String) : LObs :=
  match parsePageObs impl with
  | some (items, next) => if showRes (.page items next) == impl then .page items next else .other
  | none => if impl == errInvalid then .invalid else .other

def showEnd : IEnd → String
  | .more => "more"
  | .fin => "end"
  | .err => errInvalid
  | .stuck => "stuck"
  | .runaway => "runaway"
  | .other => "?"

def showIObs (o : IObs) : String := " ".intercalate (("items" :: o.items.map showItem) ++ [showEnd o.ending])

def parseEnd (s : String) : IEnd :=
  if s == "more" then .more
  else if s == "end" then .fin
  else if s == errInvalid then .err
  else if s == "stuck" then .stuck
  else if s == "runaway" then .runaway
  else .other

/-- What an iterator handed out, typed: `items k:v … <ending>` (canonical text only). -/
def parseIObs (impl : String) : IObs :=
  match words impl with
  | "items" :: rest =>
    let its := rest.takeWhile (fun w => w.contains ':')
    let o : IObs := ⟨its.filterMap parseItem, parseEnd (" ".intercalate (rest.dropWhile (fun w => w.contains ':')))⟩
    if showIObs o == impl then o else { o with ending := .other }
  | _ => ⟨[], .other⟩

/-! ### scripted (foreign) servers -/

/-- Script cursors travel as `-` / `x<hex>`; a foreign cursor is its own name (`.good bytes`). -/
def parseSCur (t : String) : Option DCur :=
  if t == "-" then some .nil else (xToKey t).map .good

/-- `<cur>=<items>=<next>` or `<cur>=!`; a value ending in `!` marks a tool that `ListTools` drops. -/
def parseSEntry (t : String) : Option (DCur × Res K String DCur) :=
  match t.splitOn "=" with
  | [c, "!"] => (parseSCur c).map (fun c => (c, .invalidParams))
  | [c, its, n] => do
    let c ← parseSCur c
    let n ← parseSCur n
    let items ← (if its == "" then some [] else (its.splitOn ",").mapM parseItem)
    some (c, .page items n)
  | _ => none

/-! ### clause texts -/

def clauseText : Clause → String
  | .malformedNotRefused => "C17: malformed cursor not answered with invalid params (-32602)"
  | .listFailed => "C17: list request crashed or failed on a well-formed cursor"
  | .pageWrong => "C17: page is not the first p registered entries above the cursor, ascending"
  | .nextUndecodable => "C17: the NextCursor the server issued is refused by the server's own decodeCursor (following cursors cannot reach the remaining items)"
  | .nextWrong => "C17: NextCursor wrong (empty exactly on the last page, else decodes to the last key returned)"
  | .foreignPage => "C17: ListX result is not the page the server sent (items in order, NextCursor unchanged; ListTools minus tools with invalid x-mcp-header annotations)"
  | .addFailed => "C17: registering a feature failed"
  | .followRefused => "C17: the server refused (invalid params) the NextCursor it had just issued"
  | .travOrder => "C17: traversal repeats or reorders keys (not strictly ascending)"
  | .travMiss => "C17: traversal misses an item that stayed registered throughout"
  | .travNotExact => "C17: traversal without mutations is not exactly the registered set"
  | .travPages => "C17: traversal without mutations used a wrong number of pages"
  | .iterForeign => "C17: iterator sequence differs from manual paging against a foreign server (start at the given cursor, follow NextCursor until it is empty whatever the pages hold, stop at the first error)"
  | .iterManual => "C17: iterator sequence differs from manual paging"
  | .codecLaw => "C17: cursor codec law dec (enc k) = k, enc k non-empty, is broken"
  | .codecCrash => "C17: decodeCursor crashed on a cursor string"

/-! ### the engine: model state (`ModelRun.modStep`) + monitor state (`Monitor.monStep`) -/

structure DState where
  mon : MState := {}
  mod : ModState := {}

def bad (d : DState) : DState × Verdict := (d, { model := "bad-op" })

def showLObs : LObs → String
  | .page items next => showRes (.page items next)
  | .invalid => errInvalid
  | .other => "panic"

/-- The observation a record carries, as the harness prints it. -/
def showObs : Rec → String
  | .list _ _ _ o => showLObs o
  | .ipull _ _ o => if o == noIter then "noiter" else showIObs o
  | .iterall _ _ o => showIObs o
  | .roundtrip _ => "same"
  | .readonly _ => "done"
  | _ => "ok"

/-- Self-check of the string layer: the observation survives rendering and parsing. -/
def roundTrips : Rec → Bool
  | .list _ _ _ o => o == .other || parseLObs (showLObs o) == o
  | .ipull _ _ o => o == noIter || parseIObs (showIObs o) == o
  | .iterall _ _ o => parseIObs (showIObs o) == o
  | _ => true

/-- One typed record: the model's observation (`modStep`) as text, the monitor's clause on the
implementation's (`monStep`). -/
def judge (d : DState) (r : Rec) : DState × Verdict :=
  let (mod', mrec) := modStep d.mod r
  let (mon', cl) := monStep d.mon r
  let viol := cl.map clauseText
  let viol := if roundTrips mrec then viol
    else viol.orElse (fun _ => some "LIBDISC render/parse: the model's observation does not survive the string layer")
  ({ mon := mon', mod := mod' }, { model := showObs mrec, violated := viol })

/-- A cursor token: `p` = the implementation's `decodeCursor` crashed while the harness classified it. -/
def withCur (d : DState) (cur : String) (k : DCur → DState × Verdict) : DState × Verdict :=
  match parseCur cur with
  | some c => k c
  | none => if cur == "p" then judge d (.codec false) else bad d

def engine : Engine DState where
  init := {}
  step d toks impl :=
    match toks with
    | ["reset"] => judge d .reset
    | ["server", n, _] =>
      match n.toNat? with
      | none => bad d
      | some n => judge d (.server n)
    | "add" :: kind :: rest =>
      match parseKind kind, parsePairs rest with
      | some kind, some fs => judge d (.add kind fs (impl == "ok"))
      | _, _ => bad d
    | "addvia" :: _ :: kind :: rest =>
      -- another entry point to the same registering section (`*jsonschema.Schema` / output schema /
      -- the generic `AddTool[In, Out]`)
      match parseKind kind, parsePairs rest with
      | some kind, some fs => judge d (.add kind fs (impl == "ok"))
      | _, _ => bad d
    | ["addbad", _, _, _, _] =>
      -- a registration the Add* function refuses (it panics before `featureSet.add`): nothing changes
      judge d (.readonly none)
    | ["addhold", _, _, _, _] =>
      -- `Server.AddTool`'s validation section (no lock, reads no server state): nothing changes
      judge d (.readonly none)
    | "addrelease" :: kind :: rest =>
      -- `Server.AddTool`'s registering section (`changeAndNotify`: `tools.add` under `Server.mu`)
      match parseKind kind, parsePairs rest with
      | some kind, some [f] => judge d (.add kind [f] (impl == "ok"))
      | _, _ => bad d
    | "remove" :: kind :: rest =>
      match parseKind kind, parseKeys rest with
      | some kind, some ks => judge d (.remove kind ks)
      | _, _ => bad d
    | "script" :: kind :: rest =>
      match parseKind kind, rest.mapM parseSEntry with
      | some kind, some sc => judge d (.script kind sc)
      | _, _ => bad d
    | ["unscript", kind] =>
      match parseKind kind with
      | some kind => judge d (.unscript kind)
      | none => bad d
    | ["list", kind, cur, _, "follow"] =>
      -- the request carries the NextCursor of the previous answer for this kind
      match parseKind kind with
      | some kind => withCur d cur (fun c => judge d (.list kind c true (parseLObs impl)))
      | none => bad d
    | ["list", kind, cur, _] =>
      match parseKind kind with
      | some kind => withCur d cur (fun c => judge d (.list kind c false (parseLObs impl)))
      | none => bad d
    | ["tbegin", kind] =>
      match parseKind kind with
      | some kind => judge d (.tbegin kind)
      | none => bad d
    | ["tend", kind] =>
      match parseKind kind with
      | some kind => judge d (.tend kind)
      | none => bad d
    | ["iopen", kind, cur, _] =>
      match parseKind kind with
      | some kind => withCur d cur (fun c => judge d (.iopen kind c))
      | none => bad d
    | ["ipull", kind, m] =>
      match parseKind kind, m.toNat? with
      | some kind, some m => judge d (.ipull kind m (parseIObs impl))
      | _, _ => bad d
    | ["iclose", kind] =>
      match parseKind kind with
      | some kind => judge d (.iclose kind)
      | none => bad d
    | ["iterall", kind, cur, _] =>
      match parseKind kind with
      | some kind => withCur d cur (fun c => judge d (.iterall kind c (parseIObs impl)))
      | none => bad d
    | ["ro", _, touch] =>
      -- a read-only request; `touch`: the kind whose sorted index it walks, or `-`
      if touch == "-" then judge d (.readonly none)
      else match parseKind touch with
        | some kind => judge d (.readonly (some kind))
        | none => bad d
    | ["roundtrip", _] => judge d (.roundtrip (impl == "same"))
    | ["codec", _] => judge d (.codec (impl == "ok"))
    | _ => bad d

end Paginate

def main : IO Unit := Proto.run Paginate.engine
