import McpModel.Paginate.Model
import McpModel.Paginate.IterLemmas
/-!
E13 (C17): the client against foreign servers — listings cut into arbitrary pages (`pagesOracle`,
any page may be empty) and servers seen through `ListTools`' per-page filter (`filterOracle`).
Helper lemmas for the property theorems in `Props`.
-/
set_option linter.unusedSectionVars false
namespace Paginate
variable {κ ν C : Type} [DecidableEq C]

/-- Manual paging through the filter is manual paging, filtered page by page; it ends the same way. -/
theorem manual_filter (nil : C) (keep : κ × ν → Bool) (o : Nat → C → Res κ ν C) (f : Nat) :
    ∀ (i : Nat) (cur : C),
      manual nil (filterOracle keep o) f i cur =
        ((manual nil o f i cur).1.map (·.filter keep), (manual nil o f i cur).2) := by
  induction f with
  | zero => intro i cur; rfl
  | succ f ih =>
    intro i cur
    cases ho : o i cur with
    | page items next =>
      have hf : filterOracle keep o i cur = .page (items.filter keep) next := by
        simp [filterOracle, ho, filterRes]
      by_cases hn : next = nil
      · simp only [manual, hf, ho, hn, if_true, List.map_cons, List.map_nil]
      · simp only [manual, hf, ho, hn, if_false, ih (i + 1) next, List.map_cons]
    | invalidParams =>
      have hf : filterOracle keep o i cur = .invalidParams := by simp [filterOracle, ho, filterRes]
      simp only [manual, hf, ho, List.map_nil]
    | panic =>
      have hf : filterOracle keep o i cur = .panic := by simp [filterOracle, ho, filterRes]
      simp only [manual, hf, ho, List.map_nil]

theorem flatten_map_filter (keep : κ × ν → Bool) (pages : List (List (κ × ν))) :
    (pages.map (·.filter keep)).flatten = pages.flatten.filter keep := by
  induction pages with
  | nil => rfl
  | cons p r ih => simp only [List.map_cons, List.flatten_cons, List.filter_append, ih]

/-- Manual paging over a listing cut into pages, from page number `c`: the remaining pages, done. -/
theorem manual_pagesOracle (pages : List (List (κ × ν))) :
    ∀ (f c i : Nat), c < pages.length → pages.length ≤ c + f →
      manual 0 (pagesOracle pages) f i c = (pages.drop c, .done) := by
  intro f
  induction f with
  | zero => intro c i hc hf; omega
  | succ f ih =>
    intro c i hc hf
    have hget : pages[c]? = some pages[c] := List.getElem?_eq_getElem hc
    by_cases hlast : c + 1 < pages.length
    · have ho : pagesOracle pages i c = .page pages[c] (c + 1) := by
        simp [pagesOracle, hget, hlast]
      have hne : (c + 1 : Nat) ≠ 0 := by omega
      have hrec := ih (c + 1) (i + 1) hlast (by omega)
      simp only [manual, ho, hne, if_false, hrec]
      rw [List.drop_eq_getElem_cons hc]
    · have ho : pagesOracle pages i c = .page pages[c] 0 := by
        simp [pagesOracle, hget, hlast]
      simp only [manual, ho, if_true]
      have hd : pages.drop c = [pages[c]] := by
        rw [List.drop_eq_getElem_cons hc]
        have : pages.drop (c + 1) = [] := List.drop_eq_nil_of_le (by omega)
        rw [this]
      rw [hd]

end Paginate
