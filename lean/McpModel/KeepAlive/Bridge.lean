import McpModel.KeepAlive.Props
import McpModel.KeepAlive.Monitor
/-!
# Bridge between the C13 monitor and the model (E9)

`monitor_accepts_model`: for ALL intervals, configured thresholds, ping outcome patterns (answered /
method-not-found / other error after any delay, never, overrunning pings) and cancellation instants,
for the scripted loop (`ka`), real sessions (`kas`) and the stream `sessions` (`kss`), the monitor of
Monitor.lean raises no clause on the observation the model produces (`modelObs`: `runCancel`,
`warnsCancel`, `endAt`).  The monitor's own reading of a scenario — its schedule of pending ticks
(`specSched`), its outcome classes, its closing tick (`specCloseTick`) — is shown to be the model's
(`specSched_eq_sim`, `sim_get`: the schedule is `pingStart`/`pingEnd` of Props.lean;
`specCloseTick_iff`: the closing tick is the one of `closes_iff_T_consecutive`), and every clause is
discharged with the property theorems (`closes_iff_T_consecutive`, `close_time_bound`,
`pings_at_pending_ticks`, `cancel_stops_pings`, `nothing_after_end`, `silent_stop`).
-/
namespace KeepAlive
open Generated.KeepAlive

/-! ## The monitor's reading of one ping is the model's -/

/-- The class of an outcome as the monitor numbers them. -/
def code : Outcome → Nat
  | .ok _ => 0
  | .mnf _ => 1
  | .fail _ => 2

theorem specDur_eq (I : Nat) (s : Script) : specDur I s = (observe (pingTimeout I) s).dur := by
  simp only [specDur, observe, pingTimeout]
  cases s.delay with
  | none => rfl
  | some d =>
    by_cases h1 : d < I / 2 <;> cases h2 : s.honours <;> cases s.kind <;> simp [h1, Outcome.dur]

theorem specOutcome_eq (I : Nat) (s : Script) : specOutcome I s = code (observe (pingTimeout I) s) := by
  simp only [specOutcome, observe, pingTimeout]
  cases s.delay with
  | none => rfl
  | some d =>
    by_cases h1 : d < I / 2 <;> cases h2 : s.honours <;> cases s.kind <;> simp [h1, code]

theorem specNext_eq (I last free : Nat) : specNext I last free = nextStart I last free := by
  simp only [specNext, nextStart, gridAfter]
  split <;> omega

/-! ## The monitor's schedule is the model's -/

def mkPing (I p : Nat) (s : Script) : SpecPing :=
  { start := p, stop := p + specDur I s, outcome := specOutcome I s, overran := ! s.honours && specDur I s > I / 2 }

/-- The schedule of a loop that goes on pinging, without the cut at the cancellation. -/
def simFrom (I : Nat) : Nat → Nat → List Script → List SpecPing
  | _, _, [] => []
  | last, free, s :: t =>
    mkPing I (specNext I last free) s :: simFrom I (specNext I last free) (specNext I last free + specDur I s) t

theorem specSched_eq_sim (I tc : Nat) : ∀ (scs : List Script) (last free : Nat),
    specSched I tc last free scs = simFrom I last free (scs.take (pingsBeforeFrom I tc last free scs)) := by
  intro scs
  induction scs with
  | nil => intro last free; rfl
  | cons s t ih =>
    intro last free
    simp only [specSched, pingsBeforeFrom, ← specNext_eq, ← specDur_eq]
    by_cases h : specNext I last free < tc
    · simp only [h, if_true, List.take_succ_cons, simFrom, mkPing, ih]
    · simp only [h, if_false, List.take_zero, simFrom]

theorem simFrom_length (I : Nat) : ∀ (scs : List Script) (l f : Nat), (simFrom I l f scs).length = scs.length := by
  intro scs
  induction scs with
  | nil => intro l f; rfl
  | cons s t ih => intro l f; simp [simFrom, ih]

theorem simFrom_succ (I : Nat) : ∀ (scs : List Script) (l f k : Nat) (p : SpecPing) (s : Script),
    (simFrom I l f scs)[k]? = some p → scs[k + 1]? = some s →
    (simFrom I l f scs)[k + 1]? = some (mkPing I (specNext I p.start p.stop) s) := by
  intro scs
  induction scs with
  | nil => intro l f k p s h; cases h
  | cons a t ih =>
    intro l f k p s h hs
    cases k with
    | zero =>
      simp only [simFrom, List.getElem?_cons_zero, Option.some.injEq] at h
      subst h
      cases t with
      | nil => cases hs
      | cons b t' =>
        simp only [List.getElem?_cons_succ, List.getElem?_cons_zero, Option.some.injEq] at hs
        subst hs
        simp [simFrom, mkPing]
    | succ k =>
      simp only [simFrom, List.getElem?_cons_succ] at h hs ⊢
      exact ih _ _ k p s h hs

/-- Entry `k` of the monitor's schedule is ping `k+1` of the model's (`pingStart`, `pingEnd` of Props.lean). -/
theorem sim_get (I : Nat) (scs : List Script) : ∀ (k : Nat) (sc : Script), scs[k]? = some sc →
    (simFrom I 0 0 scs)[k]? = some (mkPing I (pingStart I scs (k + 1)) sc) ∧
    pingEnd I scs (k + 1) = pingStart I scs (k + 1) + specDur I sc := by
  have hrec := (pings_at_pending_ticks I 0 scs).2
  intro k
  induction k with
  | zero =>
    intro sc hsc
    obtain ⟨e1, e2⟩ := hrec.2.2 0 sc hsc
    rw [hrec.1, hrec.2.1] at e1
    have hst : pingStart I scs 1 = specNext I 0 0 := by
      rw [e1, specNext_eq]; rfl
    refine ⟨?_, by rw [e2, specDur_eq]⟩
    cases scs with
    | nil => cases hsc
    | cons a t =>
      simp only [List.getElem?_cons_zero, Option.some.injEq] at hsc
      subst hsc
      simp [simFrom, hst]
  | succ k ih =>
    intro sc hsc
    have hk : k < scs.length := by
      have := (List.getElem?_eq_some_iff.1 hsc).1; omega
    obtain ⟨i1, i2⟩ := ih scs[k] (List.getElem?_eq_getElem hk)
    obtain ⟨e1, e2⟩ := hrec.2.2 (k + 1) sc hsc
    have h := simFrom_succ I scs 0 0 k _ sc i1 hsc
    have hst : specNext I (pingStart I scs (k + 1)) (pingStart I scs (k + 1) + specDur I scs[k]) =
        pingStart I scs (k + 1 + 1) := by
      rw [e1, specNext_eq, ← i2]; rfl
    simp only [mkPing] at h
    rw [hst] at h
    exact ⟨h, by rw [e2, specDur_eq]⟩

theorem startOf_sim (I : Nat) (scs : List Script) (k : Nat) (hk : k ≤ scs.length) :
    startOf (simFrom I 0 0 scs) k = pingStart I scs k ∧ stopOf (simFrom I 0 0 scs) k = pingEnd I scs k := by
  cases k with
  | zero =>
    have := (pings_at_pending_ticks I 0 scs).2
    simp [startOf, stopOf, this.1, this.2.1]
  | succ k =>
    have hk' : k < scs.length := by omega
    obtain ⟨h1, h2⟩ := sim_get I scs k scs[k] (List.getElem?_eq_getElem hk')
    simp [startOf, stopOf, h1, mkPing, h2]

theorem sim_outcomes (I : Nat) (scs : List Script) :
    (simFrom I 0 0 scs).map (·.outcome) = (obsOf I scs).map code := by
  apply List.ext_getElem?
  intro k
  by_cases hk : k < scs.length
  · obtain ⟨h1, _⟩ := sim_get I scs k scs[k] (List.getElem?_eq_getElem hk)
    simp [h1, mkPing, obsOf, List.getElem?_eq_getElem hk, specOutcome_eq]
  · have h1 : (simFrom I 0 0 scs).length ≤ k := by rw [simFrom_length]; omega
    have h2 : scs.length ≤ k := by omega
    simp [List.getElem?_eq_none h1, obsOf, List.getElem?_eq_none h2]

theorem sim_starts (I : Nat) (scs : List Script) (m : Nat) (hm : m ≤ scs.length) :
    ((simFrom I 0 0 scs).take m).map (·.start) = (List.range m).map (fun j => pingStart I scs (j + 1)) := by
  apply List.ext_getElem?
  intro k
  by_cases hk : k < m
  · have hk' : k < scs.length := by omega
    obtain ⟨h1, _⟩ := sim_get I scs k scs[k] (List.getElem?_eq_getElem hk')
    simp [List.getElem?_take, hk, h1, mkPing, List.getElem?_range hk]
  · simp [List.getElem?_take, hk]

/-! ## The monitor's closing tick is the model's -/

theorem find_range_some (p : Nat → Bool) : ∀ (n k : Nat),
    (List.range n).find? p = some k ↔ k < n ∧ p k = true ∧ ∀ j, j < k → p j = false := by
  intro n
  induction n with
  | zero => intro k; simp
  | succ n ih =>
    intro k
    rw [List.range_succ, List.find?_append]
    cases hf : (List.range n).find? p with
    | some k' =>
      have h' := (ih k').1 hf
      simp only [Option.some_or, Option.some.injEq]
      constructor
      · rintro rfl; exact ⟨by omega, h'.2.1, h'.2.2⟩
      · rintro ⟨h1, h2, h3⟩
        rcases Nat.lt_trichotomy k' k with h | h | h
        · have := h3 k' h; rw [h'.2.1] at this; cases this
        · exact h
        · have := h'.2.2 k h; rw [h2] at this; cases this
    | none =>
      have hnone : ∀ j, j < n → p j = false := by
        intro j hj
        cases hp : p j with
        | false => rfl
        | true =>
          exfalso
          have : ∃ k, (List.range n).find? p = some k := by
            cases hq : (List.range n).find? p with
            | some k => exact ⟨k, rfl⟩
            | none =>
              have := List.find?_eq_none.1 hq j (List.mem_range.2 hj)
              rw [hp] at this; exact absurd rfl this
          obtain ⟨k, hk⟩ := this
          rw [hf] at hk; cases hk
      simp only [Option.none_or, List.find?_cons, List.find?_nil]
      cases hp : p n with
      | true =>
        simp only [Option.some.injEq]
        constructor
        · rintro rfl; exact ⟨by omega, hp, hnone⟩
        · rintro ⟨h1, h2, h3⟩
          rcases Nat.lt_or_ge k n with h | h
          · have := hnone k h; rw [h2] at this; cases this
          · omega
      | false =>
        simp only [reduceCtorEq, false_iff]
        rintro ⟨h1, h2, _⟩
        rcases Nat.lt_or_ge k n with h | h
        · have := hnone k h; rw [h2] at this; cases this
        · have : k = n := by omega
          subst this; rw [hp] at h2; cases h2

theorem find_range_none (p : Nat → Bool) (n : Nat) :
    (List.range n).find? p = none ↔ ∀ j, j < n → p j = false := by
  rw [List.find?_eq_none]
  constructor
  · intro h j hj
    have := h j (List.mem_range.2 hj)
    cases hp : p j with
    | false => rfl
    | true => exact absurd hp this
  · intro h j hj
    rw [h j (List.mem_range.1 hj)]; simp

theorem code_fail (o : Outcome) : (code o == 2) = o.isFail := by cases o <;> rfl
theorem code_mnf (o : Outcome) : (code o == 1) = o.isMnf := by cases o <;> rfl
theorem code_ok (o : Outcome) : (code o == 0) = true ↔ ∃ d, o = .ok d := by
  cases o <;> simp [code]

/-- The window test of the monitor, on outcomes. -/
theorem window_all (T k : Nat) (os : List Outcome) :
    ((((os.map code).take k).drop (k - T)).all (· == 2)) = true ↔
      ∀ o ∈ (os.take k).drop (k - T), o.isFail = true := by
  rw [← List.map_take, ← List.map_drop, List.all_map, List.all_eq_true]
  constructor
  · intro h o ho; have := h o ho; simpa [code_fail] using this
  · intro h o ho; simpa [code_fail] using h o ho

theorem any_mnf (k : Nat) (os : List Outcome) :
    (((os.map code).take k).any (· == 1)) = false ↔ ∀ o ∈ os.take k, o.isMnf = false := by
  rw [← List.map_take, List.any_map, List.any_eq_false]
  constructor
  · intro h o ho; have := h o ho; simpa [code_mnf] using this
  · intro h o ho; simpa [code_mnf] using h o ho

/-- `specCloseTick` finds exactly the tick of `closes_iff_T_consecutive`. -/
theorem specCloseTick_iff (T : Nat) (os : List Outcome) (k : Nat) :
    specCloseTick T (os.map code) = some k ↔
      (T ≤ k ∧ k ≤ os.length ∧ (∀ o ∈ (os.take k).drop (k - T), o.isFail = true) ∧
       (∀ o ∈ os.take k, o.isMnf = false) ∧
       (∀ k', k' < k → T ≤ k' → ∃ o ∈ (os.take k').drop (k' - T), o.isFail = false)) := by
  have hwin : ∀ j, (decide (T ≤ j) && (((os.map code).take j).drop (j - T)).all (· == 2)) = true ↔
      (T ≤ j ∧ ∀ o ∈ (os.take j).drop (j - T), o.isFail = true) := by
    intro j; rw [Bool.and_eq_true, decide_eq_true_iff, window_all]
  have hnwin : ∀ j, T ≤ j → (decide (T ≤ j) && (((os.map code).take j).drop (j - T)).all (· == 2)) = false →
      ∃ o ∈ (os.take j).drop (j - T), o.isFail = false := by
    intro j hTj hf
    apply Classical.byContradiction
    intro hne
    have : ∀ o ∈ (os.take j).drop (j - T), o.isFail = true := by
      intro o ho
      cases hb : o.isFail with
      | true => rfl
      | false => exact absurd ⟨o, ho, hb⟩ hne
    rw [(hwin j).2 ⟨hTj, this⟩] at hf; cases hf
  simp only [specCloseTick, List.length_map]
  constructor
  · intro h
    cases hf : (List.range (os.length + 1)).find?
        (fun k => decide (T ≤ k) && (((os.map code).take k).drop (k - T)).all (· == 2)) with
    | none => rw [hf] at h; cases h
    | some k' =>
      rw [hf] at h
      simp only [] at h
      split at h
      · cases h
      · rename_i hany
        have hkk : k' = k := by injection h
        subst hkk
        obtain ⟨h1, h2, h3⟩ := (find_range_some _ _ _).1 hf
        obtain ⟨w1, w2⟩ := (hwin k').1 h2
        refine ⟨w1, by omega, w2, (any_mnf k' os).1 (by
          cases hb : ((os.map code).take k').any (· == 1) with
          | false => rfl
          | true => exact absurd hb hany), ?_⟩
        intro j hj hTj
        exact hnwin j hTj (h3 j hj)
  · rintro ⟨r1, r2, r3, r4, r5⟩
    have hfind : (List.range (os.length + 1)).find?
        (fun k => decide (T ≤ k) && (((os.map code).take k).drop (k - T)).all (· == 2)) = some k := by
      apply (find_range_some _ _ _).2
      refine ⟨by omega, (hwin k).2 ⟨r1, r3⟩, ?_⟩
      intro j hj
      cases hb : (decide (T ≤ j) && (((os.map code).take j).drop (j - T)).all (· == 2)) with
      | false => rfl
      | true =>
        obtain ⟨w1, w2⟩ := (hwin j).1 hb
        obtain ⟨o, ho, hf⟩ := r5 j hj w1
        rw [w2 o ho] at hf; cases hf
    rw [hfind]
    simp only []
    rw [(any_mnf k os).2 r4]
    simp

/-- The monitor's closing tick, computed on the model's outcomes, is the tick at which the model closes. -/
theorem specCloseTick_model (I : Nat) (t0 : Int) (scs : List Script) :
    specCloseTick (threshold t0) ((obsOf I scs).map code) =
      if (run I t0 scs).status = .closed then some (run I t0 scs).tick else none := by
  cases hk : specCloseTick (threshold t0) ((obsOf I scs).map code) with
  | some k =>
    have := (closes_iff_T_consecutive I t0 scs k).2 ((specCloseTick_iff _ _ _).1 hk)
    simp [this.1, this.2]
  | none =>
    by_cases hc : (run I t0 scs).status = .closed
    · have := (specCloseTick_iff _ _ _).2 ((closes_iff_T_consecutive I t0 scs _).1 ⟨hc, rfl⟩)
      rw [hk] at this; cases this
    · simp [hc]

theorem specT_eq (t0 : Int) : specT t0 = threshold t0 := (threshold_norm t0).symm

/-! ## The tick with which keep-alive has to end -/

theorem findIdx_some {α : Type} (p : α → Bool) : ∀ (l : List α) (i : Nat) (a : α), l[i]? = some a → p a = true →
    (∀ j b, j < i → l[j]? = some b → p b = false) → l.findIdx? p = some i := by
  intro l
  induction l with
  | nil => intro i a h; cases h
  | cons x xs ih =>
    intro i a h hp hlt
    rw [List.findIdx?_cons]
    cases i with
    | zero =>
      simp only [List.getElem?_cons_zero, Option.some.injEq] at h
      subst h; simp [hp]
    | succ i =>
      have hx : p x = false := hlt 0 x (by omega) rfl
      simp only [hx, Bool.false_eq_true, if_false]
      simp only [List.getElem?_cons_succ] at h
      rw [ih i a h hp (fun j b hj hb => hlt (j + 1) b (by omega) (by simpa using hb))]
      rfl

theorem findIdx_none {α : Type} (p : α → Bool) (l : List α) (h : ∀ a ∈ l, p a = false) : l.findIdx? p = none := by
  induction l with
  | nil => rfl
  | cons x xs ih =>
    rw [List.findIdx?_cons, h x (List.mem_cons_self ..)]
    simp [ih (fun a ha => h a (List.mem_cons_of_mem _ ha))]

/-- The monitor's end tick, computed on the model's outcomes, is the number of pings the model issues. -/
theorem endTick_model (I : Nat) (t0 : Int) (scs : List Script) :
    endTick (specCloseTick (threshold t0) ((obsOf I scs).map code)) ((obsOf I scs).map code) = (run I t0 scs).tick := by
  rw [specCloseTick_model]
  obtain ⟨_, hst⟩ := inv_run I t0 scs
  cases hs : (run I t0 scs).status with
  | closed => simp [endTick]
  | running =>
    rw [hs] at hst
    obtain ⟨h1, _, _, h4, _⟩ := hst
    have : ((obsOf I scs).map code).findIdx? (· == 1) = none := by
      apply findIdx_none
      intro a ha
      obtain ⟨o, ho, rfl⟩ := List.mem_map.1 ha
      rw [code_mnf]; exact h4 o ho
    simp [endTick, this, h1]
  | stopped =>
    rw [hs] at hst
    obtain ⟨d, h1, h2, h3, _, _, h6⟩ := hst
    have : ((obsOf I scs).map code).findIdx? (· == 1) = some ((run I t0 scs).tick - 1) := by
      apply findIdx_some _ _ _ 1
      · simp [h3, code]
      · rfl
      · intro j b hj hb
        rw [List.getElem?_map] at hb
        cases ho : (obsOf I scs)[j]? with
        | none => rw [ho] at hb; cases hb
        | some o =>
          rw [ho] at hb; simp only [Option.map_some, Option.some.injEq] at hb
          subst hb
          rw [code_mnf]
          apply h6
          rw [List.mem_take_iff_getElem]
          have hlt := (List.getElem?_eq_some_iff.1 ho).1
          exact ⟨j, by rw [Nat.lt_min]; omega, (List.getElem?_eq_some_iff.1 ho).2⟩
    simp only [endTick, reduceCtorEq, if_false, this]
    omega

/-! ## The clauses on the model's observation -/

/-- The closing clause is silent on the pings and the closing instant of the model. -/
theorem closing_accepts (I : Nat) (t0 : Int) (pre : List Script) :
    closingClause I (threshold t0) (simFrom I 0 0 pre) ((obsOf I pre).map code)
      (specCloseTick (threshold t0) ((obsOf I pre).map code)) (run I t0 pre).pings (run I t0 pre).closeAt.toList = none := by
  rw [specCloseTick_model]
  by_cases hc : (run I t0 pre).status = .closed
  · obtain ⟨c, h1, _, h3, h4, h5, _⟩ := close_time_bound I t0 pre hc
    have hlen : (run I t0 pre).pings.length = (run I t0 pre).tick := by
      rw [(pings_at_pending_ticks I t0 pre).1]; simp
    have htl := run_tick_le_length I t0 pre
    obtain ⟨hs1, hs2⟩ := startOf_sim I pre (run I t0 pre).tick htl
    obtain ⟨hf, hl⟩ := run_free I t0 pre
    rcases run_clock I t0 pre with ⟨h0, _⟩ | ⟨sc, hsc, hk1, hfree, _⟩
    · obtain ⟨_, hst⟩ := inv_run I t0 pre
      rw [hc] at hst
      obtain ⟨d, k1, _⟩ := hst
      omega
    · obtain ⟨g1, _⟩ := sim_get I pre ((run I t0 pre).tick - 1) sc hsc
      simp only [hc, if_true, h1, Option.toList_some, closingClause, hlen, hs1, hs2, ← hl, ← hf, g1,
        Option.map_some, Option.getD_some, mkPing]
      have hc3 : c = (run I t0 pre).free := h3
      have hnot1 : ¬ ((run I t0 pre).tick < (run I t0 pre).tick ∨
          ((run I t0 pre).tick > (run I t0 pre).tick ∧
            (c < (run I t0 pre).last ∨ c ≥ specNext I (run I t0 pre).last (run I t0 pre).free))) := by omega
      simp only [hnot1, if_false]
      have hnot2 : ¬ c < (run I t0 pre).last := by omega
      simp only [hnot2, if_false]
      cases hov : (!sc.honours && decide (specDur I sc > I / 2)) with
      | true =>
        simp only [if_true]
        have : ¬ c > (run I t0 pre).free := by omega
        simp [this]
      | false =>
        simp only [Bool.false_eq_true, if_false]
        have hle : c ≤ (run I t0 pre).last + I / 2 := by
          cases hh : sc.honours with
          | true => exact h5 sc hsc hh
          | false =>
            rw [hh] at hov
            simp only [Bool.not_false, Bool.true_and, decide_eq_false_iff_not] at hov
            rw [hc3, hfree, ← specDur_eq]; omega
        have : ¬ c > (run I t0 pre).last + I / 2 := by omega
        simp [this]
  · have hnone : (run I t0 pre).closeAt = none := by
      obtain ⟨_, hst⟩ := inv_run I t0 pre
      cases hs : (run I t0 pre).status with
      | running => rw [hs] at hst; exact hst.2.2.1
      | stopped => rw [hs] at hst; obtain ⟨d, _, _, _, h4, _⟩ := hst; exact h4
      | closed => exact absurd hs hc
    simp [hc, hnone, closingClause]

/-- The schedule clause is silent on the pings of the model. -/
theorem ticks_accepts (I : Nat) (t0 : Int) (pre : List Script) :
    ticksClause I (simFrom I 0 0 pre) (run I t0 pre).tick (run I t0 pre).pings = none := by
  have h := sim_starts I pre (run I t0 pre).tick (run_tick_le_length I t0 pre)
  simp only [ticksClause, h, ← (pings_at_pending_ticks I t0 pre).1, beq_self_eq_true, if_true]

theorem f30_accepts (I tc : Nat) (sched : List SpecPing) (pings : List Nat) (h : ∀ p ∈ pings, p < tc) :
    f30Shape I tc sched pings = none := by
  simp only [f30Shape]
  cases sched.getLast? with
  | none => rfl
  | some l =>
    simp only []
    split
    · rename_i hc
      obtain ⟨h1, _, h3⟩ := hc
      have := h l.stop (by simpa using h3)
      omega
    · rfl

theorem afterClose_accepts (I tc : Nat) (sched : List SpecPing) (pings : List Nat) (h : ∀ p ∈ pings, p < tc) :
    afterCloseClause I tc sched pings = none := by
  have : pings.find? (· ≥ tc) = none := by
    rw [List.find?_eq_none]
    intro p hp
    have := h p hp
    simp; omega
  simp [afterCloseClause, this]

/-- The shape keepalive-F31 does not occur in the model: when the peer reports ping as unsupported the
loop stops with that ping and does not close. -/
theorem f31_accepts (tm : List Nat) (t0 : Int) (I : Nat) (pre : List Script) :
    f31Shape tm ((obsOf I pre).map code) (specCloseTick (threshold t0) ((obsOf I pre).map code)) (run I t0 pre).tick
      (run I t0 pre).pings (run I t0 pre).closeAt.toList = none := by
  simp only [f31Shape]
  rw [if_neg]
  rintro ⟨h1, h2, _, h4⟩
  rw [specCloseTick_model] at h1
  have hlen : (run I t0 pre).pings.length = (run I t0 pre).tick := by
    rw [(pings_at_pending_ticks I t0 pre).1]; simp
  obtain ⟨_, hst⟩ := inv_run I t0 pre
  cases hs : (run I t0 pre).status with
  | closed => simp [hs] at h1
  | running =>
    rw [hs] at hst
    have : ((obsOf I pre).map code).any (· == 1) = false := by
      rw [List.any_eq_false]
      intro a ha
      obtain ⟨x, hx, rfl⟩ := List.mem_map.1 ha
      rw [code_mnf, hst.2.2.2.1 x hx]; simp
    rw [this] at h2; cases h2
  | stopped =>
    rw [hs] at hst
    obtain ⟨d, _, _, _, h5, _⟩ := hst
    rcases h4 with h4 | h4
    · rw [hlen] at h4; omega
    · rw [h5] at h4; exact h4 rfl

theorem deadline_accepts (I : Nat) (pings : List Nat) : deadlineClause I pings (.all (pingTimeout I)) = none := by
  simp [deadlineClause, pingTimeout]

/-! ## The theorem -/

/-- What `runCancel` keeps of the run over the pings issued before the cancellation. -/
theorem runCancel_fields (I : Nat) (t0 : Int) (scs : List Script) (tc : Nat) :
    (runCancel I t0 scs tc).pings = (run I t0 (scs.take (pingsBefore I tc scs))).pings ∧
    (runCancel I t0 scs tc).closeAt = (run I t0 (scs.take (pingsBefore I tc scs))).closeAt ∧
    ((runCancel I t0 scs tc).status = .closed ↔ (run I t0 (scs.take (pingsBefore I tc scs))).status = .closed) := by
  obtain ⟨_, h2, h3, h4⟩ := (silent_stop I t0 scs).2 tc
  exact ⟨h3, h2, h4⟩

/-- **monitor_accepts_model (scripted loop and real sessions, records `ka` / `kas`).** On the model's
observation of ANY scenario — interval, configured threshold, outcome pattern, cancellation instant —
the monitor raises no clause. -/
theorem monitor_accepts_model_loop (sc : Scenario) (hs : sc.sess = false) (env : Option SessObs) :
    monitor sc (modelObs sc env) = none := by
  obtain ⟨hp, hcl, _⟩ := runCancel_fields sc.I sc.t0 sc.scripts sc.tc
  have hlt := cancel_stops_pings sc.I sc.t0 sc.scripts sc.tc
  have hsched : specSched sc.I sc.tc 0 0 sc.scripts = simFrom sc.I 0 0 (sc.scripts.take (pingsBefore sc.I sc.tc sc.scripts)) :=
    specSched_eq_sim sc.I sc.tc sc.scripts 0 0
  generalize hpre : sc.scripts.take (pingsBefore sc.I sc.tc sc.scripts) = pre at hp hcl hsched
  have hclose := closing_accepts sc.I sc.t0 pre
  have hticks := ticks_accepts sc.I sc.t0 pre
  have hend := endTick_model sc.I sc.t0 pre
  have hf30 := f30_accepts sc.I sc.tc (simFrom sc.I 0 0 pre) _ hlt
  rw [hp] at hf30
  have hf31 := f31_accepts sc.transientMnf sc.t0 sc.I pre
  simp only [monitor, hs, modelObs, hsched, sim_outcomes, specT_eq, hend, hp, hcl, hclose, hticks, hf30, hf31,
    Bool.false_eq_true, if_false, ite_self]
  by_cases hr : sc.real = true ∨ (run sc.I sc.t0 pre).pings.isEmpty = true
  · simp only [hr, if_true]; rfl
  · simp only [hr, if_false, deadline_accepts]; rfl

/-! ## Stream `sessions` -/

/-- The instant at which keep-alive has to have ended, computed by the monitor on the model's
schedule, is the instant at which the model's goroutine returns (`endAt`, or the end of a transport
write that blocks the session's Close). -/
theorem due_model (I : Nat) (t0 : Int) (scs : List Script) (tc : Nat) (wblk : Option Nat) :
    (dueOf tc (simFrom I 0 0 (scs.take (pingsBefore I tc scs))) ((obsOf I (scs.take (pingsBefore I tc scs))).map code)
        (specCloseTick (threshold t0) ((obsOf I (scs.take (pingsBefore I tc scs))).map code))
        (run I t0 (scs.take (pingsBefore I tc scs))).tick wblk).1 =
      max (endAt I t0 scs tc)
        (if (run I t0 (scs.take (pingsBefore I tc scs))).status = .closed then wblk.getD 0 else 0) := by
  generalize hpre : scs.take (pingsBefore I tc scs) = pre
  have hstop : stopOf (simFrom I 0 0 pre) (run I t0 pre).tick = (run I t0 pre).free := by
    rw [(startOf_sim I pre _ (run_tick_le_length I t0 pre)).2, (run_free I t0 pre).1]
  rw [specCloseTick_model]
  obtain ⟨_, hst⟩ := inv_run I t0 pre
  cases hs : (run I t0 pre).status with
  | running =>
    rw [hs] at hst
    have hany : ((obsOf I pre).map code).any (· == 1) = false := by
      rw [List.any_eq_false]
      intro a ha
      obtain ⟨o, ho, rfl⟩ := List.mem_map.1 ha
      rw [code_mnf, hst.2.2.2.1 o ho]; simp
    have he := endAt_running I t0 scs tc (by rw [hpre]; exact hs)
    rw [hpre] at he
    simp [dueOf, hany, hstop, he]
  | closed =>
    have he := endAt_ended I t0 scs tc (by rw [hpre, hs]; simp)
    rw [hpre] at he
    simp [dueOf, hstop, he]
  | stopped =>
    rw [hs] at hst
    obtain ⟨d, h1, h2, h3, _⟩ := hst
    have hany : ((obsOf I pre).map code).any (· == 1) = true := by
      rw [List.any_eq_true]
      refine ⟨1, ?_, rfl⟩
      apply List.mem_map.2
      exact ⟨.mnf d, List.mem_of_getElem? h3, rfl⟩
    have he := endAt_ended I t0 scs tc (by rw [hpre, hs]; simp)
    rw [hpre] at he
    simp [dueOf, hany, hstop, he]

theorem liveClause_model (due : Nat) (why : Why) (raw : String) (t : Nat) :
    liveClause due why raw (if t < due then Live.yes else Live.no) t = none := by
  by_cases h : t < due
  · simp only [h, if_true, liveClause]
    have : ¬ t ≥ due := by omega
    simp [this]
  · simp [h, liveClause]

/-- **monitor_accepts_model (stream `sessions`, records `kss`).** On the model's observation of ANY
session scenario whose observed pings honour their deadline unless their write was blocked (`longClause`
is a check of the given outcome pattern, not of the loop), and whatever the transport did with the
connection as long as it closed it when keep-alive closed the session (`shutClause`: the closing of the
connection is not the loop's and is copied from the implementation's observation), the monitor raises
no clause. -/
theorem monitor_accepts_model_sess (sc : Scenario) (hs : sc.sess = true) (env : Option SessObs)
    (hlong : longClause sc.I sc.scripts = none)
    (hshut : shutClause (env.bind (·.shut)) (env.bind (·.wblk)) (modelObs sc env).closes = none) :
    monitor sc (modelObs sc env) = none := by
  obtain ⟨hp, hcl, hst⟩ := runCancel_fields sc.I sc.t0 sc.scripts sc.tc
  have hlt := cancel_stops_pings sc.I sc.t0 sc.scripts sc.tc
  have hsched : specSched sc.I sc.tc 0 0 sc.scripts = simFrom sc.I 0 0 (sc.scripts.take (pingsBefore sc.I sc.tc sc.scripts)) :=
    specSched_eq_sim sc.I sc.tc sc.scripts 0 0
  have hdue := due_model sc.I sc.t0 sc.scripts sc.tc (env.bind (·.wblk))
  obtain ⟨_, hwarn, hcend⟩ := nothing_after_end sc.I sc.t0 sc.scripts sc.tc
  have hshut2 : shutClause (env.bind (·.shut)) (env.bind (·.wblk)) (runCancel sc.I sc.t0 sc.scripts sc.tc).closeAt.toList = none := hshut
  generalize hpre : sc.scripts.take (pingsBefore sc.I sc.tc sc.scripts) = pre at hp hcl hsched hdue hst
  have hclose := closing_accepts sc.I sc.t0 pre
  have hticks := ticks_accepts sc.I sc.t0 pre
  have hend := endTick_model sc.I sc.t0 pre
  have hf30 := f30_accepts sc.I sc.tc (simFrom sc.I 0 0 pre) _ hlt
  have hafter := afterClose_accepts sc.I sc.tc (simFrom sc.I 0 0 pre) _ hlt
  have hf31 := f31_accepts sc.transientMnf sc.t0 sc.I pre
  rw [hp] at hf30 hafter
  rw [hcl] at hshut2
  have hbeq : ((runCancel sc.I sc.t0 sc.scripts sc.tc).status == Status.closed) =
      decide ((run sc.I sc.t0 pre).status = Status.closed) := by
    cases hb : (runCancel sc.I sc.t0 sc.scripts sc.tc).status == Status.closed with
    | true => simp [hst.1 (by simpa using hb)]
    | false =>
      have : ¬ (run sc.I sc.t0 pre).status = Status.closed := fun h => by
        have := hst.2 h; simp [this] at hb
      simp [this]
  -- the model's `e` is the monitor's `due`
  generalize hdv : (dueOf sc.tc (simFrom sc.I 0 0 pre) (List.map code (obsOf sc.I pre))
      (specCloseTick (threshold sc.t0) (List.map code (obsOf sc.I pre))) (run sc.I sc.t0 pre).tick
      (env.bind (·.wblk))) = dw at hdue
  obtain ⟨due, why⟩ := dw
  simp only at hdue
  have hlogged : loggedClause (warnsCancel sc.I sc.t0 sc.scripts sc.tc) (run sc.I sc.t0 pre).closeAt.toList due why = none := by
    simp only [loggedClause]
    have : (warnsCancel sc.I sc.t0 sc.scripts sc.tc ++ (run sc.I sc.t0 pre).closeAt.toList).find? (· > due) = none := by
      rw [List.find?_eq_none]
      intro w hw
      have hle : w ≤ endAt sc.I sc.t0 sc.scripts sc.tc := by
        rcases List.mem_append.1 hw with h | h
        · exact hwarn w h
        · rw [← hcl] at h
          have := hcend w (by simpa using h)
          omega
      have : endAt sc.I sc.t0 sc.scripts sc.tc ≤ due := by rw [hdue]; exact Nat.le_max_left _ _
      simp; omega
    rw [this]
  simp only [monitor, hs, modelObs, hsched, sim_outcomes, specT_eq, hend, hp, hcl, hclose, hticks, hf30, hf31, hafter,
    hlong, if_true, hbeq, hdv, decide_eq_true_eq, ← hdue, sessClause, hlogged, hshut2, livesClause]
  cases sc.at1 with
  | none =>
    by_cases hr : sc.real = true ∨ (run sc.I sc.t0 pre).pings.isEmpty = true
    · simp only [hr, if_true, liveClause_model]; simp
    · simp only [hr, if_false, deadline_accepts, liveClause_model]; simp
  | some t1 =>
    by_cases hr : sc.real = true ∨ (run sc.I sc.t0 pre).pings.isEmpty = true
    · simp only [hr, if_true, liveClause_model]; simp
    · simp only [hr, if_false, deadline_accepts, liveClause_model]; simp

/-! ## The two hypotheses of the `sessions` bridge are needed, and satisfiable -/

section witnesses
private def wsc (scripts : List Script) : Scenario :=
  { real := false, I := 1000, t0 := 1, scripts := scripts, tc := 5750, sess := true, at2 := 6000 }
private def wenv (shut : Option Nat) : Option SessObs :=
  some { warn := [], shut := shut, live1 := .unsampled, live2 := .no, liveOk := true, liveRaw := "", wblk := none }

/-- An observed ping that lasted longer than half an interval without its write being blocked is
reported whatever the loop did: `longClause` judges the given pattern. -/
theorem long_hypothesis_needed :
    monitor (wsc [{ kind := .answer, delay := some 600 }]) (modelObs (wsc [{ kind := .answer, delay := some 600 }]) (wenv none)) =
      some (.pingLong 0 600 1000) := by decide

/-- When the model closes the session and the transport never closed the connection, the monitor
reports it: `shutClause` judges what the transport did. -/
theorem shut_hypothesis_needed :
    monitor (wsc [{ kind := .answer, delay := none }]) (modelObs (wsc [{ kind := .answer, delay := none }]) (wenv none)) =
      some (.shutNever 1500) := by decide

example : monitor (wsc [{ kind := .answer, delay := none }]) (modelObs (wsc [{ kind := .answer, delay := none }]) (wenv (some 1500))) = none :=
  monitor_accepts_model_sess _ rfl _ (by decide) (by decide)
end witnesses

end KeepAlive
