import McpModel.KeepAlive.Lemmas
/-!
# C13 — property theorems for the keep-alive loop (model: `KeepAlive.run`, `KeepAlive.runCancel`)

Every theorem quantifies over *all* finite lists of ping scripts (answered after d / method-not-found
after d / other error after d / never), all configured thresholds `t0 : Int` (negative and zero
included; `T = threshold t0` is the normalised one) and all intervals `I` (in ns).  Proof shape: the
loop is a fold over the outcomes; the invariant `Inv` (Lemmas) is carried by induction from the
right end of the list.  `os = obsOf I scs` are the outcomes as the loop sees them, `trail l` the
number of failures at the end of `l` (`le_trail_iff`: `T ≤ trail l` iff the last `T` outcomes exist
and all failed).  The literal `I / 2`, the `< 1 → 1` normalisation and the tolerance test in the
statements are checked against the expressions regenerated from mcp/shared.go.
-/
namespace KeepAlive
open Generated.KeepAlive

/-- The regenerated normalisation is `max 1`: thresholds below 1 (0, negative) mean 1. -/
theorem threshold_norm (t0 : Int) : threshold t0 = if t0 < 1 then 1 else t0.toNat := threshold_eq t0

/-- The regenerated ping deadline is half the interval. -/
theorem ping_timeout_half (I : Nat) : pingTimeout I = I / 2 := rfl

/-- The loop stops silently exactly on the JSON-RPC method-not-found error. -/
theorem stop_sentinel : stopSentinel = "jsonrpc2.ErrMethodNotFound" := by decide

/-- Every ping is over before the next tick (so the ticker never drops a tick and "the k-th ping"
is "tick k"): it lasts at most `I / 2 < I`. -/
theorem ping_done_before_next_tick (I : Nat) (hI : 0 < I) (sc : Script) :
    (observe (pingTimeout I) sc).dur ≤ I / 2 ∧ (observe (pingTimeout I) sc).dur < I := by
  have := observe_dur_le (pingTimeout I) sc
  simp only [pingTimeout] at this ⊢
  omega

/-- The state after any script list satisfies the invariant. -/
theorem inv_run (I : Nat) (t0 : Int) (scs : List Script) :
    Inv I (threshold t0) (obsOf I scs) (run I t0 scs) := by
  rw [run_eq_runO]; exact inv_runO I _ (threshold_pos t0) _

/-- **closes_iff_T_consecutive.** The loop calls `Close` at tick `k` if and only if `k` is the least
index such that the `T` outcomes ending at tick `k` are all failures other than method-not-found,
no tick up to `k` reported method-not-found (which would have stopped the loop). -/
theorem closes_iff_T_consecutive (I : Nat) (t0 : Int) (scs : List Script) (k : Nat) :
    ((run I t0 scs).status = .closed ∧ (run I t0 scs).tick = k) ↔
      (threshold t0 ≤ k ∧ k ≤ (obsOf I scs).length ∧
       (∀ o ∈ ((obsOf I scs).take k).drop (k - threshold t0), o.isFail = true) ∧
       (∀ o ∈ (obsOf I scs).take k, o.isMnf = false) ∧
       (∀ k', k' < k → threshold t0 ≤ k' →
          ∃ o ∈ ((obsOf I scs).take k').drop (k' - threshold t0), o.isFail = false)) := by
  have hinv := inv_run I t0 scs
  generalize run I t0 scs = s at hinv
  generalize obsOf I scs = os at hinv
  generalize hT : threshold t0 = T at hinv
  have hTpos : 1 ≤ T := hT ▸ threshold_pos t0
  -- window form of `T ≤ trail (os.take j)` for j ≤ length
  have win : ∀ j, j ≤ os.length →
      (T ≤ trail (os.take j) ↔ T ≤ j ∧ ∀ o ∈ (os.take j).drop (j - T), o.isFail = true) := by
    intro j hj
    rw [le_trail_iff, List.length_take, Nat.min_eq_left hj]
  have nwin : ∀ j, j ≤ os.length → T ≤ j → trail (os.take j) < T →
      ∃ o ∈ (os.take j).drop (j - T), o.isFail = false := by
    intro j hj hTj hlt
    have h : ¬ ∀ o ∈ (os.take j).drop (j - T), o.isFail = true := by
      intro hall
      have := (win j hj).2 ⟨hTj, hall⟩
      omega
    by_cases hex : ∃ o ∈ (os.take j).drop (j - T), o.isFail = false
    · exact hex
    · exfalso; apply h
      intro o ho
      cases hf : o.isFail with
      | true => rfl
      | false => exact absurd ⟨o, ho, hf⟩ hex
  obtain ⟨_, hst⟩ := hinv
  constructor
  · rintro ⟨hc, hk⟩
    rw [hc] at hst
    obtain ⟨d, h1, h2, h3, h4, h5, h6, h7⟩ := hst
    subst hk
    obtain ⟨w1, w2⟩ := (win _ h2).1 h5
    exact ⟨w1, h2, w2, h7, fun k' hk' hTk' => nwin k' (by omega) hTk' (h6 k' hk')⟩
  · rintro ⟨r1, r2, r3, r4, r5⟩
    have hk : T ≤ trail (os.take k) := (win k r2).2 ⟨r1, r3⟩
    have least : ∀ k', k' < k → trail (os.take k') < T := by
      intro k' hk'
      by_cases hTk' : T ≤ k'
      · obtain ⟨o, ho, hf⟩ := r5 k' hk' hTk'
        have : ¬ T ≤ trail (os.take k') := by
          intro hle
          have := ((win k' (by omega)).1 hle).2 o ho
          rw [hf] at this; cases this
        omega
      · have : trail (os.take k') ≤ (os.take k').length := trail_le_length _
        rw [List.length_take] at this
        omega
    cases hs : s.status with
    | running =>
      rw [hs] at hst
      obtain ⟨_, _, _, _, h5⟩ := hst
      have := h5 k r2
      omega
    | closed =>
      rw [hs] at hst
      obtain ⟨d, h1, h2, h3, h4, h5, h6, h7⟩ := hst
      refine ⟨rfl, ?_⟩
      by_cases hlt : s.tick < k
      · have := least _ hlt; omega
      · by_cases hgt : k < s.tick
        · have := h6 k hgt; omega
        · omega
    | stopped =>
      rw [hs] at hst
      obtain ⟨d, h1, h2, h3, h4, h5, h6⟩ := hst
      exfalso
      by_cases hle : s.tick ≤ k
      · -- the method-not-found outcome lies within the first k outcomes
        have hmem : Outcome.mnf d ∈ os.take k := by
          rw [List.mem_take_iff_getElem]
          have hlt : s.tick - 1 < os.length := by omega
          refine ⟨s.tick - 1, by rw [Nat.lt_min]; omega, ?_⟩
          have := List.getElem?_eq_some_iff.1 h3
          obtain ⟨_, h⟩ := this
          exact h
        have := r4 _ hmem
        simp [Outcome.isMnf] at this
      · have := h5 k (by omega); omega

/-- Equivalently: the loop never calls `Close` while every run of consecutive failures is shorter
than the threshold. -/
theorem not_closed_of_short_runs (I : Nat) (t0 : Int) (scs : List Script)
    (h : ∀ k, k ≤ (obsOf I scs).length → trail ((obsOf I scs).take k) < threshold t0) :
    (run I t0 scs).status ≠ .closed ∧ (run I t0 scs).closeAt = none := by
  obtain ⟨_, hst⟩ := inv_run I t0 scs
  cases hs : (run I t0 scs).status with
  | running => rw [hs] at hst; exact ⟨by simp, hst.2.2.1⟩
  | stopped => rw [hs] at hst; obtain ⟨d, _, _, _, h4, _⟩ := hst; exact ⟨by simp, h4⟩
  | closed =>
    rw [hs] at hst
    obtain ⟨d, h1, h2, h3, h4, h5, h6, h7⟩ := hst
    have := h _ h2
    omega

theorem run_snoc (I : Nat) (t0 : Int) (scs : List Script) (sc : Script) :
    run I t0 (scs ++ [sc]) = step I (threshold t0) (run I t0 scs) sc := by
  simp [run, List.foldl_append]

theorem run_append (I : Nat) (t0 : Int) (a b : List Script) :
    run I t0 (a ++ b) = b.foldl (step I (threshold t0)) (run I t0 a) := by
  simp [run, List.foldl_append]

/-- **answer_resets.** An answered ping sets the counter to 0 and keeps the loop running. -/
theorem answer_resets (I : Nat) (t0 : Int) (scs : List Script) (sc : Script) (d : Nat)
    (hr : (run I t0 scs).status = .running) (hok : observe (pingTimeout I) sc = .ok d) :
    (run I t0 (scs ++ [sc])).status = .running ∧ (run I t0 (scs ++ [sc])).fails = 0 ∧
      (run I t0 (scs ++ [sc])).closeAt = (run I t0 scs).closeAt := by
  rw [run_snoc, step_eq_stepO, hok]
  simp [stepO, hr]

/-- Failures below the threshold are tolerated: the counter grows, nothing else happens. -/
theorem misses_tolerated (I T : Nat) (misses : List Script) : ∀ s : St,
    s.status = .running → (∀ m ∈ misses, (observe (pingTimeout I) m).isFail = true) →
    s.fails + misses.length < T →
    (misses.foldl (step I T) s).status = .running ∧
      (misses.foldl (step I T) s).fails = s.fails + misses.length ∧
      (misses.foldl (step I T) s).closeAt = s.closeAt := by
  induction misses with
  | nil => intro s hr _ _; simp [hr]
  | cons m t ih =>
    intro s hr hm hlt
    have hf := hm m (by simp)
    simp only [List.length_cons] at hlt
    have hstep : (step I T s m).status = .running ∧ (step I T s m).fails = s.fails + 1 ∧
        (step I T s m).closeAt = s.closeAt := by
      rw [step_eq_stepO]
      cases ho : observe (pingTimeout I) m with
      | ok d => rw [ho] at hf; cases hf
      | mnf d => rw [ho] at hf; cases hf
      | fail d =>
        have : s.fails + 1 < T := by omega
        simp [stepO, hr, this]
    obtain ⟨h1, h2, h3⟩ := hstep
    obtain ⟨i1, i2, i3⟩ := ih (step I T s m) h1 (fun x hx => hm x (by simp [hx])) (by omega)
    simp only [List.foldl_cons]
    exact ⟨i1, by rw [i2, h2, List.length_cons]; omega, by rw [i3, h3]⟩

/-- **answer_resets, as the property words it.** A peer that answers after fewer than `T`
consecutive misses is not closed: after the answer the loop is running with a zero counter and
`Close` has not been called. -/
theorem answer_after_misses_keeps_alive (I : Nat) (t0 : Int) (pre misses : List Script)
    (sc : Script) (d : Nat) (hr : (run I t0 pre).status = .running)
    (hm : ∀ m ∈ misses, (observe (pingTimeout I) m).isFail = true)
    (hlt : (run I t0 pre).fails + misses.length < threshold t0)
    (hok : observe (pingTimeout I) sc = .ok d) :
    (run I t0 (pre ++ misses ++ [sc])).status = .running ∧
      (run I t0 (pre ++ misses ++ [sc])).fails = 0 ∧
      (run I t0 (pre ++ misses ++ [sc])).closeAt = none := by
  have hpre : (run I t0 pre).closeAt = none := by
    obtain ⟨_, hst⟩ := inv_run I t0 pre
    rw [hr] at hst; exact hst.2.2.1
  obtain ⟨m1, m2, m3⟩ := misses_tolerated I (threshold t0) misses (run I t0 pre) hr hm hlt
  have hmid : run I t0 (pre ++ misses) = misses.foldl (step I (threshold t0)) (run I t0 pre) :=
    run_append I t0 pre misses
  obtain ⟨a1, a2, a3⟩ := answer_resets I t0 (pre ++ misses) sc d (by rw [hmid]; exact m1) hok
  exact ⟨a1, a2, by rw [a3, hmid, m3, hpre]⟩

/-- **close_time_bound.** If the loop closes the session at tick `k`, then `T ≤ k`, the first miss of
the failing run was the ping of tick `k + 1 - T`, issued at `(k + 1 - T)·I`, and `Close` is called
at an instant `c` with `k·I ≤ c ≤ k·I + I/2`: i.e. within `T - 1` further intervals plus one ping
timeout (`I/2`) of that first miss, and strictly before tick `k + 1`. -/
theorem close_time_bound (I : Nat) (t0 : Int) (scs : List Script)
    (hc : (run I t0 scs).status = .closed) :
    ∃ c, (run I t0 scs).closeAt = some c ∧ threshold t0 ≤ (run I t0 scs).tick ∧
      (run I t0 scs).tick * I ≤ c ∧ c ≤ (run I t0 scs).tick * I + I / 2 ∧
      c ≤ ((run I t0 scs).tick + 1 - threshold t0) * I + (threshold t0 - 1) * I + I / 2 ∧
      (0 < I → c < ((run I t0 scs).tick + 1) * I) := by
  obtain ⟨_, hst⟩ := inv_run I t0 scs
  rw [hc] at hst
  obtain ⟨d, h1, h2, h3, h4, h5, h6, h7⟩ := hst
  generalize (run I t0 scs).tick = k at *
  have hTk : threshold t0 ≤ k := by
    have := trail_le_length ((obsOf I scs).take k)
    rw [List.length_take] at this
    omega
  have hd : d ≤ I / 2 := by
    have hmem : Outcome.fail d ∈ obsOf I scs := List.mem_of_getElem? h3
    simp only [obsOf, List.mem_map] at hmem
    obtain ⟨sc, _, hsc⟩ := hmem
    have := observe_dur_le (pingTimeout I) sc
    rw [hsc] at this
    simpa [Outcome.dur, pingTimeout] using this
  have hsum : (k + 1 - threshold t0) * I + (threshold t0 - 1) * I = k * I := by
    rw [← Nat.add_mul]
    have hpos := threshold_pos t0
    congr 1; omega
  refine ⟨k * I + d, h4, hTk, by omega, by omega, by omega, ?_⟩
  intro hI
  rw [Nat.add_mul]; omega

/-- Once the goroutine has returned nothing happens any more: no further ping, no second `Close`. -/
theorem terminal_absorbing (I T : Nat) (s : St) (sc : Script) (h : s.status ≠ .running) :
    step I T s sc = s := by
  unfold step
  cases hs : s.status with
  | running => exact absurd hs h
  | closed => rfl
  | stopped => rfl

/-- **silent_stop.** (1) If the loop ended without closing, it ended on a method-not-found outcome and
`Close` was never called.  (2) Cancellation (`*cancelPtr`, called by the sessions' `Close`) always
ends the loop and never closes anything by itself: with cancellation at `tc` the loop closes iff it
would have closed on the ticks before `tc`, at the same instant, after the same pings.  (That the
ticker is stopped and the goroutine returns in every terminal state is the structural fact
`keepalive.goroutine` — `defer ticker.Stop()`, every exit is a `return` — and is observed by the
harness: goroutine count and no activity after the end.) -/
theorem silent_stop (I : Nat) (t0 : Int) (scs : List Script) :
    ((run I t0 scs).status = .stopped →
      (run I t0 scs).closeAt = none ∧
      ∃ d, (obsOf I scs)[(run I t0 scs).tick - 1]? = some (.mnf d)) ∧
    (∀ tc, (runCancel I t0 scs tc).status ≠ .running ∧
      (runCancel I t0 scs tc).closeAt = (run I t0 (scs.take (ticksBefore I tc))).closeAt ∧
      (runCancel I t0 scs tc).pings = (run I t0 (scs.take (ticksBefore I tc))).pings ∧
      ((runCancel I t0 scs tc).status = .closed ↔
        (run I t0 (scs.take (ticksBefore I tc))).status = .closed)) := by
  constructor
  · intro hs
    obtain ⟨_, hst⟩ := inv_run I t0 scs
    rw [hs] at hst
    obtain ⟨d, _, _, h3, h4, _⟩ := hst
    exact ⟨h4, d, h3⟩
  · intro tc
    unfold runCancel
    cases hs : (run I t0 (scs.take (ticksBefore I tc))).status <;> simp [hs]

/-- **pings_at_ticks.** The loop pings exactly at the ticks `I, 2I, …, m·I` it has consumed, at most
one per script. -/
theorem pings_at_ticks (I : Nat) (t0 : Int) (scs : List Script) :
    (run I t0 scs).pings = tickTimes I (run I t0 scs).tick ∧ (run I t0 scs).tick ≤ scs.length := by
  obtain ⟨hp, hst⟩ := inv_run I t0 scs
  refine ⟨hp, ?_⟩
  have hlen : (obsOf I scs).length = scs.length := by simp [obsOf]
  cases hs : (run I t0 scs).status with
  | running => rw [hs] at hst; omega
  | closed => rw [hs] at hst; obtain ⟨d, _, h2, _⟩ := hst; omega
  | stopped => rw [hs] at hst; obtain ⟨d, _, h2, _⟩ := hst; omega

/-! ## Non-vacuity -/

private def miss : Script := { kind := .answer, delay := none }
private def ans (d : Nat) : Script := { kind := .answer, delay := some d }

-- threshold 2, interval 1000: miss, answer, miss, miss → closed at tick 4, at 4·1000 + 500
example : (run 1000 2 [miss, ans 7, miss, miss, ans 1]).closeAt = some 4500 := by decide
example : (run 1000 2 [miss, ans 7, miss, miss, ans 1]).tick = 4 := by decide
-- threshold 0 means 1: the first failure closes; a slow error (≥ I/2) counts as a timeout
example : (run 1000 0 [ans 499, ⟨.error, some 500⟩]).closeAt = some 2500 := by decide
-- alternating miss/answer never closes with threshold 2
example : (run 1000 2 [miss, ans 0, miss, ans 0, miss]).status = .running := by decide
-- method-not-found stops silently, later failures are not even pinged
example : (run 1000 1 [⟨.mnf, some 3⟩, miss]) =
    { status := .stopped, fails := 0, tick := 1, pings := [1000], closeAt := none } := by decide
-- cancellation between tick 1 and tick 2 (at 1700): the second miss is never pinged
example : (runCancel 1000 2 [miss, miss] 1700).status = .stopped ∧
    (runCancel 1000 2 [miss, miss] 1700).pings = [1000] := by decide

end KeepAlive
