import McpModel.KeepAlive.Lemmas
/-!
# C13 — property theorems for the keep-alive loop (model: `KeepAlive.run`, `KeepAlive.runCancel`)

Every theorem quantifies over *all* finite lists of ping scripts (answered after d / method-not-found
after d / other error after d / never), all configured thresholds `t0 : Int` (negative and zero
included; `T = threshold t0` is the normalised one) and all intervals `I` (in ns).  Proof shape: the
loop is a fold over the outcomes; the invariant `Inv` (Lemmas) is carried by induction from the
right end of the list.  `os = obsOf I scs` are the outcomes as the loop sees them, `trail l` the
number of failures at the end of `l` (`le_trail_iff`: `T ≤ trail l` iff the last `T` outcomes exist
and all failed).  The literal `I / 2`, the `< 1 → 1` normalisation and the tolerance test in the
statements are checked against the expressions regenerated from mcp/shared.go.

A script may describe a ping that OVERRUNS its deadline (`honours = false`: its write is blocked for
as long as the peer does not read).  The decisions of the loop (`closes_iff_T_consecutive`,
`answer_resets`, …) do not depend on how long pings last; the instants do: the general schedule is
`pings_at_pending_ticks`, the statements in terms of the tick grid (`pings_at_ticks`,
`close_time_bound`, `cancel_ends_promptly`) carry the hypothesis that the pings concerned honour their
context, and `overrun_does_not_poison_next_ping` says what an overrun must not do.
-/
namespace KeepAlive
open Generated.KeepAlive

/-- The regenerated normalisation is `max 1`: thresholds below 1 (0, negative) mean 1. -/
theorem threshold_norm (t0 : Int) : threshold t0 = if t0 < 1 then 1 else t0.toNat := threshold_eq t0

/-- The regenerated ping deadline is half the interval. -/
theorem ping_timeout_half (I : Nat) : pingTimeout I = I / 2 := rfl

/-- The loop stops silently exactly on the JSON-RPC method-not-found error. -/
theorem stop_sentinel : stopSentinel = "jsonrpc2.ErrMethodNotFound" := by decide

/-- Every ping that honours its context is over before the next tick (so the ticker never drops a
tick and "the k-th ping" is "tick k"): it lasts at most `I / 2 < I`. -/
theorem ping_done_before_next_tick (I : Nat) (hI : 0 < I) (sc : Script) (hh : sc.honours = true) :
    (observe (pingTimeout I) sc).dur ≤ I / 2 ∧ (observe (pingTimeout I) sc).dur < I := by
  have := observe_dur_le (pingTimeout I) sc hh
  simp only [pingTimeout] at this ⊢
  omega

/-- The state after any script list satisfies the invariant. -/
theorem inv_run (I : Nat) (t0 : Int) (scs : List Script) :
    Inv I (threshold t0) (obsOf I scs) (run I t0 scs) := by
  rw [run_eq_runO]; exact inv_runO I _ (threshold_pos t0) _

/-- **closes_iff_T_consecutive.** The loop calls `Close` at tick `k` if and only if `k` is the least
index such that the `T` outcomes ending at tick `k` are all failures other than method-not-found,
no tick up to `k` reported method-not-found (which would have stopped the loop). -/
theorem closes_iff_T_consecutive (I : Nat) (t0 : Int) (scs : List Script) (k : Nat) :
    ((run I t0 scs).status = .closed ∧ (run I t0 scs).tick = k) ↔
      (threshold t0 ≤ k ∧ k ≤ (obsOf I scs).length ∧
       (∀ o ∈ ((obsOf I scs).take k).drop (k - threshold t0), o.isFail = true) ∧
       (∀ o ∈ (obsOf I scs).take k, o.isMnf = false) ∧
       (∀ k', k' < k → threshold t0 ≤ k' →
          ∃ o ∈ ((obsOf I scs).take k').drop (k' - threshold t0), o.isFail = false)) := by
  have hinv := inv_run I t0 scs
  generalize run I t0 scs = s at hinv
  generalize obsOf I scs = os at hinv
  generalize hT : threshold t0 = T at hinv
  have hTpos : 1 ≤ T := hT ▸ threshold_pos t0
  -- window form of `T ≤ trail (os.take j)` for j ≤ length
  have win : ∀ j, j ≤ os.length →
      (T ≤ trail (os.take j) ↔ T ≤ j ∧ ∀ o ∈ (os.take j).drop (j - T), o.isFail = true) := by
    intro j hj
    rw [le_trail_iff, List.length_take, Nat.min_eq_left hj]
  have nwin : ∀ j, j ≤ os.length → T ≤ j → trail (os.take j) < T →
      ∃ o ∈ (os.take j).drop (j - T), o.isFail = false := by
    intro j hj hTj hlt
    have h : ¬ ∀ o ∈ (os.take j).drop (j - T), o.isFail = true := by
      intro hall
      have := (win j hj).2 ⟨hTj, hall⟩
      omega
    by_cases hex : ∃ o ∈ (os.take j).drop (j - T), o.isFail = false
    · exact hex
    · exfalso; apply h
      intro o ho
      cases hf : o.isFail with
      | true => rfl
      | false => exact absurd ⟨o, ho, hf⟩ hex
  obtain ⟨_, hst⟩ := hinv
  constructor
  · rintro ⟨hc, hk⟩
    rw [hc] at hst
    obtain ⟨d, h1, h2, h3, h4, h5, h6, h7⟩ := hst
    subst hk
    obtain ⟨w1, w2⟩ := (win _ h2).1 h5
    exact ⟨w1, h2, w2, h7, fun k' hk' hTk' => nwin k' (by omega) hTk' (h6 k' hk')⟩
  · rintro ⟨r1, r2, r3, r4, r5⟩
    have hk : T ≤ trail (os.take k) := (win k r2).2 ⟨r1, r3⟩
    have least : ∀ k', k' < k → trail (os.take k') < T := by
      intro k' hk'
      by_cases hTk' : T ≤ k'
      · obtain ⟨o, ho, hf⟩ := r5 k' hk' hTk'
        have : ¬ T ≤ trail (os.take k') := by
          intro hle
          have := ((win k' (by omega)).1 hle).2 o ho
          rw [hf] at this; cases this
        omega
      · have : trail (os.take k') ≤ (os.take k').length := trail_le_length _
        rw [List.length_take] at this
        omega
    cases hs : s.status with
    | running =>
      rw [hs] at hst
      obtain ⟨_, _, _, _, h5⟩ := hst
      have := h5 k r2
      omega
    | closed =>
      rw [hs] at hst
      obtain ⟨d, h1, h2, h3, h4, h5, h6, h7⟩ := hst
      refine ⟨rfl, ?_⟩
      by_cases hlt : s.tick < k
      · have := least _ hlt; omega
      · by_cases hgt : k < s.tick
        · have := h6 k hgt; omega
        · omega
    | stopped =>
      rw [hs] at hst
      obtain ⟨d, h1, h2, h3, h4, h5, h6⟩ := hst
      exfalso
      by_cases hle : s.tick ≤ k
      · -- the method-not-found outcome lies within the first k outcomes
        have hmem : Outcome.mnf d ∈ os.take k := by
          rw [List.mem_take_iff_getElem]
          have hlt : s.tick - 1 < os.length := by omega
          refine ⟨s.tick - 1, by rw [Nat.lt_min]; omega, ?_⟩
          have := List.getElem?_eq_some_iff.1 h3
          obtain ⟨_, h⟩ := this
          exact h
        have := r4 _ hmem
        simp [Outcome.isMnf] at this
      · have := h5 k (by omega); omega

/-- Equivalently: the loop never calls `Close` while every run of consecutive failures is shorter
than the threshold. -/
theorem not_closed_of_short_runs (I : Nat) (t0 : Int) (scs : List Script)
    (h : ∀ k, k ≤ (obsOf I scs).length → trail ((obsOf I scs).take k) < threshold t0) :
    (run I t0 scs).status ≠ .closed ∧ (run I t0 scs).closeAt = none := by
  obtain ⟨_, hst⟩ := inv_run I t0 scs
  cases hs : (run I t0 scs).status with
  | running => rw [hs] at hst; exact ⟨by simp, hst.2.2.1⟩
  | stopped => rw [hs] at hst; obtain ⟨d, _, _, _, h4, _⟩ := hst; exact ⟨by simp, h4⟩
  | closed =>
    rw [hs] at hst
    obtain ⟨d, h1, h2, h3, h4, h5, h6, h7⟩ := hst
    have := h _ h2
    omega

theorem run_snoc (I : Nat) (t0 : Int) (scs : List Script) (sc : Script) :
    run I t0 (scs ++ [sc]) = step I (threshold t0) (run I t0 scs) sc := by
  simp [run, List.foldl_append]

theorem run_append (I : Nat) (t0 : Int) (a b : List Script) :
    run I t0 (a ++ b) = b.foldl (step I (threshold t0)) (run I t0 a) := by
  simp [run, List.foldl_append]

/-- **answer_resets.** An answered ping sets the counter to 0 and keeps the loop running. -/
theorem answer_resets (I : Nat) (t0 : Int) (scs : List Script) (sc : Script) (d : Nat)
    (hr : (run I t0 scs).status = .running) (hok : observe (pingTimeout I) sc = .ok d) :
    (run I t0 (scs ++ [sc])).status = .running ∧ (run I t0 (scs ++ [sc])).fails = 0 ∧
      (run I t0 (scs ++ [sc])).closeAt = (run I t0 scs).closeAt := by
  rw [run_snoc, step_eq_stepO, hok]
  simp [stepO, hr]

/-- Failures below the threshold are tolerated: the counter grows, nothing else happens. -/
theorem misses_tolerated (I T : Nat) (misses : List Script) : ∀ s : St,
    s.status = .running → (∀ m ∈ misses, (observe (pingTimeout I) m).isFail = true) →
    s.fails + misses.length < T →
    (misses.foldl (step I T) s).status = .running ∧
      (misses.foldl (step I T) s).fails = s.fails + misses.length ∧
      (misses.foldl (step I T) s).closeAt = s.closeAt := by
  induction misses with
  | nil => intro s hr _ _; simp [hr]
  | cons m t ih =>
    intro s hr hm hlt
    have hf := hm m (by simp)
    simp only [List.length_cons] at hlt
    have hstep : (step I T s m).status = .running ∧ (step I T s m).fails = s.fails + 1 ∧
        (step I T s m).closeAt = s.closeAt := by
      rw [step_eq_stepO]
      cases ho : observe (pingTimeout I) m with
      | ok d => rw [ho] at hf; cases hf
      | mnf d => rw [ho] at hf; cases hf
      | fail d =>
        have : s.fails + 1 < T := by omega
        simp [stepO, hr, this]
    obtain ⟨h1, h2, h3⟩ := hstep
    obtain ⟨i1, i2, i3⟩ := ih (step I T s m) h1 (fun x hx => hm x (by simp [hx])) (by omega)
    simp only [List.foldl_cons]
    exact ⟨i1, by rw [i2, h2, List.length_cons]; omega, by rw [i3, h3]⟩

/-- **answer_resets, as the property words it.** A peer that answers after fewer than `T`
consecutive misses is not closed: after the answer the loop is running with a zero counter and
`Close` has not been called. -/
theorem answer_after_misses_keeps_alive (I : Nat) (t0 : Int) (pre misses : List Script)
    (sc : Script) (d : Nat) (hr : (run I t0 pre).status = .running)
    (hm : ∀ m ∈ misses, (observe (pingTimeout I) m).isFail = true)
    (hlt : (run I t0 pre).fails + misses.length < threshold t0)
    (hok : observe (pingTimeout I) sc = .ok d) :
    (run I t0 (pre ++ misses ++ [sc])).status = .running ∧
      (run I t0 (pre ++ misses ++ [sc])).fails = 0 ∧
      (run I t0 (pre ++ misses ++ [sc])).closeAt = none := by
  have hpre : (run I t0 pre).closeAt = none := by
    obtain ⟨_, hst⟩ := inv_run I t0 pre
    rw [hr] at hst; exact hst.2.2.1
  obtain ⟨m1, m2, m3⟩ := misses_tolerated I (threshold t0) misses (run I t0 pre) hr hm hlt
  have hmid : run I t0 (pre ++ misses) = misses.foldl (step I (threshold t0)) (run I t0 pre) :=
    run_append I t0 pre misses
  obtain ⟨a1, a2, a3⟩ := answer_resets I t0 (pre ++ misses) sc d (by rw [hmid]; exact m1) hok
  exact ⟨a1, a2, by rw [a3, hmid, m3, hpre]⟩

/-- How the state's clock relates to the served pings: either nothing was pinged yet, or the last
ping was issued at `last`, one of `pings`, and ended at `free = last + (its duration)`. -/
theorem run_clock (I : Nat) (t0 : Int) (scs : List Script) :
    ((run I t0 scs).tick = 0 ∧ (run I t0 scs).free = 0 ∧ (run I t0 scs).last = 0) ∨
    ∃ sc, scs[(run I t0 scs).tick - 1]? = some sc ∧ 1 ≤ (run I t0 scs).tick ∧
      (run I t0 scs).free = (run I t0 scs).last + (observe (pingTimeout I) sc).dur ∧
      (run I t0 scs).last ∈ (run I t0 scs).pings := by
  obtain ⟨⟨hp, hl, hf⟩, hst⟩ := inv_run I t0 scs
  have htl : (run I t0 scs).tick ≤ (obsOf I scs).length := by
    cases hs : (run I t0 scs).status with
    | running => rw [hs] at hst; omega
    | closed => rw [hs] at hst; obtain ⟨d, _, h2, _⟩ := hst; omega
    | stopped => rw [hs] at hst; obtain ⟨d, _, h2, _⟩ := hst; omega
  generalize (run I t0 scs).tick = k at *
  cases k with
  | zero => left; simp [hl, hf, pStart_zero]
  | succ j =>
    right
    have hlen : (obsOf I scs).length = scs.length := by simp [obsOf]
    have hj : j < scs.length := by omega
    refine ⟨scs[j], by simp [List.getElem?_eq_getElem hj], by omega, ?_, ?_⟩
    · have ho : (obsOf I scs)[j]? = some (observe (pingTimeout I) scs[j]) := by
        simp [obsOf, List.getElem?_eq_getElem hj]
      rw [hl, hf]; exact (pStart_succ I _ j _ ho).2
    · rw [hp, tm_pings, hl]
      simp only [List.mem_map, List.mem_range, List.length_take]
      refine ⟨j, by omega, ?_⟩
      unfold pStart
      rw [List.take_take, Nat.min_self]

/-- The pings of a run whose scripts all last less than an interval (in particular: that all honour
their context) are issued exactly on the ticks. -/
theorem run_on_grid (I : Nat) (hI : 0 < I) (t0 : Int) (scs : List Script)
    (hh : ∀ sc ∈ scs, (observe (pingTimeout I) sc).dur < I) :
    (run I t0 scs).pings = tickTimes I (run I t0 scs).tick ∧
      (run I t0 scs).last = (run I t0 scs).tick * I := by
  obtain ⟨⟨hp, hl, _⟩, hst⟩ := inv_run I t0 scs
  have htl : (run I t0 scs).tick ≤ (obsOf I scs).length := by
    cases hs : (run I t0 scs).status with
    | running => rw [hs] at hst; omega
    | closed => rw [hs] at hst; obtain ⟨d, _, h2, _⟩ := hst; omega
    | stopped => rw [hs] at hst; obtain ⟨d, _, h2, _⟩ := hst; omega
  have hshort : ∀ o ∈ obsOf I scs, o.dur < I := by
    intro o ho
    simp only [obsOf, List.mem_map] at ho
    obtain ⟨sc, hsc, rfl⟩ := ho
    exact hh sc hsc
  refine ⟨?_, by rw [hl]; exact (pStart_grid I hI _ hshort _ htl).1⟩
  rw [hp, tm_pings]
  simp only [tickTimes, List.length_take, Nat.min_eq_left htl]
  apply List.map_congr_left
  intro j hj
  have hj' : j < (run I t0 scs).tick := by simpa using hj
  have hshort' : ∀ o ∈ (obsOf I scs).take (run I t0 scs).tick, o.dur < I :=
    fun o ho => hshort o (List.mem_of_mem_take ho)
  exact (pStart_grid I hI _ hshort' (j + 1) (by rw [List.length_take]; omega)).1

theorem honours_short (I : Nat) (hI : 0 < I) (scs : List Script) (hh : ∀ sc ∈ scs, sc.honours = true) :
    ∀ sc ∈ scs, (observe (pingTimeout I) sc).dur < I :=
  fun sc hsc => (ping_done_before_next_tick I hI sc (hh sc hsc)).2

/-- **close_time_bound.** If the loop closes the session with ping `k` (the `T`-th consecutive miss;
`T ≤ k`), `Close` is called when that ping is over: at `c = last + (its duration)`, `last` being the
instant it was issued; when that ping honoured its context, at most one ping timeout (`I/2`) after
`last`.  When all pings honour their context the closing ping is the one of tick `k`, the first miss of
the failing run was the ping of tick `k + 1 - T`, issued at `(k + 1 - T)·I`, and
`k·I ≤ c ≤ k·I + I/2`: i.e. within `T - 1` further intervals plus one ping timeout of that first
miss, and strictly before tick `k + 1`. -/
theorem close_time_bound (I : Nat) (t0 : Int) (scs : List Script)
    (hc : (run I t0 scs).status = .closed) :
    ∃ c, (run I t0 scs).closeAt = some c ∧ threshold t0 ≤ (run I t0 scs).tick ∧
      c = (run I t0 scs).free ∧ (run I t0 scs).last ≤ c ∧
      (∀ sc, scs[(run I t0 scs).tick - 1]? = some sc → sc.honours = true →
        c ≤ (run I t0 scs).last + I / 2) ∧
      ((∀ sc ∈ scs, sc.honours = true) → 0 < I →
        (run I t0 scs).last = (run I t0 scs).tick * I ∧
        (run I t0 scs).tick * I ≤ c ∧ c ≤ (run I t0 scs).tick * I + I / 2 ∧
        c ≤ ((run I t0 scs).tick + 1 - threshold t0) * I + (threshold t0 - 1) * I + I / 2 ∧
        c < ((run I t0 scs).tick + 1) * I) := by
  have hclk := run_clock I t0 scs
  obtain ⟨_, hst⟩ := inv_run I t0 scs
  rw [hc] at hst
  obtain ⟨d, h1, h2, h3, h4, h5, h6, h7⟩ := hst
  have hTk : threshold t0 ≤ (run I t0 scs).tick := by
    have := trail_le_length ((obsOf I scs).take (run I t0 scs).tick)
    rw [List.length_take] at this
    omega
  rcases hclk with ⟨h0, _⟩ | ⟨sc, hsc, _, hfree, _⟩
  · omega
  have hod : observe (pingTimeout I) sc = .fail d := by
    simp only [obsOf, List.getElem?_map, hsc, Option.map_some, Option.some.injEq] at h3
    exact h3
  have hfd : (run I t0 scs).free = (run I t0 scs).last + d := by rw [hfree, hod]; rfl
  have hhon : ∀ sc', scs[(run I t0 scs).tick - 1]? = some sc' → sc'.honours = true →
      (run I t0 scs).last + d ≤ (run I t0 scs).last + I / 2 := by
    intro sc' hsc' hh'
    rw [hsc] at hsc'
    injection hsc' with hsc'
    subst hsc'
    have := observe_dur_le (pingTimeout I) sc hh'
    rw [hod] at this
    simp only [Outcome.dur, pingTimeout] at this
    omega
  refine ⟨(run I t0 scs).last + d, h4, hTk, hfd.symm, by omega, hhon, ?_⟩
  intro hall hI
  have hgrid := (run_on_grid I hI t0 scs (honours_short I hI scs hall)).2
  have hd := hhon sc hsc (hall sc (List.mem_of_getElem? hsc))
  generalize (run I t0 scs).tick = k at *
  have hsum : (k + 1 - threshold t0) * I + (threshold t0 - 1) * I = k * I := by
    rw [← Nat.add_mul]
    have hpos := threshold_pos t0
    congr 1; omega
  refine ⟨hgrid, by omega, by omega, by omega, ?_⟩
  rw [Nat.add_mul]; omega

/-- Once the goroutine has returned nothing happens any more: no further ping, no second `Close`. -/
theorem terminal_absorbing (I T : Nat) (s : St) (sc : Script) (h : s.status ≠ .running) :
    step I T s sc = s := by
  unfold step
  cases hs : s.status with
  | running => exact absurd hs h
  | closed => rfl
  | stopped => rfl

/-- **silent_stop.** (1) If the loop ended without closing, it ended on a method-not-found outcome and
`Close` was never called.  (2) Cancellation (`*cancelPtr`, called by the sessions' `Close`) always
ends the loop and never closes anything by itself: with cancellation at `tc` the loop closes iff it
would have closed on the pings issued before `tc`, at the same instant, after the same pings.  (That
the ticker is stopped and the goroutine returns in every terminal state is the structural fact
`keepalive.goroutine` — `defer ticker.Stop()`, every exit is a `return` — and is observed by the
harness: goroutine count and no activity after the end.) -/
theorem silent_stop (I : Nat) (t0 : Int) (scs : List Script) :
    ((run I t0 scs).status = .stopped →
      (run I t0 scs).closeAt = none ∧
      ∃ d, (obsOf I scs)[(run I t0 scs).tick - 1]? = some (.mnf d)) ∧
    (∀ tc, (runCancel I t0 scs tc).status ≠ .running ∧
      (runCancel I t0 scs tc).closeAt = (run I t0 (scs.take (pingsBefore I tc scs))).closeAt ∧
      (runCancel I t0 scs tc).pings = (run I t0 (scs.take (pingsBefore I tc scs))).pings ∧
      ((runCancel I t0 scs tc).status = .closed ↔
        (run I t0 (scs.take (pingsBefore I tc scs))).status = .closed)) := by
  constructor
  · intro hs
    obtain ⟨_, hst⟩ := inv_run I t0 scs
    rw [hs] at hst
    obtain ⟨d, _, _, h3, h4, _⟩ := hst
    exact ⟨h4, d, h3⟩
  · intro tc
    unfold runCancel
    cases hs : (run I t0 (scs.take (pingsBefore I tc scs))).status <;> simp [hs]

theorem run_tick_le_length (I : Nat) (t0 : Int) (scs : List Script) :
    (run I t0 scs).tick ≤ scs.length := by
  obtain ⟨_, hst⟩ := inv_run I t0 scs
  have hlen : (obsOf I scs).length = scs.length := by simp [obsOf]
  cases hs : (run I t0 scs).status with
  | running => rw [hs] at hst; omega
  | closed => rw [hs] at hst; obtain ⟨d, _, h2, _⟩ := hst; omega
  | stopped => rw [hs] at hst; obtain ⟨d, _, h2, _⟩ := hst; omega

/-- **pings_at_ticks.** When every ping honours its context, the loop pings exactly at the ticks
`I, 2I, …, m·I` it has consumed; in any case at most one ping per script. -/
theorem pings_at_ticks (I : Nat) (t0 : Int) (scs : List Script) :
    ((∀ sc ∈ scs, sc.honours = true) → 0 < I →
      (run I t0 scs).pings = tickTimes I (run I t0 scs).tick) ∧
    (run I t0 scs).tick ≤ scs.length :=
  ⟨fun hh hI => (run_on_grid I hI t0 scs (honours_short I hI scs hh)).1, run_tick_le_length I t0 scs⟩

/-- **pings_at_pending_ticks** — the schedule in general (pings may overrun their deadline).  The
loop's pings are the first `m` pings of the schedule `pingStart`/`pingEnd`, where ping `k+1` is
issued at the first tick of the grid after ping `k` was issued — or, if ping `k` was still in flight
then, the moment ping `k` ends (the ticker keeps one tick pending and drops the others) — and ends
after its duration.  So: never two pings at once, never more than one ping per tick, after an overrun
the pending tick is served at once and the following pings are on the grid again. -/
theorem pings_at_pending_ticks (I : Nat) (t0 : Int) (scs : List Script) :
    (run I t0 scs).pings = (List.range (run I t0 scs).tick).map (fun j => pingStart I scs (j + 1)) ∧
    pingStart I scs 0 = 0 ∧ pingEnd I scs 0 = 0 ∧
    (∀ k sc, scs[k]? = some sc →
      pingStart I scs (k + 1) = max (pingEnd I scs k) (gridAfter I (pingStart I scs k)) ∧
      pingEnd I scs (k + 1) = pingStart I scs (k + 1) + (observe (pingTimeout I) sc).dur) := by
  obtain ⟨⟨hp, _, _⟩, _⟩ := inv_run I t0 scs
  have htl := run_tick_le_length I t0 scs
  have hlen : (obsOf I scs).length = scs.length := by simp [obsOf]
  refine ⟨?_, (pStart_zero I _).1, (pStart_zero I _).2, ?_⟩
  · rw [hp, tm_pings]
    simp only [List.length_take, Nat.min_eq_left (by omega : (run I t0 scs).tick ≤ (obsOf I scs).length)]
    apply List.map_congr_left
    intro j hj
    have hj' : j < (run I t0 scs).tick := by simpa using hj
    unfold pingStart pStart
    rw [List.take_take, Nat.min_eq_left (by omega)]
  · intro k sc hsc
    have ho : (obsOf I scs)[k]? = some (observe (pingTimeout I) sc) := by
      simp [obsOf, hsc]
    exact pStart_succ I _ k _ ho

/-- Between two consecutive pings of the schedule (interval `I > 0`): the next one is issued after the
previous one has ended, strictly later than it was issued, at most one interval later unless the
previous ping was still in flight then — in which case exactly when it ends. -/
theorem next_ping_bounds (I : Nat) (hI : 0 < I) (scs : List Script) (k : Nat) (hk : k < scs.length) :
    pingEnd I scs k ≤ pingStart I scs (k + 1) ∧ pingStart I scs k < pingStart I scs (k + 1) ∧
      (pingStart I scs (k + 1) ≤ pingStart I scs k + I ∨ pingStart I scs (k + 1) = pingEnd I scs k) := by
  have hsc : scs[k]? = some scs[k] := List.getElem?_eq_getElem hk
  obtain ⟨h1, _⟩ := (pings_at_pending_ticks I 0 scs).2.2.2 k _ hsc
  have hg := gridAfter_gt I (pingStart I scs k) hI
  have hl := gridAfter_le I (pingStart I scs k)
  rw [h1]
  refine ⟨Nat.le_max_left _ _, by omega, ?_⟩
  rcases Nat.le_total (pingEnd I scs k) (gridAfter I (pingStart I scs k)) with h | h
  · left; rw [Nat.max_eq_right h]; exact hl
  · right; exact Nat.max_eq_left h

/-- **overrun_does_not_poison_next_ping.** Let a ping miss in any way and last however long — in
particular overrun its deadline by any amount because the peer did not read — and let the loop
tolerate that miss.  The next ping is issued at the pending tick (at the end of the overrun if a tick
fired meanwhile, else at the next tick of the grid) and is judged against a FRESH ping timeout,
counted from the instant it is issued: if the peer answers it within `pingTimeout I`, it counts as
answered, the failure counter is back to 0 and the session is not closed. -/
theorem overrun_does_not_poison_next_ping (I : Nat) (t0 : Int) (pre : List Script) (ov nxt : Script)
    (d : Nat) (hr : (run I t0 (pre ++ [ov])).status = .running)
    (hk : nxt.kind = .answer) (hd : nxt.delay = some d) (hlt : d < pingTimeout I) :
    (run I t0 (pre ++ [ov] ++ [nxt])).status = .running ∧
      (run I t0 (pre ++ [ov] ++ [nxt])).fails = 0 ∧
      (run I t0 (pre ++ [ov] ++ [nxt])).closeAt = none ∧
      (run I t0 (pre ++ [ov] ++ [nxt])).last =
        max (run I t0 (pre ++ [ov])).free (gridAfter I (run I t0 (pre ++ [ov])).last) ∧
      (run I t0 (pre ++ [ov] ++ [nxt])).free = (run I t0 (pre ++ [ov] ++ [nxt])).last + d := by
  have hok : observe (pingTimeout I) nxt = .ok d := by
    unfold observe
    rw [hd]
    simp [hlt, hk]
  obtain ⟨a1, a2, a3⟩ := answer_resets I t0 (pre ++ [ov]) nxt d hr hok
  have hnone : (run I t0 (pre ++ [ov])).closeAt = none := by
    obtain ⟨_, hst⟩ := inv_run I t0 (pre ++ [ov])
    rw [hr] at hst; exact hst.2.2.1
  refine ⟨a1, a2, by rw [a3, hnone], ?_, ?_⟩
  · rw [run_snoc, step_eq_stepO, hok]
    simp [stepO, hr, nextStart]
  · rw [run_snoc, step_eq_stepO, hok]
    simp [stepO, hr, Outcome.dur]

/-- The same for an overrun in particular: when the overrunning ping was still in flight at the next
tick, the following ping is issued the moment the overrun ends. -/
theorem overrun_serves_pending_tick (I : Nat) (t0 : Int) (pre : List Script) (ov nxt : Script)
    (hr : (run I t0 (pre ++ [ov])).status = .running)
    (hov : gridAfter I (run I t0 (pre ++ [ov])).last ≤ (run I t0 (pre ++ [ov])).free) :
    (run I t0 (pre ++ [ov] ++ [nxt])).last = (run I t0 (pre ++ [ov])).free := by
  rw [run_snoc, step_eq_stepO]
  cases observe (pingTimeout I) nxt <;> simp [stepO, hr, nextStart] <;> try omega
  all_goals (split <;> simp <;> omega)

/-! ### What `overrun_does_not_poison_next_ping` excludes

A loop that takes the ping deadline from the TICK's timestamp (`tick.Add(interval/2)`) instead of
from the instant the ping is issued behaves identically as long as no ping overruns; after an overrun
the pending tick is stale, the next ping's context may already have expired, the ping is never
written and is counted as a second miss although the peer reads and answers again. -/

/-- One iteration with the deadline anchored at the tick's timestamp (the first grid instant after the
previous ping was issued): the ping has only what is left of `pingTimeout I` since then. -/
def stepStale (I T : Nat) (s : St) (sc : Script) : St :=
  match s.status with
  | .running =>
    let t := nextStart I s.last s.free
    let budget := gridAfter I s.last + pingTimeout I - t
    let o := if budget = 0 then Outcome.fail 0 else observe budget sc
    let s1 : St := { s with tick := s.tick + 1, pings := s.pings ++ [t], last := t, free := t + o.dur }
    match o with
    | .ok _ => { s1 with fails := 0 }
    | .mnf _ => { s1 with status := .stopped }
    | .fail d =>
      let f := s.fails + 1
      if tolerated f T then { s1 with fails := f }
      else { s1 with fails := f, status := .closed, closeAt := some (t + d) }
  | _ => s

private def ovr (d : Nat) : Script := { kind := .error, delay := some d, honours := false }
private def ans (d : Nat) : Script := { kind := .answer, delay := some d }
private def miss : Script := { kind := .answer, delay := none }

/-- Threshold 2, interval 1000: the first ping's write is blocked until 2600 (one real miss), then the
peer answers every ping at once.  The loop keeps the session (counter back to 0, second ping issued
at 2600, third on the grid at 3000); the stale-deadline variant closes the live session at 2600. -/
theorem stale_deadline_counterexample :
    (run 1000 2 [ovr 1600, ans 0, ans 0]).status = .running ∧
    (run 1000 2 [ovr 1600, ans 0, ans 0]).fails = 0 ∧
    (run 1000 2 [ovr 1600, ans 0, ans 0]).pings = [1000, 2600, 3000] ∧
    ([ovr 1600, ans 0, ans 0].foldl (stepStale 1000 (threshold 2)) {}).status = .closed ∧
    ([ovr 1600, ans 0, ans 0].foldl (stepStale 1000 (threshold 2)) {}).closeAt = some 2600 := by
  decide

/-- … and as long as no ping overruns the two loops are the same loop. -/
theorem stepStale_eq_step_on_grid (I T : Nat) (s : St) (sc : Script)
    (h : s.free ≤ gridAfter I s.last) (hI : 2 ≤ I) : stepStale I T s sc = step I T s sc := by
  unfold stepStale step
  have ht : nextStart I s.last s.free = gridAfter I s.last := Nat.max_eq_right h
  have hb : gridAfter I s.last + pingTimeout I - nextStart I s.last s.free = pingTimeout I := by
    rw [ht]; omega
  have hpos : pingTimeout I ≠ 0 := by
    simp only [pingTimeout]; omega
  cases s.status <;> simp [hb, hpos]
  generalize observe (pingTimeout I) sc = o
  cases o <;> rfl

/-! ## Session level: keep-alive after `Close` (stream `sessions`)

The sessions' `Close` methods call `*cancelPtr` (structural fact `keepalive.cancelled_from`); the
model of a closed session's loop is `runCancel … tc` with `tc` the instant of that call.  The
theorems below say that from `tc` on the loop sends nothing, that everything it still does belongs
to the one ping that was in flight at `tc` (over by `tc + I/2` when it honours its context), and
that nothing at all happens after `endAt`; `close_cancels_keepalive` (CloseProps.lean — a module of
its own, so that a changed `Close` method re-opens that proof only) ties the premise to the code: in
both `Close` methods, as regenerated from the source, the cancellation precedes every statement that
can fail or return. -/

theorem step_tick_le (I T : Nat) (s : St) (sc : Script) : s.tick ≤ (step I T s sc).tick := by
  rw [step_eq_stepO]
  unfold stepO
  cases s.status <;> simp only [] <;> try exact Nat.le_refl _
  cases observe (pingTimeout I) sc <;> simp only [] <;> try exact Nat.le_succ _
  split <;> exact Nat.le_succ _

theorem warnsFrom_append (I T : Nat) (a b : List Script) : ∀ s : St,
    warnsFrom I T s (a ++ b) = warnsFrom I T s a ++ warnsFrom I T (a.foldl (step I T) s) b := by
  induction a with
  | nil => intro s; simp [warnsFrom]
  | cons x t ih => intro s; simp [warnsFrom, ih, List.append_assoc]

theorem warns_snoc (I : Nat) (t0 : Int) (scs : List Script) (sc : Script) :
    warns I t0 (scs ++ [sc]) = warns I t0 scs ++ warnStep I (threshold t0) (run I t0 scs) sc := by
  unfold warns
  rw [warnsFrom_append]
  simp [warnsFrom, run]

theorem run_running_tick (I : Nat) (t0 : Int) (scs : List Script)
    (h : (run I t0 scs).status = .running) : (run I t0 scs).tick = scs.length := by
  obtain ⟨_, hst⟩ := inv_run I t0 scs
  rw [h] at hst
  have : (obsOf I scs).length = scs.length := by simp [obsOf]
  omega

theorem run_tick_mono (I : Nat) (t0 : Int) (scs : List Script) (sc : Script) :
    (run I t0 scs).tick ≤ (run I t0 (scs ++ [sc])).tick := by
  rw [run_snoc]; exact step_tick_le _ _ _ _

theorem pingEnd_append_left (I : Nat) (a b : List Script) (k : Nat) (hk : k ≤ a.length) :
    pingEnd I (a ++ b) k = pingEnd I a k ∧ pingStart I (a ++ b) k = pingStart I a k := by
  unfold pingEnd pingStart pEnd pStart obsOf
  rw [List.map_append, List.take_append_of_le_length (by simpa using hk)]
  exact ⟨rfl, rfl⟩

theorem pingEnd_mono (I : Nat) (scs : List Script) (j k : Nat) (h : j ≤ k) (hk : k ≤ scs.length) :
    pingEnd I scs j ≤ pingEnd I scs k :=
  pEnd_mono I _ j k h (by simpa [obsOf] using hk)

theorem run_free (I : Nat) (t0 : Int) (scs : List Script) :
    (run I t0 scs).free = pingEnd I scs (run I t0 scs).tick ∧
      (run I t0 scs).last = pingStart I scs (run I t0 scs).tick := by
  obtain ⟨⟨_, hl, hf⟩, _⟩ := inv_run I t0 scs
  exact ⟨hf, hl⟩

theorem endAt_running (I : Nat) (t0 : Int) (scs : List Script) (tc : Nat)
    (h : (run I t0 (scs.take (pingsBefore I tc scs))).status = .running) :
    endAt I t0 scs tc = max tc (run I t0 (scs.take (pingsBefore I tc scs))).free := by
  simp only [endAt, h]

theorem endAt_ended (I : Nat) (t0 : Int) (scs : List Script) (tc : Nat)
    (h : (run I t0 (scs.take (pingsBefore I tc scs))).status ≠ .running) :
    endAt I t0 scs tc = (run I t0 (scs.take (pingsBefore I tc scs))).free := by
  cases hs : (run I t0 (scs.take (pingsBefore I tc scs))).status with
  | running => exact absurd hs h
  | closed => simp only [endAt, hs]
  | stopped => simp only [endAt, hs]

theorem free_le_endAt (I : Nat) (t0 : Int) (scs : List Script) (tc : Nat) :
    (run I t0 (scs.take (pingsBefore I tc scs))).free ≤ endAt I t0 scs tc := by
  by_cases h : (run I t0 (scs.take (pingsBefore I tc scs))).status = .running
  · rw [endAt_running I t0 scs tc h]; exact Nat.le_max_right _ _
  · rw [endAt_ended I t0 scs tc h]; exact Nat.le_refl _

/-- Every WARN record is written at the end of one of the pings the loop has issued. -/
theorem warns_at_ping_ends (I : Nat) (t0 : Int) (scs : List Script) :
    ∀ w ∈ warns I t0 scs, ∃ k, 1 ≤ k ∧ k ≤ (run I t0 scs).tick ∧ w = pingEnd I scs k := by
  induction scs using snoc_induction with
  | h0 => intro w hw; simp [warns, warnsFrom] at hw
  | hs scs sc ih =>
    intro w hw
    rw [warns_snoc] at hw
    rcases List.mem_append.1 hw with h | h
    · obtain ⟨k, h1, h2, h3⟩ := ih w h
      refine ⟨k, h1, Nat.le_trans h2 (run_tick_mono I t0 scs sc), ?_⟩
      rw [h3, (pingEnd_append_left I scs [sc] k _).1]
      exact Nat.le_trans h2 (run_tick_le_length I t0 scs)
    · unfold warnStep at h
      cases hs : (run I t0 scs).status with
      | running =>
        rw [hs] at h
        simp only [] at h
        have htick := run_running_tick I t0 scs hs
        cases ho : observe (pingTimeout I) sc with
        | ok d => rw [ho] at h; simp at h
        | mnf d => rw [ho] at h; simp at h
        | fail d =>
          rw [ho] at h
          simp only [] at h
          split at h
          · rename_i htol
            simp only [List.mem_singleton] at h
            have hnew : (run I t0 (scs ++ [sc])).tick = scs.length + 1 := by
              rw [run_snoc, step_eq_stepO, ho]
              have hlt : (run I t0 scs).fails + 1 < threshold t0 := by
                have := (tolerated_iff ((run I t0 scs).fails + 1) (threshold t0)).1 (by exact_mod_cast htol)
                exact this
              simp [stepO, hs, hlt, htick]
            refine ⟨scs.length + 1, by omega, by omega, ?_⟩
            have hsc : (scs ++ [sc])[scs.length]? = some sc := by simp
            obtain ⟨e1, e2⟩ := (pings_at_pending_ticks I t0 (scs ++ [sc])).2.2.2 scs.length sc hsc
            obtain ⟨f1, f2⟩ := run_free I t0 scs
            obtain ⟨g1, g2⟩ := pingEnd_append_left I scs [sc] scs.length (Nat.le_refl _)
            rw [h, e2, e1, g1, g2, ← htick, ← f1, ← f2, ho]
            rfl
          · simp at h
      | closed => rw [hs] at h; simp at h
      | stopped => rw [hs] at h; simp at h

/-! ### Which pings are issued before the cancellation -/

theorem tmFrom_cons (I : Nat) (t : Tm) (o : Outcome) (os : List Outcome) :
    tmFrom I t (o :: os) = tmFrom I (tmStep I t o) os := rfl

/-- `pingsBeforeFrom` counts a prefix of the scripts; all its pings are issued before `tc`; and if it
stops before the end of the scripts, the next ping would be issued at `tc` or later. -/
theorem pingsBeforeFrom_spec (I tc : Nat) : ∀ (scs : List Script) (t : Tm),
    pingsBeforeFrom I tc t.last t.free scs ≤ scs.length ∧
    (∀ p ∈ (tmFrom I t (obsOf I (scs.take (pingsBeforeFrom I tc t.last t.free scs)))).pings,
      p ∈ t.pings ∨ p < tc) ∧
    (pingsBeforeFrom I tc t.last t.free scs < scs.length →
      tc ≤ nextStart I (tmFrom I t (obsOf I (scs.take (pingsBeforeFrom I tc t.last t.free scs)))).last
        (tmFrom I t (obsOf I (scs.take (pingsBeforeFrom I tc t.last t.free scs)))).free) := by
  intro scs
  induction scs with
  | nil => intro t; simp [pingsBeforeFrom, obsOf, tmFrom]; exact fun p h => Or.inl h
  | cons sc rest ih =>
    intro t
    by_cases hp : nextStart I t.last t.free < tc
    · have hn : pingsBeforeFrom I tc t.last t.free (sc :: rest) =
          pingsBeforeFrom I tc (tmStep I t (observe (pingTimeout I) sc)).last
            (tmStep I t (observe (pingTimeout I) sc)).free rest + 1 := by
        simp [pingsBeforeFrom, hp, tmStep]
      obtain ⟨i1, i2, i3⟩ := ih (tmStep I t (observe (pingTimeout I) sc))
      rw [hn]
      simp only [List.take_succ_cons, obsOf, List.map_cons, tmFrom_cons, List.length_cons]
      refine ⟨by omega, ?_, fun hlt => i3 (by omega)⟩
      intro p hp'
      rcases i2 p hp' with h | h
      · simp only [tmStep, List.mem_append, List.mem_singleton] at h
        rcases h with h | h
        · exact Or.inl h
        · right; rw [h]; exact hp
      · exact Or.inr h
    · have hn : pingsBeforeFrom I tc t.last t.free (sc :: rest) = 0 := by
        simp [pingsBeforeFrom, hp]
      rw [hn]
      simp only [List.take_zero, obsOf, List.map_nil, tmFrom, List.foldl_nil, List.length_cons]
      exact ⟨by omega, fun p h => Or.inl h, fun _ => by omega⟩

theorem tmFrom_pings_prefix (I : Nat) (os : List Outcome) : ∀ t : Tm,
    ∃ l, (tmFrom I t os).pings = t.pings ++ l := by
  induction os with
  | nil => intro t; exact ⟨[], by simp [tmFrom]⟩
  | cons o rest ih =>
    intro t
    obtain ⟨l, hl⟩ := ih (tmStep I t o)
    exact ⟨nextStart I t.last t.free :: l, by rw [tmFrom_cons, hl]; simp [tmStep]⟩

theorem tm_take_pings_subset (I : Nat) (os : List Outcome) (k : Nat) :
    ∀ p ∈ (tm I (os.take k)).pings, p ∈ (tm I os).pings := by
  intro p hp
  have : tm I os = tmFrom I (tm I (os.take k)) (os.drop k) := by
    have h := List.take_append_drop k os
    unfold tm tmFrom
    rw [← List.foldl_append, h]
  obtain ⟨l, hl⟩ := tmFrom_pings_prefix I (os.drop k) (tm I (os.take k))
  rw [this, hl]
  exact List.mem_append.2 (Or.inl hp)

/-- **cancel_stops_pings.** Whatever the peer does, however long its pings take and whenever `Close` is
called, every ping of the cancelled loop was issued strictly before the cancellation instant: once
cancelled, the loop sends nothing more.  (`tc` is not an instant at which a ping is due; a tick that
coincides with the cancellation is a scheduler choice of `select` and outside the scenarios.) -/
theorem cancel_stops_pings (I : Nat) (t0 : Int) (scs : List Script) (tc : Nat) :
    ∀ p ∈ (runCancel I t0 scs tc).pings, p < tc := by
  intro p hp
  have hpings : (runCancel I t0 scs tc).pings = (run I t0 (scs.take (pingsBefore I tc scs))).pings :=
    ((silent_stop I t0 scs).2 tc).2.2.1
  rw [hpings] at hp
  obtain ⟨⟨hpt, _, _⟩, _⟩ := inv_run I t0 (scs.take (pingsBefore I tc scs))
  rw [hpt] at hp
  have hmem := tm_take_pings_subset I _ _ p hp
  have hspec := (pingsBeforeFrom_spec I tc scs {}).2.1 p
  rcases hspec (by simpa [tm, pingsBefore] using hmem) with h | h
  · simp at h
  · exact h

theorem pingsBeforeFrom_append (I tc : Nat) (b : List Script) : ∀ (a : List Script) (t : Tm),
    pingsBeforeFrom I tc t.last t.free (a ++ b) =
      if pingsBeforeFrom I tc t.last t.free a = a.length then
        a.length + pingsBeforeFrom I tc (tmFrom I t (obsOf I a)).last (tmFrom I t (obsOf I a)).free b
      else pingsBeforeFrom I tc t.last t.free a := by
  intro a
  induction a with
  | nil => intro t; simp [pingsBeforeFrom, obsOf, tmFrom]
  | cons sc rest ih =>
    intro t
    by_cases hp : nextStart I t.last t.free < tc
    · have hcons : ∀ l, pingsBeforeFrom I tc t.last t.free (sc :: l) =
          pingsBeforeFrom I tc (tmStep I t (observe (pingTimeout I) sc)).last
            (tmStep I t (observe (pingTimeout I) sc)).free l + 1 := by
        intro l; simp [pingsBeforeFrom, hp, tmStep]
      rw [List.cons_append, hcons, hcons, ih (tmStep I t (observe (pingTimeout I) sc))]
      simp only [List.length_cons, obsOf, List.map_cons, tmFrom_cons]
      split
      · rename_i h; rw [if_pos (by omega)]; omega
      · rename_i h; rw [if_neg (by omega)]
    · simp [pingsBeforeFrom, hp]

/-- **cancel_ignores_later_outcomes.** Let `pre` be the pings issued before the cancellation and let
the loop have been about to go on (`post ≠ []`).  What the peer or the transport does (or would have
done) to the later pings is irrelevant: the cancelled run, its log records and its end depend only on
`pre`. -/
theorem cancel_ignores_later_outcomes (I : Nat) (t0 : Int) (pre post post' : List Script) (tc : Nat)
    (h : pingsBefore I tc (pre ++ post) = pre.length) (hne : post ≠ []) :
    runCancel I t0 (pre ++ post) tc = runCancel I t0 (pre ++ post') tc ∧
      warnsCancel I t0 (pre ++ post) tc = warnsCancel I t0 (pre ++ post') tc ∧
      endAt I t0 (pre ++ post) tc = endAt I t0 (pre ++ post') tc := by
  have h' : pingsBefore I tc (pre ++ post') = pre.length := by
    unfold pingsBefore at h ⊢
    have e := pingsBeforeFrom_append I tc post pre {}
    have e' := pingsBeforeFrom_append I tc post' pre {}
    rw [e] at h
    rw [e']
    split at h
    · rename_i hfull
      rw [if_pos hfull]
      cases post with
      | nil => exact absurd rfl hne
      | cons x xs =>
        have hz : ¬ nextStart I (tmFrom I {} (obsOf I pre)).last (tmFrom I {} (obsOf I pre)).free < tc := by
          intro hlt
          simp [pingsBeforeFrom, hlt] at h
        cases post' with
        | nil => simp [pingsBeforeFrom]
        | cons y ys => simp [pingsBeforeFrom, hz]
    · rename_i hnot
      exact absurd h hnot
  unfold runCancel warnsCancel endAt
  rw [h, h']
  simp

/-- **nothing_after_end.** `endAt` really is the end: the cancelled loop's pings, its WARN records and
its `Close` (with the ERROR record) all happen at or before `endAt`, and `endAt` is the closing
instant when the loop closed the session. -/
theorem nothing_after_end (I : Nat) (t0 : Int) (scs : List Script) (tc : Nat) :
    (∀ p ∈ (runCancel I t0 scs tc).pings, p ≤ endAt I t0 scs tc) ∧
    (∀ w ∈ warnsCancel I t0 scs tc, w ≤ endAt I t0 scs tc) ∧
    (∀ c, (runCancel I t0 scs tc).closeAt = some c → c = endAt I t0 scs tc) := by
  have hsil := (silent_stop I t0 scs).2 tc
  have hfe := free_le_endAt I t0 scs tc
  have hended := endAt_ended I t0 scs tc
  generalize hpre : scs.take (pingsBefore I tc scs) = pre at hsil hfe hended
  have htl := run_tick_le_length I t0 pre
  obtain ⟨hfree, _⟩ := run_free I t0 pre
  have hend : ∀ k, k ≤ (run I t0 pre).tick → pingEnd I pre k ≤ endAt I t0 scs tc := by
    intro k hk
    have h1 := pingEnd_mono I pre k _ hk htl
    omega
  refine ⟨?_, ?_, ?_⟩
  · intro p hp
    rw [hsil.2.2.1, (pings_at_pending_ticks I t0 pre).1] at hp
    simp only [List.mem_map, List.mem_range] at hp
    obtain ⟨j, hj, rfl⟩ := hp
    have h1 := hend (j + 1) (by omega)
    have h2 : pingStart I pre (j + 1) ≤ pingEnd I pre (j + 1) := pStart_le_pEnd I _ _
    omega
  · intro w hw
    unfold warnsCancel at hw
    rw [hpre] at hw
    obtain ⟨k, _, h2, rfl⟩ := warns_at_ping_ends I t0 pre w hw
    exact hend k h2
  · intro c hc
    rw [hsil.2.1] at hc
    have hcl : (run I t0 pre).status = .closed := by
      obtain ⟨_, hst⟩ := inv_run I t0 pre
      cases hs : (run I t0 pre).status with
      | running => rw [hs] at hst; rw [hst.2.2.1] at hc; cases hc
      | stopped => rw [hs] at hst; obtain ⟨d, _, _, _, h4, _⟩ := hst; rw [h4] at hc; cases hc
      | closed => rfl
    obtain ⟨c', hc', _, hcf, _⟩ := close_time_bound I t0 pre hcl
    rw [hc'] at hc
    injection hc with hc
    rw [hended (by rw [hcl]; simp), ← hc, hcf]

/-- **cancel_ends_promptly.** The goroutine of a cancelled loop returns at the cancellation instant
or, when a ping was in flight then, when that ping is over — at most one ping timeout (`I/2`) later
if that ping honours its context; it never returns before the cancellation unless it had ended by
itself. -/
theorem cancel_ends_promptly (I : Nat) (t0 : Int) (scs : List Script) (tc : Nat) :
    ((∀ sc, (scs.take (pingsBefore I tc scs))[(run I t0 (scs.take (pingsBefore I tc scs))).tick - 1]?
        = some sc → sc.honours = true) → endAt I t0 scs tc ≤ tc + I / 2) ∧
      ((run I t0 (scs.take (pingsBefore I tc scs))).status = .running → tc ≤ endAt I t0 scs tc) ∧
      (endAt I t0 scs tc = tc ∨
        endAt I t0 scs tc = (run I t0 (scs.take (pingsBefore I tc scs))).free) := by
  have hstop := cancel_stops_pings I t0 scs tc
  rw [((silent_stop I t0 scs).2 tc).2.2.1] at hstop
  have hclk := run_clock I t0 (scs.take (pingsBefore I tc scs))
  refine ⟨?_, ?_, ?_⟩
  · intro hh
    have hfree : (run I t0 (scs.take (pingsBefore I tc scs))).free ≤ tc + I / 2 := by
      rcases hclk with ⟨_, h0, _⟩ | ⟨sc, hsc, _, hfree, hmem⟩
      · omega
      · have := hstop _ hmem
        have := observe_dur_le (pingTimeout I) sc (hh sc hsc)
        have : pingTimeout I = I / 2 := rfl
        omega
    by_cases h : (run I t0 (scs.take (pingsBefore I tc scs))).status = .running
    · rw [endAt_running I t0 scs tc h]; omega
    · rw [endAt_ended I t0 scs tc h]; omega
  · intro hr
    rw [endAt_running I t0 scs tc hr]; omega
  · by_cases h : (run I t0 (scs.take (pingsBefore I tc scs))).status = .running
    · rw [endAt_running I t0 scs tc h]; omega
    · right; exact endAt_ended I t0 scs tc h

/-! ## Non-vacuity -/

-- threshold 2, interval 1000: miss, answer, miss, miss → closed at tick 4, at 4·1000 + 500
example : (run 1000 2 [miss, ans 7, miss, miss, ans 1]).closeAt = some 4500 := by decide
example : (run 1000 2 [miss, ans 7, miss, miss, ans 1]).tick = 4 := by decide
-- threshold 0 means 1: the first failure closes; a slow error (≥ I/2) counts as a timeout
example : (run 1000 0 [ans 499, ⟨.error, some 500, true⟩]).closeAt = some 2500 := by decide
-- alternating miss/answer never closes with threshold 2
example : (run 1000 2 [miss, ans 0, miss, ans 0, miss]).status = .running := by decide
-- method-not-found stops silently, later failures are not even pinged
example : (run 1000 1 [⟨.mnf, some 3, true⟩, miss]) =
    { status := .stopped, fails := 0, tick := 1, pings := [1000], closeAt := none,
      last := 1000, free := 1003 } := by decide
-- cancellation between tick 1 and tick 2 (at 1700): the second miss is never pinged
example : (runCancel 1000 2 [miss, miss] 1700).status = .stopped ∧
    (runCancel 1000 2 [miss, miss] 1700).pings = [1000] := by decide

-- Close at 2407 with a silent peer (threshold 3): ping 2 (tick 2000) is in flight, is processed at
-- 2500 (one WARN record more), and that is the end; the misses after it are never pinged
example : (runCancel 1000 3 [ans 0, miss, miss, miss, miss] 2407).pings = [1000, 2000] ∧
    warnsCancel 1000 3 [ans 0, miss, miss, miss, miss] 2407 = [2500] ∧
    endAt 1000 3 [ans 0, miss, miss, miss, miss] 2407 = 2500 ∧
    (runCancel 1000 3 [ans 0, miss, miss, miss, miss] 2407).closeAt = none := by decide
-- Close between two ticks: the loop ends at the Close itself
example : endAt 1000 3 [ans 0, ans 20] 2777 = 2777 := by decide

-- an overrun: ping 1 blocked until 3600 (ticks 2000 and 3000 fire meanwhile: one stays pending, one
-- is dropped); ping 2 at once at 3600, ping 3 on the grid at 4000; two overruns in a row close
example : (run 1000 3 [ovr 2600, ans 10, ans 0]).pings = [1000, 3600, 4000] ∧
    (run 1000 3 [ovr 2600, ans 10, ans 0]).fails = 0 := by decide
example : (run 1000 2 [ovr 700, ovr 1600]).closeAt = some 3600 ∧
    (run 1000 2 [ovr 700, ovr 1600]).pings = [1000, 2000] := by decide
-- Close at 1500 while ping 1 is blocked until 2600: nothing more is sent, the loop ends at 2600
example : (runCancel 1000 2 [ovr 1600, ans 0] 1500).pings = [1000] ∧
    endAt 1000 2 [ovr 1600, ans 0] 1500 = 2600 ∧ warnsCancel 1000 2 [ovr 1600, ans 0] 1500 = [2600] := by
  decide
-- Close at 2700, just after the pending tick was served at 2600
example : (runCancel 1000 2 [ovr 1600, ans 0, ans 0] 2700).pings = [1000, 2600] := by decide

end KeepAlive
