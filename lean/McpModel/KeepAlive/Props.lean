import McpModel.KeepAlive.Lemmas
/-!
# C13 — property theorems for the keep-alive loop (model: `KeepAlive.run`, `KeepAlive.runCancel`)

Every theorem quantifies over *all* finite lists of ping scripts (answered after d / method-not-found
after d / other error after d / never), all configured thresholds `t0 : Int` (negative and zero
included; `T = threshold t0` is the normalised one) and all intervals `I` (in ns).  Proof shape: the
loop is a fold over the outcomes; the invariant `Inv` (Lemmas) is carried by induction from the
right end of the list.  `os = obsOf I scs` are the outcomes as the loop sees them, `trail l` the
number of failures at the end of `l` (`le_trail_iff`: `T ≤ trail l` iff the last `T` outcomes exist
and all failed).  The literal `I / 2`, the `< 1 → 1` normalisation and the tolerance test in the
statements are checked against the expressions regenerated from mcp/shared.go.
-/
namespace KeepAlive
open Generated.KeepAlive

/-- The regenerated normalisation is `max 1`: thresholds below 1 (0, negative) mean 1. -/
theorem threshold_norm (t0 : Int) : threshold t0 = if t0 < 1 then 1 else t0.toNat := threshold_eq t0

/-- The regenerated ping deadline is half the interval. -/
theorem ping_timeout_half (I : Nat) : pingTimeout I = I / 2 := rfl

/-- The loop stops silently exactly on the JSON-RPC method-not-found error. -/
theorem stop_sentinel : stopSentinel = "jsonrpc2.ErrMethodNotFound" := by decide

/-- Every ping is over before the next tick (so the ticker never drops a tick and "the k-th ping"
is "tick k"): it lasts at most `I / 2 < I`. -/
theorem ping_done_before_next_tick (I : Nat) (hI : 0 < I) (sc : Script) :
    (observe (pingTimeout I) sc).dur ≤ I / 2 ∧ (observe (pingTimeout I) sc).dur < I := by
  have := observe_dur_le (pingTimeout I) sc
  simp only [pingTimeout] at this ⊢
  omega

/-- The state after any script list satisfies the invariant. -/
theorem inv_run (I : Nat) (t0 : Int) (scs : List Script) :
    Inv I (threshold t0) (obsOf I scs) (run I t0 scs) := by
  rw [run_eq_runO]; exact inv_runO I _ (threshold_pos t0) _

/-- **closes_iff_T_consecutive.** The loop calls `Close` at tick `k` if and only if `k` is the least
index such that the `T` outcomes ending at tick `k` are all failures other than method-not-found,
no tick up to `k` reported method-not-found (which would have stopped the loop). -/
theorem closes_iff_T_consecutive (I : Nat) (t0 : Int) (scs : List Script) (k : Nat) :
    ((run I t0 scs).status = .closed ∧ (run I t0 scs).tick = k) ↔
      (threshold t0 ≤ k ∧ k ≤ (obsOf I scs).length ∧
       (∀ o ∈ ((obsOf I scs).take k).drop (k - threshold t0), o.isFail = true) ∧
       (∀ o ∈ (obsOf I scs).take k, o.isMnf = false) ∧
       (∀ k', k' < k → threshold t0 ≤ k' →
          ∃ o ∈ ((obsOf I scs).take k').drop (k' - threshold t0), o.isFail = false)) := by
  have hinv := inv_run I t0 scs
  generalize run I t0 scs = s at hinv
  generalize obsOf I scs = os at hinv
  generalize hT : threshold t0 = T at hinv
  have hTpos : 1 ≤ T := hT ▸ threshold_pos t0
  -- window form of `T ≤ trail (os.take j)` for j ≤ length
  have win : ∀ j, j ≤ os.length →
      (T ≤ trail (os.take j) ↔ T ≤ j ∧ ∀ o ∈ (os.take j).drop (j - T), o.isFail = true) := by
    intro j hj
    rw [le_trail_iff, List.length_take, Nat.min_eq_left hj]
  have nwin : ∀ j, j ≤ os.length → T ≤ j → trail (os.take j) < T →
      ∃ o ∈ (os.take j).drop (j - T), o.isFail = false := by
    intro j hj hTj hlt
    have h : ¬ ∀ o ∈ (os.take j).drop (j - T), o.isFail = true := by
      intro hall
      have := (win j hj).2 ⟨hTj, hall⟩
      omega
    by_cases hex : ∃ o ∈ (os.take j).drop (j - T), o.isFail = false
    · exact hex
    · exfalso; apply h
      intro o ho
      cases hf : o.isFail with
      | true => rfl
      | false => exact absurd ⟨o, ho, hf⟩ hex
  obtain ⟨_, hst⟩ := hinv
  constructor
  · rintro ⟨hc, hk⟩
    rw [hc] at hst
    obtain ⟨d, h1, h2, h3, h4, h5, h6, h7⟩ := hst
    subst hk
    obtain ⟨w1, w2⟩ := (win _ h2).1 h5
    exact ⟨w1, h2, w2, h7, fun k' hk' hTk' => nwin k' (by omega) hTk' (h6 k' hk')⟩
  · rintro ⟨r1, r2, r3, r4, r5⟩
    have hk : T ≤ trail (os.take k) := (win k r2).2 ⟨r1, r3⟩
    have least : ∀ k', k' < k → trail (os.take k') < T := by
      intro k' hk'
      by_cases hTk' : T ≤ k'
      · obtain ⟨o, ho, hf⟩ := r5 k' hk' hTk'
        have : ¬ T ≤ trail (os.take k') := by
          intro hle
          have := ((win k' (by omega)).1 hle).2 o ho
          rw [hf] at this; cases this
        omega
      · have : trail (os.take k') ≤ (os.take k').length := trail_le_length _
        rw [List.length_take] at this
        omega
    cases hs : s.status with
    | running =>
      rw [hs] at hst
      obtain ⟨_, _, _, _, h5⟩ := hst
      have := h5 k r2
      omega
    | closed =>
      rw [hs] at hst
      obtain ⟨d, h1, h2, h3, h4, h5, h6, h7⟩ := hst
      refine ⟨rfl, ?_⟩
      by_cases hlt : s.tick < k
      · have := least _ hlt; omega
      · by_cases hgt : k < s.tick
        · have := h6 k hgt; omega
        · omega
    | stopped =>
      rw [hs] at hst
      obtain ⟨d, h1, h2, h3, h4, h5, h6⟩ := hst
      exfalso
      by_cases hle : s.tick ≤ k
      · -- the method-not-found outcome lies within the first k outcomes
        have hmem : Outcome.mnf d ∈ os.take k := by
          rw [List.mem_take_iff_getElem]
          have hlt : s.tick - 1 < os.length := by omega
          refine ⟨s.tick - 1, by rw [Nat.lt_min]; omega, ?_⟩
          have := List.getElem?_eq_some_iff.1 h3
          obtain ⟨_, h⟩ := this
          exact h
        have := r4 _ hmem
        simp [Outcome.isMnf] at this
      · have := h5 k (by omega); omega

/-- Equivalently: the loop never calls `Close` while every run of consecutive failures is shorter
than the threshold. -/
theorem not_closed_of_short_runs (I : Nat) (t0 : Int) (scs : List Script)
    (h : ∀ k, k ≤ (obsOf I scs).length → trail ((obsOf I scs).take k) < threshold t0) :
    (run I t0 scs).status ≠ .closed ∧ (run I t0 scs).closeAt = none := by
  obtain ⟨_, hst⟩ := inv_run I t0 scs
  cases hs : (run I t0 scs).status with
  | running => rw [hs] at hst; exact ⟨by simp, hst.2.2.1⟩
  | stopped => rw [hs] at hst; obtain ⟨d, _, _, _, h4, _⟩ := hst; exact ⟨by simp, h4⟩
  | closed =>
    rw [hs] at hst
    obtain ⟨d, h1, h2, h3, h4, h5, h6, h7⟩ := hst
    have := h _ h2
    omega

theorem run_snoc (I : Nat) (t0 : Int) (scs : List Script) (sc : Script) :
    run I t0 (scs ++ [sc]) = step I (threshold t0) (run I t0 scs) sc := by
  simp [run, List.foldl_append]

theorem run_append (I : Nat) (t0 : Int) (a b : List Script) :
    run I t0 (a ++ b) = b.foldl (step I (threshold t0)) (run I t0 a) := by
  simp [run, List.foldl_append]

/-- **answer_resets.** An answered ping sets the counter to 0 and keeps the loop running. -/
theorem answer_resets (I : Nat) (t0 : Int) (scs : List Script) (sc : Script) (d : Nat)
    (hr : (run I t0 scs).status = .running) (hok : observe (pingTimeout I) sc = .ok d) :
    (run I t0 (scs ++ [sc])).status = .running ∧ (run I t0 (scs ++ [sc])).fails = 0 ∧
      (run I t0 (scs ++ [sc])).closeAt = (run I t0 scs).closeAt := by
  rw [run_snoc, step_eq_stepO, hok]
  simp [stepO, hr]

/-- Failures below the threshold are tolerated: the counter grows, nothing else happens. -/
theorem misses_tolerated (I T : Nat) (misses : List Script) : ∀ s : St,
    s.status = .running → (∀ m ∈ misses, (observe (pingTimeout I) m).isFail = true) →
    s.fails + misses.length < T →
    (misses.foldl (step I T) s).status = .running ∧
      (misses.foldl (step I T) s).fails = s.fails + misses.length ∧
      (misses.foldl (step I T) s).closeAt = s.closeAt := by
  induction misses with
  | nil => intro s hr _ _; simp [hr]
  | cons m t ih =>
    intro s hr hm hlt
    have hf := hm m (by simp)
    simp only [List.length_cons] at hlt
    have hstep : (step I T s m).status = .running ∧ (step I T s m).fails = s.fails + 1 ∧
        (step I T s m).closeAt = s.closeAt := by
      rw [step_eq_stepO]
      cases ho : observe (pingTimeout I) m with
      | ok d => rw [ho] at hf; cases hf
      | mnf d => rw [ho] at hf; cases hf
      | fail d =>
        have : s.fails + 1 < T := by omega
        simp [stepO, hr, this]
    obtain ⟨h1, h2, h3⟩ := hstep
    obtain ⟨i1, i2, i3⟩ := ih (step I T s m) h1 (fun x hx => hm x (by simp [hx])) (by omega)
    simp only [List.foldl_cons]
    exact ⟨i1, by rw [i2, h2, List.length_cons]; omega, by rw [i3, h3]⟩

/-- **answer_resets, as the property words it.** A peer that answers after fewer than `T`
consecutive misses is not closed: after the answer the loop is running with a zero counter and
`Close` has not been called. -/
theorem answer_after_misses_keeps_alive (I : Nat) (t0 : Int) (pre misses : List Script)
    (sc : Script) (d : Nat) (hr : (run I t0 pre).status = .running)
    (hm : ∀ m ∈ misses, (observe (pingTimeout I) m).isFail = true)
    (hlt : (run I t0 pre).fails + misses.length < threshold t0)
    (hok : observe (pingTimeout I) sc = .ok d) :
    (run I t0 (pre ++ misses ++ [sc])).status = .running ∧
      (run I t0 (pre ++ misses ++ [sc])).fails = 0 ∧
      (run I t0 (pre ++ misses ++ [sc])).closeAt = none := by
  have hpre : (run I t0 pre).closeAt = none := by
    obtain ⟨_, hst⟩ := inv_run I t0 pre
    rw [hr] at hst; exact hst.2.2.1
  obtain ⟨m1, m2, m3⟩ := misses_tolerated I (threshold t0) misses (run I t0 pre) hr hm hlt
  have hmid : run I t0 (pre ++ misses) = misses.foldl (step I (threshold t0)) (run I t0 pre) :=
    run_append I t0 pre misses
  obtain ⟨a1, a2, a3⟩ := answer_resets I t0 (pre ++ misses) sc d (by rw [hmid]; exact m1) hok
  exact ⟨a1, a2, by rw [a3, hmid, m3, hpre]⟩

/-- **close_time_bound.** If the loop closes the session at tick `k`, then `T ≤ k`, the first miss of
the failing run was the ping of tick `k + 1 - T`, issued at `(k + 1 - T)·I`, and `Close` is called
at an instant `c` with `k·I ≤ c ≤ k·I + I/2`: i.e. within `T - 1` further intervals plus one ping
timeout (`I/2`) of that first miss, and strictly before tick `k + 1`. -/
theorem close_time_bound (I : Nat) (t0 : Int) (scs : List Script)
    (hc : (run I t0 scs).status = .closed) :
    ∃ c, (run I t0 scs).closeAt = some c ∧ threshold t0 ≤ (run I t0 scs).tick ∧
      (run I t0 scs).tick * I ≤ c ∧ c ≤ (run I t0 scs).tick * I + I / 2 ∧
      c ≤ ((run I t0 scs).tick + 1 - threshold t0) * I + (threshold t0 - 1) * I + I / 2 ∧
      (0 < I → c < ((run I t0 scs).tick + 1) * I) := by
  obtain ⟨_, hst⟩ := inv_run I t0 scs
  rw [hc] at hst
  obtain ⟨d, h1, h2, h3, h4, h5, h6, h7⟩ := hst
  generalize (run I t0 scs).tick = k at *
  have hTk : threshold t0 ≤ k := by
    have := trail_le_length ((obsOf I scs).take k)
    rw [List.length_take] at this
    omega
  have hd : d ≤ I / 2 := by
    have hmem : Outcome.fail d ∈ obsOf I scs := List.mem_of_getElem? h3
    simp only [obsOf, List.mem_map] at hmem
    obtain ⟨sc, _, hsc⟩ := hmem
    have := observe_dur_le (pingTimeout I) sc
    rw [hsc] at this
    simpa [Outcome.dur, pingTimeout] using this
  have hsum : (k + 1 - threshold t0) * I + (threshold t0 - 1) * I = k * I := by
    rw [← Nat.add_mul]
    have hpos := threshold_pos t0
    congr 1; omega
  refine ⟨k * I + d, h4, hTk, by omega, by omega, by omega, ?_⟩
  intro hI
  rw [Nat.add_mul]; omega

/-- Once the goroutine has returned nothing happens any more: no further ping, no second `Close`. -/
theorem terminal_absorbing (I T : Nat) (s : St) (sc : Script) (h : s.status ≠ .running) :
    step I T s sc = s := by
  unfold step
  cases hs : s.status with
  | running => exact absurd hs h
  | closed => rfl
  | stopped => rfl

/-- **silent_stop.** (1) If the loop ended without closing, it ended on a method-not-found outcome and
`Close` was never called.  (2) Cancellation (`*cancelPtr`, called by the sessions' `Close`) always
ends the loop and never closes anything by itself: with cancellation at `tc` the loop closes iff it
would have closed on the ticks before `tc`, at the same instant, after the same pings.  (That the
ticker is stopped and the goroutine returns in every terminal state is the structural fact
`keepalive.goroutine` — `defer ticker.Stop()`, every exit is a `return` — and is observed by the
harness: goroutine count and no activity after the end.) -/
theorem silent_stop (I : Nat) (t0 : Int) (scs : List Script) :
    ((run I t0 scs).status = .stopped →
      (run I t0 scs).closeAt = none ∧
      ∃ d, (obsOf I scs)[(run I t0 scs).tick - 1]? = some (.mnf d)) ∧
    (∀ tc, (runCancel I t0 scs tc).status ≠ .running ∧
      (runCancel I t0 scs tc).closeAt = (run I t0 (scs.take (ticksBefore I tc))).closeAt ∧
      (runCancel I t0 scs tc).pings = (run I t0 (scs.take (ticksBefore I tc))).pings ∧
      ((runCancel I t0 scs tc).status = .closed ↔
        (run I t0 (scs.take (ticksBefore I tc))).status = .closed)) := by
  constructor
  · intro hs
    obtain ⟨_, hst⟩ := inv_run I t0 scs
    rw [hs] at hst
    obtain ⟨d, _, _, h3, h4, _⟩ := hst
    exact ⟨h4, d, h3⟩
  · intro tc
    unfold runCancel
    cases hs : (run I t0 (scs.take (ticksBefore I tc))).status <;> simp [hs]

/-- **pings_at_ticks.** The loop pings exactly at the ticks `I, 2I, …, m·I` it has consumed, at most
one per script. -/
theorem pings_at_ticks (I : Nat) (t0 : Int) (scs : List Script) :
    (run I t0 scs).pings = tickTimes I (run I t0 scs).tick ∧ (run I t0 scs).tick ≤ scs.length := by
  obtain ⟨hp, hst⟩ := inv_run I t0 scs
  refine ⟨hp, ?_⟩
  have hlen : (obsOf I scs).length = scs.length := by simp [obsOf]
  cases hs : (run I t0 scs).status with
  | running => rw [hs] at hst; omega
  | closed => rw [hs] at hst; obtain ⟨d, _, h2, _⟩ := hst; omega
  | stopped => rw [hs] at hst; obtain ⟨d, _, h2, _⟩ := hst; omega

/-! ## Session level: keep-alive after `Close` (stream `sessions`)

The sessions' `Close` methods call `*cancelPtr` (structural fact `keepalive.cancelled_from`); the
model of a closed session's loop is `runCancel … tc` with `tc` the instant of that call.  The
theorems below say that from `tc` on the loop sends nothing, that everything it still does belongs
to the one ping that was in flight at `tc` (over by `tc + I/2`), and that nothing at all happens
after `endAt`; `close_cancels_keepalive` (CloseProps.lean — a module of its own, so that a changed
`Close` method re-opens that proof only) ties the premise to the code: in both `Close` methods, as
regenerated from the source, the cancellation precedes every statement that can fail or return. -/

theorem step_tick_le (I T : Nat) (s : St) (sc : Script) : s.tick ≤ (step I T s sc).tick := by
  rw [step_eq_stepO]
  unfold stepO
  cases s.status <;> simp only [] <;> try exact Nat.le_refl _
  cases observe (pingTimeout I) sc <;> simp only [] <;> try exact Nat.le_succ _
  split <;> exact Nat.le_succ _

theorem warnsFrom_append (I T : Nat) (a b : List Script) : ∀ s : St,
    warnsFrom I T s (a ++ b) = warnsFrom I T s a ++ warnsFrom I T (a.foldl (step I T) s) b := by
  induction a with
  | nil => intro s; simp [warnsFrom]
  | cons x t ih => intro s; simp [warnsFrom, ih, List.append_assoc]

theorem warns_snoc (I : Nat) (t0 : Int) (scs : List Script) (sc : Script) :
    warns I t0 (scs ++ [sc]) = warns I t0 scs ++ warnStep I (threshold t0) (run I t0 scs) sc := by
  unfold warns
  rw [warnsFrom_append]
  simp [warnsFrom, run]

theorem run_tick_le_length (I : Nat) (t0 : Int) (scs : List Script) :
    (run I t0 scs).tick ≤ scs.length := (pings_at_ticks I t0 scs).2

theorem run_running_tick (I : Nat) (t0 : Int) (scs : List Script)
    (h : (run I t0 scs).status = .running) : (run I t0 scs).tick = scs.length := by
  obtain ⟨_, hst⟩ := inv_run I t0 scs
  rw [h] at hst
  have : (obsOf I scs).length = scs.length := by simp [obsOf]
  omega

theorem run_tick_mono (I : Nat) (t0 : Int) (scs : List Script) (sc : Script) :
    (run I t0 scs).tick ≤ (run I t0 (scs ++ [sc])).tick := by
  rw [run_snoc]; exact step_tick_le _ _ _ _

theorem pingEnd_succ (I : Nat) (scs : List Script) (k : Nat) :
    pingEnd I scs (k + 1) = match scs[k]? with
      | some sc => (k + 1) * I + (observe (pingTimeout I) sc).dur
      | none => (k + 1) * I := rfl

theorem pingEnd_append_left (I : Nat) (a b : List Script) (k : Nat) (hk : k ≤ a.length) :
    pingEnd I (a ++ b) k = pingEnd I a k := by
  cases k with
  | zero => rfl
  | succ j =>
    rw [pingEnd_succ, pingEnd_succ, List.getElem?_append_left (by omega)]

theorem pingEnd_bounds (I : Nat) (scs : List Script) (k : Nat) :
    k * I ≤ pingEnd I scs k ∧ pingEnd I scs k ≤ k * I + I / 2 := by
  cases k with
  | zero => simp [pingEnd]
  | succ j =>
    rw [pingEnd_succ]
    cases scs[j]? with
    | none => simp only []; omega
    | some sc =>
      have := observe_dur_le (pingTimeout I) sc
      simp only [pingTimeout] at this ⊢
      omega

theorem pingEnd_mono (I : Nat) (scs : List Script) (j k : Nat) (h : j ≤ k) :
    pingEnd I scs j ≤ pingEnd I scs k := by
  rcases Nat.lt_or_eq_of_le h with hlt | heq
  · have h1 := (pingEnd_bounds I scs j).2
    have h2 := (pingEnd_bounds I scs k).1
    have : (j + 1) * I ≤ k * I := Nat.mul_le_mul_right I hlt
    rw [Nat.add_mul] at this
    have : I / 2 ≤ I := Nat.div_le_self I 2
    omega
  · rw [heq]; exact Nat.le_refl _

theorem endAt_running (I : Nat) (t0 : Int) (scs : List Script) (tc : Nat)
    (h : (run I t0 (scs.take (ticksBefore I tc))).status = .running) :
    endAt I t0 scs tc = max tc (pingEnd I (scs.take (ticksBefore I tc))
      (run I t0 (scs.take (ticksBefore I tc))).tick) := by
  simp only [endAt, h]

theorem endAt_ended (I : Nat) (t0 : Int) (scs : List Script) (tc : Nat)
    (h : (run I t0 (scs.take (ticksBefore I tc))).status ≠ .running) :
    endAt I t0 scs tc = pingEnd I (scs.take (ticksBefore I tc))
      (run I t0 (scs.take (ticksBefore I tc))).tick := by
  cases hs : (run I t0 (scs.take (ticksBefore I tc))).status with
  | running => exact absurd hs h
  | closed => simp only [endAt, hs]
  | stopped => simp only [endAt, hs]

theorem pingEnd_le_endAt (I : Nat) (t0 : Int) (scs : List Script) (tc : Nat) :
    pingEnd I (scs.take (ticksBefore I tc)) (run I t0 (scs.take (ticksBefore I tc))).tick
      ≤ endAt I t0 scs tc := by
  by_cases h : (run I t0 (scs.take (ticksBefore I tc))).status = .running
  · rw [endAt_running I t0 scs tc h]; exact Nat.le_max_right _ _
  · rw [endAt_ended I t0 scs tc h]; exact Nat.le_refl _

/-- Every WARN record is written at the end of one of the pings the loop has issued. -/
theorem warns_at_ping_ends (I : Nat) (t0 : Int) (scs : List Script) :
    ∀ w ∈ warns I t0 scs, ∃ k, 1 ≤ k ∧ k ≤ (run I t0 scs).tick ∧ w = pingEnd I scs k := by
  induction scs using snoc_induction with
  | h0 => intro w hw; simp [warns, warnsFrom] at hw
  | hs scs sc ih =>
    intro w hw
    rw [warns_snoc] at hw
    rcases List.mem_append.1 hw with h | h
    · obtain ⟨k, h1, h2, h3⟩ := ih w h
      refine ⟨k, h1, Nat.le_trans h2 (run_tick_mono I t0 scs sc), ?_⟩
      rw [h3, pingEnd_append_left]
      exact Nat.le_trans h2 (run_tick_le_length I t0 scs)
    · unfold warnStep at h
      cases hs : (run I t0 scs).status with
      | running =>
        rw [hs] at h
        simp only [] at h
        have htick := run_running_tick I t0 scs hs
        cases ho : observe (pingTimeout I) sc with
        | ok d => rw [ho] at h; simp at h
        | mnf d => rw [ho] at h; simp at h
        | fail d =>
          rw [ho] at h
          simp only [] at h
          split at h
          · rename_i htol
            simp only [List.mem_singleton] at h
            have hnew : (run I t0 (scs ++ [sc])).tick = scs.length + 1 := by
              rw [run_snoc, step_eq_stepO, ho]
              have hlt : (run I t0 scs).fails + 1 < threshold t0 := by
                have := (tolerated_iff ((run I t0 scs).fails + 1) (threshold t0)).1 (by exact_mod_cast htol)
                exact this
              simp [stepO, hs, hlt, htick]
            refine ⟨scs.length + 1, by omega, by omega, ?_⟩
            rw [h, htick, pingEnd_succ]
            simp [ho, Outcome.dur]
          · simp at h
      | closed => rw [hs] at h; simp at h
      | stopped => rw [hs] at h; simp at h

theorem ticksBefore_mul_lt (I tc : Nat) (htc : 0 < tc) : ticksBefore I tc * I < tc := by
  unfold ticksBefore
  by_cases hI : I = 0
  · simp [hI]; exact htc
  · simp only [hI, if_false]
    have := Nat.div_mul_le_self (tc - 1) I
    omega

/-- **cancel_stops_pings.** Whatever the peer does and whenever `Close` is called, every ping of
the cancelled loop was sent strictly before the cancellation instant: once cancelled, the loop sends
nothing more.  (`tc` is not a tick instant; a tick that coincides with the cancellation is a
scheduler choice of `select` and outside the scenarios.) -/
theorem cancel_stops_pings (I : Nat) (t0 : Int) (scs : List Script) (tc : Nat) (htc : 0 < tc) :
    ∀ p ∈ (runCancel I t0 scs tc).pings, p < tc := by
  intro p hp
  have hpings : (runCancel I t0 scs tc).pings = (run I t0 (scs.take (ticksBefore I tc))).pings :=
    ((silent_stop I t0 scs).2 tc).2.2.1
  rw [hpings] at hp
  obtain ⟨hpt, hlen⟩ := pings_at_ticks I t0 (scs.take (ticksBefore I tc))
  rw [hpt] at hp
  simp only [tickTimes, List.mem_map, List.mem_range] at hp
  obtain ⟨j, hj, rfl⟩ := hp
  have h1 : (run I t0 (scs.take (ticksBefore I tc))).tick ≤ ticksBefore I tc := by
    have : (scs.take (ticksBefore I tc)).length ≤ ticksBefore I tc := by
      rw [List.length_take]; exact Nat.min_le_left _ _
    omega
  have h2 : (j + 1) * I ≤ ticksBefore I tc * I := Nat.mul_le_mul_right I (by omega)
  have := ticksBefore_mul_lt I tc htc
  omega

/-- What the peer or the transport does (or would have done) from the cancellation on is
irrelevant: the cancelled run, its log records and its end depend only on the pings before `tc`. -/
theorem cancel_ignores_later_outcomes (I : Nat) (t0 : Int) (scs scs' : List Script) (tc : Nat)
    (h : scs.take (ticksBefore I tc) = scs'.take (ticksBefore I tc)) :
    runCancel I t0 scs tc = runCancel I t0 scs' tc ∧
      warnsCancel I t0 scs tc = warnsCancel I t0 scs' tc ∧ endAt I t0 scs tc = endAt I t0 scs' tc := by
  unfold runCancel warnsCancel endAt
  rw [h]
  exact ⟨rfl, rfl, rfl⟩

/-- **nothing_after_end.** `endAt` really is the end: the cancelled loop's pings, its WARN records and
its `Close` (with the ERROR record) all happen at or before `endAt`, and `endAt` is the closing
instant when the loop closed the session. -/
theorem nothing_after_end (I : Nat) (t0 : Int) (scs : List Script) (tc : Nat) :
    (∀ p ∈ (runCancel I t0 scs tc).pings, p ≤ endAt I t0 scs tc) ∧
    (∀ w ∈ warnsCancel I t0 scs tc, w ≤ endAt I t0 scs tc) ∧
    (∀ c, (runCancel I t0 scs tc).closeAt = some c → c = endAt I t0 scs tc) := by
  have hsil := (silent_stop I t0 scs).2 tc
  generalize hpre : scs.take (ticksBefore I tc) = pre at hsil
  have hend : ∀ k, k ≤ (run I t0 pre).tick → pingEnd I pre k ≤ endAt I t0 scs tc := by
    intro k hk
    have h1 := pingEnd_mono I pre k _ hk
    have h2 := pingEnd_le_endAt I t0 scs tc
    rw [hpre] at h2
    omega
  refine ⟨?_, ?_, ?_⟩
  · intro p hp
    rw [hsil.2.2.1, (pings_at_ticks I t0 pre).1] at hp
    simp only [tickTimes, List.mem_map, List.mem_range] at hp
    obtain ⟨j, hj, rfl⟩ := hp
    have := hend (j + 1) (by omega)
    have := (pingEnd_bounds I pre (j + 1)).1
    omega
  · intro w hw
    unfold warnsCancel at hw
    rw [hpre] at hw
    obtain ⟨k, _, h2, rfl⟩ := warns_at_ping_ends I t0 pre w hw
    exact hend k h2
  · intro c hc
    rw [hsil.2.1] at hc
    obtain ⟨_, hst⟩ := inv_run I t0 pre
    cases hs : (run I t0 pre).status with
    | running => rw [hs] at hst; rw [hst.2.2.1] at hc; cases hc
    | stopped => rw [hs] at hst; obtain ⟨d, _, _, _, h4, _⟩ := hst; rw [h4] at hc; cases hc
    | closed =>
      rw [hs] at hst
      obtain ⟨d, h1, h2, h3, h4, _⟩ := hst
      rw [h4] at hc
      injection hc with hc
      have hne : (run I t0 (scs.take (ticksBefore I tc))).status ≠ .running := by rw [hpre, hs]; simp
      rw [endAt_ended I t0 scs tc hne, hpre]
      obtain ⟨j, hj⟩ : ∃ j, (run I t0 pre).tick = j + 1 := ⟨(run I t0 pre).tick - 1, by omega⟩
      rw [hj] at h3 hc ⊢
      simp only [Nat.add_sub_cancel, obsOf, List.getElem?_map] at h3
      rw [pingEnd_succ]
      cases hsc : pre[j]? with
      | none => rw [hsc] at h3; simp at h3
      | some sc =>
        rw [hsc] at h3
        simp only [Option.map_some, Option.some.injEq] at h3
        simp [h3, Outcome.dur, ← hc]

/-- **cancel_ends_promptly.** The goroutine of a cancelled loop returns at the cancellation instant
or, when a ping was in flight then, when that ping is over — at most one ping timeout (`I/2`)
later; it never returns before the cancellation unless it had ended by itself. -/
theorem cancel_ends_promptly (I : Nat) (t0 : Int) (scs : List Script) (tc : Nat) (htc : 0 < tc) :
    endAt I t0 scs tc ≤ tc + I / 2 ∧
      ((run I t0 (scs.take (ticksBefore I tc))).status = .running → tc ≤ endAt I t0 scs tc) := by
  have hlen : (run I t0 (scs.take (ticksBefore I tc))).tick ≤ ticksBefore I tc := by
    have h1 := run_tick_le_length I t0 (scs.take (ticksBefore I tc))
    have : (scs.take (ticksBefore I tc)).length ≤ ticksBefore I tc := by
      rw [List.length_take]; exact Nat.min_le_left _ _
    omega
  have hb := (pingEnd_bounds I (scs.take (ticksBefore I tc)) (run I t0 (scs.take (ticksBefore I tc))).tick).2
  have hm : (run I t0 (scs.take (ticksBefore I tc))).tick * I ≤ ticksBefore I tc * I :=
    Nat.mul_le_mul_right I hlen
  have := ticksBefore_mul_lt I tc htc
  constructor
  · by_cases h : (run I t0 (scs.take (ticksBefore I tc))).status = .running
    · rw [endAt_running I t0 scs tc h]; omega
    · rw [endAt_ended I t0 scs tc h]; omega
  · intro hr
    rw [endAt_running I t0 scs tc hr]; omega

/-! ## Non-vacuity -/

private def miss : Script := { kind := .answer, delay := none }
private def ans (d : Nat) : Script := { kind := .answer, delay := some d }

-- threshold 2, interval 1000: miss, answer, miss, miss → closed at tick 4, at 4·1000 + 500
example : (run 1000 2 [miss, ans 7, miss, miss, ans 1]).closeAt = some 4500 := by decide
example : (run 1000 2 [miss, ans 7, miss, miss, ans 1]).tick = 4 := by decide
-- threshold 0 means 1: the first failure closes; a slow error (≥ I/2) counts as a timeout
example : (run 1000 0 [ans 499, ⟨.error, some 500⟩]).closeAt = some 2500 := by decide
-- alternating miss/answer never closes with threshold 2
example : (run 1000 2 [miss, ans 0, miss, ans 0, miss]).status = .running := by decide
-- method-not-found stops silently, later failures are not even pinged
example : (run 1000 1 [⟨.mnf, some 3⟩, miss]) =
    { status := .stopped, fails := 0, tick := 1, pings := [1000], closeAt := none } := by decide
-- cancellation between tick 1 and tick 2 (at 1700): the second miss is never pinged
example : (runCancel 1000 2 [miss, miss] 1700).status = .stopped ∧
    (runCancel 1000 2 [miss, miss] 1700).pings = [1000] := by decide

-- Close at 2407 with a silent peer (threshold 3): ping 2 (tick 2000) is in flight, is processed at
-- 2500 (one WARN record more), and that is the end; the misses after it are never pinged
example : (runCancel 1000 3 [ans 0, miss, miss, miss, miss] 2407).pings = [1000, 2000] ∧
    warnsCancel 1000 3 [ans 0, miss, miss, miss, miss] 2407 = [2500] ∧
    endAt 1000 3 [ans 0, miss, miss, miss, miss] 2407 = 2500 ∧
    (runCancel 1000 3 [ans 0, miss, miss, miss, miss] 2407).closeAt = none := by decide
-- Close between two ticks: the loop ends at the Close itself
example : endAt 1000 3 [ans 0, ans 20] 2777 = 2777 := by decide

end KeepAlive
