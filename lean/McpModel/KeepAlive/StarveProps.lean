import McpModel.KeepAlive.Bridge
import McpModel.KeepAlive.Sound
import McpModel.KeepAlive.Independence
import McpModel.KeepAlive.Starve
/-!
# C13 — the starvation clause (`Starve.lean`): bridge and soundness

The observation `starved=` is the harness's report of the state `Indep.Stalled` (the keep-alive goroutine at the
shared lock, no goroutine able to run).  The model of the code never is in that state (`Indep.never_stalled`, on the
regenerated lock discipline), so the model's observation of a `busy` scenario is its observation without the other
session, with `starved = false`: that is what `monitor2_accepts_model_loop` is applied to.
-/
namespace KeepAlive

/-- The property's side of the clause: the keep-alive of a session is not starved. -/
def P_not_starved (starved : Bool) : Prop := starved = false

/-- A starved observation always raises the starvation clause, naming ping `n+1` for `n` pings seen. -/
theorem monitor2_starved (sc : Scenario) (busy : List Busy) (o : Obs) :
    ∃ due b, monitor2 sc busy o true = some (.starved (o.pings.length + 1) due b) := by
  exact ⟨_, _, rfl⟩

/-- **sound_starved.** The clause is raised only on an observation that is starved — which the property forbids —
and the handler it names (if any) was scripted to be running at the instant it names. -/
theorem sound_starved (sc : Scenario) (busy : List Busy) (o : Obs) (st : Bool) {k due b}
    (h : monitor2 sc busy o st = some (.starved k due b)) :
    ¬ P_not_starved st ∧ k = o.pings.length + 1 ∧
      (∀ x, b = some x → x ∈ busy ∧ x.from_ ≤ due ∧ due < x.from_ + x.dur) := by
  cases st with
  | false =>
    simp only [monitor2, Bool.false_eq_true, if_false] at h
    cases hm : monitor sc o <;> simp [hm] at h
  | true =>
    simp only [monitor2, if_true, starveClause, Option.some.injEq, Clause2.starved.injEq] at h
    obtain ⟨hk, hd, hb⟩ := h
    refine ⟨by simp [P_not_starved], hk.symm, ?_⟩
    intro x hx
    rw [hx] at hb
    have hmem := List.mem_of_find?_eq_some hb
    have hcov := List.find?_some hb
    simp only [Busy.covers, Bool.and_eq_true, decide_eq_true_eq] at hcov
    rw [hd] at hcov
    exact ⟨hmem, hcov.1, hcov.2⟩

/-- When nothing is starved `monitor2` is the C13 monitor: every `sound_*` / `monitor_complete` of Sound.lean applies. -/
theorem monitor2_base (sc : Scenario) (busy : List Busy) (o : Obs) :
    monitor2 sc busy o false = (monitor sc o).map .base := by
  simp [monitor2]

theorem sound_base (sc : Scenario) (busy : List Busy) (o : Obs) (st : Bool) {cl : Clause}
    (h : monitor2 sc busy o st = some (.base cl)) : ¬ P_of cl sc o := by
  cases st with
  | true => simp [monitor2, starveClause] at h
  | false =>
    simp only [monitor2, Bool.false_eq_true, if_false] at h
    cases hm : monitor sc o with
    | none => simp [hm] at h
    | some c =>
      simp only [hm, Option.map_some, Option.some.injEq, Clause2.base.injEq] at h
      subst h
      exact monitor_sound sc o c hm

/-- **monitor_accepts_model (records `kas … busy=`).** For ALL scenarios and ALL scripts of parked handlers of other
sessions, the monitor raises nothing on the model's observation: the model's keep-alive is never starved
(`Indep.never_stalled`: the state the harness reports as `starved=` is unreachable for the code's statement
order), and what it does otherwise does not depend on `busy` (`monitor_accepts_model_loop`). -/
theorem monitor2_accepts_model_loop (sc : Scenario) (hs : sc.sess = false) (env : Option SessObs) (busy : List Busy) :
    monitor2 sc busy (modelObs sc env) false = none := by
  simp [monitor2, monitor_accepts_model_loop sc hs env]

/-- The two halves named by the bridge, side by side: the code's model is never stalled, the other statement
order is. -/
theorem starved_iff_handler_under_lock :
    (∀ s, Indep.Reach false s → ¬ Indep.Stalled s) ∧ (∃ s, Indep.Reach true s ∧ Indep.Stalled s) :=
  ⟨fun _ h => Indep.never_stalled h, by
    obtain ⟨s, r, st, _⟩ := Indep.handler_under_lock_stalls
    exact ⟨s, r, st⟩⟩

end KeepAlive
