import McpModel.KeepAlive.Props
/-!
# C13 — the sessions' `Close` methods cancel keep-alive on every path

`Generated.KeepAlive.clientClosePath` / `serverClosePath` are the top-level statements of
`(*ClientSession).Close` and `(*ServerSession).Close` (mcp/client.go, mcp/server.go), classified by
the extractor on every run; `KeepAlive.execClose` executes such a list for either result of the
transport connection's `Close`.  A change of the statement order in the source re-opens the proofs
of this module (and only of this module).
-/
namespace KeepAlive
open Generated.KeepAlive

/-- The generic reason: if the cancellation comes first — preceded only by statements through which
control always passes — then `Close` cancels keep-alive whatever `conn.Close` returns and however the
later statements behave. -/
theorem execClose_of_cancelFirst (connErr : Bool) : ∀ (acts : List CloseAct) (e : Bool) (o : List Bool),
    cancelFirst acts = true → execClose connErr acts e o = true := by
  intro acts
  induction acts with
  | nil => intro e o h; simp [cancelFirst] at h
  | cons a t ih =>
    intro e o h
    cases a with
    | cancelKeepalive => simp [execClose]
    | plain => simp only [cancelFirst] at h; simp only [execClose]; exact ih e o h
    | connClose => simp [cancelFirst] at h
    | returnIfErr => simp [cancelFirst] at h
    | mayReturn => simp [cancelFirst] at h
    | ret => simp [cancelFirst] at h

/-- **close_cancels_keepalive.** On the statement lists regenerated from `(*ClientSession).Close` and
`(*ServerSession).Close`: every execution of `Close` — the transport connection's `Close` failing or
not — cancels keep-alive. -/
theorem close_cancels_keepalive (connErr : Bool) (oracle : List Bool) :
    execClose connErr clientClose false oracle = true ∧
      execClose connErr serverClose false oracle = true :=
  ⟨execClose_of_cancelFirst connErr _ _ _ (by decide), execClose_of_cancelFirst connErr _ _ _ (by decide)⟩

/-- **close_silences_keepalive** (the property's last sentence, for a closed session).  `Close`,
called at `tc` while the loop has seen the outcomes `scs`, cancels keep-alive on every path; the
loop then sends no ping from `tc` on, its goroutine returns at `tc` or when the ping then in flight is
over — by `tc + I/2` when that ping honours its context —, and nothing — ping, log record, `Close` —
happens after that return. -/
theorem close_silences_keepalive (connErr : Bool) (oracle : List Bool) (I : Nat) (t0 : Int)
    (scs : List Script) (tc : Nat) :
    (execClose connErr clientClose false oracle = true ∧ execClose connErr serverClose false oracle = true) ∧
    (runCancel I t0 scs tc).status ≠ .running ∧
    (∀ p ∈ (runCancel I t0 scs tc).pings, p < tc) ∧
    ((∀ sc ∈ scs, sc.honours = true) → endAt I t0 scs tc ≤ tc + I / 2) ∧
    (endAt I t0 scs tc = tc ∨
      endAt I t0 scs tc = (run I t0 (scs.take (pingsBefore I tc scs))).free) ∧
    (∀ p ∈ (runCancel I t0 scs tc).pings, p ≤ endAt I t0 scs tc) ∧
    (∀ w ∈ warnsCancel I t0 scs tc, w ≤ endAt I t0 scs tc) ∧
    (∀ c, (runCancel I t0 scs tc).closeAt = some c → c = endAt I t0 scs tc) :=
  ⟨close_cancels_keepalive connErr oracle, ((silent_stop I t0 scs).2 tc).1, cancel_stops_pings I t0 scs tc,
    fun hh => (cancel_ends_promptly I t0 scs tc).1
      (fun sc hsc => hh sc (List.mem_of_mem_take (List.mem_of_getElem? hsc))),
    (cancel_ends_promptly I t0 scs tc).2.2, (nothing_after_end I t0 scs tc).1,
    (nothing_after_end I t0 scs tc).2.1, (nothing_after_end I t0 scs tc).2.2⟩

/-! ## Non-vacuity -/

-- a Close method that cancels keep-alive only after a failing conn.Close does NOT pass …
example : execClose true [.plain, .connClose, .plain, .returnIfErr, .cancelKeepalive, .ret] false [] = false := by decide
-- … although it does when the connection closes cleanly
example : execClose false [.plain, .connClose, .plain, .returnIfErr, .cancelKeepalive, .ret] false [] = true := by decide
-- a statement that may leave the function before the cancellation does not pass either
example : execClose false [.mayReturn, .cancelKeepalive, .ret] false [true] = false := by decide
-- the regenerated lists are not empty and contain the cancellation
example : CloseAct.cancelKeepalive ∈ clientClose ∧ CloseAct.cancelKeepalive ∈ serverClose := by decide

end KeepAlive
