import McpModel.KeepAlive.Model
/-! Helper lemmas for E9 (the property theorems are in `Props.lean`). -/
namespace KeepAlive
open Generated.KeepAlive

/-- Induction from the right end of a list. -/
theorem snoc_induction {α : Type} {P : List α → Prop} (h0 : P [])
    (hs : ∀ l x, P l → P (l ++ [x])) : ∀ l, P l := by
  intro l
  rw [← List.reverse_reverse l]
  induction l.reverse with
  | nil => exact h0
  | cons x t ih => rw [List.reverse_cons]; exact hs _ _ ih

/-- `step` with the ping already observed. -/
def stepO (I T : Nat) (s : St) (o : Outcome) : St :=
  match s.status with
  | .running =>
    let t := nextStart I s.last s.free
    let s1 : St := { s with tick := s.tick + 1, pings := s.pings ++ [t], last := t, free := t + o.dur }
    match o with
    | .ok _ => { s1 with fails := 0 }
    | .mnf _ => { s1 with status := .stopped }
    | .fail d =>
      let f := s.fails + 1
      if f < T then { s1 with fails := f }
      else { s1 with fails := f, status := .closed, closeAt := some (t + d) }
  | _ => s

def runO (I T : Nat) (os : List Outcome) : St := os.foldl (stepO I T) {}

theorem tolerated_iff (f T : Nat) : tolerated f T = true ↔ f < T := by
  simp [tolerated]

theorem step_eq_stepO (I T : Nat) (s : St) (sc : Script) :
    step I T s sc = stepO I T s (observe (pingTimeout I) sc) := by
  unfold step stepO
  cases s.status <;> simp only []
  generalize observe (pingTimeout I) sc = o
  cases o <;> simp only []
  by_cases h : s.fails + 1 < T
  · have ht : tolerated (↑(s.fails + 1)) ↑T = true := by simp [tolerated]; omega
    rw [if_pos ht, if_pos h]
  · have ht : ¬ tolerated (↑(s.fails + 1)) ↑T = true := by simp [tolerated]; omega
    rw [if_neg ht, if_neg h]

/-- The observed outcomes of a script list. -/
def obsOf (I : Nat) (scs : List Script) : List Outcome := scs.map (observe (pingTimeout I))

theorem run_eq_runO (I : Nat) (t0 : Int) (scs : List Script) :
    run I t0 scs = runO I (threshold t0) (obsOf I scs) := by
  unfold run runO obsOf
  generalize ({} : St) = s
  induction scs generalizing s with
  | nil => rfl
  | cons sc t ih => simp only [List.foldl_cons, List.map_cons, step_eq_stepO, ih]

theorem runO_snoc (I T : Nat) (os : List Outcome) (o : Outcome) :
    runO I T (os ++ [o]) = stepO I T (runO I T os) o := by
  simp [runO, List.foldl_append]

theorem observe_dur_le (to : Nat) (sc : Script) (hh : sc.honours = true) :
    (observe to sc).dur ≤ to := by
  unfold observe
  cases sc.delay with
  | none => simp [Outcome.dur]
  | some d =>
    by_cases h : d < to
    · cases sc.kind <;> simp [h, Outcome.dur] <;> omega
    · simp [h, hh, Outcome.dur]

theorem threshold_eq (t0 : Int) : threshold t0 = if t0 < 1 then 1 else t0.toNat := by
  unfold threshold normThreshold
  by_cases h : t0 < 1 <;> simp [h]

theorem threshold_pos (t0 : Int) : 1 ≤ threshold t0 := by
  rw [threshold_eq]
  by_cases h : t0 < 1
  · simp [h]
  · simp [h]; omega

/-- Number of consecutive failures at the end of `l`. -/
def trail (l : List Outcome) : Nat := (l.reverse.takeWhile Outcome.isFail).length

@[simp] theorem trail_nil : trail [] = 0 := rfl

theorem trail_snoc (l : List Outcome) (x : Outcome) :
    trail (l ++ [x]) = if x.isFail then trail l + 1 else 0 := by
  unfold trail
  rw [List.reverse_append]
  cases h : x.isFail <;> simp [h]

theorem trail_le_length (l : List Outcome) : trail l ≤ l.length := by
  induction l using snoc_induction with
  | h0 => simp
  | hs l x ih =>
    rw [trail_snoc]
    cases x.isFail <;> simp <;> omega

/-- `trail` in words: at least `T` trailing failures = the last `T` outcomes exist and all failed. -/
theorem le_trail_iff (l : List Outcome) : ∀ T : Nat,
    T ≤ trail l ↔ T ≤ l.length ∧ ∀ o ∈ l.drop (l.length - T), o.isFail = true := by
  induction l using snoc_induction with
  | h0 => intro T; simp
  | hs l x ih =>
    intro T
    rw [trail_snoc]
    cases T with
    | zero => simp
    | succ T' =>
      have hd : (l ++ [x]).drop ((l ++ [x]).length - (T' + 1)) = l.drop (l.length - T') ++ [x] := by
        have : (l ++ [x]).length - (T' + 1) = l.length - T' := by simp
        rw [this, List.drop_append_of_le_length (by omega)]
      rw [hd]
      cases hx : x.isFail with
      | false =>
        simp only [Bool.false_eq_true, if_false]
        constructor
        · intro h; omega
        · rintro ⟨_, h⟩
          have := h x (by simp)
          rw [hx] at this; cases this
      | true =>
        simp only [if_true, Nat.add_le_add_iff_right, List.length_append, List.length_cons,
          List.length_nil, Nat.zero_add]
        rw [ih T']
        constructor
        · rintro ⟨h1, h2⟩
          refine ⟨h1, ?_⟩
          intro o ho
          rcases List.mem_append.1 ho with h | h
          · exact h2 o h
          · simp at h; rw [h]; exact hx
        · rintro ⟨h1, h2⟩
          exact ⟨h1, fun o ho => h2 o (List.mem_append.2 (Or.inl ho))⟩

/-- The instants of the first `n` ticks. -/
def tickTimes (I n : Nat) : List Nat := (List.range n).map fun j => (j + 1) * I

theorem tickTimes_succ (I n : Nat) : tickTimes I (n + 1) = tickTimes I n ++ [(n + 1) * I] := by
  simp [tickTimes, List.range_succ]

/-! ### Timing: when the pings are issued and when they end -/

theorem gridAfter_gt (I t : Nat) (hI : 0 < I) : t < gridAfter I t := by
  unfold gridAfter
  have := Nat.div_add_mod t I
  have := Nat.mod_lt t hI
  rw [Nat.add_mul, Nat.mul_comm (t / I) I]
  omega

theorem gridAfter_mul (I k : Nat) (hI : 0 < I) : gridAfter I (k * I) = (k + 1) * I := by
  unfold gridAfter
  rw [Nat.mul_div_cancel k hI]

theorem gridAfter_le (I t : Nat) : gridAfter I t ≤ t + I := by
  unfold gridAfter
  have := Nat.div_mul_le_self t I
  rw [Nat.add_mul]; omega

/-- The timing part of the loop's state. -/
structure Tm where
  pings : List Nat := []
  last : Nat := 0
  free : Nat := 0

def tmStep (I : Nat) (t : Tm) (o : Outcome) : Tm :=
  { pings := t.pings ++ [nextStart I t.last t.free], last := nextStart I t.last t.free,
    free := nextStart I t.last t.free + o.dur }

def tmFrom (I : Nat) (t : Tm) (os : List Outcome) : Tm := os.foldl (tmStep I) t

/-- The timing of a loop that serves all of `os`. -/
def tm (I : Nat) (os : List Outcome) : Tm := tmFrom I {} os

theorem tm_snoc (I : Nat) (os : List Outcome) (o : Outcome) :
    tm I (os ++ [o]) = tmStep I (tm I os) o := by
  simp [tm, tmFrom, List.foldl_append]

theorem tmFrom_snoc (I : Nat) (t : Tm) (os : List Outcome) (o : Outcome) :
    tmFrom I t (os ++ [o]) = tmStep I (tmFrom I t os) o := by
  simp [tmFrom, List.foldl_append]

/-- The instant at which ping `k` (k ≥ 1) of a loop that serves `os` is issued / is over; 0 for `k = 0`. -/
def pStart (I : Nat) (os : List Outcome) (k : Nat) : Nat := (tm I (os.take k)).last
def pEnd (I : Nat) (os : List Outcome) (k : Nat) : Nat := (tm I (os.take k)).free

theorem take_succ_snoc (os : List Outcome) (k : Nat) (o : Outcome) (h : os[k]? = some o) :
    os.take (k + 1) = os.take k ++ [o] := by
  rw [List.take_add_one, h]; rfl

/-- The recurrence of the schedule: ping `k+1` is issued at the first grid tick after ping `k` was
issued, or when ping `k` ends if that is later; it ends after its duration. -/
theorem pStart_succ (I : Nat) (os : List Outcome) (k : Nat) (o : Outcome) (h : os[k]? = some o) :
    pStart I os (k + 1) = nextStart I (pStart I os k) (pEnd I os k) ∧
      pEnd I os (k + 1) = pStart I os (k + 1) + o.dur := by
  unfold pStart pEnd
  rw [take_succ_snoc os k o h, tm_snoc]
  simp [tmStep]

theorem pStart_zero (I : Nat) (os : List Outcome) : pStart I os 0 = 0 ∧ pEnd I os 0 = 0 := by
  simp [pStart, pEnd, tm, tmFrom]

theorem tm_pings (I : Nat) (os : List Outcome) :
    (tm I os).pings = (List.range os.length).map fun j => pStart I os (j + 1) := by
  induction os using snoc_induction with
  | h0 => simp [tm, tmFrom]
  | hs os o ih =>
    rw [tm_snoc]
    simp only [tmStep, List.length_append, List.length_cons, List.length_nil, Nat.zero_add,
      List.range_succ, List.map_append, List.map_cons, List.map_nil]
    have hlast : nextStart I (tm I os).last (tm I os).free = pStart I (os ++ [o]) (os.length + 1) := by
      unfold pStart
      rw [List.take_of_length_le (by simp), tm_snoc]
      simp [tmStep]
    rw [hlast, ih]
    congr 1
    apply List.map_congr_left
    intro j hj
    have hj' : j < os.length := by simpa using hj
    unfold pStart
    rw [List.take_append_of_le_length (by omega)]

theorem tm_pings_length (I : Nat) (os : List Outcome) : (tm I os).pings.length = os.length := by
  rw [tm_pings]; simp

/-- Every ping is over no earlier than it was issued, and issued no earlier than the previous one ended. -/
theorem pStart_le_pEnd (I : Nat) (os : List Outcome) (k : Nat) : pStart I os k ≤ pEnd I os k := by
  cases k with
  | zero => simp [pStart_zero]
  | succ j =>
    cases h : os[j]? with
    | none =>
      have hlen : os.length ≤ j := by
        rcases Nat.lt_or_ge j os.length with hlt | hge
        · rw [List.getElem?_eq_getElem hlt] at h; cases h
        · exact hge
      unfold pStart pEnd
      rw [List.take_of_length_le (by omega)]
      induction os using snoc_induction with
      | h0 => simp [tm, tmFrom]
      | hs os o _ => rw [tm_snoc]; simp [tmStep]
    | some o => have := (pStart_succ I os j o h).2; omega

theorem pEnd_le_pStart_succ (I : Nat) (os : List Outcome) (k : Nat) (hk : k < os.length) :
    pEnd I os k ≤ pStart I os (k + 1) ∧ gridAfter I (pStart I os k) ≤ pStart I os (k + 1) := by
  have h : os[k]? = some os[k] := List.getElem?_eq_getElem hk
  rw [(pStart_succ I os k _ h).1]
  unfold nextStart
  exact ⟨Nat.le_max_left _ _, Nat.le_max_right _ _⟩

theorem pEnd_mono_succ (I : Nat) (os : List Outcome) (k : Nat) (hk : k < os.length) :
    pEnd I os k ≤ pEnd I os (k + 1) := by
  have := (pEnd_le_pStart_succ I os k hk).1
  have := pStart_le_pEnd I os (k + 1)
  omega

theorem pEnd_mono (I : Nat) (os : List Outcome) (j k : Nat) (h : j ≤ k) (hk : k ≤ os.length) :
    pEnd I os j ≤ pEnd I os k := by
  induction k with
  | zero => have : j = 0 := by omega
            rw [this]; exact Nat.le_refl _
  | succ n ih =>
    rcases Nat.lt_or_eq_of_le h with hlt | heq
    · have := ih (by omega) (by omega)
      have := pEnd_mono_succ I os n (by omega)
      omega
    · rw [heq]; exact Nat.le_refl _

/-- When no ping lasts as long as an interval, ping `k` is issued exactly on tick `k`. -/
theorem pStart_grid (I : Nat) (hI : 0 < I) (os : List Outcome) (hshort : ∀ o ∈ os, o.dur < I) :
    ∀ k, k ≤ os.length → pStart I os k = k * I ∧ pEnd I os k < (k + 1) * I := by
  intro k
  induction k with
  | zero => intro _; simp [pStart_zero]; exact hI
  | succ n ih =>
    intro hk
    obtain ⟨i1, i2⟩ := ih (by omega)
    have hn : n < os.length := by omega
    have h : os[n]? = some os[n] := List.getElem?_eq_getElem hn
    obtain ⟨r1, r2⟩ := pStart_succ I os n _ h
    have hd := hshort os[n] (List.getElem_mem hn)
    have hs : pStart I os (n + 1) = (n + 1) * I := by
      rw [r1, i1, nextStart, gridAfter_mul I n hI]
      exact Nat.max_eq_right (by omega)
    refine ⟨hs, ?_⟩
    rw [r2, hs, Nat.add_mul (n + 1) 1 I]
    omega

/-- The instant at which ping `k` (k ≥ 1) of a loop that goes on pinging is issued / is over, in
terms of the scripts; 0 for `k = 0` (no ping yet). -/
def pingStart (I : Nat) (scs : List Script) (k : Nat) : Nat := pStart I (obsOf I scs) k
def pingEnd (I : Nat) (scs : List Script) (k : Nat) : Nat := pEnd I (obsOf I scs) k

/-- What is known about the state after the outcomes `os` (threshold `T ≥ 1`). -/
def Inv (I T : Nat) (os : List Outcome) (s : St) : Prop :=
  (s.pings = (tm I (os.take s.tick)).pings ∧ s.last = pStart I os s.tick ∧ s.free = pEnd I os s.tick) ∧
  match s.status with
  | .running =>
    s.tick = os.length ∧ s.fails = trail os ∧ s.closeAt = none ∧ (∀ o ∈ os, o.isMnf = false) ∧
      (∀ k, k ≤ os.length → trail (os.take k) < T)
  | .closed =>
    ∃ d, 1 ≤ s.tick ∧ s.tick ≤ os.length ∧ os[s.tick - 1]? = some (.fail d) ∧
      s.closeAt = some (s.last + d) ∧ T ≤ trail (os.take s.tick) ∧
      (∀ k, k < s.tick → trail (os.take k) < T) ∧ (∀ o ∈ os.take s.tick, o.isMnf = false)
  | .stopped =>
    ∃ d, 1 ≤ s.tick ∧ s.tick ≤ os.length ∧ os[s.tick - 1]? = some (.mnf d) ∧ s.closeAt = none ∧
      (∀ k, k < s.tick → trail (os.take k) < T) ∧ (∀ o ∈ os.take (s.tick - 1), o.isMnf = false)

/-- The timing part of the invariant is preserved by one more ping. -/
theorem timing_step (I : Nat) (os : List Outcome) (o : Outcome) (s : St) (h1 : s.tick = os.length)
    (ht : s.pings = (tm I (os.take s.tick)).pings ∧ s.last = pStart I os s.tick ∧ s.free = pEnd I os s.tick) :
    s.pings ++ [nextStart I s.last s.free] = (tm I ((os ++ [o]).take (s.tick + 1))).pings ∧
      nextStart I s.last s.free = pStart I (os ++ [o]) (s.tick + 1) ∧
      nextStart I s.last s.free + o.dur = pEnd I (os ++ [o]) (s.tick + 1) := by
  obtain ⟨t1, t2, t3⟩ := ht
  unfold pStart pEnd at *
  rw [h1, List.take_length] at t1 t2 t3
  rw [h1, List.take_of_length_le (by simp), tm_snoc]
  simp [tmStep, t1, t2, t3]

theorem timing_keep (I : Nat) (os : List Outcome) (o : Outcome) (s : St) (h2 : s.tick ≤ os.length)
    (ht : s.pings = (tm I (os.take s.tick)).pings ∧ s.last = pStart I os s.tick ∧ s.free = pEnd I os s.tick) :
    s.pings = (tm I ((os ++ [o]).take s.tick)).pings ∧ s.last = pStart I (os ++ [o]) s.tick ∧
      s.free = pEnd I (os ++ [o]) s.tick := by
  unfold pStart pEnd at *
  rw [List.take_append_of_le_length h2]
  exact ht

theorem inv_runO (I T : Nat) (hT : 1 ≤ T) (os : List Outcome) : Inv I T os (runO I T os) := by
  induction os using snoc_induction with
  | h0 => simp [Inv, runO, tm, tmFrom, pStart, pEnd]; omega
  | hs os o ih =>
    rw [runO_snoc]
    generalize runO I T os = s at ih
    obtain ⟨hp, hst⟩ := ih
    have take_le : ∀ k, k ≤ os.length → (os ++ [o]).take k = os.take k := fun k hk =>
      List.take_append_of_le_length hk
    cases hs : s.status with
    | running =>
      rw [hs] at hst
      obtain ⟨h1, h2, h3, h4, h5⟩ := hst
      have htm := timing_step I os o s h1 hp
      have hall : ∀ k, k ≤ (os ++ [o]).length → k ≤ os.length ∨ (os ++ [o]).take k = os ++ [o] := by
        intro k hk
        by_cases h : k ≤ os.length
        · exact Or.inl h
        · right
          have : k = (os ++ [o]).length := by simp at hk ⊢; omega
          rw [this, List.take_length]
      cases o with
      | ok d =>
        refine ⟨by simpa [stepO, hs] using htm, ?_⟩
        simp only [stepO, hs]
        refine ⟨by simp [h1], by simp [trail_snoc, Outcome.isFail], h3, ?_, ?_⟩
        · intro o ho
          rcases List.mem_append.1 ho with h | h
          · exact h4 o h
          · simp at h; rw [h]; rfl
        · intro k hk
          rcases hall k hk with h | h
          · rw [take_le k h]; exact h5 k h
          · rw [h, trail_snoc]; simp [Outcome.isFail]; omega
      | mnf d =>
        refine ⟨by simpa [stepO, hs] using htm, ?_⟩
        simp only [stepO, hs]
        refine ⟨d, by omega, by simp [h1], ?_, h3, ?_, ?_⟩
        · simp [h1]
        · intro k hk
          have hk' : k ≤ os.length := by omega
          rw [take_le k hk']; exact h5 k hk'
        · intro o ho
          simp only [Nat.add_sub_cancel] at ho
          rw [h1, take_le _ (Nat.le_refl _), List.take_length] at ho
          exact h4 o ho
      | fail d =>
        by_cases hf : s.fails + 1 < T
        · refine ⟨by simpa [stepO, hs, hf] using htm, ?_⟩
          simp only [stepO, hs, hf, if_true]
          refine ⟨by simp [h1], by simp [trail_snoc, Outcome.isFail, h2], h3, ?_, ?_⟩
          · intro o ho
            rcases List.mem_append.1 ho with h | h
            · exact h4 o h
            · simp at h; rw [h]; rfl
          · intro k hk
            rcases hall k hk with h | h
            · rw [take_le k h]; exact h5 k h
            · rw [h, trail_snoc]; simp [Outcome.isFail]; omega
        · refine ⟨by simpa [stepO, hs, hf] using htm, ?_⟩
          simp only [stepO, hs, hf, if_false]
          refine ⟨d, by omega, by simp [h1], by simp [h1], rfl, ?_, ?_, ?_⟩
          · have : (os ++ [Outcome.fail d]).take (s.tick + 1) = os ++ [Outcome.fail d] := by
              rw [h1]; exact List.take_of_length_le (by simp)
            rw [this, trail_snoc]; simp [Outcome.isFail]; omega
          · intro k hk
            have hk' : k ≤ os.length := by omega
            rw [take_le k hk']; exact h5 k hk'
          · intro o ho
            have : (os ++ [Outcome.fail d]).take (s.tick + 1) = os ++ [Outcome.fail d] := by
              rw [h1]; exact List.take_of_length_le (by simp)
            rw [this] at ho
            rcases List.mem_append.1 ho with h | h
            · exact h4 o h
            · simp at h; rw [h]; rfl
    | closed =>
      rw [hs] at hst
      obtain ⟨d, h1, h2, h3, h4, h5, h6, h7⟩ := hst
      have hstep : stepO I T s o = s := by simp [stepO, hs]
      rw [hstep]
      refine ⟨timing_keep I os o s h2 hp, ?_⟩
      rw [hs]
      refine ⟨d, h1, by simp; omega, ?_, h4, ?_, ?_, ?_⟩
      · rw [List.getElem?_append_left (by omega)]; exact h3
      · rw [take_le _ h2]; exact h5
      · intro k hk; rw [take_le k (by omega)]; exact h6 k hk
      · rw [take_le _ h2]; exact h7
    | stopped =>
      rw [hs] at hst
      obtain ⟨d, h1, h2, h3, h4, h5, h6⟩ := hst
      have hstep : stepO I T s o = s := by simp [stepO, hs]
      rw [hstep]
      refine ⟨timing_keep I os o s h2 hp, ?_⟩
      rw [hs]
      refine ⟨d, h1, by simp; omega, ?_, h4, ?_, ?_⟩
      · rw [List.getElem?_append_left (by omega)]; exact h3
      · intro k hk; rw [take_le k (by omega)]; exact h5 k hk
      · rw [take_le _ (by omega)]; exact h6

end KeepAlive
