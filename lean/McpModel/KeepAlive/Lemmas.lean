import McpModel.KeepAlive.Model
/-! Helper lemmas for E9 (the property theorems are in `Props.lean`). -/
namespace KeepAlive
open Generated.KeepAlive

/-- Induction from the right end of a list. -/
theorem snoc_induction {α : Type} {P : List α → Prop} (h0 : P [])
    (hs : ∀ l x, P l → P (l ++ [x])) : ∀ l, P l := by
  intro l
  rw [← List.reverse_reverse l]
  induction l.reverse with
  | nil => exact h0
  | cons x t ih => rw [List.reverse_cons]; exact hs _ _ ih

/-- `step` with the ping already observed. -/
def stepO (I T : Nat) (s : St) (o : Outcome) : St :=
  match s.status with
  | .running =>
    let k := s.tick + 1
    let t := k * I
    let s1 : St := { s with tick := k, pings := s.pings ++ [t] }
    match o with
    | .ok _ => { s1 with fails := 0 }
    | .mnf _ => { s1 with status := .stopped }
    | .fail d =>
      let f := s.fails + 1
      if f < T then { s1 with fails := f }
      else { s1 with fails := f, status := .closed, closeAt := some (t + d) }
  | _ => s

def runO (I T : Nat) (os : List Outcome) : St := os.foldl (stepO I T) {}

theorem tolerated_iff (f T : Nat) : tolerated f T = true ↔ f < T := by
  simp [tolerated]

theorem step_eq_stepO (I T : Nat) (s : St) (sc : Script) :
    step I T s sc = stepO I T s (observe (pingTimeout I) sc) := by
  unfold step stepO
  cases s.status <;> simp only []
  cases observe (pingTimeout I) sc <;> simp only []
  by_cases h : s.fails + 1 < T
  · have ht : tolerated (↑(s.fails + 1)) ↑T = true := by simp [tolerated]; omega
    rw [if_pos ht, if_pos h]
  · have ht : ¬ tolerated (↑(s.fails + 1)) ↑T = true := by simp [tolerated]; omega
    rw [if_neg ht, if_neg h]

/-- The observed outcomes of a script list. -/
def obsOf (I : Nat) (scs : List Script) : List Outcome := scs.map (observe (pingTimeout I))

theorem run_eq_runO (I : Nat) (t0 : Int) (scs : List Script) :
    run I t0 scs = runO I (threshold t0) (obsOf I scs) := by
  unfold run runO obsOf
  generalize ({} : St) = s
  induction scs generalizing s with
  | nil => rfl
  | cons sc t ih => simp only [List.foldl_cons, List.map_cons, step_eq_stepO, ih]

theorem runO_snoc (I T : Nat) (os : List Outcome) (o : Outcome) :
    runO I T (os ++ [o]) = stepO I T (runO I T os) o := by
  simp [runO, List.foldl_append]

theorem observe_dur_le (to : Nat) (sc : Script) : (observe to sc).dur ≤ to := by
  unfold observe
  cases sc.delay with
  | none => simp [Outcome.dur]
  | some d =>
    by_cases h : d < to
    · cases sc.kind <;> simp [h, Outcome.dur] <;> omega
    · simp [h, Outcome.dur]

theorem threshold_eq (t0 : Int) : threshold t0 = if t0 < 1 then 1 else t0.toNat := by
  unfold threshold normThreshold
  by_cases h : t0 < 1 <;> simp [h]

theorem threshold_pos (t0 : Int) : 1 ≤ threshold t0 := by
  rw [threshold_eq]
  by_cases h : t0 < 1
  · simp [h]
  · simp [h]; omega

/-- Number of consecutive failures at the end of `l`. -/
def trail (l : List Outcome) : Nat := (l.reverse.takeWhile Outcome.isFail).length

@[simp] theorem trail_nil : trail [] = 0 := rfl

theorem trail_snoc (l : List Outcome) (x : Outcome) :
    trail (l ++ [x]) = if x.isFail then trail l + 1 else 0 := by
  unfold trail
  rw [List.reverse_append]
  cases h : x.isFail <;> simp [h]

theorem trail_le_length (l : List Outcome) : trail l ≤ l.length := by
  induction l using snoc_induction with
  | h0 => simp
  | hs l x ih =>
    rw [trail_snoc]
    cases x.isFail <;> simp <;> omega

/-- `trail` in words: at least `T` trailing failures = the last `T` outcomes exist and all failed. -/
theorem le_trail_iff (l : List Outcome) : ∀ T : Nat,
    T ≤ trail l ↔ T ≤ l.length ∧ ∀ o ∈ l.drop (l.length - T), o.isFail = true := by
  induction l using snoc_induction with
  | h0 => intro T; simp
  | hs l x ih =>
    intro T
    rw [trail_snoc]
    cases T with
    | zero => simp
    | succ T' =>
      have hd : (l ++ [x]).drop ((l ++ [x]).length - (T' + 1)) = l.drop (l.length - T') ++ [x] := by
        have : (l ++ [x]).length - (T' + 1) = l.length - T' := by simp
        rw [this, List.drop_append_of_le_length (by omega)]
      rw [hd]
      cases hx : x.isFail with
      | false =>
        simp only [Bool.false_eq_true, if_false]
        constructor
        · intro h; omega
        · rintro ⟨_, h⟩
          have := h x (by simp)
          rw [hx] at this; cases this
      | true =>
        simp only [if_true, Nat.add_le_add_iff_right, List.length_append, List.length_cons,
          List.length_nil, Nat.zero_add]
        rw [ih T']
        constructor
        · rintro ⟨h1, h2⟩
          refine ⟨h1, ?_⟩
          intro o ho
          rcases List.mem_append.1 ho with h | h
          · exact h2 o h
          · simp at h; rw [h]; exact hx
        · rintro ⟨h1, h2⟩
          exact ⟨h1, fun o ho => h2 o (List.mem_append.2 (Or.inl ho))⟩

/-- The instants of the first `n` ticks. -/
def tickTimes (I n : Nat) : List Nat := (List.range n).map fun j => (j + 1) * I

theorem tickTimes_succ (I n : Nat) : tickTimes I (n + 1) = tickTimes I n ++ [(n + 1) * I] := by
  simp [tickTimes, List.range_succ]

/-- What is known about the state after the outcomes `os` (threshold `T ≥ 1`). -/
def Inv (I T : Nat) (os : List Outcome) (s : St) : Prop :=
  s.pings = tickTimes I s.tick ∧
  match s.status with
  | .running =>
    s.tick = os.length ∧ s.fails = trail os ∧ s.closeAt = none ∧ (∀ o ∈ os, o.isMnf = false) ∧
      (∀ k, k ≤ os.length → trail (os.take k) < T)
  | .closed =>
    ∃ d, 1 ≤ s.tick ∧ s.tick ≤ os.length ∧ os[s.tick - 1]? = some (.fail d) ∧
      s.closeAt = some (s.tick * I + d) ∧ T ≤ trail (os.take s.tick) ∧
      (∀ k, k < s.tick → trail (os.take k) < T) ∧ (∀ o ∈ os.take s.tick, o.isMnf = false)
  | .stopped =>
    ∃ d, 1 ≤ s.tick ∧ s.tick ≤ os.length ∧ os[s.tick - 1]? = some (.mnf d) ∧ s.closeAt = none ∧
      (∀ k, k < s.tick → trail (os.take k) < T) ∧ (∀ o ∈ os.take (s.tick - 1), o.isMnf = false)

theorem inv_runO (I T : Nat) (hT : 1 ≤ T) (os : List Outcome) : Inv I T os (runO I T os) := by
  induction os using snoc_induction with
  | h0 => simp [Inv, runO, tickTimes]; omega
  | hs os o ih =>
    rw [runO_snoc]
    generalize runO I T os = s at ih
    obtain ⟨hp, hst⟩ := ih
    have take_le : ∀ k, k ≤ os.length → (os ++ [o]).take k = os.take k := fun k hk =>
      List.take_append_of_le_length hk
    cases hs : s.status with
    | running =>
      rw [hs] at hst
      obtain ⟨h1, h2, h3, h4, h5⟩ := hst
      have hall : ∀ k, k ≤ (os ++ [o]).length → k ≤ os.length ∨ (os ++ [o]).take k = os ++ [o] := by
        intro k hk
        by_cases h : k ≤ os.length
        · exact Or.inl h
        · right
          have : k = (os ++ [o]).length := by simp at hk ⊢; omega
          rw [this, List.take_length]
      cases o with
      | ok d =>
        refine ⟨by simp [stepO, hs, hp, tickTimes_succ], ?_⟩
        simp only [stepO, hs]
        refine ⟨by simp [h1], by simp [trail_snoc, Outcome.isFail], h3, ?_, ?_⟩
        · intro o ho
          rcases List.mem_append.1 ho with h | h
          · exact h4 o h
          · simp at h; rw [h]; rfl
        · intro k hk
          rcases hall k hk with h | h
          · rw [take_le k h]; exact h5 k h
          · rw [h, trail_snoc]; simp [Outcome.isFail]; omega
      | mnf d =>
        refine ⟨by simp [stepO, hs, hp, tickTimes_succ], ?_⟩
        simp only [stepO, hs]
        refine ⟨d, by omega, by simp [h1], ?_, h3, ?_, ?_⟩
        · simp [h1]
        · intro k hk
          have hk' : k ≤ os.length := by omega
          rw [take_le k hk']; exact h5 k hk'
        · intro o ho
          simp only [Nat.add_sub_cancel] at ho
          rw [h1, take_le _ (Nat.le_refl _), List.take_length] at ho
          exact h4 o ho
      | fail d =>
        by_cases hf : s.fails + 1 < T
        · refine ⟨by simp [stepO, hs, hf, hp, tickTimes_succ], ?_⟩
          simp only [stepO, hs, hf, if_true]
          refine ⟨by simp [h1], by simp [trail_snoc, Outcome.isFail, h2], h3, ?_, ?_⟩
          · intro o ho
            rcases List.mem_append.1 ho with h | h
            · exact h4 o h
            · simp at h; rw [h]; rfl
          · intro k hk
            rcases hall k hk with h | h
            · rw [take_le k h]; exact h5 k h
            · rw [h, trail_snoc]; simp [Outcome.isFail]; omega
        · refine ⟨by simp [stepO, hs, hf, hp, tickTimes_succ], ?_⟩
          simp only [stepO, hs, hf, if_false]
          refine ⟨d, by omega, by simp [h1], by simp [h1], rfl, ?_, ?_, ?_⟩
          · have : (os ++ [Outcome.fail d]).take (s.tick + 1) = os ++ [Outcome.fail d] := by
              rw [h1]; exact List.take_of_length_le (by simp)
            rw [this, trail_snoc]; simp [Outcome.isFail]; omega
          · intro k hk
            have hk' : k ≤ os.length := by omega
            rw [take_le k hk']; exact h5 k hk'
          · intro o ho
            have : (os ++ [Outcome.fail d]).take (s.tick + 1) = os ++ [Outcome.fail d] := by
              rw [h1]; exact List.take_of_length_le (by simp)
            rw [this] at ho
            rcases List.mem_append.1 ho with h | h
            · exact h4 o h
            · simp at h; rw [h]; rfl
    | closed =>
      rw [hs] at hst
      obtain ⟨d, h1, h2, h3, h4, h5, h6, h7⟩ := hst
      have hstep : stepO I T s o = s := by simp [stepO, hs]
      rw [hstep]
      refine ⟨hp, ?_⟩
      rw [hs]
      refine ⟨d, h1, by simp; omega, ?_, h4, ?_, ?_, ?_⟩
      · rw [List.getElem?_append_left (by omega)]; exact h3
      · rw [take_le _ h2]; exact h5
      · intro k hk; rw [take_le k (by omega)]; exact h6 k hk
      · rw [take_le _ h2]; exact h7
    | stopped =>
      rw [hs] at hst
      obtain ⟨d, h1, h2, h3, h4, h5, h6⟩ := hst
      have hstep : stepO I T s o = s := by simp [stepO, hs]
      rw [hstep]
      refine ⟨hp, ?_⟩
      rw [hs]
      refine ⟨d, h1, by simp; omega, ?_, h4, ?_, ?_⟩
      · rw [List.getElem?_append_left (by omega)]; exact h3
      · intro k hk; rw [take_le k (by omega)]; exact h5 k hk
      · rw [take_le _ (by omega)]; exact h6

end KeepAlive
