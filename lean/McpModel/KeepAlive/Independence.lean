import McpModel.Generated.KeepAliveLockGen
/-!
# C13 — the keep-alive of one session does not wait for the handlers of another session

`Server.mu` (`Client.mu`) is the one lock shared by ALL sessions of a `Server` (`Client`) value, and every
keep-alive ping takes it — `startKeepalive` → `Ping` → `handleSend` → `sendingMethodHandler()`: lock, read one
field, unlock — AFTER `context.WithTimeout(…, interval/2)` has started the ping's clock.  A `sync.Mutex` does
not look at a context.  The property ("a peer that answers is never closed by keep-alive", "closed within that
many intervals plus one ping timeout") therefore depends on a lock discipline: nothing that takes time — in
particular no user-supplied handler — runs while the shared lock is held.

The model: one keep-alive goroutine (`ka`) and any number of request goroutines of OTHER sessions (`hs i`), one
shared lock (`held`), a virtual clock (`now`).  One constructor of `Step` = one atomic section of the code:
a request goroutine runs the user's handler (parked for an arbitrary time), then takes the lock for its
book-keeping (`Server.subscribe`: handler, then `s.mu.Lock()`, map update, unlock).  `ul = true` is the OTHER
order (lock, then handler, then book-keeping: the handler runs with the lock held).  Which of the two the code
is, is regenerated on every run: `Generated.KeepAlive.userCallsUnderSharedLock` lists the calls under the shared
lock that reach a user-supplied function (go/extract/keepalive.go, all 37 lock regions of server.go/client.go);
`lock_discipline` says the list is empty, so the code is `Step false`.

Time: a goroutine inside a critical section, or about to enter a free one, runs on (such sections contain no
blocking operation and no user code — that is what the regenerated fact says); the clock advances only when no
such goroutine exists (`Urgent`).  A parked handler is not urgent: it is what lets time pass.
-/
namespace KeepAlive.Indep

/-- request goroutine of another session -/
inductive HPc
  | idle
  | parked (until_ : Nat)          -- inside the user's handler, lock not held
  | parkedHolding (until_ : Nat)   -- inside the user's handler WITH the shared lock held (only `ul = true`)
  | wantLock
  | crit
deriving DecidableEq, Repr

/-- the keep-alive goroutine: `waitLock t` = the ping's context was created at `t` and `sendingMethodHandler`
is at `mu.Lock()`; `sent t g` = the lock was requested at `t` and obtained at `g`. -/
inductive KPc
  | sleeping
  | waitLock (since : Nat)
  | crit (since : Nat)
  | sent (reqAt gotAt : Nat)
deriving DecidableEq, Repr

structure St where
  now : Nat
  ka : KPc
  hs : Nat → HPc
  held : Bool

def upd (hs : Nat → HPc) (i : Nat) (x : HPc) : Nat → HPc := fun j => if j = i then x else hs j

/-- some goroutine can run right now without waiting for anything: time does not pass -/
def Urgent (s : St) : Prop :=
  (∃ t, s.ka = .crit t) ∨ (∃ i, s.hs i = .crit) ∨
  (s.held = false ∧ ((∃ t, s.ka = .waitLock t) ∨ ∃ i, s.hs i = .wantLock))

inductive Step (ul : Bool) : St → St → Prop
  /-- a request of another session arrives, its user handler starts (and parks for `d`) -/
  | hStart (s : St) (i d : Nat) : s.hs i = .idle → ul = false →
      Step ul s { s with hs := upd s.hs i (.parked (s.now + d)) }
  /-- the other statement order: lock first, then the handler -/
  | hStartLocked (s : St) (i d : Nat) : s.hs i = .idle → ul = true → s.held = false →
      Step ul s { s with hs := upd s.hs i (.parkedHolding (s.now + d)), held := true }
  | hWake (s : St) (i u : Nat) : s.hs i = .parked u → u ≤ s.now →
      Step ul s { s with hs := upd s.hs i .wantLock }
  | hWakeLocked (s : St) (i u : Nat) : s.hs i = .parkedHolding u → u ≤ s.now →
      Step ul s { s with hs := upd s.hs i .crit }
  | hLock (s : St) (i : Nat) : s.hs i = .wantLock → s.held = false →
      Step ul s { s with hs := upd s.hs i .crit, held := true }
  | hUnlock (s : St) (i : Nat) : s.hs i = .crit →
      Step ul s { s with hs := upd s.hs i .idle, held := false }
  /-- a tick: the ping's context is created (its clock runs from `now`) and the send path reaches `mu.Lock()` -/
  | kTick (s : St) : s.ka = .sleeping → Step ul s { s with ka := .waitLock s.now }
  | kLock (s : St) (t : Nat) : s.ka = .waitLock t → s.held = false →
      Step ul s { s with ka := .crit t, held := true }
  | kUnlock (s : St) (t : Nat) : s.ka = .crit t → Step ul s { s with ka := .sent t s.now, held := false }
  | kNext (s : St) (t g : Nat) : s.ka = .sent t g → Step ul s { s with ka := .sleeping }
  | advance (s : St) (d : Nat) : ¬ Urgent s → Step ul s { s with now := s.now + d }

def init : St := { now := 0, ka := .sleeping, hs := fun _ => .idle, held := false }

inductive Reach (ul : Bool) : St → Prop
  | init : Reach ul init
  | step {s s' : St} : Reach ul s → Step ul s s' → Reach ul s'

/-- The invariant of the code's statement order (`ul = false`). -/
structure Inv (s : St) : Prop where
  holder : s.held = true → (∃ t, s.ka = .crit t) ∨ ∃ i, s.hs i = .crit
  noParkedHolder : ∀ i u, s.hs i ≠ .parkedHolding u
  waitNow : ∀ t, s.ka = .waitLock t → t = s.now
  critNow : ∀ t, s.ka = .crit t → t = s.now
  sentSame : ∀ t g, s.ka = .sent t g → g = t

theorem inv_init : Inv init := by
  constructor <;> simp [init]

theorem upd_same (hs : Nat → HPc) (i : Nat) (x : HPc) : upd hs i x i = x := by simp [upd]

theorem upd_other (hs : Nat → HPc) (i j : Nat) (x : HPc) (h : j ≠ i) : upd hs i x j = hs j := by simp [upd, h]

/-- a `crit` goroutine other than `i` survives an update at `i` whose old value was not `crit` -/
theorem crit_survives {hs : Nat → HPc} {i : Nat} {x : HPc} (hi : hs i ≠ .crit) :
    (∃ j, hs j = .crit) → ∃ j, upd hs i x j = .crit := by
  rintro ⟨j, hj⟩
  have hne : j ≠ i := by
    intro e; subst e; exact hi hj
  exact ⟨j, by rw [upd_other _ _ _ _ hne]; exact hj⟩

theorem inv_step {s s' : St} (hinv : Inv s) (hs : Step false s s') : Inv s' := by
  obtain ⟨hold, npk, wn, cn, ss⟩ := hinv
  cases hs with
  | hStart i d hi _ =>
    refine ⟨?_, ?_, wn, cn, ss⟩
    · intro hh
      rcases hold hh with h | h
      · exact .inl h
      · exact .inr (crit_survives (by rw [hi]; simp) h)
    · intro j u
      by_cases hj : j = i
      · subst hj; simp [upd_same]
      · simp only [upd_other _ _ _ _ hj]; exact npk j u
  | hStartLocked i d _ hul _ => simp at hul
  | hWake i u hi _ =>
    refine ⟨?_, ?_, wn, cn, ss⟩
    · intro hh
      rcases hold hh with h | h
      · exact .inl h
      · exact .inr (crit_survives (by rw [hi]; simp) h)
    · intro j u'
      by_cases hj : j = i
      · subst hj; simp [upd_same]
      · simp only [upd_other _ _ _ _ hj]; exact npk j u'
  | hWakeLocked i u hi _ => exact absurd hi (npk i u)
  | hLock i hi _ =>
    refine ⟨?_, ?_, wn, cn, ss⟩
    · intro _; exact .inr ⟨i, upd_same _ _ _⟩
    · intro j u'
      by_cases hj : j = i
      · subst hj; simp [upd_same]
      · simp only [upd_other _ _ _ _ hj]; exact npk j u'
  | hUnlock i hi =>
    refine ⟨?_, ?_, wn, cn, ss⟩
    · intro hh; simp at hh
    · intro j u'
      by_cases hj : j = i
      · subst hj; simp [upd_same]
      · simp only [upd_other _ _ _ _ hj]; exact npk j u'
  | kTick hk =>
    refine ⟨?_, npk, ?_, ?_, ?_⟩
    · intro hh
      rcases hold hh with ⟨t, h⟩ | h
      · rw [hk] at h; simp at h
      · exact .inr h
    · intro t h; simp at h; exact h.symm
    · intro t h; simp at h
    · intro t g h; simp at h
  | kLock t hk _ =>
    refine ⟨?_, npk, ?_, ?_, ?_⟩
    · intro _; exact .inl ⟨t, rfl⟩
    · intro t' h; simp at h
    · intro t' h; simp at h; subst h; exact wn _ hk
    · intro t' g h; simp at h
  | kUnlock t hk =>
    refine ⟨?_, npk, ?_, ?_, ?_⟩
    · intro hh; simp at hh
    · intro t' h; simp at h
    · intro t' h; simp at h
    · intro t' g h
      simp at h
      obtain ⟨h1, h2⟩ := h
      subst h1; subst h2
      exact (cn _ hk).symm
  | kNext t g hk =>
    refine ⟨?_, npk, ?_, ?_, ?_⟩
    · intro hh
      rcases hold hh with ⟨t', h⟩ | h
      · rw [hk] at h; simp at h
      · exact .inr h
    · intro t' h; simp at h
    · intro t' h; simp at h
    · intro t' g' h; simp at h
  | advance d hu =>
    -- time passes only when nobody can run: nobody holds the lock, and keep-alive is not at the lock
    have nocrit : ∀ t, s.ka ≠ .crit t := fun t h => hu (.inl ⟨t, h⟩)
    have nowait : ∀ t, s.ka ≠ .waitLock t := by
      intro t h
      cases hh : s.held with
      | false => exact hu (.inr (.inr ⟨hh, .inl ⟨t, h⟩⟩))
      | true =>
        rcases hold hh with h' | h'
        · exact hu (.inl h')
        · exact hu (.inr (.inl h'))
    refine ⟨hold, npk, ?_, ?_, ss⟩
    · intro t h; exact absurd h (nowait t)
    · intro t h; exact absurd h (nocrit t)

theorem reach_inv {s : St} (h : Reach false s) : Inv s := by
  induction h with
  | init => exact inv_init
  | step _ hs ih => exact inv_step ih hs

/-- The regenerated lock discipline: no call made while `Server.mu` / `Client.mu` is held reaches a
user-supplied function.  (A change of the source that puts one there changes the generated list and this
theorem no longer builds.) -/
theorem lock_discipline : Generated.KeepAlive.userCallsUnderSharedLock = [] := rfl

/-- **Keep-alive never waits for a handler** (all histories of any number of requests of other sessions, handlers
parked for arbitrary times): whenever the keep-alive goroutine is at the shared lock, the ping's clock has not
advanced; it holds the lock in the instant it asked for it, and has it at the instant it asked. So the ping
still has its whole timeout `interval/2` when it is written, whatever the other sessions' handlers do. -/
theorem ping_never_waits_for_a_handler {s : St} (h : Reach false s) :
    (∀ t, s.ka = .waitLock t → s.now = t) ∧ (∀ t, s.ka = .crit t → s.now = t) ∧
    (∀ t g, s.ka = .sent t g → g = t) := by
  have i := reach_inv h
  exact ⟨fun t ht => (i.waitNow t ht).symm, fun t ht => (i.critNow t ht).symm, i.sentSame⟩

/-- No handler of another session is ever parked with the shared lock held. -/
theorem no_handler_parked_under_lock {s : St} (h : Reach false s) (i u : Nat) : s.hs i ≠ .parkedHolding u :=
  (reach_inv h).noParkedHolder i u

/-- Non-vacuity: the keep-alive goroutine does get through while a handler of another session is parked — the
state "handler 0 parked until 2478, ping sent, lock requested and obtained at 1000" is reachable. -/
theorem ping_goes_through_while_handler_parked :
    ∃ s, Reach false s ∧ s.ka = .sent 1000 1000 ∧ s.hs 0 = .parked 2478 := by
  let s0 := init
  have r0 : Reach false s0 := .init
  have nu0 : ¬ Urgent s0 := by simp [Urgent, s0, init]
  let s1 : St := { s0 with now := s0.now + 737 }
  have r1 : Reach false s1 := .step r0 (.advance s0 737 nu0)
  let s2 : St := { s1 with hs := upd s1.hs 0 (.parked (s1.now + 1741)) }
  have r2 : Reach false s2 := .step r1 (.hStart s1 0 1741 rfl rfl)
  have nu2 : ¬ Urgent s2 := by
    simp only [Urgent, s2, s1, s0, init, upd]
    intro h
    rcases h with ⟨t, h⟩ | ⟨i, h⟩ | ⟨_, ⟨t, h⟩ | ⟨i, h⟩⟩
    · simp at h
    · by_cases hi : i = 0 <;> simp [hi] at h
    · simp at h
    · by_cases hi : i = 0 <;> simp [hi] at h
  let s3 : St := { s2 with now := s2.now + 263 }
  have r3 : Reach false s3 := .step r2 (.advance s2 263 nu2)
  let s4 : St := { s3 with ka := .waitLock s3.now }
  have r4 : Reach false s4 := .step r3 (.kTick s3 rfl)
  let s5 : St := { s4 with ka := .crit 1000, held := true }
  have r5 : Reach false s5 := .step r4 (.kLock s4 1000 rfl rfl)
  let s6 : St := { s5 with ka := .sent 1000 s5.now, held := false }
  have r6 : Reach false s6 := .step r5 (.kUnlock s5 1000 rfl)
  exact ⟨s6, r6, rfl, by simp [s6, s5, s4, s3, s2, s1, s0, init, upd]⟩

/-- **The discipline is needed** (the shape of seeded change C13-m13): with the handler called under the shared
lock (`ul = true`) there is a history in which the keep-alive goroutine has been at the lock since 1000 and the
clock shows 1600 — more than the whole ping timeout (500) of an interval of 1000 is gone before a byte is
written; the ping will be booked as missed although the peer was never asked. -/
theorem handler_under_lock_starves_keepalive :
    ∃ s, Reach true s ∧ s.ka = .waitLock 1000 ∧ s.now = 1600 := by
  let s0 := init
  have r0 : Reach true s0 := .init
  have nu0 : ¬ Urgent s0 := by simp [Urgent, s0, init]
  let s1 : St := { s0 with now := s0.now + 737 }
  have r1 : Reach true s1 := .step r0 (.advance s0 737 nu0)
  let s2 : St := { s1 with hs := upd s1.hs 0 (.parkedHolding (s1.now + 1741)), held := true }
  have r2 : Reach true s2 := .step r1 (.hStartLocked s1 0 1741 rfl rfl rfl)
  have nu2 : ¬ Urgent s2 := by
    simp only [Urgent, s2, s1, s0, init, upd]
    intro h
    rcases h with ⟨t, h⟩ | ⟨i, h⟩ | ⟨h, _⟩
    · simp at h
    · by_cases hi : i = 0 <;> simp [hi] at h
    · simp at h
  let s3 : St := { s2 with now := s2.now + 263 }
  have r3 : Reach true s3 := .step r2 (.advance s2 263 nu2)
  let s4 : St := { s3 with ka := .waitLock s3.now }
  have r4 : Reach true s4 := .step r3 (.kTick s3 rfl)
  have nu4 : ¬ Urgent s4 := by
    simp only [Urgent, s4, s3, s2, s1, s0, init, upd]
    intro h
    rcases h with ⟨t, h⟩ | ⟨i, h⟩ | ⟨h, _⟩
    · simp at h
    · by_cases hi : i = 0 <;> simp [hi] at h
    · simp at h
  let s5 : St := { s4 with now := s4.now + 600 }
  have r5 : Reach true s5 := .step r4 (.advance s4 600 nu4)
  exact ⟨s5, r5, rfl, rfl⟩

/-- What the harness sees when a keep-alive ping is starved (zz_verif_keepalive_test.go, kaStarveLoop): the
keep-alive goroutine is at the shared lock and NO goroutine can run without time passing — every goroutine is
blocked, the keep-alive one on the mutex. -/
def Stalled (s : St) : Prop := (∃ t, s.ka = .waitLock t) ∧ ¬ Urgent s

/-- **The code never reaches the state the harness reports as `starved=`**: with the regenerated statement order
(`lock_discipline`), whenever keep-alive is at the shared lock somebody can run — keep-alive itself when the lock
is free, its holder (inside a critical section without user code) otherwise. -/
theorem never_stalled {s : St} (h : Reach false s) : ¬ Stalled s := by
  rintro ⟨⟨t, ht⟩, hu⟩
  have i := reach_inv h
  cases hh : s.held with
  | false => exact hu (.inr (.inr ⟨hh, .inl ⟨t, ht⟩⟩))
  | true =>
    rcases i.holder hh with h' | h'
    · exact hu (.inl h')
    · exact hu (.inr (.inl h'))

/-- … and the other statement order does (the history of `handler_under_lock_starves_keepalive`, one step
earlier): handler 0 parked until 2478 with the lock, keep-alive at the lock since 1000, nobody can run. -/
theorem handler_under_lock_stalls : ∃ s, Reach true s ∧ Stalled s ∧ s.hs 0 = .parkedHolding 2478 := by
  let s0 := init
  have r0 : Reach true s0 := .init
  have nu0 : ¬ Urgent s0 := by simp [Urgent, s0, init]
  let s1 : St := { s0 with now := s0.now + 737 }
  have r1 : Reach true s1 := .step r0 (.advance s0 737 nu0)
  let s2 : St := { s1 with hs := upd s1.hs 0 (.parkedHolding (s1.now + 1741)), held := true }
  have r2 : Reach true s2 := .step r1 (.hStartLocked s1 0 1741 rfl rfl rfl)
  have nu2 : ¬ Urgent s2 := by
    simp only [Urgent, s2, s1, s0, init, upd]
    intro h
    rcases h with ⟨t, h⟩ | ⟨i, h⟩ | ⟨h, _⟩
    · simp at h
    · by_cases hi : i = 0 <;> simp [hi] at h
    · simp at h
  let s3 : St := { s2 with now := s2.now + 263 }
  have r3 : Reach true s3 := .step r2 (.advance s2 263 nu2)
  let s4 : St := { s3 with ka := .waitLock s3.now }
  have r4 : Reach true s4 := .step r3 (.kTick s3 rfl)
  have nu4 : ¬ Urgent s4 := by
    simp only [Urgent, s4, s3, s2, s1, s0, init, upd]
    intro h
    rcases h with ⟨t, h⟩ | ⟨i, h⟩ | ⟨h, _⟩
    · simp at h
    · by_cases hi : i = 0 <;> simp [hi] at h
    · simp at h
  exact ⟨s4, r4, ⟨⟨_, rfl⟩, nu4⟩, by simp [s4, s3, s2, s1, s0, init, upd]⟩

end KeepAlive.Indep
