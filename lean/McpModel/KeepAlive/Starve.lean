import McpModel.KeepAlive.Monitor
/-!
E9 — the typed clause for "the keep-alive of one session is starved by another session's handler".

Records `kas … busy=<kind>@<from>+<dur>;…` (stream `loop`): the Server / Client value of the observed session has a
second session whose handler `kind` is parked from `from` for `dur`.  When the harness finds the bubble stalled —
every goroutine blocked, a keep-alive goroutine on a `sync.Mutex` in SDK code — it reports what it saw so far with
`starved=<frame>`.  `monitor2` wraps the C13 monitor: a starved observation is judged by `starveClause` (which ping
could not start, which handler of the other session was running then); any other observation by `monitor`,
unchanged.  StarveProps.lean: no alarm on the model, soundness, and why the model never produces `starved`
(`Indep.never_stalled`).
-/
namespace KeepAlive

/-- a parked handler of ANOTHER session -/
structure Busy where
  kind : String
  from_ : Nat
  dur : Nat
deriving DecidableEq, Repr

inductive Clause2
  | base (c : Clause)
  /-- ping `k` (1-based), due at `due`, could not start; `by_` = the handler of the other session running at `due`
  (`none`: none was scripted to — the lock is held by something else) -/
  | starved (k due : Nat) (by_ : Option Busy)
deriving DecidableEq, Repr

/-- The ping that could not start: the peer has seen `n` pings, so it is ping `n+1`, due at the instant the
schedule of the scenario gives it (tick `n+1` on the grid for pings that honour their deadline). -/
def starvedDue (sc : Scenario) (n : Nat) : Nat :=
  match (specSched sc.I sc.tc 0 0 sc.scripts)[n]? with
  | some p => p.start
  | none => (n + 1) * sc.I

def Busy.covers (b : Busy) (t : Nat) : Bool := decide (b.from_ ≤ t) && decide (t < b.from_ + b.dur)

def starveClause (sc : Scenario) (busy : List Busy) (o : Obs) : Clause2 :=
  let due := starvedDue sc o.pings.length
  .starved (o.pings.length + 1) due (busy.find? (·.covers due))

def monitor2 (sc : Scenario) (busy : List Busy) (o : Obs) (starved : Bool) : Option Clause2 :=
  if starved then some (starveClause sc busy o) else (monitor sc o).map .base

end KeepAlive
