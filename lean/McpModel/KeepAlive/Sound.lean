import McpModel.KeepAlive.Bridge
/-!
# Clause soundness and completeness of the C13 monitor (E9)

For every clause the monitor can report (`Clause`) the corresponding clause of the property is stated
as a predicate `P_…` on the record alone — the scenario (`Scenario`: interval, configured threshold,
the ping outcome pattern, the cancellation instant) and what the IMPLEMENTATION did (`Obs`) — written
with the property's own reading of the scenario: the outcome classes (`specOutcome`: answered within
half an interval / method-not-found / failed), the schedule of pending ticks (`specSched`), the closing
tick stated declaratively (`CloseTick`: the least `k` whose last `T` outcomes all failed, no
method-not-found before), the tick with which keep-alive has to end (`endTick`) and the instant by
which it has to have ended (`dueOf`).  No `KeepAlive.step`/`run`, no regenerated expression.
`sound_<clause>`: whenever the monitor reports the clause, the predicate fails; `monitor_sound`
packages them; `monitor_complete`: silence ⇒ every predicate; `model_satisfies_P`: the model's
observation of every scenario satisfies all of them.
-/
namespace KeepAlive

/-! ## Vocabulary -/

/-- `k` is the tick at which the property requires `Close` (threshold `T`, outcome classes `cs`): the
`T` outcomes ending at `k` all failed, no method-not-found up to `k`, and `k` is the least such tick. -/
def CloseTick (T : Nat) (cs : List Nat) (k : Nat) : Prop :=
  T ≤ k ∧ k ≤ cs.length ∧ (∀ c ∈ (cs.take k).drop (k - T), c = 2) ∧ (∀ c ∈ cs.take k, c ≠ 1) ∧
  ∀ k', k' < k → T ≤ k' → ∃ c ∈ (cs.take k').drop (k' - T), c ≠ 2

theorem specCloseTick_spec (T : Nat) (cs : List Nat) (k : Nat) :
    specCloseTick T cs = some k ↔ CloseTick T cs k := by
  have hwin : ∀ j, (decide (T ≤ j) && ((cs.take j).drop (j - T)).all (· == 2)) = true ↔
      (T ≤ j ∧ ∀ c ∈ (cs.take j).drop (j - T), c = 2) := by
    intro j; simp [Bool.and_eq_true, List.all_eq_true]
  have hany : ∀ j, ((cs.take j).any (· == 1)) = false ↔ ∀ c ∈ cs.take j, c ≠ 1 := by
    intro j; simp [List.any_eq_false]
  have hnwin : ∀ j, T ≤ j → (decide (T ≤ j) && ((cs.take j).drop (j - T)).all (· == 2)) = false →
      ∃ c ∈ (cs.take j).drop (j - T), c ≠ 2 := by
    intro j hTj hf
    apply Classical.byContradiction
    intro hne
    have : ∀ c ∈ (cs.take j).drop (j - T), c = 2 := by
      intro c hc
      apply Classical.byContradiction
      intro h2
      exact hne ⟨c, hc, h2⟩
    rw [(hwin j).2 ⟨hTj, this⟩] at hf; cases hf
  simp only [specCloseTick, CloseTick]
  constructor
  · intro h
    cases hf : (List.range (cs.length + 1)).find?
        (fun k => decide (T ≤ k) && ((cs.take k).drop (k - T)).all (· == 2)) with
    | none => rw [hf] at h; cases h
    | some k' =>
      rw [hf] at h
      simp only [] at h
      split at h
      · cases h
      · rename_i hna
        have hkk : k' = k := by injection h
        subst hkk
        obtain ⟨h1, h2, h3⟩ := (find_range_some _ _ _).1 hf
        obtain ⟨w1, w2⟩ := (hwin k').1 h2
        refine ⟨w1, by omega, w2, (hany k').1 (by
          cases hb : (cs.take k').any (· == 1) with
          | false => rfl
          | true => exact absurd hb hna), ?_⟩
        intro j hj hTj
        exact hnwin j hTj (h3 j hj)
  · rintro ⟨r1, r2, r3, r4, r5⟩
    have hfind : (List.range (cs.length + 1)).find?
        (fun k => decide (T ≤ k) && ((cs.take k).drop (k - T)).all (· == 2)) = some k := by
      apply (find_range_some _ _ _).2
      refine ⟨by omega, (hwin k).2 ⟨r1, r3⟩, ?_⟩
      intro j hj
      cases hb : (decide (T ≤ j) && ((cs.take j).drop (j - T)).all (· == 2)) with
      | false => rfl
      | true =>
        obtain ⟨w1, w2⟩ := (hwin j).1 hb
        obtain ⟨c, hc, hf⟩ := r5 j hj w1
        exact absurd (w2 c hc) hf
    rw [hfind]
    simp only []
    rw [(hany k).2 r4]
    simp

theorem closeTick_unique {T : Nat} {cs : List Nat} {k k' : Nat} (h : CloseTick T cs k) (h' : CloseTick T cs k') :
    k = k' := by
  have a := (specCloseTick_spec T cs k).2 h
  rw [(specCloseTick_spec T cs k').2 h'] at a
  injection a with a; exact a.symm

/-- The property's reading of a scenario. -/
def Scenario.sched (sc : Scenario) : List SpecPing := specSched sc.I sc.tc 0 0 sc.scripts
def Scenario.os (sc : Scenario) : List Nat := sc.sched.map (·.outcome)
def Scenario.T (sc : Scenario) : Nat := specT sc.t0
/-- The tick with which keep-alive has to end. -/
def Scenario.endTick (sc : Scenario) : Nat := KeepAlive.endTick (specCloseTick sc.T sc.os) sc.os
/-- No closing tick and no method-not-found: keep-alive ends by the cancellation. -/
def Scenario.byCancel (sc : Scenario) : Prop := specCloseTick sc.T sc.os = none ∧ ¬ sc.os.any (· == 1) = true
/-- The instant by which keep-alive has to have ended (given a transport write blocked until `wblk`). -/
def Scenario.due (sc : Scenario) (wblk : Option Nat) : Nat :=
  (dueOf sc.tc sc.sched sc.os (specCloseTick sc.T sc.os) sc.endTick wblk).1

/-! ## The property clauses, as predicates on a record -/

/-- closes_iff_T_consecutive, "if": when `T` consecutive pings failed (no method-not-found before),
the session is closed. -/
def P_closes_if (sc : Scenario) (o : Obs) : Prop := ∀ k, CloseTick sc.T sc.os k → o.closes ≠ []

/-- closes_iff_T_consecutive / answer_resets, "only if": keep-alive closes the session only when `T`
consecutive pings failed — never a peer that answers, an answered ping resets the count. -/
def P_closes_only_if (sc : Scenario) (o : Obs) : Prop := o.closes ≠ [] → ∃ k, CloseTick sc.T sc.os k

/-- `Close` is called at most once. -/
def P_closes_once (_ : Scenario) (o : Obs) : Prop := o.closes.length ≤ 1

/-- "after exactly the configured number of consecutive failed pings": `Close` is called by the
closing ping `k` — it has been issued, and any later ping comes after the call. -/
def P_closed_by_closing_ping (sc : Scenario) (o : Obs) : Prop :=
  ∀ k c, CloseTick sc.T sc.os k → o.closes = [c] →
    k ≤ o.pings.length ∧
    (k < o.pings.length → startOf sc.sched k ≤ c ∧ c < specNext sc.I (startOf sc.sched k) (stopOf sc.sched k))

/-- close_time_bound: "within that many intervals plus one ping timeout": the call comes no earlier
than the closing ping is issued and at most one ping timeout later (for a ping whose write is blocked:
when it returns). -/
def P_close_time_bound (sc : Scenario) (o : Obs) : Prop :=
  ∀ k c, CloseTick sc.T sc.os k → o.closes = [c] →
    startOf sc.sched k ≤ c ∧
    c ≤ (if ((sc.sched[k - 1]?).map (·.overran)).getD false then stopOf sc.sched k else startOf sc.sched k + sc.I / 2)

/-- silent_stop: no ping after the tick with which keep-alive has to end. -/
def P_no_ping_after_end (sc : Scenario) (o : Obs) : Prop := o.pings.length ≤ sc.endTick

/-- pings_at_ticks: until it has to end keep-alive pings once per tick, a tick that fires during a ping
being served when that ping is over. -/
def P_pings_on_schedule (sc : Scenario) (o : Obs) : Prop :=
  o.pings = (sc.sched.take sc.endTick).map (·.start)

/-- silent_stop: no ping at or after the cancellation (scripted loop: when keep-alive ends by it). -/
def P_no_ping_after_cancel (sc : Scenario) (o : Obs) : Prop :=
  (sc.sess = true ∨ (sc.byCancel ∧ sc.real = false)) → ∀ p ∈ o.pings, p < sc.tc

/-- Every reported deadline is half the interval. -/
def DeadlinesOk (I : Nat) : Deadlines → Prop
  | .none => True
  | .all v => v = (I / 2 : Nat)
  | .each vs => ∀ v ∈ vs, v = some ((I / 2 : Nat) : Int)

/-- answer_resets / close_time_bound: every ping is given a fresh ping timeout of half the interval. -/
def P_fresh_deadline (sc : Scenario) (o : Obs) : Prop :=
  sc.real = false → o.pings ≠ [] → DeadlinesOk sc.I o.to

/-- silent_stop: the goroutine returned and nothing happened afterwards. -/
def P_quiet (_ : Scenario) (o : Obs) : Prop := o.exit = true ∧ o.quietAfter = true

/-- ping_done_before_next_tick (stream `sessions`): a ping whose write was not blocked lasts at most
half an interval. -/
def P_ping_within_timeout (sc : Scenario) (_ : Obs) : Prop :=
  sc.sess = true → ∀ s ∈ sc.scripts, s.honours = true → ∀ d, s.delay = some d → d ≤ sc.I / 2

/-- The observation of a `sessions` record carries the session-level observations, well-formed. -/
def P_sess_wellformed (sc : Scenario) (o : Obs) : Prop :=
  sc.sess = true → ∃ so, o.sess = some so ∧ so.liveOk = true ∧
    (so.live2 = .yes ∨ so.live2 = .no) ∧ (sc.at1.isSome → so.live1 = .yes ∨ so.live1 = .no)

/-- silent_stop (stream `sessions`): nothing is logged after keep-alive had to end. -/
def P_nothing_logged_after_end (sc : Scenario) (o : Obs) : Prop :=
  sc.sess = true → ∀ so, o.sess = some so → ∀ w ∈ so.warn ++ o.closes, w ≤ sc.due so.wblk

/-- closes_iff_T_consecutive (stream `sessions`): a session keep-alive reports as closed has its
connection closed by then, or as soon as a blocked transport write is through. -/
def P_connection_closed (sc : Scenario) (o : Obs) : Prop :=
  sc.sess = true → ∀ so, o.sess = some so → ∀ c rest, o.closes = c :: rest →
    ∃ sh, so.shut = some sh ∧ (sh ≤ c ∨ sh ≤ so.wblk.getD 0)

/-- silent_stop (stream `sessions`): no goroutine is left once keep-alive had to end. -/
def P_no_goroutine_left (sc : Scenario) (o : Obs) : Prop :=
  sc.sess = true → ∀ so, o.sess = some so →
    (so.live2 = .yes → sc.at2 < sc.due so.wblk) ∧ (∀ t1, sc.at1 = some t1 → so.live1 = .yes → t1 < sc.due so.wblk)

/-- pings_at_ticks (stream `sessions`): while keep-alive has not ended its goroutine exists. -/
def P_goroutine_while_alive (sc : Scenario) (o : Obs) : Prop :=
  sc.sess = true → ∀ so, o.sess = some so →
    (so.live2 = .no → sc.due so.wblk ≤ sc.at2) ∧ (∀ t1, sc.at1 = some t1 → so.live1 = .no → sc.due so.wblk ≤ t1)

/-- The predicate a clause refutes. -/
def P_of : Clause → Scenario → Obs → Prop
  | .notClosed _ _ => P_closes_if
  | .closedAfterAnswer _ _ _ _ => P_closes_only_if
  | .closedFewFails _ _ _ => P_closes_only_if
  | .closedNoRun _ _ => P_closes_only_if
  | .closedWrongPing _ _ _ _ _ => P_closed_by_closing_ping
  | .closedBeforePing _ _ _ => P_close_time_bound
  | .closedLateOverran _ _ _ => P_close_time_bound
  | .closedLate _ _ _ => P_close_time_bound
  | .closedTimes _ => P_closes_once
  | .wentOn _ _ => P_no_ping_after_end
  | .ticksGrid _ _ _ => P_pings_on_schedule
  | .ticksPending _ _ _ => P_pings_on_schedule
  | .f30 _ _ _ => P_no_ping_after_cancel
  | .f31 _ _ _ => fun sc o => P_no_ping_after_end sc o ∧ P_closes_only_if sc o
  | .deadlineAll _ _ => P_fresh_deadline
  | .deadlineShort _ _ _ _ => P_fresh_deadline
  | .deadlineLong _ _ _ _ => P_fresh_deadline
  | .notQuiet => P_quiet
  | .pingLong _ _ _ => P_ping_within_timeout
  | .pingAfterClose _ _ => P_no_ping_after_cancel
  | .loggedAfterEnd _ _ _ => P_nothing_logged_after_end
  | .shutLate _ _ => P_connection_closed
  | .shutNever _ => P_connection_closed
  | .goroutineLeft _ _ _ => P_no_goroutine_left
  | .goroutineGone _ _ => P_goroutine_while_alive
  | .badLive _ => P_sess_wellformed
  | .badSess => P_sess_wellformed

/-! ## The monitor, part by part -/

def closingOf (sc : Scenario) (o : Obs) : Option Clause :=
  closingClause sc.I sc.T sc.sched sc.os (specCloseTick sc.T sc.os) o.pings o.closes
def ticksOf (sc : Scenario) (o : Obs) : Option Clause := ticksClause sc.I sc.sched sc.endTick o.pings
def f30Of (sc : Scenario) (o : Obs) : Option Clause :=
  if (specCloseTick sc.T sc.os).isNone ∧ ¬ sc.os.any (· == 1) ∧ ¬ sc.real then f30Shape sc.I sc.tc sc.sched o.pings else none
def deadlineOf (sc : Scenario) (o : Obs) : Option Clause :=
  if sc.real ∨ o.pings.isEmpty then none else deadlineClause sc.I o.pings o.to
def quietOf (o : Obs) : Option Clause := if o.exit ∧ o.quietAfter then none else some .notQuiet
def f31Of (sc : Scenario) (o : Obs) : Option Clause :=
  f31Shape sc.transientMnf sc.os (specCloseTick sc.T sc.os) sc.endTick o.pings o.closes
def whyOf (sc : Scenario) (wblk : Option Nat) : Why :=
  (dueOf sc.tc sc.sched sc.os (specCloseTick sc.T sc.os) sc.endTick wblk).2

theorem monitor_eq (sc : Scenario) (o : Obs) :
    monitor sc o =
      (f31Of sc o <|>
      if sc.sess then
        match o.sess with
        | none => f30Of sc o <|> deadlineOf sc o <|> longClause sc.I sc.scripts <|> closingOf sc o <|> ticksOf sc o <|>
            some .badSess <|> quietOf o
        | some so =>
          f30Of sc o <|> deadlineOf sc o <|> longClause sc.I sc.scripts <|>
            afterCloseClause sc.I sc.tc sc.sched o.pings <|> closingOf sc o <|> ticksOf sc o <|>
            sessClause sc so o.closes (sc.due so.wblk) (whyOf sc so.wblk) <|> quietOf o
      else f30Of sc o <|> closingOf sc o <|> deadlineOf sc o <|> ticksOf sc o <|> quietOf o) := by
  simp only [monitor, f31Of, f30Of, deadlineOf, closingOf, ticksOf, quietOf, Scenario.sched, Scenario.os, Scenario.T,
    Scenario.endTick, Scenario.due, whyOf]
  cases sc.sess <;> cases o.sess <;> rfl

theorem orElse_some {α : Type} {a b : Option α} {x : α} (h : (a <|> b) = some x) : a = some x ∨ b = some x := by
  cases a with
  | none => exact .inr (by simpa using h)
  | some y => exact .inl (by simpa using h)

theorem orElse_none {α : Type} {a b : Option α} (h : (a <|> b) = none) : a = none ∧ b = none := by
  cases a <;> simp_all

/-- A report of the monitor comes from one of its parts. -/
theorem monitor_some {sc : Scenario} {o : Obs} {cl : Clause} (h : monitor sc o = some cl) :
    f31Of sc o = some cl ∨ f30Of sc o = some cl ∨ deadlineOf sc o = some cl ∨ closingOf sc o = some cl ∨ ticksOf sc o = some cl ∨
    quietOf o = some cl ∨
    (sc.sess = true ∧ (longClause sc.I sc.scripts = some cl ∨ (o.sess = none ∧ cl = .badSess) ∨
      ∃ so, o.sess = some so ∧ (afterCloseClause sc.I sc.tc sc.sched o.pings = some cl ∨
        sessClause sc so o.closes (sc.due so.wblk) (whyOf sc so.wblk) = some cl))) := by
  rw [monitor_eq] at h
  rcases orElse_some h with h | h
  · exact .inl h
  right
  split at h
  · rename_i hs
    split at h
    · rename_i hso
      rcases orElse_some h with h | h; · exact .inl h
      rcases orElse_some h with h | h; · exact .inr (.inl h)
      rcases orElse_some h with h | h; · exact .inr (.inr (.inr (.inr (.inr ⟨hs, .inl h⟩))))
      rcases orElse_some h with h | h; · exact .inr (.inr (.inl h))
      rcases orElse_some h with h | h; · exact .inr (.inr (.inr (.inl h)))
      rcases orElse_some h with h | h
      · cases h; exact .inr (.inr (.inr (.inr (.inr ⟨hs, .inr (.inl ⟨hso, rfl⟩)⟩))))
      · exact .inr (.inr (.inr (.inr (.inl h))))
    · rename_i so hso
      rcases orElse_some h with h | h; · exact .inl h
      rcases orElse_some h with h | h; · exact .inr (.inl h)
      rcases orElse_some h with h | h; · exact .inr (.inr (.inr (.inr (.inr ⟨hs, .inl h⟩))))
      rcases orElse_some h with h | h; · exact .inr (.inr (.inr (.inr (.inr ⟨hs, .inr (.inr ⟨so, hso, .inl h⟩)⟩))))
      rcases orElse_some h with h | h; · exact .inr (.inr (.inl h))
      rcases orElse_some h with h | h; · exact .inr (.inr (.inr (.inl h)))
      rcases orElse_some h with h | h; · exact .inr (.inr (.inr (.inr (.inr ⟨hs, .inr (.inr ⟨so, hso, .inr h⟩)⟩))))
      exact .inr (.inr (.inr (.inr (.inl h))))
  · rcases orElse_some h with h | h; · exact .inl h
    rcases orElse_some h with h | h; · exact .inr (.inr (.inl h))
    rcases orElse_some h with h | h; · exact .inr (.inl h)
    rcases orElse_some h with h | h; · exact .inr (.inr (.inr (.inl h)))
    exact .inr (.inr (.inr (.inr (.inl h))))

/-- A silent monitor: every part that applies is silent. -/
theorem monitor_none {sc : Scenario} {o : Obs} (h : monitor sc o = none) :
    f31Of sc o = none ∧ f30Of sc o = none ∧ deadlineOf sc o = none ∧ closingOf sc o = none ∧ ticksOf sc o = none ∧ quietOf o = none ∧
    (sc.sess = true → longClause sc.I sc.scripts = none ∧
      ∃ so, o.sess = some so ∧ afterCloseClause sc.I sc.tc sc.sched o.pings = none ∧
        sessClause sc so o.closes (sc.due so.wblk) (whyOf sc so.wblk) = none) := by
  rw [monitor_eq] at h
  obtain ⟨h31, h⟩ := orElse_none h
  refine ⟨h31, ?_⟩
  split at h
  · rename_i hs
    split at h
    · obtain ⟨_, h⟩ := orElse_none h
      obtain ⟨_, h⟩ := orElse_none h
      obtain ⟨_, h⟩ := orElse_none h
      obtain ⟨_, h⟩ := orElse_none h
      obtain ⟨_, h⟩ := orElse_none h
      obtain ⟨h, _⟩ := orElse_none h
      cases h
    · rename_i so hso
      obtain ⟨a1, h⟩ := orElse_none h
      obtain ⟨a2, h⟩ := orElse_none h
      obtain ⟨a3, h⟩ := orElse_none h
      obtain ⟨a4, h⟩ := orElse_none h
      obtain ⟨a5, h⟩ := orElse_none h
      obtain ⟨a6, h⟩ := orElse_none h
      obtain ⟨a7, a8⟩ := orElse_none h
      exact ⟨a1, a2, a5, a6, a8, fun _ => ⟨a3, so, hso, a4, a7⟩⟩
  · rename_i hs
    obtain ⟨a1, h⟩ := orElse_none h
    obtain ⟨a2, h⟩ := orElse_none h
    obtain ⟨a3, h⟩ := orElse_none h
    obtain ⟨a4, a5⟩ := orElse_none h
    exact ⟨a1, a3, a2, a4, a5, fun h => absurd h hs⟩

/-! ## Soundness, part by part: a report of a part refutes the predicate of the reported clause -/

/-- The closing clause with a closing tick and one `Close`, read. -/
theorem closing_single {I T : Nat} {sched : List SpecPing} {os : List Nat} {k : Nat} {pings : List Nat} {c : Nat}
    (r : Option Clause) (h : closingClause I T sched os (some k) pings [c] = r) :
    (r = some (.closedWrongPing c pings.length T k (startOf sched k)) ∧
      (pings.length < k ∨ (pings.length > k ∧ (c < startOf sched k ∨ c ≥ specNext I (startOf sched k) (stopOf sched k))))) ∨
    (r = some (.closedBeforePing c k (startOf sched k)) ∧ c < startOf sched k) ∨
    (r = some (.closedLateOverran c (stopOf sched k) k) ∧ ((sched[k - 1]?).map (·.overran)).getD false = true ∧
      c > stopOf sched k) ∨
    (r = some (.closedLate c k (startOf sched k)) ∧ ((sched[k - 1]?).map (·.overran)).getD false = false ∧
      c > startOf sched k + I / 2) ∨
    (r = none ∧
      ¬ (pings.length < k ∨ (pings.length > k ∧ (c < startOf sched k ∨ c ≥ specNext I (startOf sched k) (stopOf sched k)))) ∧
      ¬ c < startOf sched k ∧
      c ≤ (if ((sched[k - 1]?).map (·.overran)).getD false then stopOf sched k else startOf sched k + I / 2)) := by
  simp only [closingClause] at h
  by_cases h1 : pings.length < k ∨ (pings.length > k ∧ (c < startOf sched k ∨ c ≥ specNext I (startOf sched k) (stopOf sched k)))
  · rw [if_pos h1] at h; exact .inl ⟨h.symm, h1⟩
  · rw [if_neg h1] at h
    by_cases h2 : c < startOf sched k
    · rw [if_pos h2] at h; exact .inr (.inl ⟨h.symm, h2⟩)
    · rw [if_neg h2] at h
      cases hov : ((sched[k - 1]?).map (·.overran)).getD false with
      | true =>
        simp only [hov, if_true] at h
        by_cases h3 : c > stopOf sched k
        · rw [if_pos h3] at h; exact .inr (.inr (.inl ⟨h.symm, rfl, h3⟩))
        · rw [if_neg h3] at h; exact .inr (.inr (.inr (.inr ⟨h.symm, h1, h2, by simp; omega⟩)))
      | false =>
        simp only [hov, Bool.false_eq_true, if_false] at h
        by_cases h3 : c > startOf sched k + I / 2
        · rw [if_pos h3] at h; exact .inr (.inr (.inr (.inl ⟨h.symm, rfl, h3⟩)))
        · rw [if_neg h3] at h; exact .inr (.inr (.inr (.inr ⟨h.symm, h1, h2, by simp; omega⟩)))

theorem closing_refutes {sc : Scenario} {o : Obs} {cl : Clause} (h : closingOf sc o = some cl) : ¬ P_of cl sc o := by
  simp only [closingOf] at h
  cases hk : specCloseTick sc.T sc.os with
  | none =>
    rw [hk] at h
    cases hc : o.closes with
    | nil => rw [hc] at h; cases h
    | cons c rest =>
      rw [hc] at h
      have key : ¬ P_closes_only_if sc o := by
        intro hP
        obtain ⟨k, hk'⟩ := hP (by rw [hc]; simp)
        rw [(specCloseTick_spec _ _ _).2 hk'] at hk; cases hk
      simp only [closingClause] at h
      by_cases h1 : (List.take o.pings.length sc.os).getLast? == some 0
      · rw [if_pos h1] at h; cases h; exact key
      · rw [if_neg h1] at h
        split at h <;> (cases h; exact key)
  | some k =>
    rw [hk] at h
    have hct := (specCloseTick_spec _ _ _).1 hk
    cases hc : o.closes with
    | nil =>
      rw [hc] at h; cases h
      intro hP; exact hP k hct hc
    | cons c rest =>
      rw [hc] at h
      cases rest with
      | cons c2 rest2 =>
        cases h
        intro hP
        have hP' : o.closes.length ≤ 1 := hP
        rw [hc] at hP'
        simp only [List.length_cons] at hP'
        omega
      | nil =>
        rcases closing_single _ h with ⟨e, hw⟩ | ⟨e, hb⟩ | ⟨e, hov, hb⟩ | ⟨e, hov, hb⟩ | ⟨e, _⟩
        · cases e
          intro hP
          obtain ⟨p1, p2⟩ := hP k c hct hc
          rcases hw with hw | ⟨hw1, hw2⟩
          · omega
          · have := p2 hw1; omega
        · cases e
          intro hP
          have := (hP k c hct hc).1
          omega
        · cases e
          intro hP
          have := (hP k c hct hc).2
          rw [hov] at this
          simp only [if_true] at this
          omega
        · cases e
          intro hP
          have := (hP k c hct hc).2
          rw [hov] at this
          simp only [Bool.false_eq_true, if_false] at this
          omega
        · cases e

theorem closing_complete {sc : Scenario} {o : Obs} (h : closingOf sc o = none) :
    P_closes_if sc o ∧ P_closes_only_if sc o ∧ P_closes_once sc o ∧ P_closed_by_closing_ping sc o ∧
    P_close_time_bound sc o := by
  simp only [closingOf] at h
  cases hk : specCloseTick sc.T sc.os with
  | none =>
    rw [hk] at h
    have hno : ∀ k, ¬ CloseTick sc.T sc.os k := fun k hk' => by
      rw [(specCloseTick_spec _ _ _).2 hk'] at hk; cases hk
    cases hc : o.closes with
    | nil =>
      refine ⟨fun k hk' => absurd hk' (hno k), fun hne => absurd hc hne, ?_,
        fun k c hk' => absurd hk' (hno k), fun k c hk' => absurd hk' (hno k)⟩
      simp [P_closes_once, hc]
    | cons c rest =>
      rw [hc] at h
      simp only [closingClause] at h
      by_cases h1 : (List.take o.pings.length sc.os).getLast? == some 0
      · rw [if_pos h1] at h; cases h
      · rw [if_neg h1] at h
        split at h <;> cases h
  | some k =>
    rw [hk] at h
    have hct := (specCloseTick_spec _ _ _).1 hk
    cases hc : o.closes with
    | nil => rw [hc] at h; cases h
    | cons c rest =>
      rw [hc] at h
      cases rest with
      | cons c2 rest2 => cases h
      | nil =>
        rcases closing_single _ h with ⟨e, _⟩ | ⟨e, _⟩ | ⟨e, _⟩ | ⟨e, _⟩ | ⟨_, hw, hb, hle⟩
        · cases e
        · cases e
        · cases e
        · cases e
        · refine ⟨fun _ _ => by rw [hc]; simp, fun _ => ⟨k, hct⟩, by simp [P_closes_once, hc], ?_, ?_⟩
          · intro k' c' hk' hc'
            have := closeTick_unique hk' hct; subst this
            rw [hc] at hc'
            simp only [List.cons.injEq, and_true] at hc'; subst hc'
            constructor
            · omega
            · intro hlt; omega
          · intro k' c' hk' hc'
            have := closeTick_unique hk' hct; subst this
            rw [hc] at hc'
            simp only [List.cons.injEq, and_true] at hc'; subst hc'
            exact ⟨by omega, hle⟩

theorem ticks_refutes {sc : Scenario} {o : Obs} {cl : Clause} (h : ticksOf sc o = some cl) : ¬ P_of cl sc o := by
  simp only [ticksOf, ticksClause] at h
  by_cases he : (o.pings == (sc.sched.take sc.endTick).map (·.start)) = true
  · rw [if_pos he] at h; cases h
  · rw [if_neg he] at h
    have hne' : o.pings ≠ (sc.sched.take sc.endTick).map (·.start) := by
      intro e; rw [e] at he; simp at he
    by_cases hw : o.pings.length > sc.endTick ∧ (o.pings.take sc.endTick == (sc.sched.take sc.endTick).map (·.start)) = true
    · rw [if_pos hw] at h
      cases h
      intro hP
      have hP' : o.pings.length ≤ sc.endTick := hP
      omega
    · rw [if_neg hw] at h
      split at h <;> (cases h; exact fun hP => hne' hP)

theorem ticks_complete {sc : Scenario} {o : Obs} (h : ticksOf sc o = none) :
    P_pings_on_schedule sc o ∧ P_no_ping_after_end sc o := by
  simp only [ticksOf, ticksClause] at h
  by_cases he : (o.pings == (sc.sched.take sc.endTick).map (·.start)) = true
  · have he' : o.pings = (sc.sched.take sc.endTick).map (·.start) := by simpa using he
    refine ⟨he', ?_⟩
    simp only [P_no_ping_after_end, he', List.length_map, List.length_take]
    omega
  · rw [if_neg he] at h
    split at h
    · cases h
    · split at h <;> cases h

theorem f30Shape_some {I tc : Nat} {sched : List SpecPing} {pings : List Nat} {cl : Clause}
    (h : f30Shape I tc sched pings = some cl) : ∃ p ∈ pings, p > tc ∧ ∃ a b c, cl = .f30 a b c := by
  simp only [f30Shape] at h
  cases hl : sched.getLast? with
  | none => rw [hl] at h; cases h
  | some l =>
    rw [hl] at h
    simp only [] at h
    by_cases hc : l.stop > tc ∧ l.stop ≥ (l.start / I + 1) * I ∧ pings.contains l.stop = true
    · rw [if_pos hc] at h
      cases h
      exact ⟨l.stop, by simpa using hc.2.2, hc.1, _, _, _, rfl⟩
    · rw [if_neg hc] at h; cases h

theorem f31_refutes {sc : Scenario} {o : Obs} {cl : Clause} (h : f31Of sc o = some cl) : ¬ P_of cl sc o := by
  simp only [f31Of, f31Shape] at h
  by_cases hc : (specCloseTick sc.T sc.os).isNone = true ∧ (sc.os.any (· == 1)) = true ∧
      sc.transientMnf.contains sc.endTick = true ∧ (o.pings.length > sc.endTick ∨ o.closes ≠ [])
  · rw [if_pos hc] at h
    cases h
    rintro ⟨p1, p2⟩
    rcases hc.2.2.2 with h4 | h4
    · have : o.pings.length ≤ sc.endTick := p1
      omega
    · obtain ⟨k, hk⟩ := p2 h4
      have := (specCloseTick_spec _ _ _).2 hk
      rw [this] at hc; simp at hc
  · rw [if_neg hc] at h; cases h

theorem f30_refutes {sc : Scenario} {o : Obs} {cl : Clause} (h : f30Of sc o = some cl) : ¬ P_of cl sc o := by
  simp only [f30Of] at h
  by_cases hc : (specCloseTick sc.T sc.os).isNone = true ∧ ¬ (sc.os.any (· == 1)) = true ∧ ¬ sc.real = true
  · rw [if_pos hc] at h
    obtain ⟨p, hp, hgt, a, b, c, rfl⟩ := f30Shape_some h
    intro hP
    have hbc : sc.byCancel := ⟨by simpa using hc.1, hc.2.1⟩
    have hr : sc.real = false := by simpa using hc.2.2
    have := hP (.inr ⟨hbc, hr⟩) p hp
    omega
  · rw [if_neg hc] at h; cases h

theorem afterClose_refutes {sc : Scenario} {o : Obs} {cl : Clause} (hs : sc.sess = true)
    (h : afterCloseClause sc.I sc.tc sc.sched o.pings = some cl) : ¬ P_of cl sc o := by
  simp only [afterCloseClause] at h
  cases hf : o.pings.find? (· ≥ sc.tc) with
  | none => rw [hf] at h; cases h
  | some p =>
    rw [hf] at h
    have hp := List.mem_of_find?_eq_some hf
    have hge : p ≥ sc.tc := by simpa using List.find?_some hf
    have key : ¬ P_no_ping_after_cancel sc o := fun hP => by
      have := hP (.inl hs) p hp; omega
    rcases orElse_some h with h | h
    · obtain ⟨_, _, _, a, b, c, rfl⟩ := f30Shape_some h
      exact key
    · cases h; exact key

/-- Every ping of the property's schedule is due before the cancellation. -/
theorem specSched_lt (I tc : Nat) : ∀ (scs : List Script) (l f : Nat), ∀ p ∈ specSched I tc l f scs, p.start < tc := by
  intro scs
  induction scs with
  | nil => intro l f p hp; cases hp
  | cons s t ih =>
    intro l f p hp
    simp only [specSched] at hp
    by_cases h : specNext I l f < tc
    · rw [if_pos h] at hp
      rcases List.mem_cons.1 hp with rfl | hp
      · exact h
      · exact ih _ _ p hp
    · rw [if_neg h] at hp; cases hp

theorem no_ping_after_cancel_of_schedule {sc : Scenario} {o : Obs} (h : P_pings_on_schedule sc o) :
    P_no_ping_after_cancel sc o := by
  intro _ p hp
  rw [h] at hp
  obtain ⟨q, hq, rfl⟩ := List.mem_map.1 hp
  exact specSched_lt sc.I sc.tc sc.scripts 0 0 q (List.mem_of_mem_take hq)

/-- The deadline clause, read. -/
theorem deadline_read {I : Nat} {pings : List Nat} {to : Deadlines} (r : Option Clause)
    (h : deadlineClause I pings to = r) :
    (r = none ∧ DeadlinesOk I to) ∨
    (∃ v, to = .all v ∧ v ≠ (I / 2 : Nat) ∧ r = some (.deadlineAll v I)) ∨
    (∃ vs v j, to = .each vs ∧ v ∈ vs ∧ v ≠ some ((I / 2 : Nat) : Int) ∧
      (r = some (.deadlineShort j pings[j]? v I) ∨ r = some (.deadlineLong j pings[j]? v I))) := by
  cases to with
  | none => exact .inl ⟨h.symm, trivial⟩
  | all v =>
    simp only [deadlineClause] at h
    by_cases hv : v = (I / 2 : Nat)
    · rw [if_pos hv] at h; exact .inl ⟨h.symm, hv⟩
    · rw [if_neg hv] at h; exact .inr (.inl ⟨v, rfl, hv, h.symm⟩)
  | each vs =>
    simp only [deadlineClause] at h
    generalize hf : List.find? _ vs.zipIdx = fr at h
    cases fr with
    | none =>
      refine .inl ⟨h.symm, ?_⟩
      intro v hv
      obtain ⟨j, hj, rfl⟩ := List.getElem_of_mem hv
      have := List.find?_eq_none.1 hf (vs[j], j) (by
        rw [List.mem_zipIdx_iff_getElem?]; simp [hj])
      simpa using this
    | some p =>
      obtain ⟨v, j⟩ := p
      have hmem : v ∈ vs := by
        have := List.mem_of_find?_eq_some hf
        exact (List.mem_zipIdx this).2.2 ▸ List.getElem_mem _
      have hv : v ≠ some ((I / 2 : Nat) : Int) := by
        have := List.find?_some hf
        simpa using this
      simp only [] at h
      refine .inr (.inr ⟨vs, v, j, rfl, hmem, hv, ?_⟩)
      cases v with
      | none => right; simpa using h.symm
      | some x =>
        simp only [] at h
        split at h
        · left; exact h.symm
        · right; exact h.symm

theorem deadline_refutes {sc : Scenario} {o : Obs} {cl : Clause} (h : deadlineOf sc o = some cl) : ¬ P_of cl sc o := by
  simp only [deadlineOf] at h
  by_cases hc : sc.real = true ∨ o.pings.isEmpty = true
  · rw [if_pos hc] at h; cases h
  · rw [if_neg hc] at h
    have hreal : sc.real = false := by
      cases hr : sc.real with
      | false => rfl
      | true => exact absurd (.inl hr) hc
    have hne : o.pings ≠ [] := fun he => hc (.inr (by rw [he]; rfl))
    rcases deadline_read _ h with ⟨e, _⟩ | ⟨v, hto, hv, e⟩ | ⟨vs, v, j, hto, hmem, hv, e | e⟩
    · cases e
    · cases e
      intro hP
      have := hP hreal hne
      rw [hto] at this
      exact hv this
    · cases e
      intro hP
      have := hP hreal hne
      rw [hto] at this
      exact hv (this v hmem)
    · cases e
      intro hP
      have := hP hreal hne
      rw [hto] at this
      exact hv (this v hmem)

theorem deadline_complete {sc : Scenario} {o : Obs} (h : deadlineOf sc o = none) : P_fresh_deadline sc o := by
  intro hreal hne
  simp only [deadlineOf] at h
  have hc : ¬ (sc.real = true ∨ o.pings.isEmpty = true) := by
    rintro (h1 | h1)
    · rw [hreal] at h1; cases h1
    · exact hne (List.isEmpty_iff.1 h1)
  rw [if_neg hc] at h
  rcases deadline_read _ h with ⟨_, hok⟩ | ⟨v, _, _, e⟩ | ⟨vs, v, j, _, _, _, e | e⟩
  · exact hok
  · cases e
  · cases e
  · cases e

/-- The long-ping clause, read. -/
theorem long_read {I : Nat} {scripts : List Script} (r : Option Clause) (h : longClause I scripts = r) :
    (r = none ∧ ∀ s ∈ scripts, s.honours = true → ∀ d, s.delay = some d → d ≤ I / 2) ∨
    (∃ s j d, s ∈ scripts ∧ s.honours = true ∧ s.delay = some d ∧ d > I / 2 ∧ r = some (.pingLong j d I)) := by
  simp only [longClause] at h
  generalize hf : List.find? _ scripts.zipIdx = fr at h
  cases fr with
  | none =>
    refine .inl ⟨h.symm, ?_⟩
    intro s hmem hh d hd
    obtain ⟨j, hj, rfl⟩ := List.getElem_of_mem hmem
    have := List.find?_eq_none.1 hf (scripts[j], j) (by
      rw [List.mem_zipIdx_iff_getElem?]; simp [hj])
    simp only [hh, hd, Bool.true_and, decide_eq_true_eq] at this
    omega
  | some p =>
    obtain ⟨s, j⟩ := p
    have hmem : s ∈ scripts := by
      have := List.mem_of_find?_eq_some hf
      exact (List.mem_zipIdx this).2.2 ▸ List.getElem_mem _
    have hcond := List.find?_some hf
    simp only [Bool.and_eq_true] at hcond
    cases hd : s.delay with
    | none => rw [hd] at hcond; simp at hcond
    | some d =>
      rw [hd] at hcond
      refine .inr ⟨s, j, d, hmem, hcond.1, hd, by simpa using hcond.2, ?_⟩
      simp only [hd, Option.getD_some] at h
      exact h.symm

theorem long_refutes {sc : Scenario} {o : Obs} {cl : Clause} (hs : sc.sess = true)
    (h : longClause sc.I sc.scripts = some cl) : ¬ P_of cl sc o := by
  rcases long_read _ h with ⟨e, _⟩ | ⟨s, j, d, hmem, hh, hd, hgt, e⟩
  · cases e
  · cases e
    intro hP
    have := hP hs s hmem hh d hd
    omega

theorem quiet_refutes {o : Obs} {cl : Clause} (sc : Scenario) (h : quietOf o = some cl) : ¬ P_of cl sc o := by
  simp only [quietOf] at h
  by_cases hc : o.exit = true ∧ o.quietAfter = true
  · rw [if_pos hc] at h; cases h
  · rw [if_neg hc] at h
    cases h
    exact fun hP => hc hP

/-- The goroutine-presence clause at one sampling instant, read. -/
theorem liveClause_read {due : Nat} {why : Why} {raw : String} {a : Live} {t : Nat} (r : Option Clause)
    (h : liveClause due why raw a t = r) :
    (r = none ∧ ((a = .yes ∧ t < due) ∨ (a = .no ∧ due ≤ t))) ∨
    (a = .yes ∧ t ≥ due ∧ r = some (.goroutineLeft t due why)) ∨ (a = .no ∧ t < due ∧ r = some (.goroutineGone t due)) ∨
    (a ≠ .yes ∧ a ≠ .no ∧ r = some (.badLive raw)) := by
  cases a <;> simp only [liveClause] at h
  · by_cases hc : t ≥ due
    · rw [if_pos hc] at h; exact .inr (.inl ⟨rfl, hc, h.symm⟩)
    · rw [if_neg hc] at h; exact .inl ⟨h.symm, .inl ⟨rfl, by omega⟩⟩
  · by_cases hc : t < due
    · rw [if_pos hc] at h; exact .inr (.inr (.inl ⟨rfl, hc, h.symm⟩))
    · rw [if_neg hc] at h; exact .inl ⟨h.symm, .inr ⟨rfl, by omega⟩⟩
  · exact .inr (.inr (.inr ⟨by simp, by simp, h.symm⟩))
  · exact .inr (.inr (.inr ⟨by simp, by simp, h.symm⟩))

theorem live_refutes {sc : Scenario} {o : Obs} {so : SessObs} {cl : Clause} (hs : sc.sess = true) (hso : o.sess = some so)
    {a : Live} {t : Nat} (h : liveClause (sc.due so.wblk) (whyOf sc so.wblk) so.liveRaw a t = some cl)
    (hleft : a = .yes → t ≥ sc.due so.wblk → ¬ P_no_goroutine_left sc o)
    (hgone : a = .no → t < sc.due so.wblk → ¬ P_goroutine_while_alive sc o)
    (hbad : a ≠ .yes → a ≠ .no → ¬ P_sess_wellformed sc o) : ¬ P_of cl sc o := by
  rcases liveClause_read _ h with ⟨e, _⟩ | ⟨h1, h2, e⟩ | ⟨h1, h2, e⟩ | ⟨h1, h2, e⟩
  · cases e
  · cases e; exact hleft h1 h2
  · cases e; exact hgone h1 h2
  · cases e; exact hbad h1 h2

theorem sess_refutes {sc : Scenario} {o : Obs} {so : SessObs} {cl : Clause} (hs : sc.sess = true) (hso : o.sess = some so)
    (h : sessClause sc so o.closes (sc.due so.wblk) (whyOf sc so.wblk) = some cl) : ¬ P_of cl sc o := by
  simp only [sessClause] at h
  rcases orElse_some h with h | h
  · simp only [loggedClause] at h
    cases hf : (so.warn ++ o.closes).find? (· > sc.due so.wblk) with
    | none => rw [hf] at h; cases h
    | some w =>
      rw [hf] at h; cases h
      intro hP
      have := hP hs so hso w (List.mem_of_find?_eq_some hf)
      have h2 : w > sc.due so.wblk := by simpa using List.find?_some hf
      omega
  · rcases orElse_some h with h | h
    · simp only [shutClause] at h
      cases hc : o.closes with
      | nil => rw [hc] at h; cases h
      | cons c rest =>
        rw [hc] at h
        simp only [] at h
        cases hsh : so.shut with
        | none =>
          rw [hsh] at h; cases h
          intro hP
          obtain ⟨sh, h1, _⟩ := hP hs so hso c rest hc
          rw [hsh] at h1; cases h1
        | some sh =>
          rw [hsh] at h
          simp only [] at h
          by_cases hn : sh ≤ c ∨ sh ≤ so.wblk.getD 0
          · rw [if_pos hn] at h; cases h
          · rw [if_neg hn] at h
            cases h
            intro hP
            obtain ⟨sh', h1, h2⟩ := hP hs so hso c rest hc
            rw [hsh] at h1; cases h1
            exact hn h2
    · simp only [livesClause] at h
      have wf2 : so.live2 ≠ .yes → so.live2 ≠ .no → ¬ P_sess_wellformed sc o := by
        intro h1 h2 hP
        obtain ⟨so', e1, _, e3, _⟩ := hP hs
        rw [hso] at e1; cases e1
        rcases e3 with e | e
        · exact h1 e
        · exact h2 e
      have left2 : so.live2 = .yes → sc.at2 ≥ sc.due so.wblk → ¬ P_no_goroutine_left sc o := by
        intro h1 h2 hP; have := (hP hs so hso).1 h1; omega
      have gone2 : so.live2 = .no → sc.at2 < sc.due so.wblk → ¬ P_goroutine_while_alive sc o := by
        intro h1 h2 hP; have := (hP hs so hso).1 h1; omega
      by_cases hl : (!so.liveOk) = true
      · rw [if_pos hl] at h
        cases h
        intro hP
        obtain ⟨so', h1, h2, _⟩ := hP hs
        rw [hso] at h1; cases h1
        rw [h2] at hl; simp at hl
      · rw [if_neg hl] at h
        cases hat : sc.at1 with
        | none =>
          rw [hat] at h
          exact live_refutes hs hso h left2 gone2 wf2
        | some t1 =>
          rw [hat] at h
          simp only [] at h
          rcases orElse_some h with h | h
          · refine live_refutes hs hso h ?_ ?_ ?_
            · intro h1 h2 hP; have := (hP hs so hso).2 t1 hat h1; omega
            · intro h1 h2 hP; have := (hP hs so hso).2 t1 hat h1; omega
            · intro h1 h2 hP
              obtain ⟨so', e1, _, _, e4⟩ := hP hs
              rw [hso] at e1; cases e1
              rcases e4 (by rw [hat]; rfl) with e | e
              · exact h1 e
              · exact h2 e
          · exact live_refutes hs hso h left2 gone2 wf2

/-- **monitor_sound.** Whatever clause the monitor reports, the corresponding clause of the property
fails on the record. -/
theorem monitor_sound (sc : Scenario) (o : Obs) (cl : Clause) (h : monitor sc o = some cl) : ¬ P_of cl sc o := by
  rcases monitor_some h with h | h | h | h | h | h | ⟨hs, h | ⟨hn, rfl⟩ | ⟨so, hso, h | h⟩⟩
  · exact f31_refutes h
  · exact f30_refutes h
  · exact deadline_refutes h
  · exact closing_refutes h
  · exact ticks_refutes h
  · exact quiet_refutes sc h
  · exact long_refutes hs h
  · intro hP
    obtain ⟨so, e1, _⟩ := hP hs
    rw [hn] at e1; cases e1
  · exact afterClose_refutes hs h
  · exact sess_refutes hs hso h

/-! ## Completeness -/

theorem sess_complete {sc : Scenario} {o : Obs} {so : SessObs} (hso : o.sess = some so)
    (h : sessClause sc so o.closes (sc.due so.wblk) (whyOf sc so.wblk) = none) :
    P_sess_wellformed sc o ∧ P_nothing_logged_after_end sc o ∧ P_connection_closed sc o ∧
    P_no_goroutine_left sc o ∧ P_goroutine_while_alive sc o := by
  simp only [sessClause] at h
  obtain ⟨h1, h⟩ := orElse_none h
  obtain ⟨h2, h3⟩ := orElse_none h
  have hlog : ∀ w ∈ so.warn ++ o.closes, w ≤ sc.due so.wblk := by
    simp only [loggedClause] at h1
    cases hf : (so.warn ++ o.closes).find? (· > sc.due so.wblk) with
    | some w => rw [hf] at h1; cases h1
    | none =>
      intro w hw
      have := List.find?_eq_none.1 hf w hw
      simp at this; omega
  have hshut : ∀ c rest, o.closes = c :: rest → ∃ sh, so.shut = some sh ∧ (sh ≤ c ∨ sh ≤ so.wblk.getD 0) := by
    intro c rest hc
    simp only [shutClause, hc] at h2
    cases hsh : so.shut with
    | none => rw [hsh] at h2; cases h2
    | some sh =>
      rw [hsh] at h2
      simp only [] at h2
      by_cases hn : sh ≤ c ∨ sh ≤ so.wblk.getD 0
      · exact ⟨sh, rfl, hn⟩
      · rw [if_neg hn] at h2; cases h2
  simp only [livesClause] at h3
  by_cases hl : (!so.liveOk) = true
  · rw [if_pos hl] at h3; cases h3
  · rw [if_neg hl] at h3
    have hok : so.liveOk = true := by simpa using hl
    have two : ∀ {a : Live} {t : Nat}, liveClause (sc.due so.wblk) (whyOf sc so.wblk) so.liveRaw a t = none →
        (a = .yes ∧ t < sc.due so.wblk) ∨ (a = .no ∧ sc.due so.wblk ≤ t) := by
      intro a t hh
      rcases liveClause_read _ hh with ⟨_, hc⟩ | ⟨_, _, e⟩ | ⟨_, _, e⟩ | ⟨_, _, e⟩
      · exact hc
      · cases e
      · cases e
      · cases e
    cases hat : sc.at1 with
    | none =>
      rw [hat] at h3
      have l2 := two h3
      refine ⟨fun _ => ⟨so, hso, hok, ?_, fun hx => by rw [hat] at hx; cases hx⟩, fun _ so' e => ?_, fun _ so' e => ?_,
        fun _ so' e => ?_, fun _ so' e => ?_⟩
      · rcases l2 with ⟨e, _⟩ | ⟨e, _⟩
        · exact .inl e
        · exact .inr e
      · rw [hso] at e; cases e; exact hlog
      · rw [hso] at e; cases e; exact hshut
      · rw [hso] at e; cases e
        refine ⟨fun hy => ?_, fun t1 ht1 => by rw [hat] at ht1; cases ht1⟩
        rcases l2 with ⟨_, e2⟩ | ⟨e1, _⟩
        · exact e2
        · rw [hy] at e1; cases e1
      · rw [hso] at e; cases e
        refine ⟨fun hy => ?_, fun t1 ht1 => by rw [hat] at ht1; cases ht1⟩
        rcases l2 with ⟨e1, _⟩ | ⟨_, e2⟩
        · rw [hy] at e1; cases e1
        · exact e2
    | some t1 =>
      rw [hat] at h3
      simp only [] at h3
      obtain ⟨h31, h32⟩ := orElse_none h3
      have l1 := two h31
      have l2 := two h32
      refine ⟨fun _ => ⟨so, hso, hok, ?_, fun _ => ?_⟩, fun _ so' e => ?_, fun _ so' e => ?_,
        fun _ so' e => ?_, fun _ so' e => ?_⟩
      · rcases l2 with ⟨e, _⟩ | ⟨e, _⟩
        · exact .inl e
        · exact .inr e
      · rcases l1 with ⟨e, _⟩ | ⟨e, _⟩
        · exact .inl e
        · exact .inr e
      · rw [hso] at e; cases e; exact hlog
      · rw [hso] at e; cases e; exact hshut
      · rw [hso] at e; cases e
        refine ⟨fun hy => ?_, fun t ht hy => ?_⟩
        · rcases l2 with ⟨_, e2⟩ | ⟨e1, _⟩
          · exact e2
          · rw [hy] at e1; cases e1
        · rw [hat] at ht; cases ht
          rcases l1 with ⟨_, e2⟩ | ⟨e1, _⟩
          · exact e2
          · rw [hy] at e1; cases e1
      · rw [hso] at e; cases e
        refine ⟨fun hy => ?_, fun t ht hy => ?_⟩
        · rcases l2 with ⟨e1, _⟩ | ⟨_, e2⟩
          · rw [hy] at e1; cases e1
          · exact e2
        · rw [hat] at ht; cases ht
          rcases l1 with ⟨e1, _⟩ | ⟨_, e2⟩
          · rw [hy] at e1; cases e1
          · exact e2

/-- **monitor_complete.** If the monitor is silent on a record, every clause of the property holds on it. -/
theorem monitor_complete (sc : Scenario) (o : Obs) (h : monitor sc o = none) (cl : Clause) : P_of cl sc o := by
  obtain ⟨_, _, hdl, hcl, htk, hq, hsess⟩ := monitor_none h
  obtain ⟨c1, c2, c3, c4, c5⟩ := closing_complete hcl
  obtain ⟨t1, t2⟩ := ticks_complete htk
  have hd := deadline_complete hdl
  have hcancel := no_ping_after_cancel_of_schedule t1
  have hquiet : P_quiet sc o := by
    simp only [quietOf] at hq
    by_cases hc : o.exit = true ∧ o.quietAfter = true
    · exact hc
    · rw [if_neg hc] at hq; cases hq
  have hlong : P_ping_within_timeout sc o := by
    intro hs
    rcases long_read _ (hsess hs).1 with ⟨_, hok⟩ | ⟨_, _, _, _, _, _, _, e⟩
    · exact hok
    · cases e
  have hs5 : P_sess_wellformed sc o ∧ P_nothing_logged_after_end sc o ∧ P_connection_closed sc o ∧
      P_no_goroutine_left sc o ∧ P_goroutine_while_alive sc o := by
    by_cases hs : sc.sess = true
    · obtain ⟨_, so, hso, _, hsc⟩ := hsess hs
      exact sess_complete hso hsc
    · exact ⟨fun e => absurd e hs, fun e => absurd e hs, fun e => absurd e hs, fun e => absurd e hs,
        fun e => absurd e hs⟩
  obtain ⟨s1, s2, s3, s4, s5⟩ := hs5
  have h31 : P_no_ping_after_end sc o ∧ P_closes_only_if sc o := ⟨t2, c2⟩
  cases cl <;> assumption

/-- The predicates are satisfiable: the model's observation of every scripted-loop or real-session
scenario satisfies all of them … -/
theorem model_satisfies_P_loop (sc : Scenario) (hs : sc.sess = false) (env : Option SessObs) (cl : Clause) :
    P_of cl sc (modelObs sc env) :=
  monitor_complete sc _ (monitor_accepts_model_loop sc hs env) cl

/-- … and so does the model's observation of every `sessions` scenario in the domain of the bridge. -/
theorem model_satisfies_P_sess (sc : Scenario) (hs : sc.sess = true) (env : Option SessObs)
    (hlong : longClause sc.I sc.scripts = none)
    (hshut : shutClause (env.bind (·.shut)) (env.bind (·.wblk)) (modelObs sc env).closes = none) (cl : Clause) :
    P_of cl sc (modelObs sc env) :=
  monitor_complete sc _ (monitor_accepts_model_sess sc hs env hlong hshut) cl

/-! ## Per clause -/

theorem sound_notClosed (sc : Scenario) (o : Obs) {k T} (h : monitor sc o = some (.notClosed k T)) : ¬ P_closes_if sc o :=
  monitor_sound sc o _ h

theorem sound_closedAfterAnswer (sc : Scenario) (o : Obs) {c n st T} (h : monitor sc o = some (.closedAfterAnswer c n st T)) : ¬ P_closes_only_if sc o :=
  monitor_sound sc o _ h

theorem sound_closedFewFails (sc : Scenario) (o : Obs) {c m T} (h : monitor sc o = some (.closedFewFails c m T)) : ¬ P_closes_only_if sc o :=
  monitor_sound sc o _ h

theorem sound_closedNoRun (sc : Scenario) (o : Obs) {c T} (h : monitor sc o = some (.closedNoRun c T)) : ¬ P_closes_only_if sc o :=
  monitor_sound sc o _ h

theorem sound_closedWrongPing (sc : Scenario) (o : Obs) {c n T k pk} (h : monitor sc o = some (.closedWrongPing c n T k pk)) : ¬ P_closed_by_closing_ping sc o :=
  monitor_sound sc o _ h

theorem sound_closedBeforePing (sc : Scenario) (o : Obs) {c k pk} (h : monitor sc o = some (.closedBeforePing c k pk)) : ¬ P_close_time_bound sc o :=
  monitor_sound sc o _ h

theorem sound_closedLateOverran (sc : Scenario) (o : Obs) {c b k} (h : monitor sc o = some (.closedLateOverran c b k)) : ¬ P_close_time_bound sc o :=
  monitor_sound sc o _ h

theorem sound_closedLate (sc : Scenario) (o : Obs) {c k pk} (h : monitor sc o = some (.closedLate c k pk)) : ¬ P_close_time_bound sc o :=
  monitor_sound sc o _ h

theorem sound_closedTimes (sc : Scenario) (o : Obs) {n} (h : monitor sc o = some (.closedTimes n)) : ¬ P_closes_once sc o :=
  monitor_sound sc o _ h

theorem sound_wentOn (sc : Scenario) (o : Obs) {m ps} (h : monitor sc o = some (.wentOn m ps)) : ¬ P_no_ping_after_end sc o :=
  monitor_sound sc o _ h

theorem sound_ticksGrid (sc : Scenario) (o : Obs) {ps m I} (h : monitor sc o = some (.ticksGrid ps m I)) : ¬ P_pings_on_schedule sc o :=
  monitor_sound sc o _ h

theorem sound_ticksPending (sc : Scenario) (o : Obs) {ps w I} (h : monitor sc o = some (.ticksPending ps w I)) : ¬ P_pings_on_schedule sc o :=
  monitor_sound sc o _ h

theorem sound_f30 (sc : Scenario) (o : Obs) {a b c} (h : monitor sc o = some (.f30 a b c)) : ¬ P_no_ping_after_cancel sc o :=
  monitor_sound sc o _ h

theorem sound_f31 (sc : Scenario) (o : Obs) {m ps cs} (h : monitor sc o = some (.f31 m ps cs)) :
    ¬ (P_no_ping_after_end sc o ∧ P_closes_only_if sc o) :=
  monitor_sound sc o _ h

theorem sound_deadlineAll (sc : Scenario) (o : Obs) {v I} (h : monitor sc o = some (.deadlineAll v I)) : ¬ P_fresh_deadline sc o :=
  monitor_sound sc o _ h

theorem sound_deadlineShort (sc : Scenario) (o : Obs) {j a v I} (h : monitor sc o = some (.deadlineShort j a v I)) : ¬ P_fresh_deadline sc o :=
  monitor_sound sc o _ h

theorem sound_deadlineLong (sc : Scenario) (o : Obs) {j a v I} (h : monitor sc o = some (.deadlineLong j a v I)) : ¬ P_fresh_deadline sc o :=
  monitor_sound sc o _ h

theorem sound_notQuiet (sc : Scenario) (o : Obs) (h : monitor sc o = some .notQuiet) : ¬ P_quiet sc o :=
  monitor_sound sc o _ h

theorem sound_pingLong (sc : Scenario) (o : Obs) {j d I} (h : monitor sc o = some (.pingLong j d I)) : ¬ P_ping_within_timeout sc o :=
  monitor_sound sc o _ h

theorem sound_pingAfterClose (sc : Scenario) (o : Obs) {p tc} (h : monitor sc o = some (.pingAfterClose p tc)) : ¬ P_no_ping_after_cancel sc o :=
  monitor_sound sc o _ h

theorem sound_loggedAfterEnd (sc : Scenario) (o : Obs) {w due why} (h : monitor sc o = some (.loggedAfterEnd w due why)) : ¬ P_nothing_logged_after_end sc o :=
  monitor_sound sc o _ h

theorem sound_shutLate (sc : Scenario) (o : Obs) {c sh} (h : monitor sc o = some (.shutLate c sh)) : ¬ P_connection_closed sc o :=
  monitor_sound sc o _ h

theorem sound_shutNever (sc : Scenario) (o : Obs) {c} (h : monitor sc o = some (.shutNever c)) : ¬ P_connection_closed sc o :=
  monitor_sound sc o _ h

theorem sound_goroutineLeft (sc : Scenario) (o : Obs) {t due why} (h : monitor sc o = some (.goroutineLeft t due why)) : ¬ P_no_goroutine_left sc o :=
  monitor_sound sc o _ h

theorem sound_goroutineGone (sc : Scenario) (o : Obs) {t due} (h : monitor sc o = some (.goroutineGone t due)) : ¬ P_goroutine_while_alive sc o :=
  monitor_sound sc o _ h

theorem sound_badLive (sc : Scenario) (o : Obs) {raw} (h : monitor sc o = some (.badLive raw)) : ¬ P_sess_wellformed sc o :=
  monitor_sound sc o _ h

theorem sound_badSess (sc : Scenario) (o : Obs) (h : monitor sc o = some .badSess) : ¬ P_sess_wellformed sc o :=
  monitor_sound sc o _ h

/-! ## Non-vacuity: clauses can be reported, and a conforming observation is accepted -/

section witnesses
private def a (d : Nat) : Script := { kind := .answer, delay := some d }
private def n : Script := { kind := .answer, delay := none }
private def m (d : Nat) : Script := { kind := .mnf, delay := some d }
private def scn (T : Int) (scripts : List Script) (tc : Nat) : Scenario :=
  { real := false, I := 1000, t0 := T, scripts := scripts, tc := tc }
private def ob (pings closes : List Nat) : Obs :=
  { pings := pings, to := .all 500, closes := closes, exit := true, quietAfter := true, sess := none }

example : monitor (scn 2 [a 10, n, n] 3750) (ob [1000, 2000, 3000] [3500]) = none := by decide
example : monitor (scn 2 [a 10, n, n] 3750) (ob [1000, 2000, 3000] []) = some (.notClosed 3 2) := by decide
example : monitor (scn 2 [a 10, n, a 5] 3750) (ob [1000, 2000, 3000] [3005]) =
    some (.closedAfterAnswer 3005 3 3000 2) := by decide
example : monitor (scn 3 [a 10, n, n] 3750) (ob [1000, 2000, 3000] [3500]) = some (.closedFewFails 3500 2 3) := by decide
example : monitor (scn 2 [a 10, n, n] 3750) (ob [1000, 2000, 3000] [3600]) = some (.closedLate 3600 3 3000) := by decide
example : monitor (scn 2 [m 10, n, n] 3750) (ob [1000, 2000] []) = some (.wentOn 1 [1000, 2000]) := by decide
example : monitor { scn 1 [m 3, a 11] 2750 with real := true, transientMnf := [1] }
    { ob [1000] [1003] with to := .none } = some (.f31 1 [1000] [1003]) := by decide
example : monitor (scn 2 [a 10, a 10] 2750) (ob [1000, 2500] []) = some (.ticksGrid [1000, 2500] 2 1000) := by decide
example : monitor (scn 2 [a 10] 1750) { ob [1000] [] with to := .all 250 } = some (.deadlineAll 250 1000) := by decide
example : monitor (scn 2 [a 10] 1750) { ob [1000] [] with exit := false } = some .notQuiet := by decide
example : monitor { scn 1 [a 10] 1750 with sess := true, at2 := 5000 } (ob [1000] []) = some .badSess := by decide
end witnesses

end KeepAlive
