import McpModel.KeepAlive.Model
/-!
E9 — what the PEER (or the transport) did with a ping, and what that amounts to for the property.

Streams `http` / families `ctxw`, `srvw`: the harness scripts the foreign side per ping (`wire=`) and the
record carries, next to it, the outcome pattern (`script=`) the model and the monitor work on.  The mapping
from the one to the other is the property's reading of "answered / timed out / method-not-found / connection
error"; it is defined HERE, typed, and the driver refuses a record (`bad-op`) whose `script=` is not
`reading` of its `wire=` — so the harness cannot hand the model a different reading than the one the
theorems of PeerProps.lean are about.
-/
namespace KeepAlive

/-- What happened to one ping on the foreign side. -/
inductive WireKind
  /-- a JSON-RPC result came back (JSON body or SSE-framed) -/
  | result
  /-- a JSON-RPC error -32601 came back, on whatever HTTP status -/
  | unsupported
  /-- any other reply: another JSON-RPC error, an HTTP error without a JSON-RPC body, a transport error -/
  | otherError
  /-- the transport REFUSED this one message (an error wrapping `jsonrpc2.ErrRejected`: no standalone stream,
  a transient status, …); the connection stays usable -/
  | refused
  /-- the ping was accepted and never answered -/
  | silent
  /-- the transport write did not complete until the ping's context ended -/
  | stalledWrite
deriving DecidableEq, Repr

/-- How the streamable SERVER transport is configured (family `shttp`, `mode=`). -/
inductive ServerMode
  /-- stateful, no EventStore -/
  | plain
  /-- stateful with an EventStore (legacy protocol versions: messages are appended to the store before delivery) -/
  | store
  /-- `StreamableHTTPOptions.Stateless`: a temporary session per POST -/
  | stateless
deriving DecidableEq, Repr

/-- What `streamableServerConn.Write` makes of a server-initiated ping when the client has NO standalone stream
open (mcp/streamable.go): a stateless connection refuses every outgoing call (`ErrRejected: stateless servers
cannot make requests`); a stateful one without a store cannot deliver it (`ErrRejected: undelivered message`); with
an EventStore the message is appended to the store, which counts as delivered — Write returns nil and the ping
waits, unanswered, for its timeout. -/
def absentStream : ServerMode → WireKind
  | .plain => .refused
  | .store => .silent
  | .stateless => .refused

/-- The letters of the harness (zz_verif_keepalive_http_test.go: khKinds, `w`, `R`, and `G` = the client has no
standalone stream open at that tick, read according to the server's mode). -/
def wireKindOf (mode : ServerMode) (c : Char) : Option WireKind :=
  if c == 'G' then some (absentStream mode)
  else if c == 'j' || c == 's' then some .result
  else if c == 'J' || c == 'S' || c == '4' || c == '0' || c == '5' || c == 'i' || c == 'k' then some .unsupported
  else if c == 'x' || c == 'y' || c == 'z' || c == 'r' || c == 't' then some .otherError
  else if c == 'R' then some .refused
  else if c == 'n' then some .silent
  else if c == 'w' then some .stalledWrite
  else none

/-- The property's reading: a result is an answer, -32601 is "ping unsupported", nothing within the ping
timeout is a timed-out ping, everything else — also a ping the transport refused to send — is a failed ping
(after the delay `d` with which it came back). -/
def reading (k : WireKind) (d : Nat) : Script :=
  match k with
  | .result => { kind := .answer, delay := some d }
  | .unsupported => { kind := .mnf, delay := some d }
  | .otherError => { kind := .error, delay := some d }
  | .refused => { kind := .error, delay := some d }
  | .silent => { kind := .answer, delay := none }
  | .stalledWrite => { kind := .answer, delay := none }

/-- One `wire=` element: `<letter><delay>[c<content-type spelling>]`, or the bare letters `n`, `w`. -/
def parseWireEl (mode : ServerMode) (s : String) : Option (WireKind × Nat) :=
  match s.toList with
  | [] => none
  | c :: rest =>
    match wireKindOf mode c with
    | none => none
    | some k =>
      if rest.isEmpty then some (k, 0)
      else
        let ds := rest.takeWhile Char.isDigit
        let tail := rest.dropWhile Char.isDigit
        if ds.isEmpty then none
        else if tail.isEmpty || tail.head? == some 'c' then (String.ofList ds).toNat?.map fun d => (k, d)
        else none

def parseWire (mode : ServerMode) (s : String) : Option (List (WireKind × Nat)) :=
  if s == "-" then some [] else (s.splitOn ",").mapM (parseWireEl mode)

def parseMode (s : Option String) : Option ServerMode :=
  match s with
  | none => some .plain
  | some "plain" => some .plain
  | some "store" => some .store
  | some "stateless" => some .stateless
  | some _ => none

/-- The outcome pattern a wire script amounts to. -/
def readWire (w : List (WireKind × Nat)) : List Script := w.map fun p => reading p.1 p.2

end KeepAlive
