import McpModel.Generated.KeepAliveGen
/-
E9 — model of `mcp.startKeepalive` (mcp/shared.go:822-894).  Serves C13.

The keep-alive goroutine is a loop over ticker ticks.  Tick `k` (k = 1, 2, …) fires at virtual time
`k·I`; the loop then issues one ping with its own deadline `pingTimeout I` (regenerated: `I/2`) and
waits for it.  What the peer does with that ping is the input (`Script`): after `delay` ns it answers,
reports method-not-found, or fails with another error — or it never answers.  A ping whose scripted
delay is not below the deadline ends *at* the deadline with the context's error (a failure); this
is the contract of `keepaliveSession.Ping` (it honours its context), which the real sessions
implement through `jsonrpc2.Connection.Call` and which the harness's scripted session implements
literally.  Hence every ping lasts at most `pingTimeout I < I` and no tick is ever dropped
(`Props.ping_done_before_next_tick`): the model may identify "the k-th ping" with "tick k".

`step` = one iteration of the `case <-ticker.C` arm; `run` folds it over the scripts.  Cancellation
(`*cancelPtr`) only takes effect in the `select`, i.e. between two iterations: `runCancel`.
Core Lean only (linked into the driver).
-/
namespace KeepAlive
open Generated.KeepAlive

inductive Kind where
  | answer   -- Ping returns nil
  | mnf      -- Ping returns an error for which errors.Is(err, stopSentinel) holds
  | error    -- Ping returns any other error
deriving DecidableEq, Repr

/-- What the peer does with one ping. `delay = none`: never reacts. -/
structure Script where
  kind : Kind
  delay : Option Nat
deriving DecidableEq, Repr

/-- The result of one ping as the loop sees it, with the time it took. -/
inductive Outcome where
  | ok (d : Nat)
  | mnf (d : Nat)
  | fail (d : Nat)
deriving DecidableEq, Repr

def Outcome.dur : Outcome → Nat
  | .ok d => d
  | .mnf d => d
  | .fail d => d

def Outcome.isFail : Outcome → Bool
  | .fail _ => true
  | _ => false

def Outcome.isMnf : Outcome → Bool
  | .mnf _ => true
  | _ => false

/-- `session.Ping(pingCtx, nil)` against the scripted peer, `timeout` being the ping deadline. -/
def observe (timeout : Nat) (s : Script) : Outcome :=
  match s.delay with
  | none => .fail timeout
  | some d =>
    if d < timeout then
      match s.kind with
      | .answer => .ok d
      | .mnf => .mnf d
      | .error => .fail d
    else .fail timeout

inductive Status where
  | running   -- the goroutine is in (or on its way back to) the select
  | closed    -- it called session.Close() and returned
  | stopped   -- it returned without calling Close
deriving DecidableEq, Repr

structure St where
  status : Status := .running
  fails : Nat := 0              -- consecutiveFailures
  tick : Nat := 0               -- ticks consumed
  pings : List Nat := []        -- instants at which Ping was called (oldest first)
  closeAt : Option Nat := none  -- instant of session.Close()
deriving DecidableEq, Repr

/-- The threshold after `if failureThreshold < 1 { failureThreshold = 1 }`. -/
def threshold (t0 : Int) : Nat := (normThreshold t0).toNat

/-- One iteration of the ticker arm, for interval `I` and normalised threshold `T`. -/
def step (I T : Nat) (s : St) (sc : Script) : St :=
  match s.status with
  | .running =>
    let k := s.tick + 1
    let t := k * I
    let s1 : St := { s with tick := k, pings := s.pings ++ [t] }
    match observe (pingTimeout I) sc with
    | .ok _ => { s1 with fails := 0 }
    | .mnf _ => { s1 with status := .stopped }
    | .fail d =>
      let f := s.fails + 1
      if tolerated f T then { s1 with fails := f }
      else { s1 with fails := f, status := .closed, closeAt := some (t + d) }
  | _ => s

def run (I : Nat) (t0 : Int) (scs : List Script) : St := scs.foldl (step I (threshold t0)) {}

/-- Ticks that fire strictly before instant `tc` (`tc` is never a tick instant in the harness). -/
def ticksBefore (I tc : Nat) : Nat := if I = 0 then 0 else (tc - 1) / I

/-- The run with `*cancelPtr` called at instant `tc`: only the ticks before `tc` are served (a ping
in flight at `tc` is completed and its result processed — its context is not derived from the
cancelled one); then the `select` sees `ctx.Done()` and the goroutine returns. -/
def runCancel (I : Nat) (t0 : Int) (scs : List Script) (tc : Nat) : St :=
  let s := run I t0 (scs.take (ticksBefore I tc))
  match s.status with
  | .running => { s with status := .stopped }
  | _ => s

end KeepAlive
