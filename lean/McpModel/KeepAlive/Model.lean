import McpModel.Generated.KeepAliveGen
/-
E9 — model of `mcp.startKeepalive` (mcp/shared.go:822-894).  Serves C13.

The keep-alive goroutine is a loop over ticker ticks.  Tick `k` (k = 1, 2, …) fires at virtual time
`k·I`; the loop then issues one ping with its own deadline `pingTimeout I` (regenerated: `I/2`) and
waits for it.  What the peer does with that ping is the input (`Script`): after `delay` ns it answers,
reports method-not-found, or fails with another error — or it never answers.  A ping whose scripted
delay is not below the deadline ends *at* the deadline with the context's error (a failure); this
is the contract of `keepaliveSession.Ping` (it honours its context), which the real sessions
implement through `jsonrpc2.Connection.Call` and which the harness's scripted session implements
literally.  Hence every ping lasts at most `pingTimeout I < I` and no tick is ever dropped
(`Props.ping_done_before_next_tick`): the model may identify "the k-th ping" with "tick k".

`step` = one iteration of the `case <-ticker.C` arm; `run` folds it over the scripts.  Cancellation
(`*cancelPtr`) only takes effect in the `select`, i.e. between two iterations: `runCancel`.
Core Lean only (linked into the driver).
-/
namespace KeepAlive
open Generated.KeepAlive

inductive Kind where
  | answer   -- Ping returns nil
  | mnf      -- Ping returns an error for which errors.Is(err, stopSentinel) holds
  | error    -- Ping returns any other error
deriving DecidableEq, Repr

/-- What the peer does with one ping. `delay = none`: never reacts. -/
structure Script where
  kind : Kind
  delay : Option Nat
deriving DecidableEq, Repr

/-- The result of one ping as the loop sees it, with the time it took. -/
inductive Outcome where
  | ok (d : Nat)
  | mnf (d : Nat)
  | fail (d : Nat)
deriving DecidableEq, Repr

def Outcome.dur : Outcome → Nat
  | .ok d => d
  | .mnf d => d
  | .fail d => d

def Outcome.isFail : Outcome → Bool
  | .fail _ => true
  | _ => false

def Outcome.isMnf : Outcome → Bool
  | .mnf _ => true
  | _ => false

/-- `session.Ping(pingCtx, nil)` against the scripted peer, `timeout` being the ping deadline. -/
def observe (timeout : Nat) (s : Script) : Outcome :=
  match s.delay with
  | none => .fail timeout
  | some d =>
    if d < timeout then
      match s.kind with
      | .answer => .ok d
      | .mnf => .mnf d
      | .error => .fail d
    else .fail timeout

inductive Status where
  | running   -- the goroutine is in (or on its way back to) the select
  | closed    -- it called session.Close() and returned
  | stopped   -- it returned without calling Close
deriving DecidableEq, Repr

structure St where
  status : Status := .running
  fails : Nat := 0              -- consecutiveFailures
  tick : Nat := 0               -- ticks consumed
  pings : List Nat := []        -- instants at which Ping was called (oldest first)
  closeAt : Option Nat := none  -- instant of session.Close()
deriving DecidableEq, Repr

/-- The threshold after `if failureThreshold < 1 { failureThreshold = 1 }`. -/
def threshold (t0 : Int) : Nat := (normThreshold t0).toNat

/-- One iteration of the ticker arm, for interval `I` and normalised threshold `T`. -/
def step (I T : Nat) (s : St) (sc : Script) : St :=
  match s.status with
  | .running =>
    let k := s.tick + 1
    let t := k * I
    let s1 : St := { s with tick := k, pings := s.pings ++ [t] }
    match observe (pingTimeout I) sc with
    | .ok _ => { s1 with fails := 0 }
    | .mnf _ => { s1 with status := .stopped }
    | .fail d =>
      let f := s.fails + 1
      if tolerated f T then { s1 with fails := f }
      else { s1 with fails := f, status := .closed, closeAt := some (t + d) }
  | _ => s

def run (I : Nat) (t0 : Int) (scs : List Script) : St := scs.foldl (step I (threshold t0)) {}

/-- Ticks that fire strictly before instant `tc` (`tc` is never a tick instant in the harness). -/
def ticksBefore (I tc : Nat) : Nat := if I = 0 then 0 else (tc - 1) / I

/-- The run with `*cancelPtr` called at instant `tc`: only the ticks before `tc` are served (a ping
in flight at `tc` is completed and its result processed — its context is not derived from the
cancelled one); then the `select` sees `ctx.Done()` and the goroutine returns. -/
def runCancel (I : Nat) (t0 : Int) (scs : List Script) (tc : Nat) : St :=
  let s := run I t0 (scs.take (ticksBefore I tc))
  match s.status with
  | .running => { s with status := .stopped }
  | _ => s

/-! ## Session level (stream `sessions`): what the loop logs, when its goroutine returns, and the
order of the statements of the sessions' `Close` methods -/

/-- The instant at which ping `k` (k ≥ 1) is over; 0 for `k = 0` (no ping yet). -/
def pingEnd (I : Nat) (scs : List Script) : Nat → Nat
  | 0 => 0
  | k + 1 =>
    match scs[k]? with
    | some sc => (k + 1) * I + (observe (pingTimeout I) sc).dur
    | none => (k + 1) * I

/-- The instant of the WARN record ("keepalive ping failed; tolerating below threshold") that one
iteration of the ticker arm writes, if it writes one. -/
def warnStep (I T : Nat) (s : St) (sc : Script) : List Nat :=
  match s.status with
  | .running =>
    match observe (pingTimeout I) sc with
    | .fail d => if tolerated (s.fails + 1) T then [(s.tick + 1) * I + d] else []
    | _ => []
  | _ => []

def warnsFrom (I T : Nat) : St → List Script → List Nat
  | _, [] => []
  | s, sc :: t => warnStep I T s sc ++ warnsFrom I T (step I T s sc) t

/-- Instants of all WARN records of a run. -/
def warns (I : Nat) (t0 : Int) (scs : List Script) : List Nat := warnsFrom I (threshold t0) {} scs

/-- … of the run cancelled at `tc`. -/
def warnsCancel (I : Nat) (t0 : Int) (scs : List Script) (tc : Nat) : List Nat :=
  warns I t0 (scs.take (ticksBefore I tc))

/-- The instant at which the goroutine of `runCancel` returns (and its deferred `ticker.Stop` runs):
the end of its last ping when the loop closed the session or stopped on method-not-found; otherwise
the cancellation instant, or the end of the ping that was in flight then. -/
def endAt (I : Nat) (t0 : Int) (scs : List Script) (tc : Nat) : Nat :=
  let pre := scs.take (ticksBefore I tc)
  let s := run I t0 pre
  match s.status with
  | .running => max tc (pingEnd I pre s.tick)
  | _ => pingEnd I pre s.tick

/-- One top-level statement of a session's `Close` method, as classified by the extractor
(`Generated.KeepAlive.clientClosePath`, `serverClosePath`). -/
inductive CloseAct where
  | cancelKeepalive   -- `if x.keepaliveCancel != nil { x.keepaliveCancel() }`
  | plain             -- a statement without `return`, `panic`, `goto`: control reaches the next one
  | connClose         -- `err := x.conn.Close()`: may yield an error
  | returnIfErr       -- `if err != nil { return … }`
  | mayReturn         -- any other statement that contains a way out of the function
  | ret               -- `return …`
deriving DecidableEq, Repr

def CloseAct.ofString : String → CloseAct
  | "cancelKeepalive" => .cancelKeepalive
  | "plain" => .plain
  | "connClose" => .connClose
  | "returnIfErr" => .returnIfErr
  | "ret" => .ret
  | _ => .mayReturn

/-- Runs the statements of `Close`.  `connErr`: the transport connection's `Close` fails; `err`: the
current value of `err != nil`; the oracle resolves the statements that may or may not leave the
function.  Result: has keep-alive been cancelled when `Close` returns? -/
def execClose (connErr : Bool) : List CloseAct → Bool → List Bool → Bool
  | [], _, _ => false
  | .cancelKeepalive :: _, _, _ => true
  | .plain :: t, e, o => execClose connErr t e o
  | .connClose :: t, _, o => execClose connErr t connErr o
  | .returnIfErr :: t, e, o => if e then false else execClose connErr t e o
  | .mayReturn :: t, e, o =>
    match o with
    | [] => false
    | b :: o' => if b then false else execClose connErr t e o'
  | .ret :: _, _, _ => false

/-- Keep-alive is cancelled before anything that can fail or leave the function. -/
def cancelFirst : List CloseAct → Bool
  | .cancelKeepalive :: _ => true
  | .plain :: t => cancelFirst t
  | _ => false

def clientClose : List CloseAct := clientClosePath.map CloseAct.ofString
def serverClose : List CloseAct := serverClosePath.map CloseAct.ofString

end KeepAlive
