import McpModel.Generated.KeepAliveGen
/-
E9 — model of `mcp.startKeepalive` (mcp/shared.go:822-894).  Serves C13.

The keep-alive goroutine is a loop over ticker ticks.  The ticker fires at the grid instants `k·I`
(k = 1, 2, …); on a tick the loop issues one ping with its own deadline — `pingTimeout I`
(regenerated: `I/2`) after the instant the ping is ISSUED, whatever the tick's own timestamp — and
waits for it.  What the peer does with that ping is the input (`Script`): after `delay` ns it answers,
reports method-not-found, or fails with another error — or it never answers.

A ping that honours its context (`honours = true`: the contract of `keepaliveSession.Ping`,
implemented literally by the harness's scripted session) and whose scripted delay is not below the
deadline ends *at* the deadline with the context's error (a failure).  Then every ping lasts at most
`pingTimeout I < I`, no tick is ever dropped and "the k-th ping" is "tick k"
(`Props.ping_done_before_next_tick`, `Props.pings_at_ticks`).

A ping can OVERRUN its deadline (`honours = false`): `jsonrpc2.Connection.Call` writes the request
before it waits, and `ioConn.Write` does not look at its context while the stream write is blocked —
which it is for as long as the peer does not READ.  Such a ping returns (with whatever result) only
after `delay`, however long.  Meanwhile the ticker (a channel of capacity one) keeps exactly one tick
pending and drops the others: when the overrunning ping is over the loop serves the pending tick at
once, and later ticks are on the grid again.  So ping `k+1` is issued at
`max (end of ping k) (first grid instant after the start of ping k)` (`nextStart`), and it gets a
fresh `pingTimeout I`.

`step` = one iteration of the `case <-ticker.C` arm; `run` folds it over the scripts.  Cancellation
(`*cancelPtr`) only takes effect in the `select`, i.e. between two iterations: `runCancel` serves the
pings that are issued before the cancellation instant.
Core Lean only (linked into the driver).
-/
namespace KeepAlive
open Generated.KeepAlive

inductive Kind where
  | answer   -- Ping returns nil
  | mnf      -- Ping returns an error for which errors.Is(err, stopSentinel) holds
  | error    -- Ping returns any other error
deriving DecidableEq, Repr

/-- What the peer (and the transport) do with one ping. `delay = none`: never reacts.
`honours = false`: `Ping` does not return before `delay` even when its deadline passes (its write is
blocked because the peer does not read) — it returns at `delay` with the result `kind`. -/
structure Script where
  kind : Kind
  delay : Option Nat
  honours : Bool := true
deriving DecidableEq, Repr

/-- The result of one ping as the loop sees it, with the time it took. -/
inductive Outcome where
  | ok (d : Nat)
  | mnf (d : Nat)
  | fail (d : Nat)
deriving DecidableEq, Repr

def Outcome.dur : Outcome → Nat
  | .ok d => d
  | .mnf d => d
  | .fail d => d

def Outcome.isFail : Outcome → Bool
  | .fail _ => true
  | _ => false

def Outcome.isMnf : Outcome → Bool
  | .mnf _ => true
  | _ => false

/-- `session.Ping(pingCtx, nil)` against the scripted peer, `timeout` being the ping deadline. -/
def observe (timeout : Nat) (s : Script) : Outcome :=
  match s.delay with
  | none => .fail timeout
  | some d =>
    if d < timeout || !s.honours then
      match s.kind with
      | .answer => .ok d
      | .mnf => .mnf d
      | .error => .fail d
    else .fail timeout

inductive Status where
  | running   -- the goroutine is in (or on its way back to) the select
  | closed    -- it called session.Close() and returned
  | stopped   -- it returned without calling Close
deriving DecidableEq, Repr

structure St where
  status : Status := .running
  fails : Nat := 0              -- consecutiveFailures
  tick : Nat := 0               -- ticks consumed (= pings issued)
  pings : List Nat := []        -- instants at which Ping was called (oldest first)
  closeAt : Option Nat := none  -- instant of session.Close()
  last : Nat := 0               -- instant at which the last ping was issued (0: none yet)
  free : Nat := 0               -- instant at which the loop was back in the select (end of the last ping)
deriving DecidableEq, Repr

/-- The first tick of the grid `I, 2I, …` strictly after instant `t`. -/
def gridAfter (I t : Nat) : Nat := (t / I + 1) * I

/-- The instant at which the next ping is issued by a loop whose last ping was issued at `last` and
was over at `free`: the next grid tick — or, when that tick fired while the ping was still in flight,
the end of that ping (the ticker keeps one tick pending). -/
def nextStart (I last free : Nat) : Nat := max free (gridAfter I last)

/-- The threshold after `if failureThreshold < 1 { failureThreshold = 1 }`. -/
def threshold (t0 : Int) : Nat := (normThreshold t0).toNat

/-- One iteration of the ticker arm, for interval `I` and normalised threshold `T`. -/
def step (I T : Nat) (s : St) (sc : Script) : St :=
  match s.status with
  | .running =>
    let t := nextStart I s.last s.free
    let o := observe (pingTimeout I) sc
    let s1 : St := { s with tick := s.tick + 1, pings := s.pings ++ [t], last := t, free := t + o.dur }
    match o with
    | .ok _ => { s1 with fails := 0 }
    | .mnf _ => { s1 with status := .stopped }
    | .fail d =>
      let f := s.fails + 1
      if tolerated f T then { s1 with fails := f }
      else { s1 with fails := f, status := .closed, closeAt := some (t + d) }
  | _ => s

def run (I : Nat) (t0 : Int) (scs : List Script) : St := scs.foldl (step I (threshold t0)) {}

/-- The number of leading scripts whose pings are issued strictly before instant `tc` by a loop
that goes on pinging (`last`, `free` as in `nextStart`).  (`tc` never coincides with the start of a
ping in the harness.) -/
def pingsBeforeFrom (I tc : Nat) : Nat → Nat → List Script → Nat
  | _, _, [] => 0
  | last, free, sc :: t =>
    let p := nextStart I last free
    if p < tc then pingsBeforeFrom I tc p (p + (observe (pingTimeout I) sc).dur) t + 1 else 0

def pingsBefore (I tc : Nat) (scs : List Script) : Nat := pingsBeforeFrom I tc 0 0 scs

/-- The run with `*cancelPtr` called at instant `tc`: only the pings issued before `tc` are served (a
ping in flight at `tc` is completed and its result processed — its context is not derived from the
cancelled one); then the `select` sees `ctx.Done()` and the goroutine returns. -/
def runCancel (I : Nat) (t0 : Int) (scs : List Script) (tc : Nat) : St :=
  let s := run I t0 (scs.take (pingsBefore I tc scs))
  match s.status with
  | .running => { s with status := .stopped }
  | _ => s

/-! ## Session level (stream `sessions`): what the loop logs, when its goroutine returns, and the
order of the statements of the sessions' `Close` methods -/

/-- The instant of the WARN record ("keepalive ping failed; tolerating below threshold") that one
iteration of the ticker arm writes, if it writes one. -/
def warnStep (I T : Nat) (s : St) (sc : Script) : List Nat :=
  match s.status with
  | .running =>
    match observe (pingTimeout I) sc with
    | .fail d => if tolerated (s.fails + 1) T then [nextStart I s.last s.free + d] else []
    | _ => []
  | _ => []

def warnsFrom (I T : Nat) : St → List Script → List Nat
  | _, [] => []
  | s, sc :: t => warnStep I T s sc ++ warnsFrom I T (step I T s sc) t

/-- Instants of all WARN records of a run. -/
def warns (I : Nat) (t0 : Int) (scs : List Script) : List Nat := warnsFrom I (threshold t0) {} scs

/-- … of the run cancelled at `tc`. -/
def warnsCancel (I : Nat) (t0 : Int) (scs : List Script) (tc : Nat) : List Nat :=
  warns I t0 (scs.take (pingsBefore I tc scs))

/-- The instant at which the goroutine of `runCancel` returns (and its deferred `ticker.Stop` runs):
the end of its last ping when the loop closed the session or stopped on method-not-found; otherwise
the cancellation instant, or the end of the ping that was in flight then. -/
def endAt (I : Nat) (t0 : Int) (scs : List Script) (tc : Nat) : Nat :=
  let s := run I t0 (scs.take (pingsBefore I tc scs))
  match s.status with
  | .running => max tc s.free
  | _ => s.free

/-- One top-level statement of a session's `Close` method, as classified by the extractor
(`Generated.KeepAlive.clientClosePath`, `serverClosePath`). -/
inductive CloseAct where
  | cancelKeepalive   -- `if x.keepaliveCancel != nil { x.keepaliveCancel() }`
  | plain             -- a statement without `return`, `panic`, `goto`: control reaches the next one
  | connClose         -- `err := x.conn.Close()`: may yield an error
  | returnIfErr       -- `if err != nil { return … }`
  | mayReturn         -- any other statement that contains a way out of the function
  | ret               -- `return …`
deriving DecidableEq, Repr

def CloseAct.ofString : String → CloseAct
  | "cancelKeepalive" => .cancelKeepalive
  | "plain" => .plain
  | "connClose" => .connClose
  | "returnIfErr" => .returnIfErr
  | "ret" => .ret
  | _ => .mayReturn

/-- Runs the statements of `Close`.  `connErr`: the transport connection's `Close` fails; `err`: the
current value of `err != nil`; the oracle resolves the statements that may or may not leave the
function.  Result: has keep-alive been cancelled when `Close` returns? -/
def execClose (connErr : Bool) : List CloseAct → Bool → List Bool → Bool
  | [], _, _ => false
  | .cancelKeepalive :: _, _, _ => true
  | .plain :: t, e, o => execClose connErr t e o
  | .connClose :: t, _, o => execClose connErr t connErr o
  | .returnIfErr :: t, e, o => if e then false else execClose connErr t e o
  | .mayReturn :: t, e, o =>
    match o with
    | [] => false
    | b :: o' => if b then false else execClose connErr t e o'
  | .ret :: _, _, _ => false

/-- Keep-alive is cancelled before anything that can fail or leave the function. -/
def cancelFirst : List CloseAct → Bool
  | .cancelKeepalive :: _ => true
  | .plain :: t => cancelFirst t
  | _ => false

def clientClose : List CloseAct := clientClosePath.map CloseAct.ofString
def serverClose : List CloseAct := serverClosePath.map CloseAct.ofString

end KeepAlive
