import McpModel.KeepAlive.Props
import McpModel.KeepAlive.PeerReading
/-!
# C13 — the reading of what the peer / the transport did with a ping (PeerReading.lean)

"for all finite patterns of ping outcomes (answered / timed out / method-not-found / connection error)":
which replies are which outcome, and in particular that a ping the transport REFUSED to send
(`jsonrpc2.ErrRejected`) is a failed ping like any other — it counts towards the threshold and it does not
reset the counter (seeded change C13-m15 made it a success on server sessions).
-/
namespace KeepAlive
open Generated.KeepAlive

/-- A refused ping is a failed ping, whatever the time the refusal took. -/
theorem refused_is_a_failed_ping (I d : Nat) : (observe (pingTimeout I) (reading .refused d)).isFail = true := by
  by_cases hd : d < pingTimeout I <;> simp [observe, reading, hd, Outcome.isFail]

/-- Only a JSON-RPC result that arrives within the ping timeout resets the failure counter. -/
theorem only_a_result_in_time_resets (I d : Nat) (k : WireKind) (d' : Nat)
    (h : observe (pingTimeout I) (reading k d) = .ok d') : k = .result ∧ d < pingTimeout I ∧ d' = d := by
  cases k <;> by_cases hd : d < pingTimeout I <;> simp [observe, reading, hd] at h <;> simp_all

/-- Only "-32601 within the ping timeout" ends keep-alive silently. -/
theorem only_unsupported_in_time_stops (I d : Nat) (k : WireKind) (d' : Nat)
    (h : observe (pingTimeout I) (reading k d) = .mnf d') : k = .unsupported ∧ d < pingTimeout I ∧ d' = d := by
  cases k <;> by_cases hd : d < pingTimeout I <;> simp [observe, reading, hd] at h <;> simp_all

/-- Everything else is a failed ping. -/
theorem every_other_reply_fails (I d : Nat) (k : WireKind)
    (h : ¬ ((k = .result ∨ k = .unsupported) ∧ d < pingTimeout I)) :
    (observe (pingTimeout I) (reading k d)).isFail = true := by
  cases k <;> by_cases hd : d < pingTimeout I <;> simp [observe, reading, hd, Outcome.isFail] at h ⊢

/-- **A session whose pings are all refused by its transport is closed at tick T** (T the normalised
threshold), for every interval, every configured threshold and whatever time the refusals take. -/
theorem refused_pings_close (I : Nat) (t0 : Int) (ds : List Nat) (hlen : ds.length = threshold t0) :
    (run I t0 (readWire (ds.map fun d => (WireKind.refused, d)))).status = .closed ∧
    (run I t0 (readWire (ds.map fun d => (WireKind.refused, d)))).tick = threshold t0 := by
  rw [closes_iff_T_consecutive]
  have hl : (obsOf I (readWire (ds.map fun d => (WireKind.refused, d)))).length = threshold t0 := by
    simp [obsOf, readWire, hlen]
  have hall : ∀ o ∈ obsOf I (readWire (ds.map fun d => (WireKind.refused, d))), o.isFail = true ∧ o.isMnf = false := by
    intro o ho
    simp only [obsOf, readWire, List.map_map, List.mem_map, Function.comp] at ho
    obtain ⟨d, _, rfl⟩ := ho
    have := refused_is_a_failed_ping I d
    cases hobs : observe (pingTimeout I) (reading .refused d) <;> simp_all [Outcome.isFail, Outcome.isMnf]
  refine ⟨Nat.le_refl _, by omega, ?_, ?_, ?_⟩
  · intro o ho
    exact (hall o (List.mem_of_mem_take (List.mem_of_mem_drop ho))).1
  · intro o ho
    exact (hall o (List.mem_of_mem_take ho)).2
  · intro k' h1 h2; omega

/-- … and a refused ping after a tolerated miss does not forgive the miss: a timed-out ping followed by
`T - 1` refused ones closes the session at tick `T` (the second shape of C13-m15). -/
theorem miss_then_refused_close (I : Nat) (t0 : Int) (ds : List Nat) (hlen : ds.length + 1 = threshold t0) :
    (run I t0 (readWire ((WireKind.silent, 0) :: ds.map fun d => (WireKind.refused, d)))).status = .closed ∧
    (run I t0 (readWire ((WireKind.silent, 0) :: ds.map fun d => (WireKind.refused, d)))).tick = threshold t0 := by
  rw [closes_iff_T_consecutive]
  have hl : (obsOf I (readWire ((WireKind.silent, 0) :: ds.map fun d => (WireKind.refused, d)))).length = threshold t0 := by
    simp [obsOf, readWire, hlen]
  have hall : ∀ o ∈ obsOf I (readWire ((WireKind.silent, 0) :: ds.map fun d => (WireKind.refused, d))),
      o.isFail = true ∧ o.isMnf = false := by
    intro o ho
    simp only [obsOf, readWire, List.map_cons, List.map_map, List.mem_cons, List.mem_map, Function.comp] at ho
    rcases ho with rfl | ⟨d, _, rfl⟩
    · simp [observe, reading, Outcome.isFail, Outcome.isMnf]
    · have := refused_is_a_failed_ping I d
      cases hobs : observe (pingTimeout I) (reading .refused d) <;> simp_all [Outcome.isFail, Outcome.isMnf]
  refine ⟨Nat.le_refl _, by omega, ?_, ?_, ?_⟩
  · intro o ho
    exact (hall o (List.mem_of_mem_take (List.mem_of_mem_drop ho))).1
  · intro o ho
    exact (hall o (List.mem_of_mem_take ho)).2
  · intro k' h1 h2; omega

/-- The general form: a session whose first `T` pings all fail (for whatever reason each) is closed at tick `T`. -/
theorem all_failed_close (I : Nat) (t0 : Int) (scs : List Script) (hlen : scs.length = threshold t0)
    (hf : ∀ sc ∈ scs, (observe (pingTimeout I) sc).isFail = true) :
    (run I t0 scs).status = .closed ∧ (run I t0 scs).tick = threshold t0 := by
  rw [closes_iff_T_consecutive]
  have hl : (obsOf I scs).length = threshold t0 := by simp [obsOf, hlen]
  have hall : ∀ o ∈ obsOf I scs, o.isFail = true ∧ o.isMnf = false := by
    intro o ho
    simp only [obsOf, List.mem_map] at ho
    obtain ⟨sc, hsc, rfl⟩ := ho
    have := hf sc hsc
    cases hobs : observe (pingTimeout I) sc <;> simp_all [Outcome.isFail, Outcome.isMnf]
  refine ⟨Nat.le_refl _, by omega, ?_, ?_, ?_⟩
  · intro o ho
    exact (hall o (List.mem_of_mem_take (List.mem_of_mem_drop ho))).1
  · intro o ho
    exact (hall o (List.mem_of_mem_take ho)).2
  · intro k' h1 h2; omega

/-- A server-initiated ping while the client has no standalone stream is a failed ping in every configuration of
the streamable server transport (refused at once, or stored and never answered). -/
theorem absent_stream_is_a_failed_ping (I d : Nat) (mode : ServerMode) :
    (observe (pingTimeout I) (reading (absentStream mode) d)).isFail = true := by
  cases mode <;> simp only [absentStream]
  · exact refused_is_a_failed_ping I d
  · simp [observe, reading, Outcome.isFail]
  · exact refused_is_a_failed_ping I d

/-- … but HOW LONG it takes differs: with an EventStore the ping is "delivered" to the store and uses up its whole
timeout; without one (and on a stateless server) it fails after the `d` the refusal took. -/
theorem absent_stream_duration (I d : Nat) (hd : d < pingTimeout I) :
    (observe (pingTimeout I) (reading (absentStream .store) d)).dur = pingTimeout I ∧
    (observe (pingTimeout I) (reading (absentStream .plain) d)).dur = d ∧
    (observe (pingTimeout I) (reading (absentStream .stateless) d)).dur = d := by
  simp [absentStream, observe, reading, hd, Outcome.dur]

/-- **A client that keeps no standalone stream open loses its session at tick T, in every mode** — in particular a
stateless server with KeepAlive closes the temporary session of a request that lasts T intervals. -/
theorem absent_stream_closes (I : Nat) (t0 : Int) (mode : ServerMode) (ds : List Nat) (hlen : ds.length = threshold t0) :
    (run I t0 (readWire (ds.map fun d => (absentStream mode, d)))).status = .closed ∧
    (run I t0 (readWire (ds.map fun d => (absentStream mode, d)))).tick = threshold t0 := by
  apply all_failed_close
  · simp [readWire, hlen]
  · intro sc hsc
    simp only [readWire, List.map_map, List.mem_map, Function.comp] at hsc
    obtain ⟨d, _, rfl⟩ := hsc
    exact absent_stream_is_a_failed_ping I d mode

/-- Non-vacuity: the reading of a wire script with an answer, two refusals, a silent ping and a -32601. -/
example : readWire [(.result, 10), (.refused, 0), (.refused, 7), (.silent, 0), (.unsupported, 3)] =
    [⟨.answer, some 10, true⟩, ⟨.error, some 0, true⟩, ⟨.error, some 7, true⟩, ⟨.answer, none, true⟩,
     ⟨.mnf, some 3, true⟩] := rfl

end KeepAlive
