import McpModel.Base.Proto
import McpModel.KeepAlive.Model
/-!
Driver for E9 (C13).  One record = one keep-alive scenario under virtual time.

op tokens:
  `ka  I=<interval ns> T=<configured threshold> script=<s1,s2,…|-> cancel=<instant ns>`   scripted keepaliveSession
  `kas side=<client|server> I=… T=… script=… cancel=…`                                    real session, scripted peer
  `kss side=<c|s> I=… T=… script=<observed outcomes> cancel=<first Close call> at=<s1|->,<s2> scn=…`
        stream `sessions`: a real client/server pair over faulting transports.  `script` lists, per tick,
        the result the session's Ping actually had (`a<d>` nil after d · `m<d>` method-not-found ·
        `e<d>` another error) or `x` (no ping was attempted on that tick); `cancel` is the instant (own
        time of that side) at which the session's Close was first called from outside the loop; `at`
        are the instants at which the existence of the keep-alive goroutine was sampled; `scn` (the
        scenario, for the harness's replay) is ignored here.
  script element: `a<d>` answer after d ns · `m<d>` method-not-found after d · `e<d>` other error after d ·
                  `n` never reacts — all through a Ping that returns at its deadline at the latest;
                  `A<d>` `M<d>` `E<d>`: the same results from a Ping that OVERRUNS: it returns after d
                  whatever its deadline (its write is blocked while the peer does not read).  In `kss` the
                  capital letter is the harness's finding that the ping returned the moment its blocked
                  transport write returned.  Further tokens are ignored.
observation:
  `pings=<instants|-> to=<time each ping was given until its deadline: one value if all equal, else v1/v2/… | -> close=<instants of Close|-> exit=<0|1> late=<n>`
  (`to`, `exit`, `late` are `-`/`1`/`0` for `kas`, where they cannot be observed from the peer).
  `kss` adds ` warn=<instants of the tolerated-miss log records|-> shut=<instant the transport connection was closed|->
  live=<a1|-><a2> wblk=<t|->` (goroutine present at s1 / s2); `close` = instants of the "closing session" log record;
  `wblk`: when keep-alive reported closing, a transport write of that side was blocked until t (the
  session's Close waits for it).
  `shut` and `wblk` depend on the peer and the transport, not on the loop: the model line copies them, the monitor checks `shut`.

The model line is `KeepAlive.runCancel` rendered.  The monitor is the property itself: literal
`I/2`, literal `max 1`, the closing tick found by searching for the first window of `T` consecutive
failures — independent of `KeepAlive.step` and of the regenerated expressions.
-/
namespace KeepAlive
open Proto

def kv (toks : List String) (k : String) : Option String :=
  toks.findSome? fun t => if t.startsWith (k ++ "=") then some ((t.drop (k.length + 1)).toString) else none

def parseScript (s : String) : Option Script :=
  if s == "n" then some { kind := .answer, delay := none }
  else if s == "x" then some { kind := .answer, delay := some 0 }  -- nothing observed: a running loop had to ping
  else
    let d := ((s.drop 1).toString).toNat?
    match s.front, d with
    | 'a', some d => some { kind := .answer, delay := some d }
    | 'm', some d => some { kind := .mnf, delay := some d }
    | 'e', some d => some { kind := .error, delay := some d }
    | 'A', some d => some { kind := .answer, delay := some d, honours := false }
    | 'M', some d => some { kind := .mnf, delay := some d, honours := false }
    | 'E', some d => some { kind := .error, delay := some d, honours := false }
    | _, _ => none

def parseScripts (s : String) : Option (List Script) :=
  if s == "-" then some [] else (s.splitOn ",").mapM parseScript

def natList (s : String) : Option (List Nat) :=
  if s == "-" then some [] else (s.splitOn ",").mapM String.toNat?

def showNats (l : List Nat) : String := if l.isEmpty then "-" else ",".intercalate (l.map toString)

structure Scenario where
  real : Bool
  I : Nat
  t0 : Int
  scripts : List Script
  tc : Nat
  sess : Bool := false
  at1 : Option Nat := none
  at2 : Nat := 0

def parseScenario (real : Bool) (toks : List String) : Option Scenario := do
  let I ← (← kv toks "I").toNat?
  let t0 ← (← kv toks "T").toInt?
  let scripts ← parseScripts (← kv toks "script")
  let tc ← (← kv toks "cancel").toNat?
  if I == 0 then none else
  return { real := real, I := I, t0 := t0, scripts := scripts, tc := tc }

def parseSess (toks : List String) : Option Scenario := do
  let sc ← parseScenario false toks
  match (← kv toks "at").splitOn "," with
  | [a, b] =>
    let at2 ← b.toNat?
    let at1 ← if a == "-" then some none else a.toNat?.map some
    if sc.tc == 0 then none else
    return { sc with sess := true, at1 := at1, at2 := at2 }
  | _ => none

def modelObs (sc : Scenario) (impl : String) : String :=
  let s := runCancel sc.I sc.t0 sc.scripts sc.tc
  let close := match s.closeAt with
    | some c => toString c
    | none => "-"
  let to := if sc.real ∨ s.pings.isEmpty then "-" else toString (Generated.KeepAlive.pingTimeout sc.I)
  let base := s!"pings={showNats s.pings} to={to} close={close} exit=1 late=0"
  if sc.sess then
    -- the goroutine returns when its call of session.Close returns, and that waits for blocked writes
    let held : Nat := if s.status == .closed then ((kv (words impl) "wblk").bind String.toNat?).getD 0 else 0
    let e := max (endAt sc.I sc.t0 sc.scripts sc.tc) held
    let alive (t : Nat) : String := if t < e then "1" else "0"
    let a1 := match sc.at1 with
      | some t => alive t
      | none => "-"
    let shut := (kv (words impl) "shut").getD "?"
    let wblk := match kv (words impl) "wblk" with
      | some w => s!" wblk={w}"
      | none => ""
    s!"{base} warn={showNats (warnsCancel sc.I sc.t0 sc.scripts sc.tc)} shut={shut} live={a1}{alive sc.at2}{wblk}"
  else base

/-! ### The property monitor -/

/-- What the property says one ping amounts to: answered / method-not-found / failed, the latter also
when nothing came back within half an interval — unless the ping overran (then its result is what it
returned, however late). 0 = answered, 1 = method-not-found, 2 = failed. -/
def specOutcome (I : Nat) (s : Script) : Nat :=
  match s.delay with
  | none => 2
  | some d =>
    if d < I / 2 ∨ ¬ s.honours then (match s.kind with | .answer => 0 | .mnf => 1 | .error => 2) else 2

/-- The tick at which the property requires `Close`: the least `k` such that outcomes
`k-T+1 … k` all failed, provided no method-not-found occurred up to `k`. -/
def specCloseTick (T : Nat) (os : List Nat) : Option Nat :=
  match (List.range (os.length + 1)).find? (fun k => T ≤ k && ((os.take k).drop (k - T)).all (· == 2)) with
  | some k => if (os.take k).any (· == 1) then none else some k
  | none => none

def trailingFails (os : List Nat) : Nat := (os.reverse.takeWhile (· == 2)).length

/-- How long the property lets one ping last: the scripted delay, at most half an interval — or, for
a ping whose write is blocked, until it returns. -/
def specDur (I : Nat) (s : Script) : Nat :=
  match s.delay with
  | none => I / 2
  | some d => if d < I / 2 ∨ ¬ s.honours then d else I / 2

/-- One ping as the property sees it. -/
structure SpecPing where
  start : Nat
  stop : Nat
  outcome : Nat
  overran : Bool

/-- When the next ping is due after a ping issued at `last` and over at `free`: on the next tick of
the grid `I, 2I, …`; a tick that fires while a ping is in flight stays pending (one, not more) and is
served the moment that ping is over. -/
def specNext (I last free : Nat) : Nat :=
  let g := (last / I + 1) * I
  if free > g then free else g

/-- The pings the property expects before instant `tc` from a loop that goes on pinging. -/
def specSched (I tc : Nat) : Nat → Nat → List Script → List SpecPing
  | _, _, [] => []
  | last, free, s :: t =>
    let p := specNext I last free
    if p < tc then
      { start := p, stop := p + specDur I s, outcome := specOutcome I s, overran := ! s.honours && specDur I s > I / 2 }
        :: specSched I tc p (p + specDur I s) t
    else []

/-- The shape of keepalive-F30: the ping in flight at the cancellation `tc` ran past a tick, and when it
was over the loop served that pending tick — a ping at the very end of that ping — although it had
been cancelled. -/
def f30Shape (I tc : Nat) (sched : List SpecPing) (pings : List Nat) : Option String :=
  match sched.getLast? with
  | some l =>
    if l.stop > tc ∧ l.stop ≥ (l.start / I + 1) * I ∧ pings.contains l.stop then
      some s!"silent_stop: keepalive-F30: keep-alive sent a ping at {l.stop} although it was cancelled (the session's Close was called) at {tc}: the ping issued at {l.start} was in flight then and ended at {l.stop} with a tick pending, and the loop served the tick instead of the cancellation; keep-alive ends when the session is closed"
    else none
  | none => none

/-- The additional clauses of the stream `sessions` (the property's last sentence): after the
session's Close was called no ping is sent; nothing is logged and no goroutine is left once
keep-alive had to end — `due`: at the closing ping's end, at the end of the ping that reported
method-not-found, or at the Close call / the end of the ping in flight then; while it has not ended
the goroutine exists; a session that keep-alive reports as closed has its connection closed. -/
def monitorSess (sc : Scenario) (o : List String) (pings closes : List Nat) (kstar : Option Nat)
    (os : List Nat) (m : Nat) (sched : List SpecPing) : Option String :=
  match (kv o "warn").bind natList, kv o "shut", kv o "live" with
  | some warn, some shut, some live =>
    let tc := sc.tc
    let endOf (k : Nat) : Nat := if k = 0 then 0 else ((sched[k - 1]?).map (·.stop)).getD 0
    let byCancel : Bool := kstar.isNone ∧ ¬ os.any (· == 1)
    -- when keep-alive closes the session its goroutine returns when session.Close does, and that waits
    -- for transport writes that are blocked (`wblk`)
    let held : Nat := if kstar.isSome then ((kv o "wblk").bind String.toNat?).getD 0 else 0
    let due : Nat := if byCancel then max tc (endOf m) else max (endOf m) held
    let why : String :=
      if byCancel then s!"the session's Close was called at {tc}"
      else if kstar.isSome then s!"keep-alive closed the session at tick {m}"
      else s!"the peer reported ping as unsupported at tick {m}"
    let afterClose : Option String :=
      match pings.find? (· ≥ tc) with
      | some p => f30Shape sc.I tc sched pings <|> some s!"silent_stop: keep-alive sent a ping at {p} although the session's Close was called at {tc}; keep-alive ends when the session is closed"
      | none => none
    let logged : Option String :=
      match (warn ++ closes).find? (· > due) with
      | some w => some s!"silent_stop: keep-alive logged a failed ping at {w}, after it had to end at {due} ({why}); keep-alive ends silently"
      | none => none
    let shutc : Option String :=
      match closes with
      | c :: _ =>
        let wblk : Nat := ((kv o "wblk").bind String.toNat?).getD 0
        match shut.toNat? with
        | some sh =>
          if sh ≤ c ∨ sh ≤ wblk then none
          else some s!"closes_iff_T_consecutive: keep-alive reported closing the session at {c} but its connection was only closed at {sh}, although no transport write was blocked until then"
        | none => some s!"closes_iff_T_consecutive: keep-alive reported closing the session at {c} but its connection was never closed"
      | [] => none
    let flag (a : String) (t : Nat) : Option String :=
      if a == "1" ∧ t ≥ due then
        some s!"silent_stop: the keep-alive goroutine (and its ticker) still exists at {t} although keep-alive had to end at {due} ({why}); no timer or goroutine may be left behind"
      else if a == "0" ∧ t < due then
        some s!"pings_at_ticks: the keep-alive goroutine is gone at {t} although the session is open and keep-alive only ends at {due}"
      else if a == "0" ∨ a == "1" then none
      else some s!"bad-observation: live={live}"
    let chars := live.toList.map (fun c => String.singleton c)
    let livec : Option String :=
      match chars, sc.at1 with
      | [a1, a2], some t1 => flag a1 t1 <|> flag a2 sc.at2
      | [_, a2], none => flag a2 sc.at2
      | _, _ => some s!"bad-observation: live={live}"
    afterClose <|> logged <|> shutc <|> livec
  | _, _, _ => some "bad-observation: warn/shut/live missing"

/-- The time each ping was given until its deadline must be a fresh half interval. -/
def monitorDeadline (I : Nat) (pings : List Nat) (to : String) : Option String :=
  if to == "-" ∨ to == toString (I / 2) then none
  else
    let vs := to.splitOn "/"
    match (vs.zipIdx).find? (fun (v, _) => v != toString (I / 2)) with
    | none => none
    | some (v, j) =>
      if vs.length ≤ 1 then
        some s!"close_time_bound: the ping deadline is {to}, not half the interval ({I / 2})"
      else
        let short : Bool := match v.toInt? with
          | some x => x < (I / 2 : Nat)
          | none => false
        let at_ := ((pings[j]?).map toString).getD "?"
        if short then
          some s!"answer_resets: ping {j + 1} (issued at {at_}) was given {v} until its deadline, not a fresh ping timeout of half the interval ({I / 2}); a ping the peer answers within the ping timeout must not count as a miss"
        else
          some s!"close_time_bound: ping {j + 1} (issued at {at_}) was given {v} until its deadline, not half the interval ({I / 2})"

def monitor (sc : Scenario) (impl : String) : Option String :=
  let o := words impl
  match (kv o "pings").bind natList, kv o "to", (kv o "close").bind natList, kv o "exit", kv o "late" with
  | some pings, some to, some closes, some exit, some late =>
    let I := sc.I
    let T : Nat := if sc.t0 < 1 then 1 else sc.t0.toNat
    let sched := specSched I sc.tc 0 0 sc.scripts
    let os := sched.map (·.outcome)
    let kstar := specCloseTick T os
    let startOf (k : Nat) : Nat := if k = 0 then 0 else ((sched[k - 1]?).map (·.start)).getD 0
    let stopOf (k : Nat) : Nat := if k = 0 then 0 else ((sched[k - 1]?).map (·.stop)).getD 0
    let closing : Option String :=
      match kstar, closes with
      | none, [] => none
      | some k, [] => some s!"closes_iff_T_consecutive: pings {k + 1 - T}..{k} all failed (threshold {T}) but the session was not closed"
      | none, c :: _ =>
        let seen := os.take pings.length
        let m := trailingFails seen
        if seen.getLast? == some 0 then
          some s!"answer_resets: closed at {c} right after ping {seen.length} (issued at {startOf seen.length}), which the peer answers within its ping timeout (threshold {T}); a peer that answers is never closed by keep-alive"
        else if 0 < m ∧ m < T ∧ (seen.drop (seen.length - T)).any (· == 0) then
          some s!"answer_resets: closed at {c} after only {m} consecutive failed pings (threshold {T}); an answered ping resets the count"
        else some s!"closes_iff_T_consecutive: closed at {c} although no {T} consecutive pings failed before the loop had to stop"
      | some k, [c] =>
        let pk := startOf k
        let overran := ((sched[k - 1]?).map (·.overran)).getD false
        let bound := if overran then stopOf k else pk + I / 2
        if pings.length < k ∨ (pings.length > k ∧ (c < pk ∨ c ≥ specNext I pk (stopOf k))) then
          some s!"closes_iff_T_consecutive: closed at {c} after {pings.length} pings; consecutive failure number {T} is ping {k} at {pk}"
        else if c < pk then some s!"close_time_bound: closed at {c}, before ping {k} was issued at {pk}"
        else if c > bound then
          if overran then
            some s!"close_time_bound: closed at {c}, later than the end ({bound}) of ping {k}, whose write was blocked until then"
          else
            some s!"close_time_bound: closed at {c}, later than one ping timeout (I/2) after ping {k} was issued at {pk}"
        else none
      | some _, _ => some s!"closes_iff_T_consecutive: Close called {closes.length} times"
    let m : Nat := match kstar with
      | some k => k
      | none => match os.findIdx? (· == 1) with
        | some j => j + 1
        | none => os.length
    let want := (sched.take m).map (·.start)
    let onGrid : Bool := want == (List.range m).map (fun j => (j + 1) * I)
    let ticks : Option String :=
      if pings == want then none
      else if pings.length > m ∧ pings.take m == want then
        some s!"silent_stop: the loop went on pinging after it had to end with ping {m} (pings at {showNats pings})"
      else if onGrid then
        some s!"pings_at_ticks: pings at {showNats pings}, expected one at each of the first {m} ticks of {I}"
      else
        some s!"pings_at_ticks: pings at {showNats pings}, expected {showNats want}: one per tick of {I}, a tick that fires during a ping being served when that ping is over"
    let f30 : Option String :=
      if kstar.isNone ∧ ¬ os.any (· == 1) ∧ ¬ sc.real then f30Shape I sc.tc sched pings else none
    let deadline : Option String := if sc.real ∨ pings.isEmpty then none else monitorDeadline I pings to
    let quiet : Option String :=
      if exit == "1" ∧ late == "0" then none
      else some "silent_stop: the keep-alive goroutine or its ticker is still active after the loop ended"
    let long : Option String :=
      if ¬ sc.sess then none else
      match (sc.scripts.zipIdx).find? (fun (s, _) => s.honours && (match s.delay with | some d => d > I / 2 | none => false)) with
      | some (s, j) => some s!"ping_done_before_next_tick: ping {j + 1} lasted {s.delay.getD 0}, longer than its deadline of half an interval ({I / 2}), although its transport write was not blocked then"
      | none => none
    if sc.sess then
      f30 <|> deadline <|> long <|> (monitorSess sc o pings closes kstar os m sched).filter (fun c => c.startsWith "silent_stop: keep-alive sent" ∨ c.startsWith "silent_stop: keepalive-F30")
        <|> closing <|> ticks <|> monitorSess sc o pings closes kstar os m sched <|> quiet
    else f30 <|> closing <|> deadline <|> ticks <|> quiet
  | _, _, _, _, _ => some s!"bad-observation: {impl}"

def engine : Engine Unit where
  init := ()
  step _ toks impl :=
    match toks with
    | ["reset"] => ((), { model := "ok" })
    | kind :: rest =>
      if kind == "ka" ∨ kind == "kas" then
        match parseScenario (kind == "kas") rest with
        | none => ((), { model := "bad-op" })
        | some sc => ((), { model := modelObs sc impl, violated := monitor sc impl })
      else if kind == "kss" then
        match parseSess rest with
        | none => ((), { model := "bad-op" })
        | some sc => ((), { model := modelObs sc impl, violated := monitor sc impl })
      else ((), { model := "bad-op" })
    | _ => ((), { model := "bad-op" })

end KeepAlive

def main : IO Unit := Proto.run KeepAlive.engine
